//! direct protocol over the public `pearl::Bloom` type (C10): the model computes the same bit positions
//! with its port of the vendored aHash fallback hasher, so answers and serialized images are compared bit for bit
use crate::util::*;
use pearl::{Bloom, BloomConfig, BloomDataProvider, FilterResult};

pub struct Raw(pub Vec<u8>);

#[async_trait::async_trait]
impl BloomDataProvider for Raw {
    async fn read_byte(&self, index: u64) -> anyhow::Result<u8> {
        self.0.get(index as usize).copied().ok_or_else(|| anyhow::anyhow!("out of range"))
    }
}

#[derive(Default)]
pub struct BloomProto {
    a: Option<Bloom>,
    b: Option<Bloom>,
    last_raw: Vec<u8>,
}

fn show(r: Option<FilterResult>) -> String {
    match r {
        None => "offloaded".into(),
        Some(FilterResult::NeedAdditionalCheck) => "maybe".into(),
        Some(FilterResult::NotContains) => "no".into(),
    }
}

impl BloomProto {
    pub fn step(&mut self, toks: &[&str]) -> String {
        let second = toks[0] == "bloom2";
        let crc = crc::Crc::<u32>::new(&crc::CRC_32_ISCSI);
        match toks.get(1).copied() {
            Some("new") if toks.len() == 5 => {
                let p: Vec<usize> = toks[2..5].iter().filter_map(|x| x.parse().ok()).collect();
                if p.len() != 3 {
                    return "bad-op".into();
                }
                let bl = Bloom::new(BloomConfig {
                    elements: p[0],
                    hashers_count: p[1],
                    max_buf_bits_count: p[2],
                    buf_increase_step: 8,
                    preferred_false_positive_rate: 0.001,
                });
                let raw = bl.to_raw().unwrap_or_default();
                let n = raw.len();
                let mut b8 = [0u8; 8];
                if n >= 8 {
                    b8.copy_from_slice(&raw[n - 8..]);
                }
                let bits = u64::from_le_bytes(b8);
                if second {
                    self.b = Some(bl);
                } else {
                    self.a = Some(bl);
                }
                format!("ok bits={}", bits)
            }
            Some("empty") => {
                if second {
                    self.b = Some(Bloom::empty());
                } else {
                    self.a = Some(Bloom::empty());
                }
                "ok bits=0".into()
            }
            Some(cmd) => {
                let (cur, other) = if second { (&mut self.b, &self.a) } else { (&mut self.a, &self.b) };
                let bl = match cur.as_mut() {
                    Some(b) => b,
                    None => return "err NoBloom".into(),
                };
                match cmd {
                    "add" => match hex_bytes(toks.get(2).copied().unwrap_or("")) {
                        Some(k) => match bl.add(&k) {
                            Ok(()) => "ok".into(),
                            Err(_) => "err offloaded".into(),
                        },
                        None => "bad-op".into(),
                    },
                    "has" => match hex_bytes(toks.get(2).copied().unwrap_or("")) {
                        Some(k) => show(bl.contains_in_memory(&k)),
                        None => "bad-op".into(),
                    },
                    "raw" => match bl.to_raw() {
                        Ok(r) => {
                            let s = format!("raw {}:{}", r.len(), crc.checksum(&r));
                            self.last_raw = r;
                            s
                        }
                        Err(_) => "err offloaded".into(),
                    },
                    "merge" => match other {
                        Some(o) => format!("{}", bl.checked_add_assign(o)),
                        None => "err NoBloom".into(),
                    },
                    "offload" => format!("n={}", bl.offload_from_memory()),
                    "clear" => {
                        bl.clear();
                        "ok".into()
                    }
                    "probe" => match hex_bytes(toks.get(2).copied().unwrap_or("")) {
                        Some(k) => {
                            let prov = Raw(self.last_raw.clone());
                            let rt = tokio::runtime::Builder::new_current_thread().build().unwrap();
                            match rt.block_on(bl.contains_in_file(&prov, &k)) {
                                Ok(r) => show(Some(r)),
                                Err(_) => "err probe".into(),
                            }
                        }
                        None => "bad-op".into(),
                    },
                    "reload" => match Bloom::from_raw(&self.last_raw) {
                        Ok(nb) => {
                            *cur = Some(nb);
                            "ok".into()
                        }
                        Err(_) => "err fromraw".into(),
                    },
                    _ => "bad-op".into(),
                }
            }
            None => "bad-op".into(),
        }
    }
}
