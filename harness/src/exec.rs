use crate::util::*;
use bytes::Bytes;
use pearl::{ArrayKey, BlobRecordTimestamp, BloomConfig, Builder, Meta, ReadResult, Storage};
use std::collections::HashMap;
use std::panic::AssertUnwindSafe;
use std::path::{Path, PathBuf};
use std::time::Duration;

#[derive(Clone, Debug)]
pub struct Cfg {
    pub key: usize,
    pub dup: bool,
    pub bloom: Option<(usize, usize, usize)>,
    pub group: usize,
    pub maxdata: u64,
    pub maxsize: u64,
    pub dirty: u64,
    pub validate: bool,
    pub ignore: bool,
    pub ct: bool,
    pub lazy: bool,
    pub defer_ms: (u64, u64),
    pub from: Option<String>,
    pub rmidx: Vec<usize>,
    pub patch: Option<String>,
}

impl Cfg {
    pub fn parse(toks: &[&str]) -> Cfg {
        let m = kvs(toks);
        let g = |k: &str, d: u64| m.get(k).and_then(|v| v.parse::<u64>().ok()).unwrap_or(d);
        let bloom = match m.get("bloom").map(|s| s.as_str()) {
            None | Some("off") | Some("0") => None,
            Some(s) => {
                let p: Vec<usize> = s.split(',').filter_map(|x| x.parse().ok()).collect();
                if p.len() == 3 {
                    Some((p[0], p[1], p[2]))
                } else {
                    None
                }
            }
        };
        let defer = match m.get("defer") {
            Some(s) => {
                let p: Vec<u64> = s.split(',').filter_map(|x| x.parse().ok()).collect();
                (p[0], p[1])
            }
            None => (3_600_000, 7_200_000),
        };
        Cfg {
            key: g("key", 4) as usize,
            dup: g("dup", 0) != 0,
            bloom,
            group: g("group", 8) as usize,
            maxdata: g("maxdata", 1_000_000),
            maxsize: g("maxsize", 1_000_000_000_000),
            dirty: g("dirty", 32 * 1024 * 1024),
            validate: g("validate", 0) != 0,
            ignore: g("ignore", 0) != 0,
            ct: m.get("rt").map(|s| s == "ct").unwrap_or(false),
            lazy: g("lazy", 0) != 0,
            defer_ms: defer,
            from: m.get("from").cloned(),
            rmidx: m.get("rmidx").map(|s| s.split(',').filter_map(|x| x.parse().ok()).collect()).unwrap_or_default(),
            patch: m.get("patch").cloned(),
        }
    }
}

/// one client operation of a concurrent run: kind 0 write, 1 delete, 2 contains, 3 read
#[derive(Clone, Debug)]
pub struct ConcEv {
    kind: u8,
    key: usize,
    ts: u64,
    inv: u64,
    resp: u64,
    res_kind: u8,
    res_ts: u64,
    ok: bool,
}

/// polls the inner future at most `left` times, then gives up and drops it (cancellation at a suspension point)
struct PollN<F: std::future::Future> {
    fut: Option<std::pin::Pin<Box<F>>>,
    left: usize,
    polls: usize,
}

impl<F: std::future::Future> std::future::Future for PollN<F> {
    type Output = (Option<F::Output>, usize);
    fn poll(mut self: std::pin::Pin<&mut Self>, cx: &mut std::task::Context<'_>) -> std::task::Poll<Self::Output> {
        let this = &mut *self;
        if this.left == 0 {
            this.fut = None;
            return std::task::Poll::Ready((None, this.polls));
        }
        this.left -= 1;
        this.polls += 1;
        let r = this.fut.as_mut().expect("polled after completion").as_mut().poll(cx);
        match r {
            std::task::Poll::Ready(v) => {
                this.fut = None;
                std::task::Poll::Ready((Some(v), this.polls))
            }
            std::task::Poll::Pending => {
                if this.left == 0 {
                    this.fut = None; // drop the operation future here
                    std::task::Poll::Ready((None, this.polls))
                } else {
                    std::task::Poll::Pending
                }
            }
        }
    }
}

pub trait Scen {
    fn step(&mut self, line: &str) -> String;
    fn finish(&mut self, keep: bool);
}

pub struct ScenN<const N: usize> {
    rt: tokio::runtime::Runtime,
    st: Option<Storage<ArrayKey<N>>>,
    cfg: Cfg,
    dir: PathBuf,
    data: HashMap<Vec<u8>, (usize, u64)>,
    dead: Option<String>,
    keys: std::collections::BTreeSet<String>,
    snap: HashMap<String, Vec<u8>>,
    snap_ids: std::collections::BTreeSet<usize>,
    conc_prev: Vec<ConcEv>,
    conc_pool: Vec<Vec<u8>>,
    conc_clock: u64,
    conc_ts: u64,
    /// blob file name prefix of scratch storages (`metasweep <seed> <prefix>`); the live storage always uses `t`
    prefix: Option<String>,
}

fn parse_meta(s: &str) -> Option<Option<Meta>> {
    if s == "-" {
        Some(None)
    } else if s == "e" {
        Some(Some(Meta::new()))
    } else if let Some(h) = s.strip_prefix("m:") {
        let b = hex_bytes(h)?;
        let mut m = Meta::new();
        m.insert("m".to_string(), b);
        Some(Some(m))
    } else {
        None
    }
}

fn show_meta(m: &Meta) -> String {
    if *m == Meta::new() {
        return "e".to_string();
    }
    if let Some(v) = m.get("m") {
        let mut m2 = Meta::new();
        m2.insert("m".to_string(), v.clone());
        if *m == m2 {
            return format!("m:{}", bytes_hex(v));
        }
    }
    "?".to_string()
}

impl<const N: usize> ScenN<N> {
    pub fn new(cfg: Cfg, dir: PathBuf) -> Self {
        let rt = if cfg.ct {
            tokio::runtime::Builder::new_current_thread().enable_all().build().unwrap()
        } else {
            tokio::runtime::Builder::new_multi_thread()
                .worker_threads(4)
                .enable_all()
                .build()
                .unwrap()
        };
        ScenN { rt, st: None, cfg, dir, data: HashMap::new(), dead: None, keys: Default::default(), snap: HashMap::new(), snap_ids: Default::default(), conc_prev: Vec::new(), conc_pool: Vec::new(), conc_clock: 1, conc_ts: 1000, prefix: None }
    }

    fn builder(&self) -> Builder {
        let c = &self.cfg;
        let mut b = Builder::new()
            .work_dir(&self.dir)
            .blob_file_name_prefix(self.prefix.as_deref().unwrap_or("t"))
            .max_blob_size(c.maxsize)
            .max_data_in_blob(c.maxdata)
            .set_bloom_filter_group_size(c.group)
            .set_validate_data_during_index_regen(c.validate)
            .set_max_dirty_bytes_before_sync(c.dirty)
            .set_deferred_index_dump_times(
                Duration::from_millis(c.defer_ms.0),
                Duration::from_millis(c.defer_ms.1),
            );
        if c.dup {
            b = b.allow_duplicates();
        }
        if c.ignore {
            b = b.ignore_corrupted();
        }
        if let Some((elements, hashers, maxbits)) = c.bloom {
            b = b.set_filter_config(BloomConfig {
                elements,
                hashers_count: hashers,
                max_buf_bits_count: maxbits,
                buf_increase_step: 8,
                preferred_false_positive_rate: 0.001,
            });
        }
        b
    }

    pub fn open(&mut self, lazy: bool) -> String {
        pearl::verif::set_recording(true, true);
        let b = self.builder();
        let mut st: Storage<ArrayKey<N>> = match b.build() {
            Ok(s) => s,
            Err(e) => return format!("err {}", err_kind(&e)),
        };
        let r = self.rt.block_on(async {
            let r = if lazy { st.init_lazy().await } else { st.init().await };
            r
        });
        match r {
            Ok(()) => {
                self.st = Some(st);
                "ok".to_string()
            }
            Err(e) => format!("err {}", err_kind(&e)),
        }
    }

    /// answers of every query for every key seen so far (and one absent key)
    fn collect_answers(&mut self) -> Vec<(String, String)> {
        let mut keys: Vec<String> = self.keys.iter().cloned().collect();
        keys.push("ee".repeat(N));
        let mut out = Vec::new();
        for k in keys {
            for q in ["r", "c", "ram", "ra"] {
                let cmd = format!("{} {}", q, k);
                let o = self.exec(&cmd);
                out.push((cmd, o));
            }
            for m in ["e", "m:01", "m:02ff"] {
                let cmd = format!("rw {} {}", k, m);
                let o = self.exec(&cmd);
                out.push((cmd, o));
            }
        }
        let o = self.exec("counts");
        // next_blob_id and blob layout may legitimately differ after a reopen; compare the record total only
        let rc = o.split_whitespace().find(|t| t.starts_with("rc=")).unwrap_or("rc=?").to_string();
        out.push(("counts".into(), rc));
        out
    }

    fn max_id_in_dir(dir: &Path) -> Option<usize> {
        let mut best = None;
        let mut scan = |d: &Path| {
            if let Ok(rd) = std::fs::read_dir(d) {
                for e in rd.flatten() {
                    let name = e.file_name().to_string_lossy().to_string();
                    let parts: Vec<&str> = name.split('.').collect();
                    if parts.len() == 3 && parts[2] == "blob" {
                        if let Ok(id) = parts[1].parse::<usize>() {
                            best = best.max(Some(id));
                        }
                    }
                }
            }
        };
        scan(dir);
        scan(&dir.join("corrupted"));
        best
    }

    fn copy_dir(from: &Path, to: &Path) {
        let _ = std::fs::remove_dir_all(to);
        std::fs::create_dir_all(to).unwrap();
        for e in std::fs::read_dir(from).unwrap().flatten() {
            let p = e.path();
            if p.is_dir() {
                Self::copy_dir(&p, &to.join(e.file_name()));
            } else {
                std::fs::copy(&p, to.join(e.file_name())).unwrap();
            }
        }
    }

    /// apply one damage pattern to an index file; returns false if the pattern does not apply
    fn damage_index(path: &Path, kind: &str) -> bool {
        let data = match std::fs::read(path) {
            Ok(d) => d,
            Err(_) => return false,
        };
        let parts: Vec<&str> = kind.split(':').collect();
        let arg = parts.get(1).and_then(|x| x.parse::<i64>().ok()).unwrap_or(0);
        let mut d = data.clone();
        match parts[0] {
            "rm" => {
                let _ = std::fs::remove_file(path);
                return true;
            }
            "trunc" => {
                if (arg as usize) >= d.len() {
                    return false;
                }
                d.truncate(arg as usize);
            }
            "cut" => {
                if (arg as usize) > d.len() {
                    return false;
                }
                let n = d.len() - arg as usize;
                d.truncate(n);
            }
            "hash" => {
                // one byte of the stored SHA-256 of the index altered: the header stays valid, look-ups are not affected,
                // but loading the index into memory fails its hash check (the fallback must regenerate it)
                if d.len() < 83 {
                    return false;
                }
                d[45] ^= 0x5a;
            }
            "hdronly" => d.truncate(83.min(d.len())),
            "unwritten" => {
                if d.len() < 83 {
                    return false;
                }
                d[72] &= !1u8;
            }
            "stale" | "bigger" => {
                if d.len() < 83 {
                    return false;
                }
                let mut b = [0u8; 8];
                b.copy_from_slice(&d[75..83]);
                let v = u64::from_le_bytes(b);
                let nv = if parts[0] == "stale" { v.saturating_sub(arg as u64) } else { v + arg as u64 };
                d[75..83].copy_from_slice(&nv.to_le_bytes());
            }
            _ => return false,
        }
        std::fs::write(path, d).unwrap();
        true
    }

    /// `<id>:<kind>[:arg]` applied to a blob file in place; its index file is removed so that the blob is scanned.
    /// kinds: magic (blob header magic), hflip:<n> (flip a byte in the header of record n), dflip:<n> (flip a data
    /// byte of record n), cut:<k> (remove k bytes from the end), keepidx is not supported here
    fn damage_blob(&mut self, spec: &str) {
        let parts: Vec<&str> = spec.split(':').collect();
        if parts.len() < 2 {
            return;
        }
        let path = self.dir.join(format!("t.{}.blob", parts[0]));
        let mut bytes = match std::fs::read(&path) {
            Ok(b) => b,
            Err(_) => return,
        };
        let arg: usize = parts.get(2).and_then(|x| x.parse().ok()).unwrap_or(0);
        let recs = Self::parse_blob_full(&bytes);
        match parts[1] {
            "magic" => {
                if bytes.is_empty() {
                    return;
                }
                bytes[0] ^= 0xff;
            }
            "hflip" => {
                if let Some((start, hsz, _, _)) = recs.get(arg % recs.len().max(1)) {
                    let p = start + hsz - 10; // inside the timestamp/checksum area of the record header
                    if p < bytes.len() {
                        bytes[p] ^= 0x5a;
                    }
                }
            }
            "dflip" => {
                let with_data: Vec<_> = recs.iter().filter(|r| r.3 > 0).collect();
                if !with_data.is_empty() {
                    let (start, hsz, ms, ds) = *with_data[arg % with_data.len()];
                    let p = start + hsz + ms + ds / 2;
                    if p < bytes.len() {
                        bytes[p] ^= 0x5a;
                    }
                }
            }
            "cut" => {
                let n = bytes.len().saturating_sub(arg).max(0);
                bytes.truncate(n);
            }
            _ => return,
        }
        std::fs::write(&path, &bytes).unwrap();
        let _ = std::fs::remove_file(path.with_extension("index"));
        // the damage is done by the environment, not by pearl: the reference snapshot follows it
        let name = path.file_name().unwrap().to_string_lossy().to_string();
        if self.snap.contains_key(&name) {
            self.snap.insert(name, bytes);
        }
    }

    /// byte snapshot of every blob file (work dir and corrupted dir) compared with the previous snapshot:
    /// earlier content must be a prefix of the current content, or the file was moved into the corrupted dir;
    /// a new blob name must carry an id above every id seen before
    fn snapshot(&mut self) -> String {
        let mut cur: HashMap<String, Vec<u8>> = HashMap::new();
        let mut where_: HashMap<String, &'static str> = HashMap::new();
        for (d, tag) in [(self.dir.clone(), "work"), (self.dir.join("corrupted"), "corrupted")] {
            if let Ok(rd) = std::fs::read_dir(&d) {
                for e in rd.flatten() {
                    let p = e.path();
                    if p.extension().map_or(false, |x| x == "blob") {
                        let name = e.file_name().to_string_lossy().to_string();
                        if let Some(prev_tag) = where_.get(&name) {
                            return format!("snap bad {} present in {} and {}", name, prev_tag, tag);
                        }
                        cur.insert(name.clone(), std::fs::read(&p).unwrap_or_default());
                        where_.insert(name, tag);
                    }
                }
            }
        }
        let mut bad = None;
        for (name, old) in &self.snap {
            match cur.get(name) {
                None => {
                    bad = Some(format!("{} disappeared", name));
                    break;
                }
                Some(new) => {
                    if new.len() < old.len() {
                        bad = Some(format!("{} shrank from {} to {} bytes", name, old.len(), new.len()));
                        break;
                    }
                    if new[..old.len()] != old[..] {
                        let pos = old.iter().zip(new.iter()).position(|(a, b)| a != b).unwrap_or(0);
                        bad = Some(format!("{} modified at byte {}", name, pos));
                        break;
                    }
                }
            }
        }
        let id_of = |n: &str| n.split('.').nth(1).and_then(|x| x.parse::<usize>().ok());
        if bad.is_none() {
            let max_seen = self.snap_ids.iter().max().copied();
            for name in cur.keys() {
                if !self.snap.contains_key(name) {
                    if let (Some(id), Some(m)) = (id_of(name), max_seen) {
                        if id <= m {
                            bad = Some(format!("new blob {} reuses an id (ids up to {} were used before)", name, m));
                            break;
                        }
                    }
                }
            }
        }
        for name in cur.keys() {
            if let Some(id) = id_of(name) {
                self.snap_ids.insert(id);
            }
        }
        self.snap = cur;
        match bad {
            None => "snap ok".into(),
            Some(b) => format!("snap bad {}", b),
        }
    }

    /// record layout of a blob file, parsed independently of pearl:
    /// (record start, header size, meta size, data size) for every record
    fn parse_blob(bytes: &[u8]) -> Vec<(usize, usize, usize, usize)> {
        let mut out = Vec::new();
        let mut off = 20usize;
        let rd = |o: usize| -> Option<u64> {
            bytes.get(o..o + 8).map(|b| u64::from_le_bytes(b.try_into().unwrap()))
        };
        while off < bytes.len() {
            let klen = match rd(off + 8) {
                Some(k) if k <= 65535 => k as usize,
                _ => break, // not a record header (hole, garbage): stop, like the scan of the storage would fail here
            };
            let hsz = 57 + klen;
            let (ms, ds) = match (rd(off + 16 + klen), rd(off + 24 + klen)) {
                (Some(m), Some(d)) if m < (1 << 40) && d < (1 << 40) => (m as usize, d as usize),
                _ => break,
            };
            out.push((off, hsz, ms, ds));
            off += hsz + ms + ds;
        }
        out
    }

    /// bytes written by concurrent clients: they identify key and timestamp, so a read can be attributed
    fn conc_data(key: &[u8], ts: u64, len: usize) -> Vec<u8> {
        let mut v = ts.to_le_bytes().to_vec();
        v.extend_from_slice(key);
        let fill = gen_data(len, ts % 251);
        v.extend_from_slice(&fill);
        v
    }

    /// `conc <clients> <ops per client> <seed> [maint]`: N client tasks write / read / probe / delete a small key
    /// pool concurrently (unique increasing timestamps), optionally with a maintenance task closing / creating /
    /// restoring the active blob, syncing and dumping.  Afterwards: every completed probe is checked against the
    /// invocation/response order (never older than every write acknowledged before it started, never a value that was
    /// not written), reads returned bytes written to that key, no acknowledged write is missing from the blob files,
    /// every blob file parses completely (records neither overlap nor interleave), and the final answers equal the
    /// sequential outcome of the acknowledged operations.
    fn conc(&mut self, toks: &[&str]) -> String {
        use std::sync::atomic::{AtomicU64, Ordering as AO};
        use std::sync::{Arc, Mutex};
        let clients: usize = toks.get(1).and_then(|x| x.parse().ok()).unwrap_or(8);
        let nops: usize = toks.get(2).and_then(|x| x.parse().ok()).unwrap_or(20);
        let seed: u64 = toks.get(3).and_then(|x| x.parse().ok()).unwrap_or(1);
        let maint = toks.iter().any(|t| *t == "maint");
        let writes_only = toks.iter().any(|t| *t == "writes");
        let st = match self.st.take() {
            Some(s) => Arc::new(s),
            None => return "err NoStorage".into(),
        };
        // key pool: four keys that no script-level `w` / `d` of this scenario has touched (the history of the
        // concurrent runs must account for every record of these keys); fixed at the first run of the scenario
        if self.conc_pool.is_empty() {
            for i in 0..=255u8 {
                let mut k = vec![0xc0u8; N];
                k[N - 1] = i;
                let hex: String = k.iter().map(|b| format!("{:02x}", b)).collect();
                if !self.keys.contains(&hex) {
                    self.conc_pool.push(k);
                }
                if self.conc_pool.len() == 4 {
                    break;
                }
            }
        }
        let pool = Arc::new(self.conc_pool.clone());
        // clocks and timestamps continue across the concurrent runs of one scenario
        let clock = Arc::new(AtomicU64::new(self.conc_clock.max(1)));
        let tsgen = Arc::new(AtomicU64::new(self.conc_ts.max(1_000)));
        // history: (kind, key index, ts, invocation, response, result)   kind: 0 write 1 delete 2 contains 3 read
        type Ev = ConcEv;
        let hist: Arc<Mutex<Vec<Ev>>> = Arc::new(Mutex::new(std::mem::take(&mut self.conc_prev)));
        // every client starts its first operation at the same moment
        let barrier = Arc::new(tokio::sync::Barrier::new(clients.max(1)));
        // ... on the multi-thread runtime (up to 64 clients) each on a thread of its own, released together, so that the
        // unlocked pre-checks of their first operations really run in parallel
        let hard = if !self.cfg.ct && clients <= 64 { Some(Arc::new(std::sync::Barrier::new(clients.max(1)))) } else { None };
        let spin = Arc::new(AtomicU64::new(0));
        let run = async {
            let mut handles = Vec::new();
            for c in 0..clients {
                let st = st.clone();
                let barrier = barrier.clone();
                let hard = hard.clone();
                let spin = spin.clone();
                let pool = pool.clone();
                let clock = clock.clone();
                let tsgen = tsgen.clone();
                let hist = hist.clone();
                handles.push(tokio::spawn(async move {
                    let mut x: u64 = (seed.wrapping_mul(0x9E37_79B9_7F4A_7C15) ^ (c as u64 + 1).wrapping_mul(0xD1B5_4A32_D192_ED03)) | 1;
                    let mut rnd = move || { x ^= x << 13; x ^= x >> 7; x ^= x << 17; x };
                    barrier.wait().await;
                    if let Some(h) = hard {
                        tokio::task::block_in_place(|| {
                            h.wait();
                            if clients <= 12 {
                                // a spinning rendezvous on top: wake-up latencies of the barrier are longer than the
                                // window between an unlocked check and the lock that follows it
                                spin.fetch_add(1, AO::SeqCst);
                                let t0 = std::time::Instant::now();
                                while spin.load(AO::SeqCst) < clients as u64 && t0.elapsed() < Duration::from_secs(2) {
                                    std::hint::spin_loop();
                                }
                            }
                        });
                    }
                    for _ in 0..nops {
                        let ki = (rnd() % pool.len() as u64) as usize;
                        let key = ArrayKey::<N>::from(pool[ki].clone());
                        let r = if writes_only { 0 } else { rnd() % 100 };
                        let inv = clock.fetch_add(1, AO::SeqCst);
                        let mut ev = Ev { kind: 0, key: ki, ts: 0, inv, resp: 0, res_kind: 0, res_ts: 0, ok: true };
                        if r < 55 {
                            let ts = tsgen.fetch_add(1, AO::SeqCst);
                            let len = [0usize, 10, 100, 5000][(rnd() % 4) as usize];
                            let data = Self::conc_data(&pool[ki], ts, len);
                            ev.kind = 0;
                            ev.ts = ts;
                            ev.ok = st.write(&key, Bytes::from(data), BlobRecordTimestamp::new(ts)).await.is_ok();
                        } else if r < 65 {
                            let ts = tsgen.fetch_add(1, AO::SeqCst);
                            ev.kind = 1;
                            ev.ts = ts;
                            ev.ok = st.delete(&key, BlobRecordTimestamp::new(ts), false).await.is_ok();
                        } else if r < 85 {
                            ev.kind = 2;
                            match st.contains(&key).await {
                                Ok(ReadResult::Found(t)) => { ev.res_kind = 1; ev.res_ts = t.into(); }
                                Ok(ReadResult::Deleted(t)) => { ev.res_kind = 2; ev.res_ts = t.into(); }
                                Ok(ReadResult::NotFound) => { ev.res_kind = 0; }
                                Err(_) => { ev.ok = false; }
                            }
                        } else {
                            ev.kind = 3;
                            match st.read(&key).await {
                                Ok(ReadResult::Found(b)) => {
                                    // the bytes must be exactly what some write to this key produced
                                    if b.len() >= 8 + N && b[8..8 + N] == pool[ki][..] {
                                        let mut t8 = [0u8; 8];
                                        t8.copy_from_slice(&b[..8]);
                                        let t = u64::from_le_bytes(t8);
                                        let len = b.len() - 8 - N;
                                        if Self::conc_data(&pool[ki], t, len) == b[..] { ev.res_kind = 1; ev.res_ts = t; } else { ev.res_kind = 9; }
                                    } else { ev.res_kind = 9; }
                                }
                                Ok(ReadResult::Deleted(t)) => { ev.res_kind = 2; ev.res_ts = t.into(); }
                                Ok(ReadResult::NotFound) => { ev.res_kind = 0; }
                                Err(_) => { ev.ok = false; }
                            }
                        }
                        ev.resp = clock.fetch_add(1, AO::SeqCst);
                        hist.lock().unwrap().push(ev);
                    }
                }));
            }
            let stop = Arc::new(std::sync::atomic::AtomicBool::new(false));
            let mh = if maint {
                let st = st.clone();
                let stop = stop.clone();
                Some(tokio::spawn(async move {
                    let mut x: u64 = seed | 1;
                    let mut rnd = move || { x ^= x << 13; x ^= x >> 7; x ^= x << 17; x };
                    while !stop.load(AO::SeqCst) {
                        match rnd() % 6 {
                            0 => { let _ = st.try_close_active_blob().await; }
                            1 => { let _ = st.try_create_active_blob().await; }
                            2 => { let _ = st.try_restore_active_blob().await; }
                            3 => { let _ = st.fsyncdata().await; }
                            4 => { let _ = st.free_excess_resources().await; }
                            _ => { st.force_update_active_blob(|_| true).await; }
                        }
                        tokio::time::sleep(Duration::from_millis(1 + rnd() % 4)).await;
                    }
                }))
            } else { None };
            for h in handles {
                let _ = h.await;
            }
            stop.store(true, AO::SeqCst);
            if let Some(h) = mh {
                let _ = h.await;
            }
        };
        let budget = if clients > 500 { 40 } else { 30 };
        let finished = self.rt.block_on(async { tokio::time::timeout(Duration::from_secs(budget), run).await.is_ok() });
        if !finished {
            self.dead = Some("StepTimeout".into());
            std::mem::forget(st);
            return format!("sweep bad deadlock: {} clients did not finish within {} s", clients, budget);
        }
        let st = match Arc::try_unwrap(st) {
            Ok(s) => s,
            Err(_) => return "err StorageStillShared".into(),
        };
        self.rt.block_on(async { Self::quiesce(&st).await });
        let h = hist.lock().unwrap().clone();
        self.conc_prev = h.clone();
        self.conc_clock = clock.load(AO::SeqCst) + 1;
        self.conc_ts = tsgen.load(AO::SeqCst) + 1;
        let total = h.len();
        // 1. probes / reads against the invocation-response order
        let mut bad: Option<String> = None;
        for e in h.iter().filter(|e| (e.kind == 2 || e.kind == 3) && e.ok) {
            if e.res_kind == 9 {
                bad = Some(format!("read of key {} returned bytes that no write to that key produced", e.key));
                break;
            }
            // latest update (write or delete) acknowledged before this operation started
            let before: Option<&Ev> = h.iter().filter(|w| w.kind <= 1 && w.ok && w.key == e.key && w.resp < e.inv).max_by_key(|w| w.ts);
            // updates that could be visible: invoked before this operation responded
            let visible = |ts: u64, del: bool| h.iter().any(|w| w.kind == (if del { 1 } else { 0 }) && w.key == e.key && w.ts == ts && w.inv < e.resp);
            match e.res_kind {
                0 => {
                    if before.is_some() {
                        bad = Some(format!("key {}: NotFound although an update (ts {}) was acknowledged before the read started", e.key, before.unwrap().ts));
                    }
                }
                1 | 2 => {
                    if !visible(e.res_ts, e.res_kind == 2) {
                        bad = Some(format!("key {}: result ts {} ({}) was not written by any operation invoked before the response", e.key, e.res_ts, if e.res_kind == 2 { "deleted" } else { "found" }));
                    } else if let Some(b) = before {
                        if e.res_ts < b.ts {
                            bad = Some(format!("key {}: stale result ts {} although ts {} was acknowledged before the read started", e.key, e.res_ts, b.ts));
                        }
                    }
                }
                _ => {}
            }
            if bad.is_some() {
                break;
            }
        }
        // 2. files: complete parse, no overlap, every acknowledged write present
        let mut on_disk: std::collections::HashSet<(Vec<u8>, u64, bool)> = Default::default();
        if bad.is_none() {
            if let Ok(rd) = std::fs::read_dir(&self.dir) {
                for e in rd.flatten() {
                    let p = e.path();
                    if p.extension().map_or(false, |x| x == "blob") {
                        let b = std::fs::read(&p).unwrap_or_default();
                        let lay = Self::parse_blob_full(&b);
                        let end = lay.last().map(|(s0, h, m, d)| s0 + h + m + d).unwrap_or(20.min(b.len()));
                        if end != b.len() {
                            bad = Some(format!("{} does not parse completely: records end at {}, file has {} bytes", p.file_name().unwrap().to_string_lossy(), end, b.len()));
                            break;
                        }
                        if pearl::tools::validate_blob(&p).is_err() {
                            bad = Some(format!("{} fails validation after the concurrent run", p.file_name().unwrap().to_string_lossy()));
                            break;
                        }
                        for (k, ts, fl, _) in Self::parse_records(&b) {
                            on_disk.insert((k, ts, fl & 1 == 1));
                        }
                    }
                }
            }
        }
        // duplicates disallowed: a write to a live key is acknowledged without storing; only the writes-only mode is
        // judged then (sequentially exactly one record per written key is stored, the first in linearization order)
        let nodup = !self.cfg.dup;
        if bad.is_none() && !nodup {
            for w in h.iter().filter(|w| w.kind == 0 && w.ok) {
                if !on_disk.contains(&(pool[w.key].clone(), w.ts, false)) {
                    bad = Some(format!("acknowledged write key {} ts {} is in no blob file", w.key, w.ts));
                    break;
                }
            }
        }
        self.st = Some(st);
        // 3. final state = sequential outcome of the acknowledged updates
        if bad.is_none() {
            for ki in 0..pool.len() {
                let mut ups: Vec<(u64, bool)> = h.iter().filter(|w| w.kind <= 1 && w.ok && w.key == ki).map(|w| (w.ts, w.kind == 1)).collect();
                ups.sort_by(|a, b| b.0.cmp(&a.0));
                let mut want: Vec<(u64, bool)> = Vec::new();
                for u in ups {
                    want.push(u);
                    if u.1 {
                        break;
                    }
                }
                let o = self.exec(&format!("ram {}", bytes_hex(&pool[ki])));
                let got: Vec<(u64, bool)> = if o == "list" { vec![] } else {
                    o[5..].split(';').filter_map(|it| {
                        let f: Vec<&str> = it.split(',').collect();
                        Some((f.get(0)?.parse().ok()?, *f.get(1)? == "1"))
                    }).collect()
                };
                // failed (unacknowledged) updates may or may not be there: compare on acknowledged ones only when all succeeded
                let all_ok = h.iter().all(|w| w.ok);
                if nodup {
                    let only_writes = h.iter().all(|w| w.kind == 0);
                    if only_writes && all_ok && !want.is_empty() {
                        if got.len() > 1 {
                            bad = Some(format!("key {}: duplicates are disallowed, yet {} records of the key are stored {:?} (every sequential order stores one): concurrent writers all passed the liveness check", ki, got.len(), got));
                            break;
                        }
                        if got.len() != 1 || !want.contains(&got[0]) {
                            bad = Some(format!("key {}: duplicates disallowed, stored {:?}, acknowledged writes {:?}", ki, got, want));
                            break;
                        }
                    }
                    continue;
                }
                if all_ok && got != want {
                    bad = Some(format!("key {}: final version list {:?} differs from the sequential outcome {:?}", ki, got, want));
                    break;
                }
            }
        }
        let failed = h.iter().filter(|e| !e.ok).count();
        match bad {
            None => format!("sweep ok n={} failed={}", total, failed),
            Some(b) => format!("sweep bad {}", b),
        }
    }

    /// `closerace <stall ms> <key> <ts> <len> <seed>`: `try_close_active_blob` is started and stalled inside the sync of
    /// the active blob; a write is issued meanwhile.  Answer: `close=<ok|err> w=<ok|err>`.
    fn closerace(&mut self, toks: &[&str]) -> String {
        use std::sync::Arc;
        let ms: u64 = toks[1].parse().unwrap_or(300);
        let key = match hex_bytes(toks[2]) { Some(k) if k.len() == N => k, _ => return "bad-op".into() };
        let ts: u64 = toks[3].parse().unwrap_or(1);
        let (len, seed): (usize, u64) = (toks[4].parse().unwrap_or(1), toks[5].parse().unwrap_or(1));
        let st = match self.st.take() { Some(s) => Arc::new(s), None => return "err NoStorage".into() };
        let d = gen_data(len, seed);
        self.data.insert(d.clone(), (len, seed));
        pearl::verif::arm(pearl::verif::Failpoint { kind: pearl::verif::OpKind::Sync, pattern: ".blob".into(), nth: 0,
            action: pearl::verif::Action::Pause(78), sticky: false });
        std::thread::spawn(move || { std::thread::sleep(Duration::from_millis(ms)); pearl::verif::release(78); });
        let (rc, rw) = self.rt.block_on(async {
            let st_a = st.clone();
            let a = tokio::spawn(async move { st_a.try_close_active_blob().await.is_ok() });
            let t0 = std::time::Instant::now();
            while pearl::verif::paused_gates().is_empty() && t0.elapsed() < Duration::from_millis(200) {
                tokio::time::sleep(Duration::from_millis(1)).await;
            }
            let k = ArrayKey::<N>::from(key.clone());
            let rw = tokio::time::timeout(Duration::from_secs(30), st.write(&k, Bytes::from(d), BlobRecordTimestamp::new(ts))).await;
            let rc = tokio::time::timeout(Duration::from_secs(30), a).await;
            (matches!(rc, Ok(Ok(true))), matches!(rw, Ok(Ok(()))))
        });
        pearl::verif::clear_failpoints();
        let st = match Arc::try_unwrap(st) { Ok(s) => s, Err(_) => return "err StorageStillShared".into() };
        self.rt.block_on(async { Self::quiesce(&st).await });
        self.st = Some(st);
        format!("close={} w={}", if rc { "ok" } else { "err" }, if rw { "ok" } else { "err" })
    }

    /// `race2 <stall ms> <key> <ts> <lenA> <seedA> <lenB> <seedB>`: two clients write the same key with the same
    /// timestamp; client A is started first and stalled inside its file write (pause failpoint) for <stall ms>, client B is
    /// issued while A is stalled.  Both are acknowledged; which of the two wins the tie is decided by the code (the later
    /// append), and must be the same before and after the index is rebuilt from the blob file.
    fn race2(&mut self, toks: &[&str]) -> String {
        use std::sync::Arc;
        let ms: u64 = toks[1].parse().unwrap_or(300);
        let key = match hex_bytes(toks[2]) { Some(k) if k.len() == N => k, _ => return "bad-op".into() };
        let ts: u64 = toks[3].parse().unwrap_or(1);
        let (la, sa): (usize, u64) = (toks[4].parse().unwrap_or(1), toks[5].parse().unwrap_or(1));
        let (lb, sb): (usize, u64) = (toks[6].parse().unwrap_or(1), toks.get(7).and_then(|x| x.parse().ok()).unwrap_or(2));
        let st = match self.st.take() { Some(s) => Arc::new(s), None => return "err NoStorage".into() };
        let da = gen_data(la, sa);
        let db = gen_data(lb, sb);
        self.data.insert(da.clone(), (la, sa));
        self.data.insert(db.clone(), (lb, sb));
        pearl::verif::arm(pearl::verif::Failpoint { kind: pearl::verif::OpKind::Write, pattern: ".blob".into(), nth: 0,
            action: pearl::verif::Action::Pause(77), sticky: false });
        std::thread::spawn(move || { std::thread::sleep(Duration::from_millis(ms)); pearl::verif::release(77); });
        let (ra, rb) = self.rt.block_on(async {
            let k = ArrayKey::<N>::from(key.clone());
            let st_a = st.clone();
            let ka = k.clone();
            let a = tokio::spawn(async move { st_a.write(&ka, Bytes::from(da), BlobRecordTimestamp::new(ts)).await.is_ok() });
            // wait until A sits at the gate (or give up after 200 ms: a runtime that writes in place blocks here anyway)
            let t0 = std::time::Instant::now();
            while pearl::verif::paused_gates().is_empty() && t0.elapsed() < Duration::from_millis(200) {
                tokio::time::sleep(Duration::from_millis(1)).await;
            }
            let rb = tokio::time::timeout(Duration::from_secs(30), st.write(&k, Bytes::from(db), BlobRecordTimestamp::new(ts))).await;
            let ra = tokio::time::timeout(Duration::from_secs(30), a).await;
            (matches!(ra, Ok(Ok(true))), matches!(rb, Ok(Ok(()))))
        });
        pearl::verif::clear_failpoints();
        let st = match Arc::try_unwrap(st) { Ok(s) => s, Err(_) => return "err StorageStillShared".into() };
        self.rt.block_on(async { Self::quiesce(&st).await });
        self.st = Some(st);
        format!("{} {}", if ra { "ok" } else { "err" }, if rb { "ok" } else { "err" })
    }

    /// `killcheck <ackfile>`: the directory was left behind by a process killed with SIGKILL.  `ackfile` lists the
    /// writes that process had acknowledged (`<keyhex> <len> <seed>` per line, every key written once).  Every
    /// acknowledged record must be served with its bytes, or be restorable by the recovery tool from a blob that was
    /// quarantined; then a fresh write must survive a clean restart without index files.
    fn killcheck(&mut self, ackfile: &str) -> String {
        use pearl::tools::recovery_blob;
        let acks: Vec<(String, usize, u64)> = std::fs::read_to_string(ackfile)
            .unwrap_or_default()
            .lines()
            .filter_map(|l| {
                let t: Vec<&str> = l.split_whitespace().collect();
                if t.len() == 3 { Some((t[0].to_string(), t[1].parse().ok()?, t[2].parse().ok()?)) } else { None }
            })
            .collect();
        let mut missing: Vec<(String, usize, u64)> = Vec::new();
        for (k, len, seed) in &acks {
            let o = self.exec(&format!("r {}", k));
            let want = if *len == 0 { "found 0:0".to_string() } else { format!("found {}:{}", len, seed) };
            if o != want {
                missing.push((k.clone(), *len, *seed));
            }
        }
        let mut quarantined = 0usize;
        if !missing.is_empty() {
            // look for them in the quarantined blobs with the recovery tool
            let cdir = self.dir.join("corrupted");
            let mut restored: std::collections::HashSet<Vec<u8>> = Default::default();
            if let Ok(rd) = std::fs::read_dir(&cdir) {
                for e in rd.flatten() {
                    let p = e.path();
                    if p.extension().map_or(false, |x| x == "blob") {
                        quarantined += 1;
                        let out = self.dir.with_file_name(format!("{}-rec.blob", self.dir.file_name().unwrap().to_string_lossy()));
                        let _ = std::fs::remove_file(&out);
                        if recovery_blob(&p, &out, 0, true).is_ok() {
                            let ob = std::fs::read(&out).unwrap_or_default();
                            let layout = Self::parse_blob(&ob);
                            for (start, hsz, ms, ds) in layout {
                                if start + hsz + ms + ds <= ob.len() {
                                    let klen = hsz - 57;
                                    let key = ob[start + 16..start + 16 + klen].to_vec();
                                    let data = &ob[start + hsz + ms..start + hsz + ms + ds];
                                    // bytes must be the generator's output for the acknowledged (len, seed)
                                    if let Some((_, len, seed)) = acks.iter().find(|a| hex_bytes(&a.0).as_deref() == Some(&key[..])) {
                                        if data == &gen_data(*len, *seed)[..] {
                                            restored.insert(key);
                                        }
                                    }
                                }
                            }
                        }
                        let _ = std::fs::remove_file(&out);
                    }
                }
            }
            for (k, len, seed) in &missing {
                let kb = hex_bytes(k).unwrap_or_default();
                if !restored.contains(&kb) {
                    return format!("sweep bad acknowledged record {} ({}:{}) is neither served nor restorable from a quarantined blob ({} quarantined)", k, len, seed, quarantined);
                }
            }
        }
        // was a torn tail record accepted at start-up?
        let mut torn = false;
        if let Ok(rd) = std::fs::read_dir(&self.dir) {
            for e in rd.flatten() {
                let p = e.path();
                if p.extension().map_or(false, |x| x == "blob") {
                    let b = std::fs::read(&p).unwrap_or_default();
                    if let Some((s0, h, m, d)) = Self::parse_blob(&b).last() {
                        // (known finding E8 covers the scan without data validation, and data-less records)
                        if s0 + h <= b.len() && s0 + h + m + d > b.len() && (!self.cfg.validate || *d == 0) {
                            torn = true;
                        }
                    }
                }
            }
        }
        let fresh = "fe".repeat(N);
        let w = self.exec(&format!("w {} 999 - 9 201", fresh));
        let mut ok2 = w.starts_with("ok");
        if ok2 {
            if let Some(st) = self.st.take() {
                let _ = self.rt.block_on(async { tokio::time::timeout(Duration::from_secs(60), st.close()).await });
            }
            if let Ok(rd) = std::fs::read_dir(&self.dir) {
                for e in rd.flatten() {
                    if e.path().extension().map_or(false, |x| x == "index") {
                        let _ = std::fs::remove_file(e.path());
                    }
                }
            }
            let r2 = self.open(false);
            ok2 = r2 == "ok" && self.exec(&format!("r {}", fresh)) == "found 9:201";
        }
        if !ok2 {
            if torn {
                return format!("sweep ok n={} q={} e8=1", acks.len(), quarantined);
            }
            return "sweep bad a write made after recovery did not survive the next restart".into();
        }
        format!("sweep ok n={} q={} e8=0", acks.len(), quarantined)
    }

    /// `crashsweep <budget> <seed>`: power-loss states at a quiescent point.  For every blob the bytes beyond its last
    /// sync may be missing: the file is cut at every length between the synced size and the current size (every byte
    /// when that region is short, boundaries and samples otherwise); index files are kept / removed / cut / left
    /// half-written.  Each state is opened in a copy: init must succeed; a blob is served with a prefix of its
    /// acknowledged records (plus possibly a torn tail record whose reads fail) or is quarantined intact; blobs that
    /// were fully synced are served in full; reads never return foreign bytes; a write made after recovery must
    /// survive a further clean restart without index files.
    fn crashsweep(&mut self, toks: &[&str]) -> String {
        let budget: usize = toks.get(1).and_then(|x| x.parse().ok()).unwrap_or(30);
        let mut x: u64 = toks.get(2).and_then(|x| x.parse().ok()).unwrap_or(1) | 1;
        let mut rnd = move || {
            x ^= x << 13;
            x ^= x >> 7;
            x ^= x << 17;
            x
        };
        let st = match self.st.as_ref() {
            Some(s) => s,
            None => return "err NoStorage".into(),
        };
        let states = self.rt.block_on(async {
            Self::quiesce(st).await;
            st.verif_blob_states().await
        });
        let orig = self.dir.clone();
        let copy = orig.with_file_name(format!("{}-crash", orig.file_name().unwrap().to_string_lossy()));
        // candidate crash states: (blob id, cut length, index variant)
        let mut cands: Vec<(usize, u64, &'static str)> = Vec::new();
        for b in &states {
            let synced = b.file_size - b.dirty;
            let path = orig.join(format!("t.{}.blob", b.id));
            let bytes = std::fs::read(&path).unwrap_or_default();
            let layout = Self::parse_blob(&bytes);
            let mut cuts: Vec<u64> = Vec::new();
            if b.dirty == 0 {
                cuts.push(b.file_size);
            } else if b.dirty <= 260 {
                for l in synced..=b.file_size {
                    cuts.push(l);
                }
            } else {
                cuts.push(synced);
                cuts.push(b.file_size);
                for (start, hsz, ms, ds) in &layout {
                    let e = (start + hsz + ms + ds) as u64;
                    for c in [*start as u64, *start as u64 + 1, (start + hsz / 2) as u64, (start + hsz) as u64 - 1,
                              (start + hsz) as u64, (start + hsz + ms) as u64, (start + hsz + ms + ds / 2) as u64, e - 1, e] {
                        if c >= synced && c <= b.file_size {
                            cuts.push(c);
                        }
                    }
                }
                for _ in 0..6 {
                    cuts.push(synced + rnd() % (b.dirty + 1));
                }
            }
            cuts.sort();
            cuts.dedup();
            // power loss with the file LENGTH persisted and the pages of the un-synced tail not: the tail reads as
            // zeros ("torn", not "missing"); the first zeroed byte is one that changes
            if b.dirty > 0 {
                for (start, hsz, ms, ds) in &layout {
                    let e = (start + hsz + ms + ds) as u64;
                    for c in [*start as u64, *start as u64 + 9, (start + hsz) as u64, (start + hsz + ms) as u64,
                              (start + hsz + ms + ds / 2) as u64, e - 1] {
                        if c >= synced && c < b.file_size && bytes.get(c as usize).map_or(false, |x| *x != 0) {
                            cands.push((b.id, c, "zero"));
                        }
                    }
                }
            }
            for c in cuts {
                for iv in ["keep", "rm", "cut", "unwritten"] {
                    if iv != "keep" && !orig.join(format!("t.{}.index", b.id)).exists() {
                        continue;
                    }
                    if iv != "keep" && c != b.file_size && rnd() % 3 != 0 {
                        continue;
                    }
                    cands.push((b.id, c, iv));
                }
            }
        }
        let total = cands.len();
        let mut chosen: Vec<usize> = if total <= budget { (0..total).collect() } else { (0..budget).map(|i| (i * total) / budget).collect() };
        // the realistic torn tail is always explored: the last record of the active blob cut exactly between its two
        // writes (after header + meta) and right after its header
        for b in states.iter().filter(|b| b.active) {
            let bytes = std::fs::read(orig.join(format!("t.{}.blob", b.id))).unwrap_or_default();
            if let Some((start, hsz, ms, ds)) = Self::parse_blob_full(&bytes).last().copied() {
                if ds > 0 {
                    for c in [(start + hsz + ms) as u64, (start + hsz) as u64] {
                        if let Some(ix) = cands.iter().position(|x| x.0 == b.id && x.1 == c && x.2 == "keep") {
                            if !chosen.contains(&ix) {
                                chosen.push(ix);
                            }
                        }
                    }
                    // ... and the same tail record with its header intact and its data pages zeroed (length kept)
                    for c in [(start + hsz + ms) as u64, (start + hsz + ms + ds / 2) as u64] {
                        if let Some(ix) = cands.iter().position(|x| x.0 == b.id && x.1 == c && x.2 == "zero") {
                            if !chosen.contains(&ix) {
                                chosen.push(ix);
                            }
                        }
                    }
                }
            }
        }
        let mut n = 0usize;
        let mut e8 = 0usize;
        let mut bad: Option<String> = None;
        let live = self.st.take();
        'outer: for ci in chosen {
            let (bid, cut, iv) = cands[ci];
            Self::copy_dir(&orig, &copy);
            let _ = std::fs::remove_file(copy.join("pearl.lock"));
            let bpath = copy.join(format!("t.{}.blob", bid));
            let full = std::fs::read(&bpath).unwrap_or_default();
            let mut cutb = full[..(cut as usize).min(full.len())].to_vec();
            if iv == "zero" {
                cutb.resize(full.len(), 0);
            }
            std::fs::write(&bpath, &cutb).unwrap();
            let ipath = bpath.with_extension("index");
            match iv {
                "rm" => {
                    let _ = std::fs::remove_file(&ipath);
                }
                "cut" => {
                    if let Ok(ib) = std::fs::read(&ipath) {
                        let l = (rnd() as usize) % ib.len().max(1);
                        let _ = std::fs::write(&ipath, &ib[..l]);
                    }
                }
                "unwritten" => {
                    Self::damage_index(&ipath, "unwritten");
                }
                _ => {}
            }
            let what = if iv == "zero" {
                format!("blob {} zeroed from {} to its end {} (length kept)", bid, cut, full.len())
            } else {
                format!("blob {} cut at {} of {} (index {})", bid, cut, full.len(), iv)
            };
            let recs = Self::parse_records(&full);
            let layout = Self::parse_blob(&full);
            let n_full = layout.iter().filter(|(s0, h, m, d)| (s0 + h + m + d) as u64 <= cut).count();
            let torn_hdr_complete = layout.iter().any(|(s0, h, m, d)| ((s0 + h) as u64) <= cut && ((s0 + h + m + d) as u64) > cut);
            n += 1;
            self.dir = copy.clone();
            let r = self.open(false);
            if r != "ok" {
                self.dir = orig.clone();
                bad = Some(format!("{}: init {}", what, r));
                break 'outer;
            }
            let after = self.rt.block_on(async { self.st.as_ref().unwrap().verif_blob_states().await });
            let served = after.iter().find(|b| b.id == bid).map(|b| b.records);
            let mut torn_accepted = false;
            match served {
                Some(c) => {
                    // known finding E8: the scan that does not validate data accepts a tail record whose header is
                    // complete; the validating scan does so only for a record without data (nothing to read back)
                    let torn_has_data = layout.iter().any(|(s0, h, m, d)| ((s0 + h) as u64) <= cut && ((s0 + h + m + d) as u64) > cut && *d > 0);
                    if c == n_full + 1 && torn_hdr_complete && self.cfg.validate && torn_has_data {
                        bad = Some(format!("{}: data validation is on, yet the tail record torn inside its meta/data was accepted ({} records served, {} complete)", what, c, n_full));
                    } else if c == n_full + 1 && torn_hdr_complete {
                        torn_accepted = true;
                    } else if c != n_full {
                        bad = Some(format!("{}: {} records served, {} are complete in the surviving prefix (of {})", what, c, n_full, recs.len()));
                    }
                }
                None => {
                    // quarantined: the file must be preserved intact in the corrupted dir
                    let q = copy.join("corrupted").join(format!("t.{}.blob", bid));
                    let qb = std::fs::read(&q).unwrap_or_default();
                    let untouched_header_only = cutb.len() <= 20;
                    if qb != cutb && !untouched_header_only && !self.cfg.ignore {
                        bad = Some(format!("{}: blob vanished and is not preserved intact in the corrupted dir", what));
                    }
                }
            }
            // other blobs must be served in full
            if bad.is_none() {
                for b in &states {
                    if b.id != bid {
                        let c = after.iter().find(|a| a.id == b.id).map(|a| a.records);
                        if c != Some(b.records) {
                            bad = Some(format!("{}: blob {} served {:?} records, had {}", what, b.id, c, b.records));
                        }
                    }
                }
            }
            if bad.is_none() {
                let answers = self.collect_answers();
                for (cmd, out) in &answers {
                    if out.contains(":?") {
                        bad = Some(format!("{}: `{}` returned bytes that were never written: {}", what, cmd, out));
                        break;
                    }
                    if out.contains("err ") && !torn_accepted {
                        bad = Some(format!("{}: `{}` fails although no torn record was accepted: {}", what, cmd, out));
                        break;
                    }
                }
            }
            // a write made after recovery must survive a further restart without index files
            if bad.is_none() {
                let fresh = "fe".repeat(N);
                let w = self.exec(&format!("w {} 999 - 9 201", fresh));
                let mut ok2 = w.starts_with("ok");
                if ok2 {
                    if let Some(st) = self.st.take() {
                        let _ = self.rt.block_on(async { tokio::time::timeout(Duration::from_secs(60), st.close()).await });
                    }
                    if let Ok(rd) = std::fs::read_dir(&copy) {
                        for e in rd.flatten() {
                            if e.path().extension().map_or(false, |x| x == "index") {
                                let _ = std::fs::remove_file(e.path());
                            }
                        }
                    }
                    let r2 = self.open(false);
                    ok2 = r2 == "ok" && self.exec(&format!("r {}", fresh)) == "found 9:201";
                }
                if !ok2 {
                    if torn_accepted {
                        e8 += 1; // known finding E8: the accepted torn tail record poisons the next index-less scan
                    } else {
                        bad = Some(format!("{}: a write made after recovery did not survive the next restart", what));
                    }
                }
            }
            if let Some(st) = self.st.take() {
                let _ = self.rt.block_on(async { tokio::time::timeout(Duration::from_secs(60), st.close()).await });
            }
            // the operator's way back: the quarantined file is run through the recovery tool into the work directory (the
            // tool leaves its input where it is); if that blob is torn once more, the next start has to quarantine a file of
            // the SAME name a second time - and must still come up
            let qpath = copy.join("corrupted").join(format!("t.{}.blob", bid));
            if bad.is_none() && served.is_none() && !self.cfg.ignore && qpath.exists() && !bpath.exists() && n % 2 == 0 {
                if pearl::tools::recovery_blob(&qpath, &bpath, 1, true).is_ok() {
                    let rec = std::fs::read(&bpath).unwrap_or_default();
                    if let Some((start, hsz, _, _)) = Self::parse_blob_full(&rec).last().copied() {
                        // cut inside the header of its last record
                        std::fs::write(&bpath, &rec[..start + hsz / 2]).unwrap();
                        let _ = std::fs::remove_file(bpath.with_extension("index"));
                        self.dir = copy.clone();
                        let r = self.open(false);
                        if r != "ok" {
                            bad = Some(format!("{}: after recovery of the quarantined blob into the work directory and a second torn tail: init {}", what, r));
                        }
                        if let Some(st) = self.st.take() {
                            let _ = self.rt.block_on(async { tokio::time::timeout(Duration::from_secs(60), st.close()).await });
                        }
                    }
                }
            }
            self.dir = orig.clone();
            if bad.is_some() {
                break 'outer;
            }
        }
        let _ = std::fs::remove_dir_all(&copy);
        self.dir = orig;
        self.st = live;
        match bad {
            None => format!("sweep ok n={} e8={}", n, e8),
            Some(b) => format!("sweep bad {}", b),
        }
    }

    /// `metasweep <seed>`: in a scratch directory beside the live one (the live storage is not touched) records and
    /// deletion markers are written whose metadata maps have several attributes, empty and long values and attribute
    /// NAMES that are not ASCII; every record must come back from `read_with` and from
    /// `read_all_with_deletion_marker` + `load` with exactly its metadata and data: at once, after a restart with the
    /// index files, and after a restart without them (index regenerated by the scan)
    fn metasweep(&mut self, toks: &[&str]) -> String {
        let mut x: u64 = toks.get(1).and_then(|x| x.parse().ok()).unwrap_or(1) | 1;
        let mut rnd = move || {
            x ^= x << 13;
            x ^= x >> 7;
            x ^= x << 17;
            x
        };
        let live = self.st.take();
        let orig = self.dir.clone();
        // an optional third token: the file name prefix of the scratch storage (e.g. one that contains dots)
        self.prefix = toks.get(2).map(|p| p.to_string());
        let scratch = orig.with_file_name(format!("{}-meta", orig.file_name().unwrap().to_string_lossy()));
        let _ = std::fs::remove_dir_all(&scratch);
        self.dir = scratch.clone();
        let names = ["m", "version", "", "k0", "\u{432}\u{435}\u{440}\u{441}\u{438}\u{44f}", "\u{540d}\u{524d}", "\u{e9}t\u{e9}", "a\u{1f600}"];
        let mut recs: Vec<(Vec<u8>, u64, Meta, Vec<u8>, bool)> = Vec::new();
        for i in 0..8usize {
            let mut m = Meta::new();
            let n_attr = 1 + (rnd() % 3) as usize;
            for j in 0..n_attr {
                // record i always carries name i; the other attributes are drawn
                let name = if j == 0 { names[i % names.len()] } else { names[(rnd() % names.len() as u64) as usize] };
                let vl = [0usize, 1, 7, 40][(rnd() % 4) as usize];
                let v: Vec<u8> = (0..vl).map(|_| rnd() as u8).collect();
                m.insert(name.to_string(), v);
            }
            let key = vec![0xA0u8 + i as u8; N];
            let dl = [0usize, 1, 9, 100][(rnd() % 4) as usize];
            let del = i == 5;
            let data = if del { Vec::new() } else { gen_data(dl, 17 + i as u64) };
            recs.push((key, 1 + i as u64, m, data, del));
        }
        let mut bad: Option<String> = None;
        let r = self.open(false);
        if r != "ok" {
            bad = Some(format!("open of an empty directory: {}", r));
        }
        let mut n = 0usize;
        if bad.is_none() {
            let st = self.st.as_ref().unwrap();
            for (key, ts, m, data, del) in &recs {
                let k = ArrayKey::<N>::from(key.clone());
                let r = self.rt.block_on(async {
                    if *del {
                        st.delete_with(&k, BlobRecordTimestamp::new(*ts), m.clone(), false).await.map(|_| ())
                    } else {
                        st.write_with(&k, Bytes::from(data.clone()), BlobRecordTimestamp::new(*ts), m.clone()).await
                    }
                });
                if let Err(e) = r {
                    bad = Some(format!("write of record {} (meta {:?}): {}", ts, m, err_kind(&e)));
                    break;
                }
            }
        }
        for phase in ["written", "reopened with index files", "reopened without index files"] {
            if bad.is_some() {
                break;
            }
            if phase != "written" {
                if let Some(st) = self.st.take() {
                    let _ = self.rt.block_on(async { tokio::time::timeout(Duration::from_secs(60), st.close()).await });
                }
                if phase == "reopened without index files" {
                    if let Ok(rd) = std::fs::read_dir(&scratch) {
                        for e in rd.flatten() {
                            if e.path().extension().map_or(false, |x| x == "index") {
                                let _ = std::fs::remove_file(e.path());
                            }
                        }
                    }
                }
                let r = self.open(false);
                if r != "ok" {
                    bad = Some(format!("{}: init {}", phase, r));
                    break;
                }
            }
            let st = self.st.as_ref().unwrap();
            for (key, ts, m, data, del) in &recs {
                n += 1;
                let k = ArrayKey::<N>::from(key.clone());
                let r = self.rt.block_on(async { st.read_with(&k, m).await });
                let okr = match (&r, *del) {
                    (Ok(ReadResult::Found(b)), false) => b.as_ref() == &data[..],
                    (Ok(ReadResult::Deleted(t)), true) => Into::<u64>::into(*t) == *ts,
                    _ => false,
                };
                if !okr {
                    let got = match r {
                        Ok(ReadResult::Found(b)) => format!("found {} bytes", b.len()),
                        Ok(ReadResult::Deleted(t)) => format!("deleted {}", Into::<u64>::into(t)),
                        Ok(ReadResult::NotFound) => "notfound".to_string(),
                        Err(e) => format!("err {}", err_kind(&e)),
                    };
                    bad = Some(format!("{}: read_with of record {} with its own metadata {:?} -> {}", phase, ts, m, got));
                    break;
                }
                let r = self.rt.block_on(async {
                    let es = st.read_all_with_deletion_marker(&k).await?;
                    let mut out = Vec::new();
                    for e in es {
                        let d = e.is_deleted();
                        let rec = e.load().await?;
                        out.push((d, rec.meta().clone(), rec.into_data().to_vec()));
                    }
                    anyhow::Result::<_>::Ok(out)
                });
                match r {
                    Ok(v) if v.len() == 1 && v[0].0 == *del && v[0].1 == *m && v[0].2 == *data => {}
                    Ok(v) => {
                        bad = Some(format!("{}: record {} written with metadata {:?} and {} data bytes comes back as {:?}", phase, ts, m, data.len(),
                            v.iter().map(|x| (x.0, x.1.clone(), x.2.len())).collect::<Vec<_>>()));
                        break;
                    }
                    Err(e) => {
                        bad = Some(format!("{}: loading record {} (metadata {:?}): {}", phase, ts, m, err_kind(&e)));
                        break;
                    }
                }
            }
        }
        if let Some(st) = self.st.take() {
            let _ = self.rt.block_on(async { tokio::time::timeout(Duration::from_secs(60), st.close()).await });
        }
        let _ = std::fs::remove_dir_all(&scratch);
        self.dir = orig;
        self.st = live;
        self.prefix = None;
        match bad {
            None => format!("sweep ok n={}", n),
            Some(b) => format!("sweep bad {}", b),
        }
    }

    /// `offfault <seed>`: in a scratch directory, a closed blob whose bloom buffer was off-loaded loses the bytes of its index file
    /// while the session is running (the file is cut to 0 / to a prefix through its path; the open descriptor sees it).  A filter
    /// that cannot be read must not answer "definitely absent" for a stored key: check_filters is not Some(false), read and
    /// contains either serve the record or report an error, never NotFound.
    fn offfault(&mut self, toks: &[&str]) -> String {
        let mut x: u64 = toks.get(1).and_then(|x| x.parse().ok()).unwrap_or(1) | 1;
        let mut rnd = move || {
            x ^= x << 13;
            x ^= x >> 7;
            x ^= x << 17;
            x
        };
        let live = self.st.take();
        let orig = self.dir.clone();
        let saved_bloom = self.cfg.bloom;
        if self.cfg.bloom.is_none() {
            self.cfg.bloom = Some((100, 2, 1000));
        }
        let scratch = orig.with_file_name(format!("{}-off", orig.file_name().unwrap().to_string_lossy()));
        let _ = std::fs::remove_dir_all(&scratch);
        self.dir = scratch.clone();
        let nkeys = 3 + (rnd() % 6) as usize;
        let keys: Vec<Vec<u8>> = (0..nkeys).map(|i| { let mut k = vec![(rnd() % 251) as u8; N]; k[0] = i as u8; k }).collect();
        let mut bad: Option<String> = None;
        let mut n = 0usize;
        let r = self.open(false);
        if r != "ok" {
            bad = Some(format!("open of an empty directory: {}", r));
        }
        if bad.is_none() {
            let mut stv = self.st.take().unwrap();
            let st = &mut stv;
            let cut = [0u64, 0, 8, 40][(rnd() % 4) as usize];
            let idx = scratch.join("t.0.index");
            let res: Result<(), String> = self.rt.block_on(async {
                use pearl::BloomProvider;
                for (i, key) in keys.iter().enumerate() {
                    let k = ArrayKey::<N>::from(key.clone());
                    st.write(&k, Bytes::from(gen_data(1 + i * 7, 3 + i as u64)), BlobRecordTimestamp::new(1 + i as u64)).await
                        .map_err(|e| format!("write: {}", err_kind(&e)))?;
                }
                st.try_close_active_blob().await.map_err(|e| format!("close_active: {}", err_kind(&e)))?;
                st.try_create_active_blob().await.map_err(|e| format!("create_active: {}", err_kind(&e)))?;
                let _ = Self::settle(st).await;
                if !idx.exists() {
                    return Err("the closed blob has no index file".to_string());
                }
                let _ = st.offload_buffer(usize::MAX, 0).await;
                for key in &keys {
                    let k = ArrayKey::<N>::from(key.clone());
                    if st.check_filters(&k).await == Some(false) {
                        return Err(format!("healthy off-loaded filter: check_filters says absent for stored key {}", crate::util::bytes_hex(key)));
                    }
                    match st.read(&k).await {
                        Ok(ReadResult::Found(_)) => {}
                        _ => return Err(format!("healthy off-loaded filter: stored key {} is not read", crate::util::bytes_hex(key))),
                    }
                }
                let f = std::fs::OpenOptions::new().write(true).open(&idx).map_err(|e| format!("open index: {}", e))?;
                f.set_len(cut).map_err(|e| format!("set_len: {}", e))?;
                drop(f);
                for key in &keys {
                    n += 1;
                    let k = ArrayKey::<N>::from(key.clone());
                    if st.check_filters(&k).await == Some(false) {
                        return Err(format!("index file cut to {} bytes: check_filters says definitely absent for stored key {}", cut, crate::util::bytes_hex(key)));
                    }
                    if st.check_filter(&k).await == pearl::FilterResult::NotContains {
                        return Err(format!("index file cut to {} bytes: check_filter says NotContains for stored key {}", cut, crate::util::bytes_hex(key)));
                    }
                    if let Ok(ReadResult::NotFound) = st.read(&k).await {
                        return Err(format!("index file cut to {} bytes: read of stored key {} answers NotFound without an error", cut, crate::util::bytes_hex(key)));
                    }
                    if let Ok(ReadResult::NotFound) = st.contains(&k).await {
                        return Err(format!("index file cut to {} bytes: contains of stored key {} answers NotFound without an error", cut, crate::util::bytes_hex(key)));
                    }
                }
                Ok(())
            });
            self.st = Some(stv);
            if let Err(e) = res {
                bad = Some(e);
            }
        }
        if let Some(st) = self.st.take() {
            let _ = self.rt.block_on(async { tokio::time::timeout(Duration::from_secs(60), st.close()).await });
        }
        let _ = std::fs::remove_dir_all(&scratch);
        self.dir = orig;
        self.st = live;
        self.cfg.bloom = saved_bloom;
        match bad {
            None => format!("sweep ok n={}", n),
            Some(b) => format!("sweep bad {}", b),
        }
    }

    /// like `parse_blob`, but only the records that lie completely inside the image
    fn parse_blob_full(bytes: &[u8]) -> Vec<(usize, usize, usize, usize)> {
        Self::parse_blob(bytes).into_iter().filter(|(s0, h, m, d)| s0 + h + m + d <= bytes.len()).collect()
    }

    /// (key, timestamp, flags, data len) of every record of a blob image, parsed independently of pearl
    fn parse_records(bytes: &[u8]) -> Vec<(Vec<u8>, u64, u8, usize)> {
        let mut out = Vec::new();
        for (start, hsz, _ms, ds) in Self::parse_blob_full(bytes) {
            let klen = hsz - 57;
            if start + hsz > bytes.len() {
                break;
            }
            let key = bytes[start + 16..start + 16 + klen].to_vec();
            let flags = bytes[start + 32 + klen];
            let mut t = [0u8; 8];
            t.copy_from_slice(&bytes[start + 41 + klen..start + 49 + klen]);
            out.push((key, u64::from_le_bytes(t), flags, ds));
        }
        out
    }

    /// `toolsweep <budget> <seed>`: close the storage; offline tools on every blob/index it produced:
    /// validation accepts them; truncated or corrupted copies are rejected; recovery of a damaged copy validates,
    /// keeps every intact record before the damage (and after an isolated damaged record when skipping) and is
    /// served by the storage with original bytes; a v0 image migrates back to the original; index readers report
    /// exactly the headers of the blob
    fn toolsweep(&mut self, toks: &[&str]) -> String {
        use pearl::tools::{migrate_blob, read_index_sync, recovery_blob, validate_blob, validate_index};
        let budget: usize = toks.get(1).and_then(|x| x.parse().ok()).unwrap_or(30);
        let mut x: u64 = toks.get(2).and_then(|x| x.parse().ok()).unwrap_or(1) | 1;
        let mut rnd = move || {
            x ^= x << 13;
            x ^= x >> 7;
            x ^= x << 17;
            x
        };
        if let Some(st) = self.st.take() {
            let r = self.rt.block_on(async { tokio::time::timeout(Duration::from_secs(60), st.close()).await });
            if !matches!(r, Ok(Ok(()))) {
                return "err close".into();
            }
        }
        let orig = self.dir.clone();
        let work = orig.with_file_name(format!("{}-tools", orig.file_name().unwrap().to_string_lossy()));
        let _ = std::fs::remove_dir_all(&work);
        std::fs::create_dir_all(&work).unwrap();
        let mut blobs: Vec<PathBuf> = std::fs::read_dir(&orig)
            .unwrap()
            .flatten()
            .map(|e| e.path())
            .filter(|p| p.extension().map_or(false, |x| x == "blob"))
            .collect();
        blobs.sort();
        let mut n = 0usize;
        let mut bad: Option<String> = None;
        let crc = crc::Crc::<u32>::new(&crc::CRC_32_ISCSI);
        'outer: for bp in &blobs {
            let bname = bp.file_name().unwrap().to_string_lossy().to_string();
            let bytes = std::fs::read(bp).unwrap_or_default();
            let layout = Self::parse_blob_full(&bytes);
            let recs = Self::parse_records(&bytes);
            // 1. the tools accept what the storage produced
            n += 1;
            if let Err(e) = validate_blob(bp) {
                bad = Some(format!("{}: validate_blob rejects a produced blob: {}", bname, e));
                break;
            }
            let ip = bp.with_extension("index");
            if ip.exists() {
                let idx_bytes = std::fs::read(&ip).unwrap_or_default();
                let mut bs = [0u8; 8];
                if idx_bytes.len() >= 83 {
                    bs.copy_from_slice(&idx_bytes[75..83]);
                }
                let fresh = u64::from_le_bytes(bs) == bytes.len() as u64;
                if fresh {
                    n += 1;
                    if let Err(e) = validate_index::<ArrayKey<N>>(&ip) {
                        bad = Some(format!("{}: validate_index rejects a produced index: {}", bname, e));
                        break;
                    }
                    if [4usize, 8, 16, 32, 64, 128].contains(&N) {
                        match read_index_sync(&ip) {
                            Ok(map) => {
                                let total: usize = map.values().map(|v| v.len()).sum();
                                let mut keys: Vec<Vec<u8>> = recs.iter().map(|r| r.0.clone()).collect();
                                keys.sort();
                                keys.dedup();
                                let ikeys: Vec<Vec<u8>> = map.keys().cloned().collect();
                                let per_key_ok = map.iter().all(|(k, v)| v.len() == recs.iter().filter(|r| &r.0 == k).count());
                                if total != recs.len() || keys != ikeys || !per_key_ok {
                                    bad = Some(format!("{}: read_index reports {} headers / {} keys, the blob holds {} / {}",
                                        bname, total, ikeys.len(), recs.len(), keys.len()));
                                    break;
                                }
                            }
                            Err(e) => {
                                bad = Some(format!("{}: read_index fails on a produced index: {}", bname, e));
                                break;
                            }
                        }
                    }
                }
                // truncated index copies are rejected
                if idx_bytes.len() > 100 && fresh {
                    for cut in [1usize, 40, idx_bytes.len() / 2] {
                        let tp = work.join(&bname);
                        std::fs::write(&tp, &bytes).unwrap();
                        let tip = tp.with_extension("index");
                        std::fs::write(&tip, &idx_bytes[..idx_bytes.len() - cut]).unwrap();
                        n += 1;
                        if validate_index::<ArrayKey<N>>(&tip).is_ok() {
                            bad = Some(format!("{}: validate_index accepts an index truncated by {} bytes", bname, cut));
                            break 'outer;
                        }
                    }
                }
            }
            if layout.is_empty() {
                continue;
            }
            // 2. migration: a v0 image of this blob migrates back to exactly this blob
            {
                let mut v0 = bytes.clone();
                v0[8..12].copy_from_slice(&0u32.to_le_bytes());
                for (start, hsz, _, _) in &layout {
                    let klen = hsz - 57;
                    v0[start + 16..start + 16 + klen].reverse();
                    let cpos = start + hsz - 4;
                    v0[cpos..cpos + 4].copy_from_slice(&0u32.to_le_bytes());
                    let c = crc.checksum(&v0[*start..start + hsz]);
                    v0[cpos..cpos + 4].copy_from_slice(&c.to_le_bytes());
                }
                let ip0 = work.join("v0.blob");
                let op0 = work.join("v1.blob");
                let _ = std::fs::remove_file(&op0);
                std::fs::write(&ip0, &v0).unwrap();
                n += 1;
                match migrate_blob(&ip0, &op0, [1usize, 0, 2][n % 3], 1) {
                    Ok(()) => {
                        let out = std::fs::read(&op0).unwrap_or_default();
                        if out != bytes {
                            bad = Some(format!("{}: migration v0->v1 does not reproduce the blob ({} vs {} bytes)", bname, out.len(), bytes.len()));
                            break;
                        }
                    }
                    Err(e) => {
                        bad = Some(format!("{}: migration failed: {}", bname, e));
                        break;
                    }
                }
            }
            // 3. damage: truncations and flipped bytes per position class
            // (what, image, index of first damaged record, isolated, index of a second isolated damaged record)
            let mut cases: Vec<(String, Vec<u8>, usize, bool, Option<usize>)> = Vec::new();
            for (ri, (start, hsz, ms, ds)) in layout.iter().enumerate() {
                let end = start + hsz + ms + ds;
                for t in [start + 1, start + hsz / 2, start + hsz, start + hsz + ms + ds / 2, end - 1] {
                    if t > *start && t < end && t < bytes.len() {
                        cases.push((format!("trunc@{} (record {})", t, ri), bytes[..t].to_vec(), ri, false, None));
                    }
                }
                let klen = hsz - 57;
                // header bytes that do not change lengths: key byte, flags, blob_offset low byte, timestamp, checksums
                for off in [16usize, 32 + klen, 33 + klen, 41 + klen, 49 + klen, 53 + klen] {
                    if off < *hsz {
                        let mut b = bytes.clone();
                        b[start + off] ^= 0x21;
                        cases.push((format!("hflip@{}+{} (record {})", start, off, ri), b, ri, true, None));
                    }
                }
                if *ds > 0 {
                    let mut b = bytes.clone();
                    let p = start + hsz + ms + (rnd() as usize % ds);
                    b[p] ^= 0x40;
                    cases.push((format!("dflip@{} (record {})", p, ri), b, ri, true, None));
                }
            }
            // two damaged records with at least one intact record between them, every pairing of the two damage
            // classes (header outside the length fields / data)
            for _ in 0..6 {
                if layout.len() < 4 {
                    break;
                }
                let i = rnd() as usize % (layout.len() - 2);
                let j = i + 2 + rnd() as usize % (layout.len() - i - 2);
                let mut b = bytes.clone();
                let mut whats = Vec::new();
                for (r, pick) in [(i, rnd() % 2), (j, rnd() % 2)] {
                    let (start, hsz, ms, ds) = layout[r];
                    let klen = hsz - 57;
                    if pick == 0 && ds > 0 {
                        let p = start + hsz + ms + (rnd() as usize % ds);
                        b[p] ^= 0x40;
                        whats.push(format!("dflip@{} (record {})", p, r));
                    } else {
                        let off = [16usize, 41 + klen, 49 + klen, 53 + klen][(rnd() % 4) as usize];
                        b[start + off] ^= 0x21;
                        whats.push(format!("hflip@{}+{} (record {})", start, off, r));
                    }
                }
                cases.push((whats.join(" and "), b, i, true, Some(j)));
            }
            {
                let mut b = bytes.clone();
                b[3] ^= 0x10;
                cases.push(("blob magic".into(), b, 0, false, None));
            }
            let total = cases.len();
            let chosen: Vec<usize> = if total <= budget { (0..total).collect() } else { (0..budget).map(|i| (i * total) / budget).collect() };
            for ci in chosen {
                let (what, image, first_bad, isolated, second_bad) = &cases[ci];
                let dp = work.join("damaged.blob");
                std::fs::write(&dp, image).unwrap();
                n += 1;
                if validate_blob(&dp).is_ok() {
                    bad = Some(format!("{}: validate_blob accepts {}", bname, what));
                    break 'outer;
                }
                if what == "blob magic" {
                    // nothing can be recovered from a blob without a valid blob header: the tool may refuse, but
                    // whatever it leaves at the output path must be a blob that validates
                    for skip in [false, true] {
                        let op = work.join("recovered.blob");
                        let _ = std::fs::remove_file(&op);
                        let r = recovery_blob(&dp, &op, 1, skip);
                        if op.exists() && validate_blob(&op).is_err() {
                            bad = Some(format!("{}: recovery (skip={}) of {} returned {} and left an output file that does not validate ({} bytes)",
                                bname, skip, what, if r.is_ok() { "Ok" } else { "Err" }, std::fs::metadata(&op).map(|m| m.len()).unwrap_or(0)));
                            break 'outer;
                        }
                    }
                    continue;
                }
                // the read-back validation batch of the writer: every record, none, every third
                let validate_every = [1usize, 0, 3][ci % 3];
                for skip in [false, true] {
                    let op = work.join("recovered.blob");
                    let _ = std::fs::remove_file(&op);
                    let r = recovery_blob(&dp, &op, validate_every, skip);
                    if let Err(e) = r {
                        bad = Some(format!("{}: recovery (skip={}) of {} failed: {}", bname, skip, what, e));
                        break 'outer;
                    }
                    if let Err(e) = validate_blob(&op) {
                        bad = Some(format!("{}: recovered blob (skip={}) of {} does not validate: {}", bname, skip, what, e));
                        break 'outer;
                    }
                    let out = std::fs::read(&op).unwrap_or_default();
                    let got = Self::parse_records(&out);
                    let mut want: Vec<(Vec<u8>, u64, u8, usize)> = recs[..*first_bad].to_vec();
                    if skip && *isolated && first_bad + 1 < recs.len() {
                        match second_bad {
                            None => want.extend_from_slice(&recs[first_bad + 1..]),
                            Some(j) => {
                                want.extend_from_slice(&recs[first_bad + 1..*j]);
                                want.extend_from_slice(&recs[j + 1..]);
                            }
                        }
                    }
                    let prefix_ok = got.len() >= *first_bad && got[..*first_bad] == recs[..*first_bad];
                    if !prefix_ok || (skip && *isolated && got != want) {
                        bad = Some(format!("{}: recovery (skip={}) of {}: {} records out, expected {} (intact before the damage: {})",
                            bname, skip, what, got.len(), want.len(), first_bad));
                        break 'outer;
                    }
                    // the storage must serve every record of the recovered blob with its original bytes
                    let sd = work.join("serve");
                    let _ = std::fs::remove_dir_all(&sd);
                    std::fs::create_dir_all(&sd).unwrap();
                    std::fs::copy(&op, sd.join("t.0.blob")).unwrap();
                    let saved_dir = self.dir.clone();
                    self.dir = sd.clone();
                    let r = self.open(false);
                    if r != "ok" {
                        self.dir = saved_dir;
                        bad = Some(format!("{}: storage cannot open the recovered blob (skip={}) of {}: {}", bname, skip, what, r));
                        break 'outer;
                    }
                    let mut keys: Vec<Vec<u8>> = got.iter().map(|r| r.0.clone()).collect();
                    keys.sort();
                    keys.dedup();
                    let mut serve_bad = None;
                    for k in keys {
                        let o = self.exec(&format!("ram {}", bytes_hex(&k)));
                        let cnt = got.iter().filter(|r| r.0 == k).count();
                        if o.contains("err ") || o.contains(":?") {
                            serve_bad = Some(format!("key {} -> {}", bytes_hex(&k), o));
                            break;
                        }
                        let listed = if o == "list" { 0 } else { o[5..].split(';').count() };
                        let has_del = got.iter().any(|r| r.0 == k && r.2 & 1 == 1);
                        if !has_del && listed != cnt {
                            serve_bad = Some(format!("key {}: {} entries served, {} in the recovered blob", bytes_hex(&k), listed, cnt));
                            break;
                        }
                    }
                    if let Some(st) = self.st.take() {
                        let _ = self.rt.block_on(async { tokio::time::timeout(Duration::from_secs(60), st.close()).await });
                    }
                    self.dir = saved_dir;
                    if let Some(sb) = serve_bad {
                        bad = Some(format!("{}: storage does not serve the recovered blob (skip={}) of {}: {}", bname, skip, what, sb));
                        break 'outer;
                    }
                }
            }
        }
        let _ = std::fs::remove_dir_all(&work);
        self.dir = orig;
        let r = self.open(false);
        if r != "ok" {
            return format!("err reopen {}", r);
        }
        match bad {
            None => format!("sweep ok n={}", n),
            Some(b) => format!("sweep bad {}", b),
        }
    }

    /// `flipsweep <budget> <seed>`: close; alter stored data bytes (single bit, whole byte, bursts up to 32 bits)
    /// in copies of the directory, with the index kept / removed and data validation off / on; reopen and read
    /// everything: altered bytes must never be returned by a successful read
    fn flipsweep(&mut self, toks: &[&str]) -> String {
        let budget: usize = toks.get(1).and_then(|x| x.parse().ok()).unwrap_or(40);
        let mut x: u64 = toks.get(2).and_then(|x| x.parse().ok()).unwrap_or(1) | 1;
        let mut rnd = move || {
            x ^= x << 13;
            x ^= x >> 7;
            x ^= x << 17;
            x
        };
        if let Some(st) = self.st.take() {
            let r = self.rt.block_on(async { tokio::time::timeout(Duration::from_secs(60), st.close()).await });
            if !matches!(r, Ok(Ok(()))) {
                return "err close".into();
            }
        }
        let orig = self.dir.clone();
        let saved_validate = self.cfg.validate;
        let copy = orig.with_file_name(format!("{}-flip", orig.file_name().unwrap().to_string_lossy()));
        let mut blobs: Vec<PathBuf> = std::fs::read_dir(&orig)
            .unwrap()
            .flatten()
            .map(|e| e.path())
            .filter(|p| p.extension().map_or(false, |x| x == "blob"))
            .collect();
        blobs.sort();
        // candidate alterations: (blob path, absolute offset, xor mask bytes)
        let mut cands: Vec<(PathBuf, usize, Vec<u8>)> = Vec::new();
        for bp in &blobs {
            let bytes = std::fs::read(bp).unwrap_or_default();
            for (start, hsz, ms, ds) in Self::parse_blob_full(&bytes) {
                if ds == 0 {
                    continue;
                }
                let d0 = start + hsz + ms;
                let mut positions: Vec<usize> = if ds <= 24 { (0..ds).collect() } else {
                    let mut v = vec![0, 1, ds / 2, ds - 2, ds - 1];
                    for _ in 0..4 { v.push((rnd() as usize) % ds); }
                    v
                };
                positions.dedup();
                for p in positions {
                    let r = rnd();
                    let kind = r % 4;
                    let mask: Vec<u8> = match kind {
                        0 => vec![1u8 << ((r >> 8) % 8)],
                        1 => vec![0xff],
                        2 => vec![((r >> 8) as u8) | 1, (r >> 16) as u8, (r >> 24) as u8, ((r >> 32) as u8) | 0x80],
                        _ => vec![((r >> 8) as u8) | 1, ((r >> 16) as u8) | 1],
                    };
                    let mask: Vec<u8> = mask.into_iter().take(ds - p).collect();
                    cands.push((bp.clone(), d0 + p, mask));
                }
            }
        }
        // deterministic sample of the candidates
        let total = cands.len();
        let mut chosen = Vec::new();
        if total <= budget {
            chosen = cands;
        } else {
            for i in 0..budget {
                let idx = (i * total) / budget;
                chosen.push(cands[idx].clone());
            }
        }
        let mut n = 0usize;
        let mut bad: Option<String> = None;
        'outer: for (ci, (bp, off, mask)) in chosen.iter().enumerate() {
            // 0: index kept, 1: index removed, 2: index removed + validation on, 3: index kept + validation on
            let mode = ci % 4;
            Self::copy_dir(&orig, &copy);
            let target = copy.join(bp.file_name().unwrap());
            let mut bytes = std::fs::read(&target).unwrap();
            for (i, m) in mask.iter().enumerate() {
                bytes[off + i] ^= m;
            }
            std::fs::write(&target, &bytes).unwrap();
            if mode == 1 || mode == 2 {
                let _ = std::fs::remove_file(target.with_extension("index"));
            }
            self.cfg.validate = mode >= 2;
            self.dir = copy.clone();
            n += 1;
            let r = self.open(false);
            if r != "ok" {
                // init may refuse only through quarantine; a failing init is a finding for C06, reported here too
                bad = Some(format!("{} off {} mode {}: init {}", bp.file_name().unwrap().to_string_lossy(), off, mode, r));
                self.dir = orig.clone();
                break 'outer;
            }
            let answers = self.collect_answers();
            if let Some(st) = self.st.take() {
                let _ = self.rt.block_on(async { tokio::time::timeout(Duration::from_secs(60), st.close()).await });
            }
            self.dir = orig.clone();
            for (cmd, out) in &answers {
                if out.contains(":?") {
                    bad = Some(format!("{} off {} mask {:?} mode {}: `{}` served altered bytes: {}",
                        bp.file_name().unwrap().to_string_lossy(), off, mask, mode, cmd, out));
                    break 'outer;
                }
            }
        }
        let _ = std::fs::remove_dir_all(&copy);
        self.dir = orig;
        self.cfg.validate = saved_validate;
        let r = self.open(false);
        if r != "ok" {
            return format!("err reopen {}", r);
        }
        match bad {
            None => format!("sweep ok n={}", n),
            Some(b) => format!("sweep bad {}", b),
        }
    }

    /// `dmgsweep <kinds|lens:<step>|bounds> [lazy]`: close, then for every index file and every damage pattern
    /// reopen a damaged copy of the directory and compare all answers with those before the close
    fn dmgsweep(&mut self, toks: &[&str]) -> String {
        let mode = toks.get(1).copied().unwrap_or("kinds");
        let lazy = toks.get(2).copied() == Some("lazy");
        let before = self.collect_answers();
        if let Some(st) = self.st.take() {
            let r = self.rt.block_on(async { tokio::time::timeout(Duration::from_secs(60), st.close()).await });
            if !matches!(r, Ok(Ok(()))) {
                return "err close".into();
            }
        }
        let orig = self.dir.clone();
        let mut indexes: Vec<(PathBuf, u64)> = Vec::new();
        for e in std::fs::read_dir(&orig).unwrap().flatten() {
            let p = e.path();
            if p.extension().map_or(false, |x| x == "index") {
                indexes.push((p.clone(), e.metadata().map(|m| m.len()).unwrap_or(0)));
            }
        }
        indexes.sort();
        let mut n = 0usize;
        let mut bad: Option<String> = None;
        let copy = orig.with_file_name(format!("{}-dmg", orig.file_name().unwrap().to_string_lossy()));
        'outer: for (ipath, isize) in &indexes {
            let mut kinds: Vec<String> = Vec::new();
            match mode {
                "kinds" => {
                    for k in ["rm", "hdronly", "unwritten", "stale:1", "stale:70", "bigger:1", "cut:1", "trunc:0", "trunc:82", "trunc:84"] {
                        kinds.push(k.to_string());
                    }
                    kinds.push(format!("cut:{}", isize / 2));
                    kinds.push(format!("cut:{}", 61.min(*isize)));
                }
                m if m.starts_with("lens:") => {
                    let step: u64 = m[5..].parse().unwrap_or(1).max(1);
                    let mut l = 0;
                    while l < *isize {
                        kinds.push(format!("trunc:{}", l));
                        l += step;
                    }
                }
                _ => return "bad-op".into(),
            }
            for k in kinds {
                Self::copy_dir(&orig, &copy);
                let target = copy.join(ipath.file_name().unwrap());
                if !Self::damage_index(&target, &k) {
                    continue;
                }
                n += 1;
                self.dir = copy.clone();
                let max_id = Self::max_id_in_dir(&copy);
                let r = self.open(lazy);
                if r != "ok" {
                    bad = Some(format!("{} {}: init {}", ipath.file_name().unwrap().to_string_lossy(), k, r));
                    self.dir = orig.clone();
                    break 'outer;
                }
                let after = self.collect_answers();
                let next = self.st.as_ref().map(|s| s.next_blob_id()).unwrap_or(0);
                if let Some(st) = self.st.take() {
                    let _ = self.rt.block_on(async { tokio::time::timeout(Duration::from_secs(60), st.close()).await });
                }
                self.dir = orig.clone();
                if let Some(m) = max_id {
                    if next <= m {
                        bad = Some(format!("{} {}: next_blob_id {} not above max id {}", ipath.file_name().unwrap().to_string_lossy(), k, next, m));
                        break 'outer;
                    }
                }
                for (b, a) in before.iter().zip(after.iter()) {
                    if b != a {
                        bad = Some(format!("{} {}: `{}` before=[{}] after=[{}]", ipath.file_name().unwrap().to_string_lossy(), k, b.0, b.1, a.1));
                        break 'outer;
                    }
                }
            }
        }
        let _ = std::fs::remove_dir_all(&copy);
        self.dir = orig;
        let r = self.open(lazy);
        if r != "ok" {
            return format!("err reopen {}", r);
        }
        match bad {
            None => format!("sweep ok n={}", n),
            Some(b) => format!("sweep bad {}", b),
        }
    }

    fn key(s: &str) -> Option<ArrayKey<N>> {
        let b = hex_bytes(s)?;
        if b.len() != N {
            return None;
        }
        Some(ArrayKey::<N>::from(b))
    }

    fn show_data(&self, b: &[u8]) -> String {
        if b.is_empty() {
            return "0:0".to_string();
        }
        match self.data.get(b) {
            Some((l, s)) => format!("{}:{}", l, s),
            None => format!("{}:?", b.len()),
        }
    }

    fn exec(&mut self, line: &str) -> String {
        let toks: Vec<&str> = line.split_whitespace().collect();
        if toks.is_empty() {
            return "bad-op".into();
        }
        if (toks[0] == "w" || toks[0] == "d") && toks.len() > 1 {
            self.keys.insert(toks[1].to_lowercase());
        }
        if toks[0] == "snap" {
            return self.snapshot();
        }
        if toks[0] == "fault" && toks.len() >= 5 {
            // fault <create|open|write|sync> <nth> <path pattern> <fail:<errno>|short:<n>> [sticky]
            let kind = match toks[1] {
                "create" => pearl::verif::OpKind::Create,
                "open" => pearl::verif::OpKind::Open,
                "write" => pearl::verif::OpKind::Write,
                "sync" => pearl::verif::OpKind::Sync,
                // `fault taskend <nth> index_dump_task pause:<gate>`: the dump task of the worker stays unfinished
                // (all its work done, locks released) until the gate is released; multi-thread runtime only
                "taskend" => pearl::verif::OpKind::TaskEnd,
                _ => return "bad-op".into(),
            };
            let nth: u64 = toks[2].parse().unwrap_or(0);
            let action = if let Some(e) = toks[4].strip_prefix("fail:") {
                pearl::verif::Action::Fail(e.parse().unwrap_or(5))
            } else if let Some(n) = toks[4].strip_prefix("short:") {
                pearl::verif::Action::Short(n.parse().unwrap_or(0))
            } else if let Some(g) = toks[4].strip_prefix("pause:") {
                // the operation blocks inside its blocking closure until `release <gate>`; a watchdog opens the gate
                // after 8 s so that a script that never releases it cannot hang the run
                let gate: u64 = g.parse().unwrap_or(1);
                std::thread::spawn(move || {
                    std::thread::sleep(Duration::from_secs(8));
                    // (only an operation that is still paused is let go: a release nobody waits for would stay behind
                    // and open the gate of a later scenario of the same process)
                    if pearl::verif::paused_gates().contains(&gate) {
                        pearl::verif::release(gate);
                    }
                });
                pearl::verif::Action::Pause(gate)
            } else {
                return "bad-op".into();
            };
            pearl::verif::arm(pearl::verif::Failpoint {
                kind,
                pattern: toks[3].to_string(),
                nth,
                action,
                sticky: toks.get(5).copied() == Some("sticky"),
            });
            return "ok".into();
        }
        if toks[0] == "releaselater" && toks.len() >= 3 {
            // releaselater <gate> <ms>: open the gate from another thread after <ms> (a stalled file operation)
            let g: u64 = toks[1].parse().unwrap_or(1);
            let ms: u64 = toks[2].parse().unwrap_or(300);
            std::thread::spawn(move || {
                std::thread::sleep(Duration::from_millis(ms));
                pearl::verif::release(g);
            });
            return "ok".into();
        }
        if toks[0] == "release" && toks.len() >= 2 {
            // release <gate>: let the closures paused on the gate go on, and wait until no closure is in flight
            pearl::verif::release(toks[1].parse().unwrap_or(1));
            let st = self.st.take();
            self.rt.block_on(async {
                let deadline = tokio::time::Instant::now() + Duration::from_secs(20);
                while pearl::verif::inflight() != 0 && tokio::time::Instant::now() < deadline {
                    tokio::time::sleep(Duration::from_millis(1)).await;
                }
            });
            self.st = st;
            return "ok".into();
        }
        if toks[0] == "clearfaults" {
            pearl::verif::clear_failpoints();
            return "ok".into();
        }
        if toks[0] == "replayfrom" && toks.len() >= 2 {
            // replace the directory by a committed corpus directory (written by the pinned release) and reopen
            if let Some(st) = self.st.take() {
                let _ = self.rt.block_on(async { tokio::time::timeout(Duration::from_secs(60), st.close()).await });
            }
            let _ = std::fs::remove_dir_all(&self.dir);
            Self::copy_dir(Path::new(toks[1]), &self.dir.clone());
            let mut lazy = false;
            for t in toks.iter().skip(2) {
                if let Some(ids) = t.strip_prefix("rmidx=") {
                    for id in ids.split(',') {
                        let _ = std::fs::remove_file(self.dir.join(format!("t.{}.index", id)));
                    }
                }
                if *t == "lazy" {
                    lazy = true;
                }
            }
            return self.open(lazy);
        }
        if toks[0] == "dmgsweep" {
            return self.dmgsweep(&toks);
        }
        if toks[0] == "flipsweep" {
            return self.flipsweep(&toks);
        }
        if toks[0] == "toolsweep" {
            return self.toolsweep(&toks);
        }
        if toks[0] == "crashsweep" {
            return self.crashsweep(&toks);
        }
        if toks[0] == "metasweep" {
            return self.metasweep(&toks);
        }
        if toks[0] == "offfault" {
            return self.offfault(&toks);
        }
        if toks[0] == "conc" {
            return self.conc(&toks);
        }
        if toks[0] == "race2" && toks.len() >= 7 {
            return self.race2(&toks);
        }
        if toks[0] == "closerace" && toks.len() >= 6 {
            return self.closerace(&toks);
        }
        if toks[0] == "killcheck" && toks.len() >= 2 {
            return self.killcheck(toks[1]);
        }
        if toks[0] == "restart" || toks[0] == "close" {
            let lazy = toks.iter().skip(1).any(|t| *t == "lazy");
            if let Some(st) = self.st.take() {
                let r = self.rt.block_on(async { tokio::time::timeout(Duration::from_secs(60), st.close()).await });
                match r {
                    Err(_) => {
                        self.dead = Some("CloseTimeout".into());
                        return "err CloseTimeout".into();
                    }
                    Ok(Err(e)) => return format!("err close/{}", err_kind(&e)),
                    Ok(Ok(())) => {}
                }
            } else if toks[0] == "close" {
                return "err NoStorage".into();
            }
            if toks[0] == "close" {
                return "ok".into();
            }
            if toks.iter().any(|t| *t == "noidx") {
                if let Ok(rd) = std::fs::read_dir(&self.dir) {
                    for e in rd.flatten() {
                        if e.path().extension().map_or(false, |x| x == "index") {
                            let _ = std::fs::remove_file(e.path());
                        }
                    }
                }
            }
            for t in toks.iter().skip(1) {
                if let Some(spec) = t.strip_prefix("bloom=") {
                    // the next session uses another bloom configuration (e.g. another number of hashers)
                    let p: Vec<usize> = spec.split(',').filter_map(|x| x.parse().ok()).collect();
                    self.cfg.bloom = if p.len() == 3 { Some((p[0], p[1], p[2])) } else { None };
                }
                if let Some(spec) = t.strip_prefix("bdmg=") {
                    for one in spec.split(',') {
                        self.damage_blob(one);
                    }
                }
                if let Some(spec) = t.strip_prefix("idmg=") {
                    for one in spec.split(',') {
                        if let Some((id, kind)) = one.split_once(':') {
                            Self::damage_index(&self.dir.join(format!("t.{}.index", id)), kind);
                        }
                    }
                }
            }
            return self.open(lazy);
        }
        if toks[0] == "open" {
            if self.st.is_some() {
                return "err AlreadyOpen".into();
            }
            let lazy = toks.iter().skip(1).any(|t| *t == "lazy");
            return self.open(lazy);
        }
        if toks[0] == "wait" {
            let ms: u64 = toks.get(1).and_then(|x| x.parse().ok()).unwrap_or(0);
            std::thread::sleep(Duration::from_millis(ms));
            return "ok".into();
        }
        if toks[0] == "cancel" && toks.len() >= 3 {
            // cancel <k> <op...>: poll the operation future k times, then drop it; detached blocking closures finish
            let k: usize = toks[1].parse().unwrap_or(1);
            let until_paused = toks[1] == "p";
            let inner: Vec<String> = toks[2..].iter().map(|x| x.to_string()).collect();
            let mut st = match self.st.take() {
                Some(s) => s,
                None => return "err NoStorage".into(),
            };
            let dir = self.dir.clone();
            let mut data_tab = std::mem::take(&mut self.data);
            let res = self.rt.block_on(async {
                let toks2: Vec<&str> = inner.iter().map(|x| x.as_str()).collect();
                let fut = Self::exec_async(&mut st, &dir, &toks2, &mut data_tab);
                if until_paused {
                    // `cancel p <op>`: drive the operation until one of its blocking closures waits at a `pause`
                    // failpoint, then drop the future while that closure is still in flight
                    // safety net: an operation that blocks in place (multi-thread runtime, small record) cannot be
                    // dropped while it is paused; its gate opens by itself after 0.7 s
                    std::thread::spawn(|| {
                        std::thread::sleep(Duration::from_millis(700));
                        for g in pearl::verif::paused_gates() {
                            pearl::verif::release(g);
                        }
                    });
                    let mut fut = Box::pin(fut);
                    let deadline = tokio::time::Instant::now() + Duration::from_secs(20);
                    let out = loop {
                        tokio::select! {
                            biased;
                            o = &mut fut => break Some(o),
                            _ = tokio::time::sleep(Duration::from_millis(2)) => {
                                if !pearl::verif::paused_gates().is_empty() || tokio::time::Instant::now() > deadline {
                                    break None;
                                }
                            }
                        }
                    };
                    drop(fut);
                    return Ok((out, 0usize));
                }
                let r = tokio::time::timeout(Duration::from_secs(60), PollN { fut: Some(Box::pin(fut)), left: k, polls: 0 }).await;
                r
            });
            // wait for closures that were already started (they are not cancelled with the future)
            if !until_paused {
              self.rt.block_on(async {
                let deadline = tokio::time::Instant::now() + Duration::from_secs(20);
                while pearl::verif::inflight() != 0 && tokio::time::Instant::now() < deadline {
                    tokio::time::sleep(Duration::from_millis(1)).await;
                }
                Self::quiesce(&st).await;
              });
            }
            self.data = data_tab;
            self.st = Some(st);
            return match res {
                Err(_) => {
                    self.dead = Some("StepTimeout".into());
                    "err StepTimeout".into()
                }
                Ok((Some(out), polls)) => format!("{} polls={}", out, polls),
                Ok((None, polls)) => format!("cancelled polls={}", polls),
            };
        }
        let mut st = match self.st.take() {
            Some(s) => s,
            None => return "err NoStorage".into(),
        };
        let dir = self.dir.clone();
        let data_tab = std::mem::take(&mut self.data);
        let mut data_tab = data_tab;
        let res: Result<String, tokio::time::error::Elapsed> = self.rt.block_on(async {
            tokio::time::timeout(Duration::from_secs(60), Self::exec_async(&mut st, &dir, &toks, &mut data_tab)).await
        });
        self.data = data_tab;
        self.st = Some(st);
        match res {
            Ok(s) => {
                if let Some(rest) = s.strip_prefix("found-bytes ") {
                    // resolved here because show_data needs &self
                    let b = hex_bytes(rest).unwrap_or_default();
                    return format!("found {}", self.show_data(&b));
                }
                s
            }
            Err(_) => {
                self.dead = Some("StepTimeout".into());
                "err StepTimeout".into()
            }
        }
    }

    async fn exec_async(
        st: &mut Storage<ArrayKey<N>>,
        dir: &Path,
        toks: &[&str],
        data: &mut HashMap<Vec<u8>, (usize, u64)>,
    ) -> String {
        let show_data = |data: &HashMap<Vec<u8>, (usize, u64)>, b: &[u8]| -> String {
            if b.is_empty() {
                return "0:0".to_string();
            }
            match data.get(b) {
                Some((l, s)) => format!("{}:{}", l, s),
                None => {
                    // data written in another session (corpus directories): recognise the generator's output
                    let seed = b[0] as u64;
                    if gen_data(b.len(), seed) == b {
                        format!("{}:{}", b.len(), seed)
                    } else {
                        format!("{}:?", b.len())
                    }
                }
            }
        };
        match toks[0] {
            "w" if toks.len() == 6 || (toks.len() == 7 && toks[6] == "@nodrain") => {
                let (k, ts, m, len, seed) = match (
                    Self::key(toks[1]),
                    toks[2].parse::<u64>().ok(),
                    parse_meta(toks[3]),
                    toks[4].parse::<usize>().ok(),
                    toks[5].parse::<u64>().ok(),
                ) {
                    (Some(k), Some(ts), Some(m), Some(l), Some(s)) => (k, ts, m, l, s),
                    _ => return "bad-op".into(),
                };
                let bytes = gen_data(len, seed);
                data.entry(bytes.clone()).or_insert((len, seed));
                let ts = BlobRecordTimestamp::new(ts);
                let before = Self::active_id(st).await;
                let r = match m {
                    None => st.write(&k, Bytes::from(bytes), ts).await,
                    Some(m) => st.write_with(&k, Bytes::from(bytes), ts, m).await,
                };
                if toks.len() == 6 {
                    Self::drain(st).await;      // `@nodrain`: the requests this write sent stay queued / in progress
                }
                let after = Self::active_id(st).await;
                let sw = if before.is_some() && after != before { " switched" } else { "" };
                match r {
                    Ok(()) => format!("ok{}", sw),
                    Err(e) => format!("err {}{}", err_kind(&e), sw),
                }
            }
            "d" if toks.len() == 5 => {
                let (k, ts, m, oip) = match (
                    Self::key(toks[1]),
                    toks[2].parse::<u64>().ok(),
                    parse_meta(toks[3]),
                    toks[4].parse::<u64>().ok(),
                ) {
                    (Some(k), Some(ts), Some(m), Some(o)) => (k, ts, m, o != 0),
                    _ => return "bad-op".into(),
                };
                let ts = BlobRecordTimestamp::new(ts);
                let r = match m {
                    None => st.delete(&k, ts, oip).await,
                    Some(m) => st.delete_with(&k, ts, m, oip).await,
                };
                match r {
                    Ok(n) => format!("n={}", n),
                    Err(e) => format!("err {}", err_kind(&e)),
                }
            }
            "r" | "rw" => {
                let k = match Self::key(toks[1]) {
                    Some(k) => k,
                    None => return "bad-op".into(),
                };
                let r = if toks[0] == "r" {
                    st.read(&k).await
                } else {
                    match parse_meta(toks.get(2).copied().unwrap_or("?")) {
                        Some(Some(m)) => st.read_with(&k, &m).await,
                        _ => return "bad-op".into(),
                    }
                };
                match r {
                    Ok(ReadResult::Found(b)) => format!("found {}", show_data(data, &b)),
                    Ok(ReadResult::Deleted(ts)) => format!("deleted {}", Into::<u64>::into(ts)),
                    Ok(ReadResult::NotFound) => "notfound".into(),
                    Err(e) => format!("err {}", err_kind(&e)),
                }
            }
            "gfc" => {
                // merged filter of the whole storage (`BloomProvider::get_filter`) probed for one key
                use pearl::filter::FilterTrait;
                use pearl::BloomProvider;
                let k = match Self::key(toks[1]) {
                    Some(k) => k,
                    None => return "bad-op".into(),
                };
                match st.get_filter().await {
                    None => "none".into(),
                    Some(f) => match f.contains_fast(&k) {
                        pearl::FilterResult::NeedAdditionalCheck => "maybe".into(),
                        pearl::FilterResult::NotContains => "no".into(),
                    },
                }
            }
            "cf" | "cfs" => {
                let k = match Self::key(toks[1]) {
                    Some(k) => k,
                    None => return "bad-op".into(),
                };
                if toks[0] == "cf" {
                    match st.check_filters(&k).await {
                        Some(true) => "some true".into(),
                        Some(false) => "some false".into(),
                        None => "none".into(),
                    }
                } else {
                    use pearl::BloomProvider;
                    match st.check_filter(&k).await {
                        pearl::FilterResult::NeedAdditionalCheck => "maybe".into(),
                        pearl::FilterResult::NotContains => "no".into(),
                    }
                }
            }
            "c" => {
                let k = match Self::key(toks[1]) {
                    Some(k) => k,
                    None => return "bad-op".into(),
                };
                match st.contains(&k).await {
                    Ok(ReadResult::Found(ts)) => format!("found {}", Into::<u64>::into(ts)),
                    Ok(ReadResult::Deleted(ts)) => format!("deleted {}", Into::<u64>::into(ts)),
                    Ok(ReadResult::NotFound) => "notfound".into(),
                    Err(e) => format!("err {}", err_kind(&e)),
                }
            }
            "ra" | "ram" => {
                let k = match Self::key(toks[1]) {
                    Some(k) => k,
                    None => return "bad-op".into(),
                };
                let r = if toks[0] == "ra" {
                    st.read_all(&k).await
                } else {
                    st.read_all_with_deletion_marker(&k).await
                };
                match r {
                    Err(e) => format!("err {}", err_kind(&e)),
                    Ok(entries) => {
                        let mut parts = Vec::new();
                        for e in entries {
                            let ts: u64 = e.timestamp().into();
                            let del = e.is_deleted();
                            match e.load().await {
                                Ok(rec) => {
                                    let m = show_meta(rec.meta());
                                    let d = rec.into_data();
                                    parts.push(format!("{},{},{},{}", ts, if del { 1 } else { 0 }, m, show_data(data, &d)));
                                }
                                Err(err) => parts.push(format!("{},{},err {}", ts, if del { 1 } else { 0 }, err_kind(&err))),
                            }
                        }
                        if parts.is_empty() { "list".to_string() } else { format!("list {}", parts.join(";")) }
                    }
                }
            }
            "close_active" => match st.try_close_active_blob().await {
                Ok(()) => "ok".into(),
                Err(e) => format!("err {}", err_kind(&e)),
            },
            "create_active" => match st.try_create_active_blob().await {
                Ok(()) => "ok".into(),
                Err(e) => format!("err {}", err_kind(&e)),
            },
            "restore_active" => match st.try_restore_active_blob().await {
                Ok(()) => "ok".into(),
                Err(e) => format!("err {}", err_kind(&e)),
            },
            "close_active_bg" => {
                st.close_active_blob_in_background().await;
                // `@nodrain`: return at once, the request stays queued for the worker
                if !toks.contains(&"@nodrain") {
                    Self::drain(st).await;
                }
                "ok".into()
            }
            "create_active_bg" => {
                st.create_active_blob_in_background().await;
                // `@nodrain`: return at once, the request stays queued for the worker
                if !toks.contains(&"@nodrain") {
                    Self::drain(st).await;
                }
                "ok".into()
            }
            "restore_active_bg" => {
                st.restore_active_blob_in_background().await;
                // `@nodrain`: return at once, the request stays queued for the worker
                if !toks.contains(&"@nodrain") {
                    Self::drain(st).await;
                }
                "ok".into()
            }
            "force" => {
                match toks.get(1).copied() {
                    Some("always") => st.force_update_active_blob(|_| true).await,
                    Some("never") => st.force_update_active_blob(|_| false).await,
                    Some("nonempty") => st.force_update_active_blob(|s| s.map_or(false, |s| s.records_count > 0)).await,
                    Some("ge3") => st.force_update_active_blob(|s| s.map_or(false, |s| s.records_count >= 3)).await,
                    // predicates that keep the worker busy for a while and then refuse the update (a `fn` pointer cannot
                    // capture the duration)
                    Some("slow:900") => st.force_update_active_blob(|_| { std::thread::sleep(Duration::from_millis(900)); false }).await,
                    Some("slow:1300") => st.force_update_active_blob(|_| { std::thread::sleep(Duration::from_millis(1300)); false }).await,
                    // "arbitrary predicates": one that panics (it runs inside the worker task)
                    Some("panic") => st.force_update_active_blob(|_| panic!("force_update_active_blob predicate panicked")).await,
                    _ => return "bad-op".into(),
                };
                if !toks.contains(&"@nodrain") {
                    Self::drain(st).await;
                }
                "ok".into()
            }
            "flood" => {
                // flood <n>: n dump requests sent back to back (they are no-ops for the data), no waiting for the worker
                let n: usize = toks.get(1).and_then(|x| x.parse().ok()).unwrap_or(1024);
                for _ in 0..n {
                    let _ = tokio::time::timeout(Duration::from_secs(30), st.free_excess_resources()).await;
                }
                "ok".into()
            }
            "free" => {
                // `free`: one dump request, served by the worker.  A request that finds the task of an earlier pass
                // not yet reported as finished is deferred by the worker (by the configured interval, an hour by
                // default); the step stands for "a pass was started by the request", so it asks again until the
                // worker did start one (at most 5 s; `@once`: exactly one request, whatever becomes of it)
                let t_end = tokio::time::Instant::now() + Duration::from_secs(5);
                loop {
                    let refused = pearl::verif::dump_requests_refused();
                    let _ = st.free_excess_resources().await;
                    if toks.contains(&"@nodrain") {
                        break;
                    }
                    Self::drain(st).await;
                    if toks.contains(&"@once") || pearl::verif::dump_requests_refused() == refused
                        || tokio::time::Instant::now() > t_end {
                        break;
                    }
                    tokio::time::sleep(Duration::from_millis(2)).await;
                }
                "ok".into()
            }
            "offload" => {
                use pearl::BloomProvider;
                let mem: usize = toks.get(1).and_then(|x| x.parse().ok()).unwrap_or(usize::MAX);
                let lvl: usize = toks.get(2).and_then(|x| x.parse().ok()).unwrap_or(0);
                let _ = st.offload_buffer(mem, lvl).await;
                "ok".into()
            }
            "fsync" => match st.fsyncdata().await {
                Ok(()) => "ok".into(),
                Err(e) => format!("err IO/{:?}", e.kind()),
            },
            "alive" => {
                Self::drain(st).await;
                if st.verif_worker_alive() { "alive".into() } else { "dead".into() }
            }
            "indexsum" => {
                let states = st.verif_blob_states().await;
                let mut s = String::from("#indexsum");
                for b in states {
                    if !b.index_on_disk {
                        continue;
                    }
                    let p = dir.join(format!("t.{}.index", b.id));
                    let mut bytes = std::fs::read(&p).unwrap_or_default();
                    if bytes.len() < 83 {
                        s.push_str(&format!(" {}:short", b.id));
                        continue;
                    }
                    let mut m = [0u8; 8];
                    m.copy_from_slice(&bytes[24..32]);
                    let ml = u64::from_le_bytes(m) as usize;
                    for x in bytes[40..72].iter_mut() {
                        *x = 0;
                    }
                    let end = (83 + ml).min(bytes.len());
                    for x in bytes[83..end].iter_mut() {
                        *x = 0;
                    }
                    let crc = crc::Crc::<u32>::new(&crc::CRC_32_ISCSI).checksum(&bytes);
                    s.push_str(&format!(" {}:{}:{}:{}", b.id, bytes.len(), ml, crc));
                }
                s
            }
            "blobsum" => {
                let states = st.verif_blob_states().await;
                let mut s = String::from("#blobsum");
                for b in states {
                    let p = dir.join(format!("t.{}.blob", b.id));
                    let bytes = std::fs::read(&p).unwrap_or_default();
                    let crc = crc::Crc::<u32>::new(&crc::CRC_32_ISCSI).checksum(&bytes);
                    s.push_str(&format!(" {}:{}:{}", b.id, bytes.len(), crc));
                }
                s
            }
            "corrupted" => format!("n={}", st.corrupted_blobs_count()),
            "corruptedx" => {
                // quarantined blobs, and how many of them never held a complete blob header (a blob creation that was
                // interrupted between creating the file and writing its header)
                let mut short = 0;
                if let Ok(rd) = std::fs::read_dir(dir.join("corrupted")) {
                    for e in rd.flatten() {
                        if e.path().extension().map_or(false, |x| x == "blob") && e.metadata().map(|m| m.len()).unwrap_or(0) < 20 {
                            short += 1;
                        }
                    }
                }
                format!("n={} short={}", st.corrupted_blobs_count(), short)
            }
            "settle" => Self::settle(st).await,
            "dumpstat" => {
                // dump requests refused so far in this process (a dump task was running) and the gates on which something is paused
                Self::drain(st).await;
                format!("#dumpstat refused={} paused={:?}", pearl::verif::dump_requests_refused(), pearl::verif::paused_gates()).replace(' ', "").replace("#dumpstat", "#dumpstat ")
            }
            "quiesce" => {
                Self::quiesce(st).await;
                "ok".into()
            }
            "trace" => {
                Self::quiesce(st).await;
                let evs = pearl::verif::take_events();
                let mut parts = Vec::new();
                for e in evs {
                    let name = e.path.file_name().map(|x| x.to_string_lossy().to_string()).unwrap_or_default();
                    let f: Vec<&str> = name.split('.').collect();
                    let in_corrupted = e.path.parent().and_then(|p| p.file_name()).map_or(false, |d| d == "corrupted");
                    let class = if f.len() == 3 && f[2] == "blob" {
                        format!("{}b{}", if in_corrupted { "x" } else { "" }, f[1])
                    } else if f.len() == 3 && f[2] == "index" {
                        format!("i{}", f[1])
                    } else {
                        "o".to_string()
                    };
                    let inj = e.injected.map(|x| format!("!{}", x)).unwrap_or_default();
                    let is_index = class.starts_with('i');
                    let item = match e.kind {
                        pearl::verif::OpKind::Create => format!("C{}{}", class, inj),
                        pearl::verif::OpKind::Open => format!("O{}{}", class, inj),
                        pearl::verif::OpKind::Sync => {
                            if is_index { format!("S{}{}", class, inj) } else { format!("S{}:{}{}", class, e.len, inj) }
                        }
                        pearl::verif::OpKind::Write => {
                            if is_index {
                                if e.offset == 0 && e.len == 83 {
                                    let (bs, wr) = match &e.data {
                                        Some(d) if d.len() == 83 => {
                                            let mut b = [0u8; 8];
                                            b.copy_from_slice(&d[75..83]);
                                            (u64::from_le_bytes(b).to_string(), (d[72] & 1).to_string())
                                        }
                                        _ => ("?".into(), "?".into()),
                                    };
                                    format!("W{}:hdr:bs={}:w={}{}", class, bs, wr, inj)
                                } else {
                                    format!("W{}:{}:*{}", class, e.offset, inj)
                                }
                            } else {
                                format!("W{}:{}:{}{}", class, e.offset, e.len, inj)
                            }
                        }
                        pearl::verif::OpKind::TaskEnd => continue,   // (never recorded)
                    };
                    let id: u64 = if f.len() == 3 { f[1].parse().unwrap_or(u64::MAX) } else { u64::MAX };
                    let open_key = if matches!(e.kind, pearl::verif::OpKind::Open) { Some((id, is_index)) } else { None };
                    parts.push((item, open_key));
                }
                // `read_blobs` opens the blob files in `read_dir` order, which depends on the file system:
                // print every maximal run of open events in canonical order (by blob id, blob before index)
                let mut i = 0;
                while i < parts.len() {
                    if parts[i].1.is_some() {
                        let mut j = i;
                        while j < parts.len() && parts[j].1.is_some() {
                            j += 1;
                        }
                        parts[i..j].sort_by_key(|p| p.1);
                        i = j;
                    } else {
                        i += 1;
                    }
                }
                let parts: Vec<String> = parts.into_iter().map(|p| p.0).collect();
                format!("#trace {}", parts.join(" "))
            }
            "dirty" => {
                Self::quiesce(st).await;
                let states = st.verif_blob_states().await;
                match states.iter().find(|b| b.active) {
                    Some(b) => format!("dirty {}", b.dirty),
                    None => "dirty -".into(),
                }
            }
            "fstates" => {
                Self::quiesce(st).await;
                let states = st.verif_blob_states().await;
                let mut s = String::from("#fstates");
                for b in states {
                    s.push_str(&format!(" {}:{}:{}:{}", b.id, if b.active { "a" } else { "c" }, b.file_size, b.dirty));
                }
                s
            }
            "states" => {
                let states = st.verif_blob_states().await;
                let mut s = String::from("#states");
                for b in states {
                    s.push_str(&format!(" {}:{}:{}", b.id, if b.active { "a" } else { "c" }, b.records));
                }
                s
            }
            "res" => {
                let states = st.verif_blob_states().await;
                let mut s = String::from("#res");
                for b in states {
                    s.push_str(&format!(" {}:{}", b.id, if b.index_on_disk { "d" } else { "m" }));
                }
                s
            }
            "fcounts" => {
                // the counters against the directory: blob files of the work dir and of the corrupted dir, and the
                // sizes of the files of the blobs the storage holds
                Self::quiesce(st).await;
                let states = st.verif_blob_states().await;
                let ids: std::collections::BTreeSet<usize> = states.iter().map(|b| b.id).collect();
                let mut files = 0usize;
                let mut known = 0usize;
                let mut maxfile: Option<usize> = None;
                let mut dirsum = 0u64;
                if let Ok(rd) = std::fs::read_dir(dir) {
                    for e in rd.flatten() {
                        let name = e.file_name().to_string_lossy().to_string();
                        let f: Vec<&str> = name.split('.').collect();
                        if f.len() != 3 {
                            continue;
                        }
                        let id = match f[1].parse::<usize>() { Ok(i) => i, Err(_) => continue };
                        let len = e.metadata().map(|m| m.len()).unwrap_or(0);
                        if f[2] == "blob" {
                            files += 1;
                            maxfile = maxfile.max(Some(id));
                            if ids.contains(&id) {
                                known += 1;
                                dirsum += len;
                            }
                        } else if f[2] == "index" && ids.contains(&id) {
                            dirsum += len;
                        }
                    }
                }
                let mut corrfiles = 0usize;
                let mut both = 0usize;
                let work_ids: std::collections::BTreeSet<usize> = std::fs::read_dir(dir).map(|rd| rd.flatten().filter_map(|e| {
                    let name = e.file_name().to_string_lossy().to_string();
                    let f: Vec<&str> = name.split('.').collect();
                    if f.len() == 3 && f[2] == "blob" { f[1].parse::<usize>().ok() } else { None }
                }).collect()).unwrap_or_default();
                if let Ok(rd) = std::fs::read_dir(dir.join("corrupted")) {
                    for e in rd.flatten() {
                        let name = e.file_name().to_string_lossy().to_string();
                        let f: Vec<&str> = name.split('.').collect();
                        if f.len() == 3 && f[2] == "blob" {
                            corrfiles += 1;
                            if let Ok(id) = f[1].parse::<usize>() {
                                maxfile = maxfile.max(Some(id));
                                if work_ids.contains(&id) {
                                    both += 1;
                                }
                            }
                        }
                    }
                }
                format!(
                    "fcounts blobs={} held={} files={} known={} next={} maxfile={} corr={} corrfiles={} both={} disk={} dirsum={}",
                    st.blobs_count().await,
                    ids.len(),
                    files,
                    known,
                    st.next_blob_id(),
                    maxfile.map(|x| x.to_string()).unwrap_or("-".into()),
                    st.corrupted_blobs_count(),
                    corrfiles,
                    both,
                    st.disk_used().await,
                    dirsum
                )
            }
            "counts" => {
                let rc = st.records_count().await;
                let det = st.records_count_detailed().await;
                let act = st.records_count_in_active_blob().await;
                let blobs = st.blobs_count().await;
                let next = st.next_blob_id();
                format!(
                    "counts rc={} det={} act={} blobs={} next={}",
                    rc,
                    det.iter().map(|(_, c)| c.to_string()).collect::<Vec<_>>().join(","),
                    act.map(|x| x.to_string()).unwrap_or("-".into()),
                    blobs,
                    next
                )
            }
            _ => "bad-op".into(),
        }
    }

    async fn active_id(st: &Storage<ArrayKey<N>>) -> Option<usize> {
        st.verif_blob_states().await.iter().find(|b| b.active).map(|b| b.id)
    }

    /// wait until the worker has processed every message sent so far (or died)
    async fn drain(st: &Storage<ArrayKey<N>>) {
        let deadline = tokio::time::Instant::now() + Duration::from_secs(20);
        loop {
            if pearl::verif::msgs_done() >= pearl::verif::msgs_sent() || !st.verif_worker_alive() {
                return;
            }
            if tokio::time::Instant::now() > deadline {
                return;
            }
            tokio::time::sleep(Duration::from_millis(1)).await;
        }
    }

    /// wait until the worker queue is drained and no blocking I/O closure is running
    async fn quiesce(st: &Storage<ArrayKey<N>>) {
        let deadline = tokio::time::Instant::now() + Duration::from_secs(20);
        let mut calm = 0;
        loop {
            Self::drain(st).await;
            if pearl::verif::inflight() == 0 {
                calm += 1;
                if calm >= 3 {
                    return;
                }
            } else {
                calm = 0;
            }
            if tokio::time::Instant::now() > deadline {
                return;
            }
            tokio::time::sleep(Duration::from_millis(2)).await;
        }
    }

    /// quiescence: ask for index dumps and wait until every closed non-empty blob has its index on disk
    /// and no blocking I/O closure is running
    async fn settle(st: &Storage<ArrayKey<N>>) -> String {
        let deadline = tokio::time::Instant::now() + Duration::from_secs(30);
        let mut asked = tokio::time::Instant::now() - Duration::from_secs(10);
        loop {
            let states = st.verif_blob_states().await;
            let pending = states.iter().any(|b| !b.active && b.records > 0 && !b.index_on_disk);
            if !pending && pearl::verif::inflight() == 0 {
                return "ok".into();
            }
            if !st.verif_worker_alive() {
                return "err WorkerDead".into();
            }
            if tokio::time::Instant::now() > deadline {
                return "err SettleTimeout".into();
            }
            if pending && asked.elapsed() > Duration::from_millis(500) {
                st.free_excess_resources().await;
                asked = tokio::time::Instant::now();
            }
            tokio::time::sleep(Duration::from_millis(2)).await;
        }
    }
}

impl<const N: usize> Scen for ScenN<N> {
    fn step(&mut self, line: &str) -> String {
        if let Some(d) = &self.dead {
            return format!("skipped {}", d);
        }
        let r = std::panic::catch_unwind(AssertUnwindSafe(|| self.exec(line)));
        match r {
            Ok(s) => s,
            Err(p) => {
                let msg = if let Some(s) = p.downcast_ref::<String>() {
                    s.clone()
                } else if let Some(s) = p.downcast_ref::<&str>() {
                    s.to_string()
                } else {
                    "?".into()
                };
                self.dead = Some("panic".into());
                format!("panic {}", msg.replace('\n', " "))
            }
        }
    }

    fn finish(&mut self, keep: bool) {
        if let Some(st) = self.st.take() {
            if self.dead.is_none() {
                let _ = self.rt.block_on(async { tokio::time::timeout(Duration::from_secs(30), st.close()).await });
            } else {
                std::mem::forget(st);
            }
        }
        if !keep {
            let _ = std::fs::remove_dir_all(&self.dir);
        }
    }
}

fn new_scen(cfg: Cfg, dir: PathBuf) -> Option<Box<dyn Scen>> {
    macro_rules! mk {
        ($($n:literal),*) => {
            match cfg.key {
                $($n => {
                    let lazy = cfg.lazy;
                    if let Some(from) = cfg.from.clone() {
                        ScenN::<$n>::copy_dir(Path::new(&from), &dir);
                        for id in &cfg.rmidx {
                            let _ = std::fs::remove_file(dir.join(format!("t.{}.index", id)));
                        }
                        match cfg.patch.as_deref() {
                            Some("blobver") => {
                                // format version field of the first blob header (bytes 8..12)
                                let p = dir.join("t.0.blob");
                                if let Ok(mut b) = std::fs::read(&p) {
                                    if b.len() >= 12 { b[8] = b[8].wrapping_add(1); }
                                    let _ = std::fs::write(&p, b);
                                }
                            }
                            Some("idxver") => {
                                // version byte of every index header (byte 72 = version << 1 | written)
                                if let Ok(rd) = std::fs::read_dir(&dir) {
                                    for e in rd.flatten() {
                                        let p = e.path();
                                        if p.extension().map_or(false, |x| x == "index") {
                                            if let Ok(mut b) = std::fs::read(&p) {
                                                if b.len() > 72 { b[72] = b[72].wrapping_add(2); }
                                                let _ = std::fs::write(&p, b);
                                            }
                                        }
                                    }
                                }
                            }
                            _ => {}
                        }
                    }
                    let mut s = ScenN::<$n>::new(cfg, dir);
                    let r = s.open(lazy);
                    if r != "ok" { eprintln!("init failed: {}", r); s.dead = Some(r); }
                    Some(Box::new(s) as Box<dyn Scen>)
                })*
                _ => None,
            }
        };
    }
    mk!(1, 4, 7, 8, 33, 128, 503, 1000)
}

pub fn run_lines(lines: &[String], base: &Path, keep: bool, out: &mut dyn FnMut(&str)) {
    let mut cur: Option<Box<dyn Scen>> = None;
    let mut bloom = crate::bloomproto::BloomProto::default();
    let mut n = 0usize;
    let pid = std::process::id();
    for line in lines {
        let t = line.trim();
        if t.is_empty() || t.starts_with('#') {
            continue;
        }
        let toks: Vec<&str> = t.split_whitespace().collect();
        if toks[0] == "bloom" || toks[0] == "bloom2" {
            out(&bloom.step(&toks));
            continue;
        }
        if toks[0] == "cfg" {
            bloom = crate::bloomproto::BloomProto::default();
            if let Some(mut s) = cur.take() {
                s.finish(keep);
            }
            pearl::verif::clear_failpoints();
            // (gate releases left over from the previous scenario must not open a gate of this one)
            pearl::verif::reset_gates();
            let _ = pearl::verif::take_events();
            let cfg = Cfg::parse(&toks[1..]);
            let dir = base.join(format!("pearl-verif-{}-{}", pid, n));
            n += 1;
            let _ = std::fs::remove_dir_all(&dir);
            std::fs::create_dir_all(&dir).unwrap();
            cur = new_scen(cfg, dir);
            out(if cur.is_some() { "ok" } else { "bad-op" });
            continue;
        }
        match cur.as_mut() {
            Some(s) => {
                let o = s.step(t);
                out(&o);
            }
            None => out("bad-op"),
        }
    }
    if let Some(mut s) = cur.take() {
        s.finish(keep);
    }
}
