//! pvh: drives the real pearl library from a scenario script and prints one canonical observation
//! line per script line (DESIGN.md appendix B).  Built with `--cfg pearl_verif`.

mod bloomproto;
mod exec;
mod util;

use std::io::{BufRead, Write};

fn main() {
    let args: Vec<String> = std::env::args().collect();
    if args.len() < 2 {
        eprintln!("usage: pvh run [script|-] [--dir <base>] [--keep]");
        std::process::exit(2);
    }
    match args[1].as_str() {
        "run" => {
            let mut path = "-".to_string();
            let mut base = std::env::temp_dir();
            let mut keep = false;
            let mut i = 2;
            while i < args.len() {
                match args[i].as_str() {
                    "--dir" => {
                        base = args[i + 1].clone().into();
                        i += 1;
                    }
                    "--keep" => keep = true,
                    p => path = p.to_string(),
                }
                i += 1;
            }
            let lines: Vec<String> = if path == "-" {
                std::io::stdin().lock().lines().map(|l| l.unwrap()).collect()
            } else {
                std::fs::read_to_string(&path)
                    .expect("read script")
                    .lines()
                    .map(|s| s.to_string())
                    .collect()
            };
            let out = std::io::stdout();
            let mut out = out.lock();
            exec::run_lines(&lines, &base, keep, &mut |s: &str| {
                writeln!(out, "{}", s).unwrap();
                out.flush().unwrap();
            });
        }
        other => {
            eprintln!("unknown command {}", other);
            std::process::exit(2);
        }
    }
}
