use std::collections::HashMap;

pub fn hex_bytes(s: &str) -> Option<Vec<u8>> {
    if s.len() % 2 != 0 {
        return None;
    }
    let b = s.as_bytes();
    let mut out = Vec::with_capacity(s.len() / 2);
    for i in (0..b.len()).step_by(2) {
        let h = (b[i] as char).to_digit(16)?;
        let l = (b[i + 1] as char).to_digit(16)?;
        out.push((h * 16 + l) as u8);
    }
    Some(out)
}

pub fn bytes_hex(b: &[u8]) -> String {
    let mut s = String::with_capacity(b.len() * 2);
    for x in b {
        s.push_str(&format!("{:02x}", x));
    }
    s
}

/// data generator shared with the model.
/// Ordinary seeds: byte 0 = seed & 0xff, then a xorshift64 stream (`gen_data_plain`).
/// Seeds 240..=249 with `len >= 8`: `gen_data_plain(len - 4, seed)` followed by the 4 bytes that make the
/// CRC-32C of the whole payload equal to 0 (`crc_force`).
pub fn gen_data(len: usize, seed: u64) -> Vec<u8> {
    if (240..=249).contains(&seed) && len >= 8 {
        let mut v = gen_data_plain(len - 4, seed);
        let tail = crc_force(&v);
        v.extend_from_slice(&tail);
        v
    } else {
        gen_data_plain(len, seed)
    }
}

/// CRC-32C (reflected polynomial 0x82F63B78) byte table: entry `i` = 8 register steps from `i`
fn crc32c_table() -> [u32; 256] {
    let mut t = [0u32; 256];
    for (i, e) in t.iter_mut().enumerate() {
        let mut s = i as u32;
        for _ in 0..8 {
            s = (s >> 1) ^ if s & 1 != 0 { 0x82F6_3B78 } else { 0 };
        }
        *e = s;
    }
    t
}

/// the 4 bytes `t` such that CRC-32C(`prefix ++ t`) == 0: "CRC forcing" by walking the table backwards.
/// One byte step is `s' = (s >> 8) ^ T[(s ^ b) & 0xff]`; the high byte of `s'` is the high byte of the table
/// entry alone, and the high bytes of the 256 entries are pairwise different, so it identifies the entry.
pub fn crc_force(prefix: &[u8]) -> [u8; 4] {
    let t = crc32c_table();
    // register after the prefix (the crate's checksum is register ^ 0xFFFFFFFF)
    let mut s: u32 = crc::Crc::<u32>::new(&crc::CRC_32_ISCSI).checksum(prefix) ^ 0xFFFF_FFFF;
    // final register value whose final xor gives checksum 0
    let target: u32 = 0xFFFF_FFFF;
    // backwards: the table indices of the four steps, last step first (only the high byte is known / needed)
    let mut idx = [0u8; 4];
    let mut want = target;
    for k in (0..4).rev() {
        let hi = want >> 24;
        let i = (0..256usize).find(|&i| t[i] >> 24 == hi).expect("high bytes of the table are a permutation");
        idx[k] = i as u8;
        want = (want ^ t[i]) << 8;
    }
    // forwards: choose each byte so that the step uses the wanted table entry
    let mut out = [0u8; 4];
    for k in 0..4 {
        out[k] = idx[k] ^ (s & 0xff) as u8;
        s = (s >> 8) ^ t[idx[k] as usize];
    }
    debug_assert_eq!(s, target);
    out
}

/// the plain stream: byte 0 = seed & 0xff, then a xorshift64 stream
pub fn gen_data_plain(len: usize, seed: u64) -> Vec<u8> {
    let mut v = Vec::with_capacity(len);
    let mut x: u64 = seed.wrapping_mul(0x9E37_79B9_7F4A_7C15).wrapping_add(len as u64) | 1;
    for i in 0..len {
        if i == 0 {
            v.push((seed & 0xff) as u8);
        } else {
            x ^= x << 13;
            x ^= x >> 7;
            x ^= x << 17;
            v.push((x & 0xff) as u8);
        }
    }
    v
}

/// key=value tokens
pub fn kvs(toks: &[&str]) -> HashMap<String, String> {
    let mut m = HashMap::new();
    for t in toks {
        if let Some((k, v)) = t.split_once('=') {
            m.insert(k.to_string(), v.to_string());
        }
    }
    m
}

pub fn err_kind(e: &anyhow::Error) -> String {
    for cause in e.chain() {
        if let Some(pe) = cause.downcast_ref::<pearl::Error>() {
            return match pe.kind() {
                pearl::ErrorKind::Validation { kind, .. } => format!("Validation/{:?}", kind),
                pearl::ErrorKind::WorkDirUnavailable { io_err_kind, .. } => {
                    format!("WorkDirUnavailable/{:?}", io_err_kind)
                }
                pearl::ErrorKind::FileUnavailable(k) => format!("FileUnavailable/{:?}", k),
                pearl::ErrorKind::Index(_) => "Index".to_string(),
                pearl::ErrorKind::Bincode(_) => "Bincode".to_string(),
                pearl::ErrorKind::IO(_) => "IO".to_string(),
                pearl::ErrorKind::WrongFileNamePattern(_) => "WrongFileNamePattern".to_string(),
                pearl::ErrorKind::Conversion(_) => "Conversion".to_string(),
                k => format!("{:?}", k),
            };
        }
    }
    for cause in e.chain() {
        if let Some(io) = cause.downcast_ref::<std::io::Error>() {
            return format!("IO/{:?}", io.kind());
        }
    }
    "Other".to_string()
}

#[cfg(test)]
mod tests {
    use super::*;

    fn crc32c(b: &[u8]) -> u32 {
        crc::Crc::<u32>::new(&crc::CRC_32_ISCSI).checksum(b)
    }

    #[test]
    fn forced_seeds_have_zero_crc() {
        for seed in 240..=249u64 {
            for len in [8usize, 9, 10, 11, 12, 100, 1004, 4096, 300000] {
                let d = gen_data(len, seed);
                assert_eq!(d.len(), len);
                assert_eq!(d[0], seed as u8);
                assert_eq!(&d[..len - 4], &gen_data_plain(len - 4, seed)[..]);
                assert_eq!(crc32c(&d), 0, "len {} seed {}", len, seed);
            }
        }
    }

    #[test]
    fn other_seeds_and_short_lengths_unchanged() {
        for seed in [0u64, 1, 7, 99, 239, 250, 251, 300, 12345, u64::MAX] {
            for len in [0usize, 1, 7, 8, 100] {
                assert_eq!(gen_data(len, seed), gen_data_plain(len, seed));
            }
        }
        for seed in 240..=249u64 {
            for len in 0..8usize {
                assert_eq!(gen_data(len, seed), gen_data_plain(len, seed));
            }
        }
        assert_eq!(gen_data(10, 7), vec![7, 20, 246, 105, 105, 205, 84, 124, 230, 21]);
    }

    #[test]
    fn values_shared_with_the_model() {
        // the same values are checked in the Lean project (Pearl/Proofs/CrcForce.lean, Pearl/Model/BytesTests.lean)
        assert_eq!(crc_force(&[]), [171, 155, 224, 155]);
        assert_eq!(crc_force(&[1, 2, 3]), [181, 105, 208, 106]);
        assert_eq!(gen_data(8, 240), vec![240, 82, 190, 29, 16, 189, 72, 12]);
        let d = gen_data(1004, 241);
        println!("gen_data(1004,241) tail = {:?} crc32c = {}", &d[1000..], crc32c(&d));
        let d = gen_data(300000, 249);
        println!("gen_data(300000,249) tail = {:?} crc32c = {}", &d[299996..], crc32c(&d));
    }
}
