use std::collections::HashMap;

pub fn hex_bytes(s: &str) -> Option<Vec<u8>> {
    if s.len() % 2 != 0 {
        return None;
    }
    let b = s.as_bytes();
    let mut out = Vec::with_capacity(s.len() / 2);
    for i in (0..b.len()).step_by(2) {
        let h = (b[i] as char).to_digit(16)?;
        let l = (b[i + 1] as char).to_digit(16)?;
        out.push((h * 16 + l) as u8);
    }
    Some(out)
}

pub fn bytes_hex(b: &[u8]) -> String {
    let mut s = String::with_capacity(b.len() * 2);
    for x in b {
        s.push_str(&format!("{:02x}", x));
    }
    s
}

/// data generator shared with the model: byte 0 = seed & 0xff, then a xorshift64 stream
pub fn gen_data(len: usize, seed: u64) -> Vec<u8> {
    let mut v = Vec::with_capacity(len);
    let mut x: u64 = seed.wrapping_mul(0x9E37_79B9_7F4A_7C15).wrapping_add(len as u64) | 1;
    for i in 0..len {
        if i == 0 {
            v.push((seed & 0xff) as u8);
        } else {
            x ^= x << 13;
            x ^= x >> 7;
            x ^= x << 17;
            v.push((x & 0xff) as u8);
        }
    }
    v
}

/// key=value tokens
pub fn kvs(toks: &[&str]) -> HashMap<String, String> {
    let mut m = HashMap::new();
    for t in toks {
        if let Some((k, v)) = t.split_once('=') {
            m.insert(k.to_string(), v.to_string());
        }
    }
    m
}

pub fn err_kind(e: &anyhow::Error) -> String {
    for cause in e.chain() {
        if let Some(pe) = cause.downcast_ref::<pearl::Error>() {
            return match pe.kind() {
                pearl::ErrorKind::Validation { kind, .. } => format!("Validation/{:?}", kind),
                pearl::ErrorKind::WorkDirUnavailable { io_err_kind, .. } => {
                    format!("WorkDirUnavailable/{:?}", io_err_kind)
                }
                pearl::ErrorKind::FileUnavailable(k) => format!("FileUnavailable/{:?}", k),
                pearl::ErrorKind::Index(_) => "Index".to_string(),
                pearl::ErrorKind::Bincode(_) => "Bincode".to_string(),
                pearl::ErrorKind::IO(_) => "IO".to_string(),
                pearl::ErrorKind::WrongFileNamePattern(_) => "WrongFileNamePattern".to_string(),
                pearl::ErrorKind::Conversion(_) => "Conversion".to_string(),
                k => format!("{:?}", k),
            };
        }
    }
    for cause in e.chain() {
        if let Some(io) = cause.downcast_ref::<std::io::Error>() {
            return format!("IO/{:?}", io.kind());
        }
    }
    "Other".to_string()
}
