import Pearl.Model.Script
open Pearl

partial def loop (h : IO.FS.Stream) (out : IO.FS.Stream) (s : Store) : IO Unit := do
  let line ← h.getLine
  if line.isEmpty then return ()
  let t := line.trimAscii.toString
  if t.isEmpty || t.startsWith "#" then
    loop h out s
  else
    let (s', o) := Script.step s t
    out.putStrLn o
    loop h out s'

def main (_args : List String) : IO Unit := do
  let stdin ← IO.getStdin
  let stdout ← IO.getStdout
  loop stdin stdout ({} : Store)
  stdout.flush
