import Pearl.Model.Driver
import Pearl.Oracle
open Pearl

partial def loop (h : IO.FS.Stream) (out : IO.FS.Stream) (s : Driver.DState) : IO Unit := do
  let line ← h.getLine
  if line.isEmpty then return ()
  let t := line.trimAscii.toString
  if t.isEmpty || t.startsWith "#" then
    loop h out s
  else
    let (s', o) := Driver.step s t
    out.putStrLn o
    loop h out s'

partial def oracleLoop (h : IO.FS.Stream) (out : IO.FS.Stream) (s : Oracle.St) : IO Unit := do
  let line ← h.getLine
  if line.isEmpty then return ()
  let t := line.trimAscii.toString
  if t.isEmpty then
    oracleLoop h out s
  else
    let (s', o) := Oracle.step s t
    out.putStrLn o
    oracleLoop h out s'

def main (args : List String) : IO Unit := do
  let stdin ← IO.getStdin
  let stdout ← IO.getStdout
  if args.contains "--oracle" then
    oracleLoop stdin stdout {}
  else
    loop stdin stdout ({} : Driver.DState)
  stdout.flush
