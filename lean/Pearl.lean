import Pearl.Model.Basic
import Pearl.Spec
import Pearl.Model.Index
import Pearl.Model.Store
import Pearl.Model.Ops
import Pearl.Model.Script
