import Pearl.Model.Filter
/-
Port of the vendored aHash 0.7.4 *fallback* hasher (`src/filter/ahash/{fallback_hash,operations,convert}.rs`)
as `Bloom` uses it: `AHasher::new_with_keys(k1, k2)`, one `write(bytes)`, `finish()`.
`u64`/`u128` arithmetic is done on `Nat` modulo `2^64`; `Convert` is a memory transmute, i.e. little-endian
on the supported targets (`u128 ↦ [low u64, high u64]`, byte slices read least significant byte first).
-/
namespace Pearl.AHash

def M64 : Nat := 2 ^ 64

/-- `PI` of `ahash/mod.rs` -/
def PI : Nat × Nat × Nat × Nat :=
  (0x243f6a8885a308d3, 0x13198a2e03707344, 0xa4093822299f31d0, 0x082efa98ec4e6c89)

/-- `MULTIPLE` -/
def MULTIPLE : Nat := 6364136223846793005

/-- `ROT` -/
def ROT : Nat := 23

/-- `u64::rotate_left` -/
def rotl64 (x r : Nat) : Nat :=
  let r := r % 64
  ((x <<< r) ||| (x >>> (64 - r))) % M64

/-- `folded_multiply(s, by)`: the 128-bit product, low half xor high half -/
def foldedMultiply (s b : Nat) : Nat :=
  let r := s * b          -- fits `u128`: both factors are `u64`s
  (r % M64) ^^^ (r / M64 % M64)

/-- `AHasher { buffer, pad, extra_keys }` -/
structure State where
  buffer : Nat
  pad : Nat
  extra0 : Nat
  extra1 : Nat
deriving Repr, DecidableEq

/-- `AHasher::new_with_keys(key1, key2)`: `key ^ pi`, split into `[low, high]` -/
def newWithKeys (key1 key2 : Nat) : State :=
  let pi0 := PI.1 + PI.2.1 * M64
  let pi1 := PI.2.2.1 + PI.2.2.2 * M64
  let k1 := (key1 % (M64 * M64)) ^^^ pi0
  let k2 := (key2 % (M64 * M64)) ^^^ pi1
  { buffer := k1 % M64, pad := k1 / M64, extra0 := k2 % M64, extra1 := k2 / M64 }

/-- `large_update(new_data)` with the `u128` given as `[low, high]` -/
def largeUpdate (s : State) (lo hi : Nat) : State :=
  let combined := foldedMultiply (lo ^^^ s.extra0) (hi ^^^ s.extra1)
  { s with buffer := rotl64 (((s.buffer + s.pad) % M64) ^^^ combined) ROT }

/-- little-endian value of a byte list -/
def leVal (bs : List Nat) : Nat := bs.foldr (fun b acc => b % 256 + 256 * acc) 0

/-- `read_small`: `[u64; 2]` -/
def readSmall (data : List Nat) : Nat × Nat :=
  let n := data.length
  if n ≥ 2 then
    if n ≥ 4 then (leVal (data.take 4), leVal (data.drop (n - 4)))
    else (leVal (data.take 2), data.getD (n - 1) 0 % 256)
  else if n > 0 then (data.getD 0 0 % 256, data.getD 0 0 % 256)
  else (0, 0)

/-- the `while data.len() > 16` loop -/
def blocks : Nat → State → List Nat → State
  | 0, s, _ => s
  | fuel + 1, s, data =>
    if data.length > 16 then
      blocks fuel (largeUpdate s (leVal (data.take 8)) (leVal ((data.drop 8).take 8))) (data.drop 16)
    else s

/-- `Hasher::write(input)` -/
def write (s : State) (input : List Nat) : State :=
  let n := input.length
  let s := { s with buffer := ((s.buffer + n % M64) % M64 * MULTIPLE) % M64 }
  if n > 8 then
    if n > 16 then
      let tail := input.drop (n - 16)
      let s := largeUpdate s (leVal (tail.take 8)) (leVal (tail.drop 8))
      blocks n s input
    else largeUpdate s (leVal (input.take 8)) (leVal (input.drop (n - 8)))
  else
    let (a, b) := readSmall input
    largeUpdate s a b

/-- `Hasher::finish` -/
def finish (s : State) : Nat :=
  rotl64 (foldedMultiply s.buffer s.pad) (s.buffer % 64)

/-- one-shot hash with the given keys -/
def hash (key1 key2 : Nat) (data : List Nat) : Nat := finish (write (newWithKeys key1 key2) data)

/-- the hash family of `Bloom::hashers`: hasher `i` is `AHasher::new_with_keys(i + 1, i + 2)`, fed the
    `keyLen` big-endian bytes of the key -/
def family (keyLen : Nat) : Nat → Key → Nat :=
  fun i k => hash (i + 1) (i + 2) (Range.keyBytes keyLen k)

/-! pinned vectors of `src/filter/ahash/compatibility_test.rs` -/
#guard hash 1 2 ((List.range 10).map (· + 0)) == 3604729491498336444
#guard hash 1 2 ((List.range 10).map (· + 245)) == 4698010058046694585
#guard hash 1 2 ((List.range 10).map (· + 63)) == 7892047681755360091
#guard hash 1 2 ((List.range 10).map (· + 101)) == 15822444892006722439

end Pearl.AHash
