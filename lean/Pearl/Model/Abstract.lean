import Pearl.Model.Ops
/-
LA: the abstract specification that forgets blobs altogether.

The state is the list of *data* operations applied so far (`DOp`: writes and deletes; lifecycle and
maintenance operations are not part of it), and every record-level query is a function of that list
alone: `Abs.read`, `Abs.contains`, `Abs.readAll`, `Abs.readAllMarked`.

All of them are read off the *view* of a key: the records of the key a reader can still see, newest
timestamp first (ties: most recently applied operation first), ending with the first deletion marker
if there is one.  `Abs.view` is computed operation by operation (`Abs.step`):

  * `write k ts m d`    – refused when duplicates are not allowed and `read k m` is `Found` (the same
                          guard `Storage::write_with_optional_meta` carries; a write never fails for
                          want of an active blob: the storage creates one); otherwise the record is
                          inserted (`Abs.ins`) below every strictly newer record – unless one of
                          those is a marker, then it is invisible;
  * `delete k ts m oip` – with `only_if_presented` nothing happens unless the key is live (`read k`
                          is `Found`); otherwise the marker is inserted below every strictly newer
                          record and everything from there on is cut off.

`Pearl/Proofs/AbstractRefine.lean` and `Pearl/Props/C04.lean` prove that the storage model refines
this specification for every history without maintenance operations, and for every history with
maintenance operations all of whose `only_if_presented` deletes are *safe* (`Abs.safeK`, a condition
on the data operations only; every history whose deletes do not use `only_if_presented` satisfies
it).  For deletes that are not safe the refinement is false: `Blob::delete` tests liveness blob by
blob, so where the blob boundaries are becomes observable (see `C04.lean`).  For those, the
specification is relaxed to a nondeterministic one (`Abs.nstep`, `Abs.nviews`: an
`only_if_presented` delete has at most two outcomes), which every history refines.

`Abs.visOfLog` / `Abs.log` give the same specification declaratively: one append-only log of accepted
records; the view of a key is the log restricted to the key, sorted and cut.
-/
namespace Pearl

/-- data operations: the abstract state is a list of these, oldest first -/
inductive DOp where
  | write (k : Key) (ts : Nat) (m : Option Meta) (d : Data)
  | delete (k : Key) (ts : Nat) (m : Option Meta) (oip : Bool)
deriving DecidableEq, Repr, Inhabited

def DOp.key : DOp → Key
  | .write k _ _ _ => k
  | .delete k _ _ _ => k

def DOp.toOp : DOp → Op
  | .write k ts m d => .write k ts m d
  | .delete k ts m oip => .delete k ts m oip

/-- the data operation an operation is, if it is one -/
def Op.data? : Op → Option DOp
  | .write k ts m d => some (.write k ts m d)
  | .delete k ts m oip => some (.delete k ts m oip)
  | _ => none

def Op.isData (o : Op) : Bool := o.data?.isSome

/-- the abstract state reached by a history: its data operations -/
def dataOps (ops : List Op) : List DOp := ops.filterMap Op.data?

namespace Abs

/-- the record a write stores -/
def wrec (k : Key) (ts : Nat) (m : Option Meta) (d : Data) : Rec :=
  { key := k, ts := ts, del := false, mt := m.getD none, data := d }

/-- the deletion marker a delete stores -/
def drec (k : Key) (ts : Nat) (m : Option Meta) : Rec :=
  { key := k, ts := ts, del := true, mt := m.getD none, data := ⟨0, 0⟩ }

/-- insert the record of the operation applied last into a view: below every strictly newer record
    (if one of those is a marker the new record is invisible), above everything else; a marker cuts
    off everything below it -/
def ins (r : Rec) : List Rec → List Rec
  | [] => [r]
  | x :: xs =>
    if x.ts > r.ts then (if x.del then [x] else x :: ins r xs)
    else if r.del then [r] else r :: x :: xs

/-- `read`: classification of the first visible record -/
def latestOf : List Rec → ReadResult Rec
  | [] => .notFound
  | x :: _ => if x.del then .deleted x.ts else .found x

/-- `read_with(meta)`: classification of the first visible record that is a marker or carries `m` -/
def withOf (v : List Rec) (m : Meta) : ReadResult Rec :=
  match v.find? (fun r => r.del || r.mt == m) with
  | none => .notFound
  | some x => if x.del then .deleted x.ts else .found x

def readOf (v : List Rec) : Option Meta → ReadResult Rec
  | none => latestOf v
  | some m => withOf v m

/-- one data operation, as seen by key `k` (`dup` = `allow_duplicates`) -/
def step (dup : Bool) (k : Key) (v : List Rec) : DOp → List Rec
  | .write k' ts m d =>
    if k' = k then (if !dup && (readOf v m).isFound then v else ins (wrec k ts m d) v) else v
  | .delete k' ts m oip =>
    if k' = k then (if oip && !(latestOf v).isFound then v else ins (drec k ts m) v) else v

/-- the view of key `k` after the data operations `ops`, starting from the view `v` -/
def viewFrom (dup : Bool) (k : Key) (v : List Rec) (ops : List DOp) : List Rec :=
  ops.foldl (step dup k) v

/-- the view of key `k` after the data operations `ops` (from the empty storage) -/
def view (dup : Bool) (ops : List DOp) (k : Key) : List Rec := viewFrom dup k [] ops

/-! #### the answers -/

/-- `read_all_with_deletion_marker` -/
def readAllMarked (dup : Bool) (ops : List DOp) (k : Key) : List Rec := view dup ops k

/-- `read_all` -/
def readAll (dup : Bool) (ops : List DOp) (k : Key) : List Rec :=
  (view dup ops k).filter (fun r => !r.del)

/-- `read` (`mo = none`) / `read_with` (`mo = some meta`) -/
def read (dup : Bool) (ops : List DOp) (k : Key) (mo : Option Meta) : ReadResult Rec :=
  readOf (view dup ops k) mo

/-- `contains` -/
def contains (dup : Bool) (ops : List DOp) (k : Key) : ReadResult Nat :=
  (latestOf (view dup ops k)).map (·.ts)

/-! #### the same, declaratively: a single append-only log

The abstract storage is one log of accepted records.  The view of a key is the log restricted to the
key, newest operation first, stably sorted by timestamp (descending), cut after the first marker.
`Abs.view_eq_visOfLog` (in `Pearl/Proofs/AbstractRefine.lean`) proves that this is `Abs.view`. -/

/-- the visible records of key `k` in a log (oldest record first) -/
def visOfLog (log : List Rec) (k : Key) : List Rec :=
  cutHdrs (Store.sortDesc ((log.filter (fun r => r.key == k)).reverse))

def logStep (dup : Bool) (log : List Rec) : DOp → List Rec
  | .write k ts m d =>
    if !dup && (readOf (visOfLog log k) m).isFound then log else log ++ [wrec k ts m d]
  | .delete k ts m oip =>
    if oip && !(latestOf (visOfLog log k)).isFound then log else log ++ [drec k ts m]

/-- the log after the data operations `ops` -/
def log (dup : Bool) (ops : List DOp) : List Rec := ops.foldl (logStep dup) []

/-! #### safe `only_if_presented` deletes

`Blob::delete(.., only_if_presented = true)` tests whether the key is live *in that blob*.  A key
that is dead for every reader (its first visible record is a marker `x`) can still be live in some
blob, which then receives a marker.  That marker is invisible – and the blob structure with it –
exactly when it is ranked below `x`. -/

/-- an `only_if_presented` delete storing marker `y` cannot reveal blob boundaries in view `v`:
    if the key is dead, `y` is strictly older than the visible marker (or equal to it);
    if it is live, a visible marker with the timestamp of `y` is equal to `y` -/
def oipSafe (v : List Rec) (y : Rec) : Bool :=
  match v with
  | [] => true
  | x :: _ =>
    if x.del then decide (y.ts < x.ts) || x == y
    else v.all (fun z => !z.del || z.ts != y.ts || z == y)

def okStep (k : Key) (v : List Rec) : DOp → Bool
  | .delete k' ts m true => k' != k || oipSafe v (drec k ts m)
  | _ => true

/-- every `only_if_presented` delete of key `k` in `ops` is safe in the view it is applied to -/
def safeFrom (dup : Bool) (k : Key) : List Rec → List DOp → Bool
  | _, [] => true
  | v, op :: rest => okStep k v op && safeFrom dup k (step dup k v op) rest

def safeK (dup : Bool) (k : Key) (ops : List DOp) : Bool := safeFrom dup k [] ops

/-- … of every key (it is enough to look at the keys that occur, see `Abs.safe_iff`) -/
def Safe (dup : Bool) (ops : List DOp) : Prop := ∀ k, safeK dup k ops = true

def safeAll (dup : Bool) (ops : List DOp) : Bool := ops.all (fun op => safeK dup op.key ops)

/-- no delete uses `only_if_presented` -/
def noOip (ops : List DOp) : Bool :=
  ops.all (fun op => match op with | .delete _ _ _ true => false | _ => true)

/-! #### all histories: `only_if_presented` as a nondeterministic step

Without the safety condition the outcome of an `only_if_presented` delete depends on the blob
boundaries, but only in one way: its marker `y` either becomes the visible marker (`ins y v`:
possible as soon as the key has any visible record, some blob may hold the key live) or nothing
visible happens (`v`: if the key is dead, or if the visible marker has the timestamp of `y` and
directly follows the strictly newer records – `tie`).  `Abs.step` takes the first outcome for a live
key and the second for a dead one; for a safe delete the possible outcomes coincide. -/

/-- the view is: records strictly newer than `y`, then a marker with the timestamp of `y` -/
def tie (y : Rec) : List Rec → Bool
  | [] => false
  | [x] => x.del && x.ts == y.ts
  | x :: z :: zs => decide (x.ts > y.ts) && tie y (z :: zs)

/-- "nothing visible happens" is a possible outcome -/
def keepOk (v : List Rec) (y : Rec) : Bool :=
  match v with
  | [] => true
  | x :: _ => x.del || tie y v

/-- the possible views after an `only_if_presented` delete storing marker `y` in view `v` -/
def oipOutcomes (v : List Rec) (y : Rec) : List (List Rec) :=
  (if v.isEmpty then [] else [ins y v]) ++ (if keepOk v y then [v] else [])

/-- one data operation, as seen by key `k`: the possible views afterwards -/
def nstep (dup : Bool) (k : Key) (v : List Rec) : DOp → List (List Rec)
  | .delete k' ts m true => if k' = k then oipOutcomes v (drec k ts m) else [v]
  | op => [step dup k v op]

/-- the possible views of key `k` after the data operations `ops`, starting from one of `vs` -/
def nviewsFrom (dup : Bool) (k : Key) : List (List Rec) → List DOp → List (List Rec)
  | vs, [] => vs
  | vs, op :: rest => nviewsFrom dup k (vs.flatMap (fun v => nstep dup k v op)) rest

/-- the possible views of key `k` after the data operations `ops` (from the empty storage) -/
def nviews (dup : Bool) (ops : List DOp) (k : Key) : List (List Rec) := nviewsFrom dup k [[]] ops

end Abs
end Pearl
