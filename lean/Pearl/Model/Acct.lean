import Pearl.Model.Fs
/-
L7: the directory-level accounting model (property C15, file part).

What the storage *computes* for `blobs_count`, `next_blob_id`, `corrupted_blobs_count`, `disk_used` from its
in-memory view is set against what a *listing of the work directory* (and of its `corrupted`
sub-directory) shows.

The in-memory view is the L2 `Store` (`Pearl/Model/Store.lean`: blobs with id, records, index residence;
`nextId` = `Inner::next_blob_id`) plus what L2 does not carry:
  * `fsz id`  = `File::size()` of the blob file of the held blob `id` (the counter kept by `src/io`);
  * `isz id`  = `findex.file_size()` of a held blob whose index is `State::OnDisk`;
  * `corruptedCnt` = `Inner::corrupted_blobs`.
The directory is a pair of association lists (blob files, index files) and the list of blob files in
the `corrupted` sub-directory.  `ignored` is ghost state: the blob files of the work directory that the
last `init` found unreadable and skipped under `ignore_corrupted` (they stay unreadable: nobody writes
to them).

Sources, function by function:
* `Blob::open_new` = `iodriver.create` + blob header (`blobHeaderSize` bytes); the index is `InMemory`, no
  index file.
* `Blob::write` / `write_mut`: positional write of the record at offset `File::size()`.
* `Blob::dump`: nothing when the index is `OnDisk`; `IndexStruct::dump_in_memory` returns `Ok(0)` without
  writing a file when there are no headers (an empty blob never gets an index file); otherwise
  `FileIndex::from_records` replaces the index file (`clean_file`, `create`) and the index becomes `OnDisk`.
* `Blob::push_deletion_record`: `load_index` when `OnDisk` (reads; the index FILE stays), then `write_mut`.
* `Inner::close_active_blob` + `try_dump_old_blob_indexes` (`Storage::try_close_active_blob`),
  `Inner::restore_active_blob` (`load_index`, `pop`), `Inner::create_active_blob`,
  `Safe::replace_active_blob` (rotation / `force_update_active_blob`).
* `Storage::close` dumps the active blob only.
* `Storage::init_ext`: `work_dir_content` is `None` iff the work directory has no blob file → `init_new`
  (counts and reserves the ids of the `corrupted` directory, creates the active blob — also under
  `init_lazy`); else `init_from_existing`: `count_old_corrupted_blobs` (before anything is moved),
  `read_blobs` (`Blob::from_file` per blob file; a failing one raises `max_blob_id` by its file name and is
  either left alone — `ignore_corrupted` — or moved by `save_corrupted_blob`: `rename` into the
  `corrupted` directory, which replaces a file of the same name, and `remove_index_by_blob_path`: its
  index file is REMOVED), `reserve_old_corrupted_blob_ids` (after the moves), `pop_active` + `load_index`
  unless lazy (a new blob if nothing is left), `dump` of all the others.
  `Blob::from_file` uses the index file iff it exists and `validate`s (`blob_size` field = blob file length);
  otherwise the index is regenerated in memory and the (stale) file stays until the next dump.
  Only errors for which `should_save_corrupted_blob` holds are modelled as "unreadable"; for any other
  error `init` fails and there is no storage to talk about.
* the getters: `Storage::blobs_count` (`HierarchicalFilters::len` counts present slots, + active),
  `next_blob_id`, `corrupted_blobs_count`, `disk_used` = Σ `Blob::disk_used` = `file_size()` +
  `IndexStruct::disk_used` (`OnDisk`: `file.file_size()`; `InMemory`: length of the index file found at
  the index path, 0 if none — before /repo 2401d8b: always 0, defect E6).

Fsync does not change any length and is left out.  Core-only imports.
-/
namespace Pearl
namespace Acct

/-! ### association lists: file id ↦ attribute -/

/-- attribute of the file `id` (`none`: no such file) -/
def get {α : Type} : List (Nat × α) → Nat → Option α
  | [], _ => none
  | (j, v) :: r, id => if j = id then some v else get r id

/-- the names in the listing -/
def keys {α : Type} (l : List (Nat × α)) : List Nat := l.map (·.1)

/-- remove every file whose id satisfies `P` -/
def del {α : Type} (l : List (Nat × α)) (P : Nat → Bool) : List (Nat × α) := l.filter (fun p => !P p.1)

/-- create or replace the file `id` -/
def put {α : Type} (l : List (Nat × α)) (id : Nat) (v : α) : List (Nat × α) := del l (· == id) ++ [(id, v)]

/-- change the attribute of every existing file whose id satisfies `P` -/
def mapIf {α : Type} (l : List (Nat × α)) (P : Nat → Bool) (f : Nat → α → α) : List (Nat × α) :=
  l.map (fun p => if P p.1 then (p.1, f p.1 p.2) else p)

/-- an index file: its length and the `blob_size` field of its header -/
structure IdxFile where
  len : Nat
  blobSize : Nat
deriving DecidableEq, Repr, Inhabited

/-- the work directory and its `corrupted` sub-directory -/
structure Dir where
  /-- blob files of the work directory: id ↦ length -/
  blobs : List (Nat × Nat) := []
  /-- index files of the work directory -/
  idx : List (Nat × IdxFile) := []
  /-- ids of the blob files in the `corrupted` sub-directory -/
  corrupted : List Nat := []
deriving Repr, Inhabited

/-- parameters: key length (record sizes) and the length of the index file built from given records -/
structure Cfg where
  klen : Nat
  idxLen : List Rec → Nat

structure State where
  store : Store := {}
  /-- `File::size()` of the blob file of a held blob -/
  fsz : Nat → Nat := fun _ => 0
  /-- `findex.file_size()` of a held blob with an `OnDisk` index -/
  isz : Nat → Nat := fun _ => 0
  /-- `Inner::corrupted_blobs` -/
  corruptedCnt : Nat := 0
  dir : Dir := {}
  /-- ghost: blob files left in the work directory by `ignore_corrupted`, not held -/
  ignored : List Nat := []

/-- `1 +` the greatest id, `0` for no id (`max_blob_id.map_or(0, |i| i + 1)`) -/
def maxNext (l : List Nat) : Nat := l.foldl (fun m x => max m (x + 1)) 0

/-! ### what the code computes -/

/-- `Storage::blobs_count` -/
def blobsCount (s : State) : Nat := s.store.blobsCount
/-- `Storage::next_blob_id` -/
def nextBlobId (s : State) : Nat := s.store.nextId
/-- `Storage::corrupted_blobs_count` -/
def corruptedBlobsCount (s : State) : Nat := s.corruptedCnt

/-- length of the index file at the index path of blob `id`, 0 if there is none (`std::fs::metadata`) -/
def idxFileLen (d : Dir) (id : Nat) : Nat := ((get d.idx id).map (·.len)).getD 0

/-- `Blob::disk_used` since /repo 2401d8b -/
def blobDiskUsed (s : State) (b : Blob) : Nat :=
  s.fsz b.id + (if b.onDisk then s.isz b.id else idxFileLen s.dir b.id)

/-- `Blob::disk_used` before /repo 2401d8b: an index held in memory counts 0 -/
def blobDiskUsedOld (s : State) (b : Blob) : Nat :=
  s.fsz b.id + (if b.onDisk then s.isz b.id else 0)

/-- `Storage::disk_used` -/
def diskUsed (s : State) : Nat := (s.store.blobs.map (blobDiskUsed s)).sum
def diskUsedOld (s : State) : Nat := (s.store.blobs.map (blobDiskUsedOld s)).sum

/-! ### what a listing of the directory shows -/

/-- number of blob files in the work directory -/
def dirBlobFiles (s : State) : Nat := s.dir.blobs.length
/-- `1 +` the largest id of a blob file in the work directory or in `corrupted`, 0 if there is none -/
def dirNextId (s : State) : Nat := maxNext (keys s.dir.blobs ++ s.dir.corrupted)
/-- number of blob files in `corrupted` -/
def dirCorrupted (s : State) : Nat := s.dir.corrupted.length
/-- length of the blob file `id` (0: no such file) -/
def blobFileLen (d : Dir) (id : Nat) : Nat := (get d.blobs id).getD 0
/-- over the blobs the storage holds: blob file + index file if there is one -/
def dirDiskUsed (s : State) : Nat :=
  (s.store.blobs.map (fun b => blobFileLen s.dir b.id + idxFileLen s.dir b.id)).sum
/-- total length of all blob and index files of the work directory -/
def dirTotal (s : State) : Nat := (s.dir.blobs.map (·.2)).sum + (s.dir.idx.map (·.2.len)).sum

/-! ### building blocks -/

/-- `Blob::open_new` with the next id: the file is created with the blob header -/
def newBlobFile (s : State) : State :=
  let id := s.store.nextId
  { s with dir := { s.dir with blobs := put s.dir.blobs id blobHeaderSize }
           fsz := fun j => if j = id then blobHeaderSize else s.fsz j }

/-- `ensure_active_blob_exists` / `create_active_blob` -/
def ensureActive (s : State) : State :=
  match s.store.active with
  | some _ => s
  | none => { newBlobFile s with store := s.store.apply .createActive }

/-- `n` bytes written at offset `File::size()` into the blob file of every held blob whose id satisfies `P` -/
def appendWhere (s : State) (P : Nat → Bool) (n : Nat) : State :=
  { s with dir := { s.dir with blobs := mapIf s.dir.blobs P (fun id l => max l (s.fsz id + n)) }
           fsz := fun id => if P id then s.fsz id + n else s.fsz id }

/-- the index file `Blob::dump` writes for `b` -/
def idxOf (c : Cfg) (s : State) (b : Blob) : IdxFile := ⟨c.idxLen b.recs, s.fsz b.id⟩

/-- closed blobs for which `Blob::dump` writes an index file -/
def dumpTargets (st : Store) : List Blob := st.closed.filter (fun b => !b.onDisk && !b.recs.isEmpty)

/-- one pass of `Safe::try_dump_old_blob_indexes` -/
def dumpPass (c : Cfg) (s : State) : State :=
  let ts := dumpTargets s.store
  { s with dir := { s.dir with idx := del s.dir.idx (fun id => ts.any (·.id == id)) ++
                                      ts.map (fun b => (b.id, idxOf c s b)) }
           isz := fun id => match ts.find? (·.id == id) with
             | some b => c.idxLen b.recs
             | none => s.isz id
           store := s.store.apply .settle }

/-- `Safe::replace_active_blob` with a fresh blob; `dmp`: the dump pass runs (it is skipped while a
    deferred dump is registered or a dump task is still running) -/
def rotate (c : Cfg) (s : State) (dmp : Bool) : State :=
  let s1 := { newBlobFile s with store := s.store.apply .replaceActive }
  if dmp then dumpPass c s1 else s1

/-- `Storage::write_with_optional_meta`; `rot`: the `TryUpdateActiveBlob` it sent replaced the blob -/
def write (c : Cfg) (s : State) (k : Key) (ts : Nat) (m : Option Meta) (d : Data) (rot dmp : Bool) : State :=
  let s0 := ensureActive s
  if !s0.store.allowDup && (s0.store.getLatestEntry k m).isFound then s0
  else
    match s0.store.active with
    | none => s0
    | some a =>
      let s1 := { appendWhere s0 (· == a.id) (Fs.recLen c.klen (Fs.writeRec k ts m d)) with
                  store := s0.store.apply (.write k ts m d) }
      if rot then rotate c s1 dmp else s1

/-- blobs that get the deletion marker (`Blob::delete`) -/
def delTargets (st : Store) (k : Key) (oip : Bool) : List Blob :=
  st.closed.filter (fun b => (b.getLatest k).isFound) ++
    st.active.toList.filter (fun a => !oip || (a.getLatest k).isFound)

/-- `Storage::delete_with_optional_meta` -/
def delete (c : Cfg) (s : State) (k : Key) (ts : Nat) (m : Option Meta) (oip : Bool) : State :=
  let s0 := if oip then s else ensureActive s
  let tg := delTargets s0.store k oip
  { appendWhere s0 (fun id => tg.any (·.id == id)) (Fs.recLen c.klen (Fs.markerRec k ts m)) with
    store := s0.store.apply (.delete k ts m oip) }

/-- `try_close_active_blob` / `close_active_blob_in_background`: close, then a dump pass whatever the outcome -/
def closeActive (c : Cfg) (s : State) : State :=
  dumpPass c { s with store := s.store.apply .closeActive }

/-- `restore_active_blob`: `load_index` only reads -/
def restoreActive (s : State) : State := { s with store := s.store.apply .restoreActive }

/-- `force_update_active_blob(pred)`; `go` = the predicate holds -/
def force (c : Cfg) (s : State) (go : Bool) : State :=
  dumpPass c (if go then { newBlobFile s with store := s.store.apply .replaceActive } else s)

/-- `Storage::close`: dump of the active blob only -/
def closeSession (c : Cfg) (s : State) : State :=
  match s.store.active with
  | some a =>
    if !a.onDisk && !a.recs.isEmpty then
      { s with dir := { s.dir with idx := put s.dir.idx a.id (idxOf c s a) } }
    else s
  | none => s

/-- `FileIndex::validate`: the index file exists and its `blob_size` field is the length of the blob file -/
def idxValid (d : Dir) (id : Nat) : Bool :=
  match get d.idx id, get d.blobs id with
  | some f, some l => f.blobSize == l
  | _, _ => false

/-- `init_new`: no blob file in the work directory -/
def initNew (s : State) : State :=
  let nid := maxNext s.dir.corrupted
  { store := { allowDup := s.store.allowDup, active := some { id := nid, recs := [] }, slots := [],
               nextId := nid + 1 }
    fsz := fun j => if j = nid then blobHeaderSize else 0
    isz := fun _ => 0
    corruptedCnt := s.dir.corrupted.length
    dir := { s.dir with blobs := put s.dir.blobs nid blobHeaderSize }
    ignored := [] }

/-- blob files found unreadable by `read_blobs`: those skipped before, and those damaged since (`bad`) -/
def unreadable (s : State) (bad : List Nat) : List Nat :=
  (keys s.dir.blobs).filter (fun id => s.ignored.contains id || bad.contains id)

/-- the directory after `read_blobs`: with `ignore_corrupted` nothing moves; otherwise every unreadable blob
    file is renamed into `corrupted` (replacing a file of the same name) and its index file is removed -/
def dirAfterRead (s : State) (ignore : Bool) (bad : List Nat) : Dir :=
  let U := unreadable s bad
  if ignore then s.dir
  else { blobs := del s.dir.blobs (fun id => U.contains id)
         idx := del s.dir.idx (fun id => U.contains id)
         corrupted := s.dir.corrupted ++ U.filter (fun id => !s.dir.corrupted.contains id) }

/-- the blobs `read_blobs` returns, sorted by id -/
def keptBlobs (s : State) (bad : List Nat) : List Blob :=
  Store.sortById (s.store.blobs.filter (fun b => !(unreadable s bad).contains b.id))

/-- `init_from_existing` up to the point where a missing active blob would be created;
    `bad`: blob files damaged since the last session, `ignore` = `ignore_corrupted` -/
def initCore (c : Cfg) (s : State) (lazy ignore : Bool) (bad : List Nat) : State :=
  let U := unreadable s bad
  let dir1 := dirAfterRead s ignore bad
  -- `max_blob_id` of `read_blobs` over all blob files, then `reserve_old_corrupted_blob_ids`
  let nid := max (maxNext (keys s.dir.blobs)) (maxNext dir1.corrupted)
  let kept := keptBlobs s bad
  let cl := if lazy then kept else kept.dropLast
  let act := if lazy then none else kept.getLast?
  -- `File::size()` after `open` is the length of the file
  let fsz1 := fun id => blobFileLen dir1 id
  -- closed blobs whose `dump` writes an index file: no usable index file, not empty
  let need := cl.filter (fun b => !idxValid dir1 b.id && !b.recs.isEmpty)
  { store := { allowDup := s.store.allowDup
               active := act.map (fun a => { a with onDisk := false })
               slots := cl.map (fun b => some { b with onDisk := idxValid dir1 b.id || !b.recs.isEmpty })
               nextId := nid }
    fsz := fsz1
    isz := fun id => match need.find? (·.id == id) with
      | some b => c.idxLen b.recs
      | none => idxFileLen dir1 id
    -- `count_old_corrupted_blobs` runs before `read_blobs`
    corruptedCnt := s.dir.corrupted.length + (if ignore then 0 else U.length)
    dir := { dir1 with idx := del dir1.idx (fun id => need.any (·.id == id)) ++
                              need.map (fun b => (b.id, (⟨c.idxLen b.recs, fsz1 b.id⟩ : IdxFile))) }
    ignored := if ignore then U else [] }

/-- `init_from_existing`: without `lazy`, if no usable blob is left a new active blob is created -/
def initExisting (c : Cfg) (s : State) (lazy ignore : Bool) (bad : List Nat) : State :=
  let s1 := initCore c s lazy ignore bad
  if !lazy && s1.store.active.isNone then
    { newBlobFile s1 with
      store := { s1.store with active := some { id := s1.store.nextId, recs := [] }
                               nextId := s1.store.nextId + 1 } }
  else s1

/-- `Storage::close`, damage to the files `bad`, `Builder::build` + `init` / `init_lazy` -/
def restart (c : Cfg) (s : State) (lazy ignore : Bool) (bad : List Nat) : State :=
  let s1 := closeSession c s
  if (keys s1.dir.blobs).isEmpty then initNew s1 else initExisting c s1 lazy ignore bad

/-! ### operations -/

inductive AOp where
  | write (k : Key) (ts : Nat) (m : Option Meta) (d : Data) (rot dmp : Bool)
  | delete (k : Key) (ts : Nat) (m : Option Meta) (oip : Bool)
  | closeActive
  | createActive
  | restoreActive
  | force (go : Bool)
  /-- a dump pass: `free_excess_resources`, the deferred dump firing -/
  | settle
  | restart (lazy ignore : Bool) (bad : List Nat)
deriving Repr, Inhabited

def step (c : Cfg) (s : State) : AOp → State
  | .write k ts m d rot dmp => write c s k ts m d rot dmp
  | .delete k ts m oip => delete c s k ts m oip
  | .closeActive => closeActive c s
  | .createActive => ensureActive s
  | .restoreActive => restoreActive s
  | .force go => force c s go
  | .settle => dumpPass c s
  | .restart lazy ignore bad => restart c s lazy ignore bad

/-- `Builder::build` + `init` on an empty directory -/
def init (allowDup : Bool) : State := initNew { store := { allowDup := allowDup } }

def runFrom (c : Cfg) (s : State) (ops : List AOp) : State := ops.foldl (step c) s

def run (c : Cfg) (allowDup : Bool) (ops : List AOp) : State := runFrom c (init allowDup) ops

/-- the four getters and the four listings -/
def report (s : State) : List (Nat × Nat) :=
  [(blobsCount s, dirBlobFiles s), (nextBlobId s, dirNextId s), (corruptedBlobsCount s, dirCorrupted s),
   (diskUsed s, dirDiskUsed s)]

end Acct
end Pearl
