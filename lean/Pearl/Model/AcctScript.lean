import Pearl.Model.Acct
import Pearl.Model.BPTree
import Pearl.Model.Script
/-
The C15 directory-accounting model (`Pearl/Model/Acct.lean`) run in lock-step with a correspondence script.

`AD` is the part of the driver state that belongs to `Acct`: an `Acct.State`, the parameters of `Acct.Cfg`
(key length from the `cfg` line; the length of the filter section of an index file from the annotation
`@meta=<n>` on the `cfg` line, or, without it, from `@bits=<n>` by `metaLenOf`), the `ignore_corrupted` flag
(`ignore=` of the `cfg` line) and the one worker flag the directory depends on at quiescent points
(`deferred_index_dump_info.is_some()`).

`plan` maps a script line to the `Acct.AOp`s it stands for; `track` steps the state; `showFcounts` prints what
the harness prints for `fcounts` (`harness/src/exec.rs`, "fcounts"), from the model.

`Acct.Cfg.idxLen` is the REAL length of an index file: `IndexFile.fileSize` of the L4 serializer model
(`BPTree.build` with the real parameters), whose byte image has exactly that length (`C09.bytes_length`).
The length depends on the records only through the number of headers per key, in key order (`inMemOf`).

Script lines the model cannot follow set `lost` (from then on `fcounts` is answered `fcounts ?`, which
never equals an answer of the implementation, so the comparison program must skip such lines):
  * damage whose effect on readability is decided by the record scanner (`bdmg=<id>:cut:<n>`,
    `bdmg=<id>:dflip:<n>`: the blob may stay readable with a shorter file / fewer records / without its index
    file — none of which is an `Acct.AOp`), a second damage to a file that is already unreadable (the
    harness's damage is an involution), `noidx`, `idmg=`, `replayfrom`, `cfg … from=`, `conc`, `fault`,
    `killcheck`, a background request left in the queue (`@nodrain`), and the annotation `@lost` (the comparison
    program saw the implementation leave the script: a cancelled operation, a failed start).
Timing: a rotation (`ok switched`) runs its dump pass unless a deferred dump is registered; the case that the
previous dump TASK is still running at that moment (the dump is then deferred as well) is not modelled — scripts
probe between rotations (`fcounts` waits for quiescence).
When neither `@meta=` nor (for a configuration with a bloom filter) `@bits=` came with the `cfg` line, `disk` /
`dirsum` are printed as `?` from the first index file the model writes.
-/
namespace Pearl.AcctScript
open Pearl Pearl.Script

/-! ### the real `idxLen` -/

/-- insertion into a strictly ascending list of keys -/
def insKey (k : Nat) : List Nat → List Nat
  | [] => [k]
  | x :: xs => if k < x then k :: x :: xs else if k == x then x :: xs else x :: insKey k xs

/-- `InMemoryIndex` of a blob as far as the SIZE of its index file goes: the keys ascending, each with
    its headers (their order within a key does not change any length) -/
def inMemOf (recs : List Rec) : BPTree.InMem Rec :=
  (recs.foldl (fun ks r => insKey r.key ks) []).map fun k => (k, recs.filter (fun r => r.key == k))

/-- length of the index file `FileIndex::from_records` writes for these records: header (83) + filter
    section (`metaLen`) + tree meta (16) + tree nodes + one record header (`57 + klen`) per record -/
def idxLenReal (klen metaLen : Nat) (recs : List Rec) : Nat :=
  (BPTree.build (BPTree.Params.real klen) metaLen (inMemOf recs)).fileSize

/-! ### the state -/

structure AD where
  st : Acct.State := Acct.init false
  klen : Nat := 4
  /-- length of the filter section of every index file of this scenario (`@meta=<n>` on the `cfg` line) -/
  metaLen : Option Nat := none
  dup : Bool := false
  /-- `ignore_corrupted` -/
  ignore : Bool := false
  isOpen : Bool := false
  /-- `deferred_index_dump_info.is_some()`: a rotation attaches its dump pass to the deferred dump.  The
      deferred dump itself fires after `deferred_min_time` (an hour in the harness unless `defer=` is given): never
      within a scenario -/
  deferred : Bool := false
  /-- the script left what `Acct.AOp` can express -/
  lost : Bool := false
  /-- an index file was written while `metaLen` was not known -/
  idxUnknown : Bool := false
  /-- `max_data_in_blob`, `max_blob_size` -/
  maxData : Nat := 1000000
  maxSize : Nat := 1000000000000
  /-- the L2 store of the driver still follows the implementation (no `nomodel` line, no injected damage so far):
      its answer `ok switched` can stand in for the annotation `@switched` -/
  l2Follows : Bool := true

instance : Inhabited AD := ⟨{}⟩

def AD.cfg (a : AD) : Acct.Cfg := { klen := a.klen, idxLen := idxLenReal a.klen (a.metaLen.getD 0) }

/-! ### script line ↦ operations -/

/-- `@<key>=<n>` with a plain number -/
def annotNat (toks0 : List String) (key : String) : Option Nat :=
  (toks0.find? (fun t => t.startsWith ("@" ++ key ++ "="))).bind fun t =>
    (t.drop (key.length + 2)).toString.toNat?

def cfgNat (toks : List String) (key : String) (dflt : Nat) : Nat :=
  match toks.findSome? (fun t => match kv t with
      | some (k, v) => if k == key then v.toNat? else none
      | none => none) with
  | some n => n
  | none => dflt

/-- one `<id>:<kind>[:<arg>]` of `bdmg=` (`ScenN::damage_blob`), applied to the closed directory:
    `some ids` = the blob files that are unreadable afterwards, `none` = the model cannot tell / cannot express it.
    * no such blob file: nothing happens;
    * `magic` (first byte of the blob header inverted): `Header::from_file` fails validation;
    * `hflip` (a byte inside a record header): the header checksum fails — unless the blob has no record,
      then nothing is changed;
    * a second damage to a file that is already unreadable may undo the first one;
    * `cut`, `dflip`: the scanner decides (a torn tail or a changed data byte can be accepted). -/
def dmgOne (s : Acct.State) (spec : String) : Option (List Nat) :=
  match spec.splitOn ":" with
  | idS :: kind :: _ =>
    match idS.toNat? with
    | none => some []
    | some id =>
      if (Acct.get s.dir.blobs id).isNone then some []
      else if s.ignored.contains id then none
      else
        match s.store.blobs.find? (fun b => b.id == id) with
        | none => none
        | some b =>
          if kind == "magic" then some [id]
          else if kind == "hflip" then (if b.recs.isEmpty then some [] else some [id])
          else none
  | _ => some []

def dmgAll (s : Acct.State) : List String → Option (List Nat)
  | [] => some []
  | sp :: rest =>
    match dmgOne s sp, dmgAll s rest with
    | some a, some b => some (a ++ b)
    | _, _ => none

/-- the blob files the `bdmg=` tokens of a `restart` line make unreadable -/
def damaged (s : Acct.State) (toks : List String) : Option (List Nat) :=
  if toks.any (fun t => t == "noidx" || t.startsWith "idmg=") then none
  else
    match dmgAll s ((toks.filter (·.startsWith "bdmg=")).flatMap fun t => (t.drop 5).toString.splitOn ",") with
    | none => none
    | some bad => if bad.Nodup then some bad else none

/-- `force_update_active_blob(pred)`: does the predicate hold of `active_blob_stat()` -/
def forceGo (st : Store) (p : String) : Bool :=
  match p with
  | "always" => true
  | "nonempty" => match st.active with | some a => decide (a.count > 0) | none => false
  | "ge3" => match st.active with | some a => decide (a.count ≥ 3) | none => false
  | _ => false

/-- what one script line means for the accounting state -/
structure Plan where
  ops : List Acct.AOp := []
  isOpen : Bool
  deferred : Bool
  lost : Bool
  l2Follows : Bool

/-- is the active blob at/over a limit once this record is in it (`should_update_active_blob`, `try_update_active_blob`) -/
def overLimit (a : AD) (r : Rec) : Bool :=
  match (Acct.ensureActive a.st).store.active with
  | some b => decide (a.maxData ≤ b.count + 1) ||
      decide (a.maxSize ≤ (Acct.ensureActive a.st).fsz b.id + Fs.recLen a.klen r)
  | none => false

/-- `toks0`: the tokens of the line including annotations (after a `cancel <k>` prefix is stripped);
    `out`: what the L2 driver answered (a rotation shows as `ok switched`) -/
def plan (a : AD) (toks0 : List String) (out : String) : Plan :=
  let l2 := a.l2Follows && !(toks0.any fun t => t == "nomodel" || (t.splitOn "dmg=").length > 1)
  let keep : Plan := { isOpen := a.isOpen, deferred := a.deferred, lost := a.lost, l2Follows := l2 }
  let lose : Plan := { keep with lost := true }
  let toks := toks0.filter (fun t => !t.startsWith "@" && t ≠ "")
  if a.lost then keep
  -- `@nodrain`: the request is left in the worker's queue (it is processed after whatever the script does next)
  else if toks0.contains "@lost" || toks0.contains "@nodrain" then lose
  else
    let reopen (lazy : Bool) (rest : List String) : Plan :=
      match damaged a.st rest with
      | none => lose
      | some bad => { ops := [.restart lazy a.ignore bad], isOpen := true, deferred := false, lost := false, l2Follows := l2 }
    match toks with
    | ["open"] => if a.isOpen then keep else reopen false []
    | ["open", "lazy"] => if a.isOpen then keep else reopen true []
    -- the harness restarts whether or not a storage is open
    | "restart" :: rest => reopen (rest.contains "lazy") rest
    | _ =>
      if !a.isOpen then keep
      else
        match toks with
        | ["close"] => { keep with isOpen := false }
        | "flipsweep" :: _ | "toolsweep" :: _ => reopen false []
        | "dmgsweep" :: rest => reopen (rest.contains "lazy") []
        | "replayfrom" :: _ | "conc" :: _ | "fault" :: _ | "killcheck" :: _ => lose
        | ["w", k, ts, m, len, seed] =>
          match hexNat k, ts.toNat?, parseMeta m, len.toNat?, seed.toNat? with
          | some k, some ts, some m, some len, some seed =>
            -- the rotation is an observation of the implementation (`@switched`; the debounce interval is wall-clock
            -- time); the model checks that it was enabled
            let d : Data := ⟨len, if len == 0 then 0 else seed⟩
            let rot := (toks0.contains "@switched" || (l2 && out == "ok switched")) && overLimit a (Fs.writeRec k ts m d)
            { keep with ops := [.write k ts m d rot (!a.deferred)] }
          | _, _, _, _, _ => keep
        | ["d", k, ts, m, oip] =>
          match hexNat k, ts.toNat?, parseMeta m, oip.toNat? with
          | some k, some ts, some m, some oip =>
            -- `deleted_in_closed > 0` → `DeferredDumpBlobIndexes`
            { keep with ops := [.delete k ts m (oip != 0)]
                        deferred := a.deferred || a.st.store.closed.any (fun b => (b.getLatest k).isFound) }
          | _, _, _, _ => keep
        | ["close_active"] | ["close_active_bg"] => { keep with ops := [.closeActive] }
        | ["create_active"] | ["create_active_bg"] => { keep with ops := [.createActive] }
        | ["restore_active"] | ["restore_active_bg"] => { keep with ops := [.restoreActive] }
        | ["force", p] => { keep with ops := [.force (forceGo a.st.store p)] }
        | ["free"] | ["settle"] => { keep with ops := [.settle] }
        | _ => keep

/-- `IndexStruct::serialize_filters` for key length `klen` and a bloom filter of `bits` bits (0: no filter,
    `Bloom::empty()`): `u64` length of the range part; the range filter (`bool`, two length-prefixed keys); the bloom
    `Save` (`Config`: five 8-byte fields; `Vec<u64>`: length + words; `bits_count`) -/
def metaLenOf (klen bits : Nat) : Nat := 8 + (1 + 2 * (8 + klen)) + (40 + (8 + 8 * ((bits + 63) / 64)) + 8)

/-- the filter-section length of the scenario: the annotation `@meta=<n>` of the comparison program if there is one;
    else computed from the bit count of the bloom configuration (`@bits=<n>`, which the comparison program obtains
    from the implementation — an `f64` formula; no filter: 0 bits) -/
def cfgMetaLen (toks0 : List String) (klen : Nat) : Option Nat :=
  match annotNat toks0 "meta" with
  | some n => some n
  | none =>
    let bloom := toks0.findSome? fun t => match kv t with
      | some (k, v) => if k == "bloom" then some v else none
      | none => none
    match bloom with
    | none | some "off" | some "0" => some (metaLenOf klen 0)
    | some v =>
      if (v.splitOn ",").all (fun x => x.toNat?.isSome) && (v.splitOn ",").length == 3 then
        (annotNat toks0 "bits").map (metaLenOf klen)
      else some (metaLenOf klen 0)

/-- a fresh scenario: the `cfg` line -/
def fresh (toks0 : List String) : AD :=
  let toks := toks0.filter (fun t => !t.startsWith "@" && t ≠ "")
  let dup := toks.any (· == "dup=1")
  { st := Acct.init dup
    klen := cfgNat toks "key" 4
    metaLen := cfgMetaLen toks0 (cfgNat toks "key" 4)
    dup := dup
    ignore := cfgNat toks "ignore" 0 != 0
    isOpen := true
    deferred := false
    -- a directory taken from elsewhere is not a history of this model
    lost := toks.any (·.startsWith "from=")
    idxUnknown := false
    maxData := cfgNat toks "maxdata" 1000000
    maxSize := cfgNat toks "maxsize" 1000000000000
    l2Follows := true }

def track (a : AD) (toks0 : List String) (out : String) : AD :=
  match toks0.filter (fun t => !t.startsWith "@" && t ≠ "") with
  | "cfg" :: _ => fresh toks0
  | _ =>
    let p := plan a toks0 out
    let st' := Acct.runFrom a.cfg a.st p.ops
    { a with st := st', isOpen := p.isOpen, deferred := p.deferred, lost := p.lost, l2Follows := p.l2Follows
             idxUnknown := a.idxUnknown || (a.metaLen.isNone && decide (st'.dir.idx ≠ a.st.dir.idx)) }

/-! ### the `fcounts` answer -/

def maxId (l : List Nat) : Option Nat := l.foldl (fun m x => match m with | none => some x | some y => some (max y x)) none

def showFcounts (a : AD) : String :=
  if !a.isOpen then "err NoStorage"
  else if a.lost then "fcounts ?"
  else
    let s := a.st
    let held := s.store.blobs.length
    let known := (s.store.blobs.filter (fun b => (Acct.get s.dir.blobs b.id).isSome)).length
    let maxfile := match maxId (Acct.keys s.dir.blobs ++ s.dir.corrupted) with | some n => toString n | none => "-"
    let both := (s.dir.corrupted.filter (fun i => (Acct.get s.dir.blobs i).isSome)).length
    let disk := if a.idxUnknown then "?" else toString (Acct.diskUsed s)
    let dirsum := if a.idxUnknown then "?" else toString (Acct.dirDiskUsed s)
    s!"fcounts blobs={Acct.blobsCount s} held={held} files={Acct.dirBlobFiles s} known={known} " ++
    s!"next={Acct.nextBlobId s} maxfile={maxfile} corr={Acct.corruptedBlobsCount s} " ++
    s!"corrfiles={Acct.dirCorrupted s} both={both} disk={disk} dirsum={dirsum}"

end Pearl.AcctScript
