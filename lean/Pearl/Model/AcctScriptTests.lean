import Pearl.Model.Driver
/-
`#guard` tests of the `fcounts` answers of the driver (not imported by `Pearl.lean`): the expected lines are the answers
of the implementation (`/verif/target/debug/pvh run`) to the same script.
-/
namespace Pearl.AcctScript.Tests
open Pearl

def outputs (lines : List String) : List String :=
  (lines.foldl (fun (acc : Driver.DState × List String) l =>
    let r := Driver.step acc.1 l
    (r.1, acc.2 ++ [r.2])) ({}, [])).2

def fc (lines : List String) : List String := (outputs lines).filter (·.startsWith "fcounts")

-- close / force / delete into a closed blob / settle / restart / three quarantines
#guard fc ["cfg key=4 dup=1 bloom=off ignore=0", "fcounts", "w 00000001 5 - 10 1", "w 00000002 5 - 10 2", "fcounts",
    "close_active", "fcounts", "w 00000003 5 m:01 300 3", "force always", "fcounts", "d 00000001 9 - 1", "fcounts",
    "settle", "fcounts", "restart", "fcounts", "nomodel", "restart bdmg=0:magic", "fcounts", "restart bdmg=1:hflip:0",
    "fcounts", "restart bdmg=2:magic", "fcounts"] =
  ["fcounts blobs=1 held=1 files=1 known=1 next=1 maxfile=0 corr=0 corrfiles=0 both=0 disk=20 dirsum=20",
   "fcounts blobs=1 held=1 files=1 known=1 next=1 maxfile=0 corr=0 corrfiles=0 both=0 disk=178 dirsum=178",
   "fcounts blobs=1 held=1 files=1 known=1 next=1 maxfile=0 corr=0 corrfiles=0 both=0 disk=488 dirsum=488",
   "fcounts blobs=3 held=3 files=3 known=3 next=3 maxfile=2 corr=0 corrfiles=0 both=0 disk=1164 dirsum=1164",
   "fcounts blobs=3 held=3 files=3 known=3 next=3 maxfile=2 corr=0 corrfiles=0 both=0 disk=1233 dirsum=1233",
   "fcounts blobs=3 held=3 files=3 known=3 next=3 maxfile=2 corr=0 corrfiles=0 both=0 disk=1294 dirsum=1294",
   "fcounts blobs=3 held=3 files=3 known=3 next=3 maxfile=2 corr=0 corrfiles=0 both=0 disk=1294 dirsum=1294",
   "fcounts blobs=2 held=2 files=2 known=2 next=3 maxfile=2 corr=1 corrfiles=1 both=0 disk=676 dirsum=676",
   "fcounts blobs=1 held=1 files=1 known=1 next=3 maxfile=2 corr=2 corrfiles=2 both=0 disk=20 dirsum=20",
   "fcounts blobs=1 held=1 files=1 known=1 next=4 maxfile=3 corr=3 corrfiles=3 both=0 disk=20 dirsum=20"]

-- `ignore_corrupted`: the skipped blob file stays (files=2, held=1)
#guard fc ["cfg key=4 dup=1 bloom=off ignore=1", "w 00000001 5 - 10 1", "w 00000002 5 - 10 2", "force always",
    "w 00000003 5 - 10 3", "nomodel", "restart bdmg=0:magic", "fcounts"] =
  ["fcounts blobs=1 held=1 files=2 known=1 next=2 maxfile=1 corr=0 corrfiles=0 both=0 disk=348 dirsum=348"]

-- what the model cannot follow, and a scenario without the filter-section length
#guard fc ["cfg key=4 dup=1 bloom=off", "w 00000001 5 - 10 1", "restart bdmg=0:cut:5", "fcounts"] = ["fcounts ?"]
#guard fc ["cfg key=4 dup=1 bloom=7,1,64", "w 00000001 5 - 10 1", "fcounts", "close_active", "fcounts"] =
  ["fcounts blobs=1 held=1 files=1 known=1 next=1 maxfile=0 corr=0 corrfiles=0 both=0 disk=99 dirsum=99",
   "fcounts blobs=1 held=1 files=1 known=1 next=1 maxfile=0 corr=0 corrfiles=0 both=0 disk=? dirsum=?"]

-- the index file length the driver uses is the length of the L4 byte image (`idxLenReal_eq_image`)
#guard (Driver.indexImage 4 { id := 0, recs := [⟨1, 5, false, none, ⟨10, 1⟩⟩, ⟨2, 5, false, none, ⟨10, 2⟩⟩] } 89).length
    = idxLenReal 4 89 [⟨1, 5, false, none, ⟨10, 1⟩⟩, ⟨2, 5, false, none, ⟨10, 2⟩⟩]

end Pearl.AcctScript.Tests
