import Pearl.Model.Basic
/-
L4: the on-disk B+tree index (`src/blob/index/bptree/{serializer,node,meta,core}.rs`), at the
*structured* level: a record header is an abstract `H` with a key; a tree node is `{keys, offsets}`;
the file is `IndexHeader | filter buffer | TreeMeta | tree nodes (root first) | record headers`.
All byte offsets and all the size arithmetic of the Rust code are kept (they carry the off-by-one
risks); only the encoding of a single header / node into bytes is abstracted.

Conventions for results: the Rust functions return `Result<Option<_>>`; the model returns
`Option (Option _)`, the outer `none` standing for *any* abnormal outcome (an `Err`, a slice/index
panic, an arithmetic-overflow panic of a debug build, a read past the end of the file, or a loop
that does not terminate within its fuel).  The theorems of C09 say the outer layer is `some`.

Parameters are independent in the model (`rhs`, `K`, `B`); the real code has `rhs = 57 + K`
(`Params.real`) and `B = BLOCK_SIZE = 4096`.
-/
namespace Pearl.BPTree

/-- a record header as the index sees it: something with a key (`record::Header::key`) -/
class Keyed (H : Type) where
  /-- `Key = Nat` (big-endian value of the key bytes); written `Nat` throughout this file so that `omega` sees it -/
  hkey : H → Nat
export Keyed (hkey)

instance : Keyed Rec := ⟨Rec.key⟩

structure Params where
  /-- `record_header_size`: bincode size of `record::Header` = 57 + key length -/
  rhs : Nat
  /-- `K::LEN` -/
  K : Nat
  /-- `BLOCK_SIZE` -/
  B : Nat := 4096
deriving Repr, DecidableEq

/-- the real parameters for key length `K` -/
def Params.real (K : Nat) : Params := { rhs := 57 + K, K := K, B := 4096 }

/-- `NodeMeta::serialized_size_default()` : one `u64` -/
def nodeMetaSize : Nat := 8
/-- `size_of::<u64>()` -/
def offsetSize : Nat := 8
/-- `TreeMeta::serialized_size_default()` : two `u64` -/
def treeMetaSize : Nat := 16
/-- `IndexHeader::serialized_size()`: magic 8, records_count 8, record_header_size 8, meta_size 8,
    hash 8+32, version 1, key_size 2, blob_size 8 -/
def indexHeaderSize : Nat := 83

/-- `InMemoryIndex<K> = BTreeMap<K, Vec<RecordHeader>>` as its iteration: key-ascending pairs -/
abbrev InMem (H : Type) := List (Nat × List H)

/-- `(min key, offset)` : `MinKeyWithOffset` -/
abbrev Entry := Nat × Nat

structure Node where
  keys : List Nat
  offsets : List Nat
deriving Repr, DecidableEq, Inhabited

/-- `Node::serialized_size_with_keys(key_size, keys_amount)` -/
def nodeSize (p : Params) (keysAmount : Nat) : Nat :=
  nodeMetaSize + (p.K * keysAmount + (keysAmount + 1) * offsetSize)

/-- size of a written node (`NodeMeta.size` = number of keys) -/
def Node.size (p : Params) (n : Node) : Nat := nodeSize p n.keys.length

def nodesBytes (p : Params) (ns : List Node) : Nat := (ns.map (Node.size p)).sum

/-- `max_nonleaf_node_capacity` : maximal number of children -/
def maxAmount (p : Params) : Nat := (p.B - nodeMetaSize - offsetSize) / (p.K + offsetSize) + 1
/-- `min_amount = (max_amount - 1) / 2 + 1` -/
def minAmount (p : Params) : Nat := (maxAmount p - 1) / 2 + 1

/-! ### serializer -/

section Serializer
variable {H : Type}

/-- `HeaderStage.header.records_count` : `fold(0, |acc, (_, v)| acc + v.len())` -/
def totalCount (m : InMem H) : Nat := m.foldl (fun acc kv => acc + kv.2.length) 0

/-- `append_headers`: `iter().flat_map(|r| r.1.iter().rev())` -/
def leafArray (m : InMem H) : List H := m.flatMap (fun kv => kv.2.reverse)

/-- the `for (k, v) in btree.iter()` loop of `serialize_bptree`; state `offset, remainder, min_k, min_o`;
    the final `push` is the `[]` case -/
def packLeaves (p : Params) : InMem H → Nat → Nat → Nat → Nat → List Entry
  | [], _, _, minK, minO => [(minK, minO)]
  | (k, v) :: rest, offset, remainder, minK, minO =>
    let delta := v.length * p.rhs
    if remainder < p.rhs then
      (minK, minO) :: packLeaves p rest (offset + delta) (p.B - delta) k offset
    else
      packLeaves p rest (offset + delta) (remainder - delta) minK minO

/-- `leaf_nodes_compressed` of `serialize_bptree` (offsets relative to the start of the leaf region) -/
def leafTable (p : Params) (m : InMem H) : List Entry :=
  match m with
  | [] => []
  | (k, _) :: _ => packLeaves p m 0 p.B k 0

end Serializer

/-- the common loop of `collect_next_layer_nodes` and `shift_all_and_write`:
    `while len - current > max { amount = min(max, len - current - min); … }` then the rest.
    Fuel = length (the real loop does not terminate for `amount = 0`). -/
def portionsAux {α : Type} (mn mx : Nat) : Nat → List α → List (List α)
  | 0, xs => [xs]
  | fuel + 1, xs =>
    if xs.length > mx then
      let amount := min mx (xs.length - mn)
      xs.take amount :: portionsAux mn mx fuel (xs.drop amount)
    else [xs]

def portions {α : Type} (mn mx : Nat) (xs : List α) : List (List α) := portionsAux mn mx xs.length xs

/-- `collect_next_layer_nodes`, given the portions: `(portion[0].key, current_offset)` per portion and
    the layer size -/
def collectNext (p : Params) : List (List Entry) → Nat → List Entry × Nat
  | [], off => ([], off)
  | P :: Ps, off =>
    let r := collectNext p Ps (off + nodeSize p (P.length - 1))
    (((P.headD (0, 0)).1, off) :: r.1, r.2)

/-- `process_keys_portion`: keys of `portion[1..]`, offsets of the whole portion shifted -/
def mkNode (shift : Nat) (P : List Entry) : Node :=
  { keys := P.tail.map (·.1), offsets := P.map (fun e => e.2 + shift) }

/-- `build_tree`: the upper layers (root first), then the layer whose children are `es`.
    The Rust function threads `buf`; it is empty at the top call and only appended to, so the
    returned list is the buffer. -/
def buildTree (p : Params) : Nat → List Entry → Nat → List Node
  | 0, _, _ => []
  | fuel + 1, es, treeOffset =>
    if es.length ≤ 1 then []
    else
      let ps := portions (minAmount p) (maxAmount p) es
      let r := collectNext p ps 0
      let up := buildTree p fuel r.1 treeOffset
      let base := treeOffset + r.2 + nodesBytes p up
      up ++ ps.map (mkNode base)

/-- the index file -/
structure IndexFile (H : Type) where
  p : Params
  /-- `IndexHeader.records_count` -/
  recordsCount : Nat
  /-- `IndexHeader.meta_size` (filter buffer) -/
  metaLen : Nat
  /-- `TreeMeta.tree_offset` -/
  treeOffset : Nat
  /-- `TreeMeta.leaves_offset` -/
  leavesOffset : Nat
  /-- nodes written consecutively from `hs + meta_size + 16` -/
  nodes : List Node
  /-- record headers written consecutively after the nodes -/
  leaves : List H

namespace IndexFile
variable {H : Type}

/-- where the tree region physically starts -/
def treeStart (f : IndexFile H) : Nat := indexHeaderSize + f.metaLen + treeMetaSize
/-- where the record headers physically start -/
def leavesStart (f : IndexFile H) : Nat := f.treeStart + nodesBytes f.p f.nodes
def fileSize (f : IndexFile H) : Nat := f.leavesStart + f.leaves.length * f.p.rhs

end IndexFile

/-- `Serializer::new(m).header_stage(meta, _)?.tree_stage()?.build()` followed by the write.
    (For an empty map the Rust code returns `Err`; `dump_in_memory` returns before calling it.) -/
def build {H : Type} (p : Params) (metaLen : Nat) (m : InMem H) : IndexFile H :=
  let treeOffset := indexHeaderSize + metaLen + treeMetaSize
  let lt := leafTable p m
  let tree := buildTree p lt.length lt treeOffset
  { p := p
    recordsCount := totalCount m
    metaLen := metaLen
    treeOffset := treeOffset
    leavesOffset := treeOffset + nodesBytes p tree
    nodes := tree
    leaves := leafArray m }

/-! ### binary search (shared shape of `read_header_buf` and `binary_search_serialized`) -/

inductive BS where
  | found (m : Nat)
  | notFound (l : Nat)
deriving Repr, DecidableEq

/-- `while l <= r { m = (l + r) / 2; match key.cmp(at m) { Less => r = m - 1, Greater => l = m + 1,
    Equal => return Ok(m) } } Err(l)` with `i32` `l, r` -/
def binSearchAux (keyAt : Nat → Option Nat) (k : Nat) : Nat → Int → Int → Option BS
  | 0, _, _ => none
  | fuel + 1, l, r =>
    if l ≤ r then
      let m := (l + r) / 2
      match keyAt m.toNat with
      | none => none
      | some km =>
        if k < km then binSearchAux keyAt k fuel l (m - 1)
        else if km < k then binSearchAux keyAt k fuel (m + 1) r
        else some (.found m.toNat)
    else some (.notFound l.toNat)

/-- search among `n` items: `l = 0`, `r = n - 1` -/
def binSearch (keyAt : Nat → Option Nat) (n : Nat) (k : Nat) : Option BS :=
  binSearchAux keyAt k (n + 1) 0 ((n : Int) - 1)

/-- `Node::key_offset_serialized`.  `binary_search_serialized` computes `(buf.len() / key_size - 1) as i32`
    in `usize`: with no keys this is a subtraction overflow (panic in a debug build; a release build
    wraps to `-1` and the descent takes `offsets[0]`).  The model takes the debug behaviour. -/
def Node.keyOffset (n : Node) (k : Nat) : Option Nat :=
  if n.keys.length = 0 then none
  else
    match binSearch (fun i => n.keys[i]?) n.keys.length k with
    | none => none
    | some (.found pos) => n.offsets[pos + 1]?
    | some (.notFound pos) => n.offsets[pos]?

/-! ### reader -/

namespace IndexFile
variable {H : Type} [Keyed H]

/-- the node that starts at byte `rel` of the node region -/
def nodeAtRel (p : Params) : List Node → Nat → Option Node
  | [], _ => none
  | n :: ns, rel =>
    if rel = 0 then some n
    else if rel < n.size p then none
    else nodeAtRel p ns (rel - n.size p)

/-- reading a node at absolute offset `off`: the root comes from `read_root` (whatever is there, up to
    a block); every other node is `read_exact_at(buf /* B bytes */, off)`, an `UnexpectedEof` error if the
    file ends earlier; the node must lie inside the block that was read -/
def readNode (f : IndexFile H) (off : Nat) : Option Node :=
  if off < f.treeStart then none
  else if off ≠ f.treeOffset ∧ f.fileSize < off + f.p.B then none
  else
    match nodeAtRel f.p f.nodes (off - f.treeStart) with
    | none => none
    | some n => if n.size f.p ≤ f.p.B then some n else none

/-- `find_leaf_node`: `while offset < leaves_offset { offset = key_offset_serialized(node at offset) }` -/
def findLeafNodeAux (f : IndexFile H) (k : Nat) : Nat → Nat → Option Nat
  | 0, _ => none
  | fuel + 1, off =>
    if off < f.leavesOffset then
      match f.readNode off with
      | none => none
      | some n =>
        match n.keyOffset k with
        | none => none
        | some off' => findLeafNodeAux f k fuel off'
    else some off

def findLeafNode (f : IndexFile H) (k : Nat) : Option Nat :=
  findLeafNodeAux f k (f.nodes.length + 1) f.treeOffset

/-- the record header stored at absolute offset `abs` (must be a header boundary, wholly in the file) -/
def hdrAt (f : IndexFile H) (abs : Nat) : Option H :=
  if abs < f.leavesStart then none
  else if (abs - f.leavesStart) % f.p.rhs ≠ 0 then none
  else f.leaves[(abs - f.leavesStart) / f.p.rhs]?

/-- `deserialize(&buf[off .. off + rhs])` where `buf` holds `len` bytes read at `leafOff` -/
def bufRead (f : IndexFile H) (leafOff len off : Nat) : Option H :=
  if off + f.p.rhs ≤ len then f.hdrAt (leafOff + off) else none

/-- `leaf_node_buf_size` (`file_size - leaf_offset` underflows past the end: `none`) -/
def leafNodeBufSize (f : IndexFile H) (leafOff : Nat) : Option Nat :=
  if f.fileSize < leafOff then none else some (min (f.fileSize - leafOff) f.p.B)

/-- `read_header_buf`: binary search over the `len / rhs` whole headers of the buffer -/
def readHeaderBuf (f : IndexFile H) (leafOff len : Nat) (k : Nat) : Option (Option (H × Nat)) :=
  if f.p.rhs = 0 then none
  else
    match binSearch (fun i => (f.bufRead leafOff len (f.p.rhs * i)).map hkey) (len / f.p.rhs) k with
    | none => none
    | some (.notFound _) => some none
    | some (.found m) =>
      match f.bufRead leafOff len (f.p.rhs * m) with
      | none => none
      | some h => some (some (h, f.p.rhs * m))

/-- `get_leftmost` -/
def getLeftmostAux (f : IndexFile H) (leafOff len : Nat) (k : Nat) : Nat → Nat → H → Option H
  | 0, _, _ => none
  | fuel + 1, offset, prev =>
    if offset > 0 then
      let offset := offset - f.p.rhs
      match f.bufRead leafOff len offset with
      | none => none
      | some cur => if hkey cur ≠ k then some prev else getLeftmostAux f leafOff len k fuel offset cur
    else some prev

def getLeftmost (f : IndexFile H) (leafOff len : Nat) (k : Nat) (offset : Nat) (prev : H) : Option H :=
  if f.p.rhs = 0 then none else getLeftmostAux f leafOff len k (offset / f.p.rhs + 2) offset prev

/-- `read_header` -/
def readHeader (f : IndexFile H) (leafOff : Nat) (k : Nat) : Option (Option H) :=
  match f.leafNodeBufSize leafOff with
  | none => none
  | some len =>
    if f.p.B < len then none
    else
      match f.readHeaderBuf leafOff len k with
      | none => none
      | some none => some none
      | some (some (h, off)) => (f.getLeftmost leafOff len k off h).map some

/-- `BPTreeFileIndex::get_latest` -/
def getLatest (f : IndexFile H) (k : Nat) : Option (Option H) :=
  match f.findLeafNode k with
  | none => none
  | some leafOff => f.readHeader leafOff k

/-- `go_left` -/
def goLeftAux (f : IndexFile H) (leafOff len : Nat) (k : Nat) : Nat → List H → Nat → Option (List H)
  | 0, _, _ => none
  | fuel + 1, hs, offset =>
    if f.p.rhs ≤ offset then
      let start := offset - f.p.rhs
      match f.bufRead leafOff len start with
      | none => none
      | some rh => if hkey rh = k then goLeftAux f leafOff len k fuel (hs ++ [rh]) start else some hs
    else some hs

def goLeft (f : IndexFile H) (leafOff len : Nat) (k : Nat) (hs : List H) (offset : Nat) : Option (List H) :=
  if f.p.rhs = 0 then none else goLeftAux f leafOff len k (offset / f.p.rhs + 1) hs offset

/-- `leaves_end = leaves_offset + record_header_size * records_count` -/
def leavesEnd (f : IndexFile H) : Nat := f.leavesOffset + f.p.rhs * f.recordsCount

/-- `go_right_file`: one `read_exact_at` of `rhs` bytes per header -/
def goRightFileAux (f : IndexFile H) : Nat → List H → Nat → Option (List H)
  | 0, _, _ => none
  | fuel + 1, hs, offset =>
    if offset + f.p.rhs ≤ f.leavesEnd then
      if f.fileSize < offset + f.p.rhs then none
      else
        match f.hdrAt offset, hs.head? with
        | some h, some h0 =>
          if hkey h = hkey h0 then goRightFileAux f fuel (hs ++ [h]) (offset + f.p.rhs) else some hs
        | _, _ => none
    else some hs

def goRightFile (f : IndexFile H) (hs : List H) (offset : Nat) : Option (List H) :=
  if f.p.rhs = 0 then none else goRightFileAux f (f.recordsCount + 1) hs offset

/-- the `while offset + rhs < right_bound` loop of `go_right`, then `go_right_file` -/
def goRightAux (f : IndexFile H) (leafOff len rightBound : Nat) : Nat → List H → Nat → Option (List H)
  | 0, _, _ => none
  | fuel + 1, hs, offset =>
    if offset + f.p.rhs < rightBound then
      match f.bufRead leafOff len offset, hs.head? with
      | some rh, some h0 =>
        if hkey rh = hkey h0 then goRightAux f leafOff len rightBound fuel (hs ++ [rh]) (offset + f.p.rhs)
        else some hs
      | _, _ => none
    else f.goRightFile hs (leafOff + offset)

/-- `go_right` (`leaves_end - leaf_offset` in `usize`: underflow = `none`) -/
def goRight (f : IndexFile H) (hs : List H) (leafOff len offset : Nat) : Option (List H) :=
  if f.p.rhs = 0 then none
  else if f.leavesEnd < leafOff then none
  else
    let rightBound := min (f.leavesEnd - leafOff) len
    goRightAux f leafOff len rightBound (len / f.p.rhs + 1) hs (offset + f.p.rhs)

/-- `read_headers` -/
def readHeaders (f : IndexFile H) (leafOff : Nat) (k : Nat) : Option (Option (List H)) :=
  match f.leafNodeBufSize leafOff with
  | none => none
  | some len =>
    if f.p.B < len then none
    else
      match f.readHeaderBuf leafOff len k with
      | none => none
      | some none => some none
      | some (some (h, off)) =>
        match f.goLeft leafOff len (hkey h) [] off with
        | none => none
        | some hs =>
          let hs := if hs.length > 1 then hs.reverse else hs
          (f.goRight (hs ++ [h]) leafOff len off).map some

/-- `BPTreeFileIndex::find_by_key` -/
def findByKey (f : IndexFile H) (k : Nat) : Option (Option (List H)) :=
  match f.findLeafNode k with
  | none => none
  | some leafOff => f.readHeaders leafOff k

/-- `records_count()` -/
def count (f : IndexFile H) : Nat := f.recordsCount

/-- `BTreeMap`: `get_mut(key)` then `push`, else `insert(key, vec![h])` -/
def mapPush (h : H) : InMem H → InMem H
  | [] => [(hkey h, [h])]
  | (k, v) :: rest =>
    if hkey h < k then (hkey h, [h]) :: (k, v) :: rest
    else if hkey h = k then (k, v ++ [h]) :: rest
    else (k, v) :: mapPush h rest

/-- `get_records_headers`: `records_count` headers from `leaves_offset`, grouped, each vector reversed.
    (`records_buf = buf[leaves_offset .. file_size]`; a header index past the end is a slice panic.) -/
def load (f : IndexFile H) : Option (InMem H) :=
  if f.leavesOffset ≠ f.leavesStart then none
  else if f.leaves.length < f.recordsCount then none
  else
    let hs := f.leaves.take f.recordsCount
    let m := hs.foldl (fun acc h => mapPush h acc) []
    some (m.map fun kv => (kv.1, if kv.2.length > 1 then kv.2.reverse else kv.2))

end IndexFile

/-! ### the in-memory answers (`IndexStruct`, `State::InMemory` arms) -/

section InMemory
variable {H : Type}

/-- `headers.get(key).and_then(|h| h.last())` -/
def memLatest (m : InMem H) (k : Nat) : Option H := (m.lookup k).bind List.getLast?

/-- `headers.get(key).cloned().map(|hs| { if hs.len() > 1 { hs.reverse() } hs })` -/
def memAll (m : InMem H) (k : Nat) : Option (List H) := (m.lookup k).map List.reverse

end InMemory

end Pearl.BPTree
