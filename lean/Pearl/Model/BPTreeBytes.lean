import Pearl.Model.BPTree
/-
L4 bytes: the index file of `Pearl/Model/BPTree.lean` as a byte string (bincode, fixed-width little-endian
integers, `Vec<u8>` = `u64` length + bytes), for byte-exact comparison with a real `.index` file.
Bytes are `Nat`s below 256.  The SHA-256 of the file is an input (`hash`, 32 bytes; compare with the hash
field masked, or pass the real one).
-/
namespace Pearl.BPTree

/-- `width` little-endian bytes of `n` -/
def leBytes : Nat → Nat → List Nat
  | 0, _ => []
  | w + 1, n => n % 256 :: leBytes w (n / 256)

/-- the `width` key bytes whose big-endian value is `n` -/
def beBytes (w n : Nat) : List Nat := (leBytes w n).reverse

/-- `record::Header`, all fields (`magic_byte` is the constant `RECORD_MAGIC_BYTE`) -/
structure RawHeader where
  key : Nat
  metaSize : Nat
  dataSize : Nat
  flags : Nat
  blobOffset : Nat
  timestamp : Nat
  dataChecksum : Nat
  headerChecksum : Nat
deriving Repr, DecidableEq, Inhabited

instance : Keyed RawHeader := ⟨RawHeader.key⟩

/-- `RECORD_MAGIC_BYTE = INDEX_HEADER_MAGIC_BYTE = 0xacdc_bcde` -/
def magicByte : Nat := 0xacdcbcde
/-- `HEADER_VERSION` of the index header -/
def indexHeaderVersion : Nat := 6

/-- bincode of `record::Header` with a `K`-byte key: `57 + K` bytes -/
def RawHeader.bytes (K : Nat) (h : RawHeader) : List Nat :=
  leBytes 8 magicByte ++ (leBytes 8 K ++ beBytes K h.key) ++ leBytes 8 h.metaSize ++ leBytes 8 h.dataSize
    ++ leBytes 1 h.flags ++ leBytes 8 h.blobOffset ++ leBytes 8 h.timestamp
    ++ leBytes 4 h.dataChecksum ++ leBytes 4 h.headerChecksum

/-- `Node::new_serialized`: `NodeMeta{size}` | keys | offsets -/
def Node.bytes (K : Nat) (n : Node) : List Nat :=
  leBytes 8 n.keys.length ++ n.keys.flatMap (beBytes K) ++ n.offsets.flatMap (leBytes 8)

/-- bincode of `IndexHeader`: magic, records_count, record_header_size, meta_size, hash (`Vec<u8>`),
    version byte (`version << 1 | written`), key_size `u16`, blob_size -/
def indexHeaderBytes (f : IndexFile RawHeader) (hash : List Nat) (written : Bool) (blobSize : Nat) : List Nat :=
  leBytes 8 magicByte ++ leBytes 8 f.recordsCount ++ leBytes 8 f.p.rhs ++ leBytes 8 f.metaLen
    ++ (leBytes 8 hash.length ++ hash) ++ [indexHeaderVersion * 2 + (if written then 1 else 0)]
    ++ leBytes 2 f.p.K ++ leBytes 8 blobSize

/-- `TreeMeta { leaves_offset, tree_offset }` -/
def treeMetaBytes (f : IndexFile RawHeader) : List Nat := leBytes 8 f.leavesOffset ++ leBytes 8 f.treeOffset

/-- the whole file after `from_records` (header rewritten with the `written` bit set) -/
def indexFileBytes (f : IndexFile RawHeader) (metaBuf hash : List Nat) (blobSize : Nat) : List Nat :=
  indexHeaderBytes f hash true blobSize ++ metaBuf ++ treeMetaBytes f
    ++ f.nodes.flatMap (Node.bytes f.p.K) ++ f.leaves.flatMap (RawHeader.bytes f.p.K)

end Pearl.BPTree
