import Pearl.Model.BPTreeBytes
/-
Test utility (not imported by `Pearl.lean`): read a real `.index` file written by pearl, recover the
in-memory map from its leaf region, rebuild the file with the Lean model and compare byte for byte
(hash copied from the file; everything else — header, tree meta, every node, every header — recomputed),
then run every look-up against the in-memory answers.

  lake env lean --run Pearl/Model/BPTreeFileCheck.lean <file.index>...
-/
open Pearl.BPTree

def leNat (bs : List Nat) : Nat := bs.foldr (fun b acc => b + 256 * acc) 0
def beNat (bs : List Nat) : Nat := bs.foldl (fun acc b => acc * 256 + b) 0

def slice (bs : Array Nat) (off len : Nat) : List Nat := (bs.extract off (off + len)).toList

def parseHeader (K : Nat) (bs : Array Nat) (off : Nat) : RawHeader :=
  { key := beNat (slice bs (off + 16) K)
    metaSize := leNat (slice bs (off + 16 + K) 8)
    dataSize := leNat (slice bs (off + 24 + K) 8)
    flags := leNat (slice bs (off + 32 + K) 1)
    blobOffset := leNat (slice bs (off + 33 + K) 8)
    timestamp := leNat (slice bs (off + 41 + K) 8)
    dataChecksum := leNat (slice bs (off + 49 + K) 4)
    headerChecksum := leNat (slice bs (off + 53 + K) 4) }

/-- group consecutive headers by key; each group reversed = the ascending in-memory vector -/
def groupRuns (hs : List RawHeader) : InMem RawHeader :=
  let step (acc : InMem RawHeader) (h : RawHeader) : InMem RawHeader :=
    match acc with
    | (k, v) :: rest => if k = h.key then (k, h :: v) :: rest else (h.key, [h]) :: (k, v) :: rest
    | [] => [(h.key, [h])]
  (hs.foldl step []).reverse

def checkFile (path : String) : IO Bool := do
  let raw ← IO.FS.readBinFile path
  let bs : Array Nat := raw.data.map (·.toNat)
  let recordsCount := leNat (slice bs 8 8)
  let rhs := leNat (slice bs 16 8)
  let metaLen := leNat (slice bs 24 8)
  let hash := slice bs 40 32
  let K := leNat (slice bs 73 2)
  let blobSize := leNat (slice bs 75 8)
  let metaBuf := slice bs 83 metaLen
  let leavesOffset := leNat (slice bs (83 + metaLen) 8)
  let treeOffset := leNat (slice bs (83 + metaLen + 8) 8)
  let hs := (List.range recordsCount).map fun i => parseHeader K bs (leavesOffset + i * rhs)
  let m := groupRuns hs
  let p := Params.real K
  let f := build p metaLen m
  let mine := indexFileBytes f metaBuf hash blobSize
  let same := mine == bs.toList
  IO.println s!"{path}: K={K} rhs={rhs} records={recordsCount} keys={m.length} meta={metaLen} tree_offset={treeOffset} leaves_offset={leavesOffset} size={bs.size}"
  IO.println s!"  model: tree_offset={f.treeOffset} leaves_offset={f.leavesOffset} size={f.fileSize} leaves(nodes)={(leafTable p m).length} inner nodes={f.nodes.length} maxAmount={maxAmount p}"
  IO.println s!"  bytes identical: {same}"
  if !same then
    let firstDiff := (List.range (min mine.length bs.size)).find? fun i => mine[i]! != bs[i]!
    IO.println s!"  first difference at {firstDiff}, lengths {mine.length} vs {bs.size}"
  -- look-ups: every present key, and the absent keys next to them
  let probe := (m.map (·.1)).flatMap fun k => [k - 1, k, k + 1]
  let bad := probe.filter fun k =>
    !(f.getLatest k == some (memLatest m k) && f.findByKey k == some (memAll m k))
  IO.println s!"  look-ups: {probe.length} probes, {bad.length} disagreements; load ok: {f.load == some m}; count ok: {f.count == recordsCount}"
  return same && bad.isEmpty && f.load == some m && f.count == recordsCount && rhs == p.rhs

def main (args : List String) : IO UInt32 := do
  let mut ok := true
  for a in args do
    let r ← checkFile a
    ok := ok && r
  IO.println (if ok then "ALL OK" else "MISMATCH")
  return if ok then 0 else 1
