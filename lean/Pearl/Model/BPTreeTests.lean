import Pearl.Model.BPTreeBytes
/-
`#eval` tests of the B+tree model (not imported by `Pearl.lean`): build + look-ups against the
in-memory answers over pseudo-random maps, on small blocks so that every tree shape is reached.
-/
namespace Pearl.BPTree.Tests
open Pearl.BPTree

structure TH where
  key : Nat
  id : Nat
deriving DecidableEq, Repr, Inhabited

instance : Keyed TH := ⟨TH.key⟩

def lcg (s : Nat) : Nat := (s * 6364136223846793005 + 1442695040888963407) % 18446744073709551616
def rnd (s : Nat) (n : Nat) : Nat × Nat := let s' := lcg s; ((s' / 65536) % n, s')

/-- a random map: each key of `0..nk` present with probability 2/3; run lengths from a pool -/
def genMap (seed nk : Nat) (pool : List Nat) : InMem TH × Nat := Id.run do
  let mut s := seed
  let mut m : InMem TH := []
  let mut id := 0
  for k in [0:nk] do
    let (c, s1) := rnd s 3
    s := s1
    if c ≠ 0 then
      let (i, s2) := rnd s pool.length
      s := s2
      let len := pool.getD i 1
      let v := (List.range len).map fun j => (⟨2 * k + 1, id + j⟩ : TH)
      id := id + len
      m := m ++ [(2 * k + 1, v)]
  return (m, s)

def checkMap (p : Params) (metaLen : Nat) (m : InMem TH) (maxKey : Nat) : Bool :=
  let f := build p metaLen m
  let ok1 := (List.range (maxKey + 2)).all fun k =>
    f.getLatest k == some (memLatest m k) && f.findByKey k == some (memAll m k)
  ok1 && f.load == some m && f.count == (m.map (·.2.length)).sum && f.leavesOffset == f.leavesStart

def runTests (p : Params) (n nk : Nat) (pool : List Nat) (seed : Nat) : Nat × Nat × Nat := Id.run do
  let mut s := seed
  let mut bad := 0
  let mut maxNodes := 0
  let mut tot := 0
  for _ in [0:n] do
    let (m, s') := genMap s nk pool
    s := s'
    if m ≠ [] then
      tot := tot + 1
      if !(checkMap p (s % 7) m (2 * nk + 1)) then bad := bad + 1
      maxNodes := max maxNodes (build p 0 m).nodes.length
  return (tot, bad, maxNodes)

-- rhs 3, K 1, B 40: 13 headers / block, fan-out (40-16)/9+1 = 3
#eval runTests { rhs := 3, K := 1, B := 40 } 200 30 [1, 1, 2, 3, 12, 13, 14, 26, 27, 40] 1
-- rhs 10, K 1, B 35: 3 headers / block, fan-out 3
#eval runTests { rhs := 10, K := 1, B := 35 } 200 40 [1, 1, 1, 2, 3, 4, 6, 7] 2
-- rhs 5, K 4, B 64: 12 headers / block, fan-out 5
#eval runTests { rhs := 5, K := 4, B := 64 } 200 60 [1, 2, 3, 11, 12, 13, 24, 25] 3
-- rhs = B: one header / block
#eval runTests { rhs := 40, K := 1, B := 40 } 100 20 [1, 2, 3] 4
-- B a multiple of rhs: runs ending exactly at block boundaries
#eval runTests { rhs := 4, K := 2, B := 48 } 200 40 [1, 2, 6, 11, 12, 13, 24, 36] 5
-- fan-out 4
#eval runTests { rhs := 6, K := 2, B := 46 } 200 80 [1, 2, 3, 7, 8] 6
-- real parameters, long keys (fan-out 5, 3 headers per block)
#eval runTests (Params.real 1000) 30 40 [1, 2, 3, 4, 7] 7
-- real parameters, K = 8 (63 headers per block, fan-out 256)
#eval runTests (Params.real 8) 10 40 [1, 2, 62, 63, 64, 130] 8

-- fan-out 2 (min_amount 1): a node with a single child and no key is produced
#eval runTests { rhs := 20, K := 4, B := 32 } 50 6 [1] 9
#eval (build { rhs := 20, K := 4, B := 32 } 0 [(1, [(⟨1, 0⟩ : TH)]), (3, [⟨3, 1⟩]), (5, [⟨5, 2⟩])]).nodes
#eval (build { rhs := 20, K := 4, B := 32 } 0 [(1, [(⟨1, 0⟩ : TH)]), (3, [⟨3, 1⟩]), (5, [⟨5, 2⟩])]).getLatest 5

-- rhs > B
#eval leafTable { rhs := 50, K := 1, B := 40 } [(1, [(⟨1, 0⟩ : TH)]), (3, [⟨3, 1⟩])]
#eval (build { rhs := 50, K := 1, B := 40 } 0 [(1, [(⟨1, 0⟩ : TH)]), (3, [⟨3, 1⟩])]).getLatest 3

end Pearl.BPTree.Tests

/-! byte level: the length of the byte string is the file size of the structured model -/
namespace Pearl.BPTree.Tests
open Pearl.BPTree

def rawMap (n : Nat) : InMem RawHeader :=
  (List.range n).map fun k => (3 * k + 1, (List.range (k % 4 + 1)).map fun j => ⟨3 * k + 1, 0, 5, 0, 100 * k + j, j, 7, 9⟩)

#eval (List.range 40).all fun n =>
  let f := build (Params.real 128) 11 (rawMap (n + 1))
  (indexFileBytes f (List.replicate 11 0) (List.replicate 32 0) 1000).length == f.fileSize
#eval (build (Params.real 128) 11 (rawMap 400)).nodes.length

end Pearl.BPTree.Tests
