/-
L0/L1 shared vocabulary of the Pearl model.

Keys: Pearl keys are fixed-length byte strings compared lexicographically (`ArrayKey<N>`: `[u8; N]`
with the derived `Ord`). For a fixed length `N`, lexicographic order on `[u8; N]` is the numeric order
of the big-endian value, so the model uses `Nat` for keys; the driver converts hex ↔ `Nat`, and the
byte-level layers (L4/L5) expand a key to its `N` big-endian bytes.

Metadata: `Meta` is a `HashMap<String, Vec<u8>>`. Scripts use at most one entry named "m"
(bincode of a larger map depends on hash-map iteration order, which is not canonical);
`none` is the empty map (what `write` without metadata stores: `meta.unwrap_or_default()`),
`some v` is `{"m": v}`.

Data: values are identified by `(len, seed)`; both harness and model expand it with the same generator.
Byte equality with what was written is decided by the harness (so the oracle does not depend on the model).
-/
namespace Pearl

abbrev Key := Nat
abbrev Meta := Option (List Nat)

structure Data where
  len : Nat
  seed : Nat
deriving DecidableEq, Repr, Inhabited

/-- a stored record, as the index sees it (header fields that matter logically) plus what it points to -/
structure Rec where
  key : Key
  ts : Nat
  del : Bool
  mt : Meta
  data : Data
deriving DecidableEq, Repr, Inhabited

/-- `ReadResult<T>` of `src/storage/read_result.rs` -/
inductive ReadResult (α : Type) where
  | found (a : α)
  | deleted (ts : Nat)
  | notFound
deriving DecidableEq, Repr, Inhabited

namespace ReadResult

def isFound {α} : ReadResult α → Bool
  | found _ => true
  | _ => false

def map {α β} (f : α → β) : ReadResult α → ReadResult β
  | found a => found (f a)
  | deleted t => deleted t
  | notFound => notFound

end ReadResult

end Pearl
