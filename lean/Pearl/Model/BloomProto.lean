import Pearl.Model.Filter
import Pearl.Model.AHash
import Pearl.Model.Crc
/-
Direct protocol over the bloom filter model (C10 tie): the same commands the harness runs against
`pearl::Bloom`; bit positions come from the Lean port of the vendored aHash fallback hasher.
-/
namespace Pearl.BloomProto
open Pearl

structure BState where
  a : Option Bloom := none
  b : Option Bloom := none
  lastRaw : List Nat := []
deriving Inhabited

/-- `0.001f64.to_bits()` (the harness uses this false-positive rate) -/
def fprBits : Nat := 0x3F50624DD2F1A9FC

def showRes : Option FilterResult → String
  | none => "offloaded"
  | some .needAdditionalCheck => "maybe"
  | some .notContains => "no"

def hexVal (c : Char) : Option Nat :=
  if '0' ≤ c ∧ c ≤ '9' then some (c.toNat - '0'.toNat)
  else if 'a' ≤ c ∧ c ≤ 'f' then some (c.toNat - 'a'.toNat + 10)
  else none

def hexKey (s : String) : Option (Nat × Nat) :=   -- (key length in bytes, big-endian value)
  if s.length % 2 != 0 then none
  else (s.toList.foldl (fun acc c => match acc, hexVal c with
        | some a, some v => some (a * 16 + v)
        | _, _ => none) (some 0)).map (fun v => (s.length / 2, v))

def crcOfNats (l : List Nat) : Nat := (crc32c (l.map UInt8.ofNat)).toNat

def annotNat (toks : List String) (key : String) : Option Nat :=
  toks.findSome? fun t => if t.startsWith ("@" ++ key ++ "=") then (t.drop (key.length + 2)).toString.toNat? else none

def step (st : BState) (toks0 : List String) : BState × String :=
  let toks := toks0.filter (fun t => !t.startsWith "@")
  let second := toks.head? == some "bloom2"
  let cur := if second then st.b else st.a
  let other := if second then st.a else st.b
  let put (nb : Option Bloom) (s : BState) : BState := if second then { s with b := nb } else { s with a := nb }
  match toks.drop 1 with
  | ["new", el, k, mb] =>
    match el.toNat?, k.toNat?, mb.toNat?, annotNat toks0 "bits" with
    | some el, some k, some mb, some bits =>
      let cfg : BloomConfig := ⟨el, k, mb, 8, fprBits⟩
      -- the two integer branches of the sizing formula are checked; the f64 branch is an input
      let bits' := match cfg.bitsCountSpecial with | some b => b | none => bits
      (put (some (Bloom.new cfg bits')) st, s!"ok bits={bits'}")
    | _, _, _, _ => (st, "bad-op")
  | ["empty"] => (put (some Bloom.empty) st, "ok bits=0")
  | cmd :: rest =>
    match cur with
    | none => (st, "err NoBloom")
    | some bl =>
      match cmd, rest with
      | "add", [k] =>
        match hexKey k with
        | some (len, v) =>
          if bl.inner.isNone then (st, "err offloaded")
          else (put (some (bl.add (AHash.family len) v)) st, "ok")
        | none => (st, "bad-op")
      | "has", [k] =>
        match hexKey k with
        | some (len, v) => (st, showRes (bl.containsMem (AHash.family len) v))
        | none => (st, "bad-op")
      | "raw", [] =>
        match bl.toRaw with
        | some r => ({ st with lastRaw := r }, s!"raw {r.length}:{crcOfNats r}")
        | none => (st, "err offloaded")
      | "merge", [] =>
        match other with
        | some o => let (nb, ok) := bl.merge o; (put (some nb) st, if ok then "true" else "false")
        | none => (st, "err NoBloom")
      | "offload", [] => let (nb, freed) := bl.offload; (put (some nb) st, s!"n={freed}")
      | "clear", [] => (put (some bl.clear) st, "ok")
      | "probe", [k] =>
        match hexKey k with
        | some (len, v) => (st, showRes (some (bl.containsFile (AHash.family len) (fun i => st.lastRaw[i]?) v)))
        | none => (st, "bad-op")
      | "reload", [] =>
        match Bloom.fromRaw st.lastRaw with
        | some nb => (put (some nb) st, "ok")
        | none => (st, "err fromraw")
      | _, _ => (st, "bad-op")
  | _ => (st, "bad-op")

end Pearl.BloomProto
