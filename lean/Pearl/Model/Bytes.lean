import Pearl.Model.CrcForce
/-
L5 byte layer, part 1: bincode 1.3 primitives (default config: fixed-width little-endian integers,
`Vec<u8>` / `String` = u64 length + bytes, `usize` as u64), key expansion and the data generator
shared with the Rust harness.

Core-only imports: this file links into the `pearl-model` executable.
-/
namespace Pearl

/-- `k` little-endian bytes of `n` (the value `n mod 256^k`): `u64::to_le_bytes` for `k = 8`. -/
def leBytes : Nat → Nat → List UInt8
  | 0, _ => []
  | k+1, n => UInt8.ofNat n :: leBytes k (n / 256)

/-- bincode `u64` / `usize` -/
def le64 (n : Nat) : List UInt8 := leBytes 8 n
/-- bincode `u32` -/
def le32 (n : Nat) : List UInt8 := leBytes 4 n

/-- value of a little-endian byte string (`u64::from_le_bytes` on 8 bytes) -/
def fromLe : List UInt8 → Nat
  | [] => 0
  | b :: r => b.toNat + 256 * fromLe r

/-- bincode `Vec<u8>`: u64 length, then the bytes -/
def serVec (v : List UInt8) : List UInt8 := le64 v.length ++ v

/-- bincode `String`: u64 byte length, then the UTF-8 bytes -/
def serString (s : String) : List UInt8 := serVec s.toUTF8.data.toList

/-- a model key (big-endian value) expanded to its `klen` bytes (`ArrayKey<klen>`); values `≥ 256^klen` wrap -/
def keyBytes (klen k : Nat) : List UInt8 := (leBytes klen k).reverse

/-- `read_exact_at(buf[..size], off)` on a file whose content is `file`: `none` = `UnexpectedEof`.
    (`read_exact` with an empty buffer succeeds at every offset, as here.) -/
def readExactAt (file : List UInt8) (size off : Nat) : Option (List UInt8) :=
  let s := (file.drop off).take size
  if s.length = size then some s else none

/-- in-place overwrite `buf[pos .. pos + b.len()].copy_from_slice(b)` (in range in every use) -/
def patchAt (buf : List UInt8) (pos : Nat) (b : List UInt8) : List UInt8 :=
  buf.take pos ++ b ++ buf.drop (pos + b.length)

/-! ### data generator (must match `gen_data` of the Rust harness) -/

def xorshift (x : UInt64) : UInt64 :=
  let x := x ^^^ (x <<< 13)
  let x := x ^^^ (x >>> 7)
  x ^^^ (x <<< 17)

def genSeed0 (len seed : Nat) : UInt64 :=
  (UInt64.ofNat seed * 0x9E3779B97F4A7C15 + UInt64.ofNat len) ||| 1

/-- bytes `1 .. n` of the stream, accumulated in reverse -/
def genLoop : Nat → UInt64 → List UInt8 → List UInt8
  | 0, _, acc => acc.reverse
  | n+1, x, acc =>
    let x' := xorshift x
    genLoop n x' (x'.toUInt8 :: acc)

/-- `gen_data_plain(len, seed)`: byte 0 = `seed mod 256`, then the xorshift64 stream -/
def genDataPlain (len seed : Nat) : List UInt8 :=
  if len = 0 then [] else genLoop (len - 1) (genSeed0 len seed) [UInt8.ofNat seed]

/-- the seeds whose payloads (of length `≥ 8`) get a chosen checksum -/
def forcedSeed (len seed : Nat) : Bool := 240 ≤ seed && seed ≤ 249 && 8 ≤ len

/-- `gen_data(len, seed)`: the plain stream, except that for seeds 240..249 and `len ≥ 8` it is the plain stream
    of length `len - 4` followed by the 4 bytes that make the CRC-32C of the whole payload 0. -/
def genData (len seed : Nat) : List UInt8 :=
  if forcedSeed len seed then
    let p := genDataPlain (len - 4) seed
    p ++ crcForce p
  else genDataPlain len seed

def genLoopBA : Nat → UInt64 → ByteArray → ByteArray
  | 0, _, acc => acc
  | n+1, x, acc =>
    let x' := xorshift x
    genLoopBA n x' (acc.push x'.toUInt8)

/-- `ByteArray` version of `genDataPlain` (same stream); `cap` = capacity to reserve -/
def genDataPlainBA (cap len seed : Nat) : ByteArray :=
  if len = 0 then ByteArray.empty
  else genLoopBA (len - 1) (genSeed0 len seed) ((ByteArray.emptyWithCapacity cap).push (UInt8.ofNat seed))

/-- `ByteArray` version of `genData` (same bytes) -/
def genDataBA (len seed : Nat) : ByteArray :=
  if forcedSeed len seed then
    let p := genDataPlainBA len (len - 4) seed
    (crcForceBA p).foldl ByteArray.push p
  else genDataPlainBA len len seed

end Pearl
