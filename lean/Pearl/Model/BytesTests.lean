import Pearl.Model.Record
/-
Sanity checks of the byte layer (`#eval`; not imported by `Pearl.lean`).
-/
open Pearl

/-- info: true -/
#guard_msgs in #eval crc32c "123456789".toUTF8.data.toList == 0xE3069283
/-- info: true -/
#guard_msgs in #eval crc32c [] == 0

-- gen_data against values printed by the Rust function
/-- info: true -/
#guard_msgs in #eval genData 10 7 == [7, 20, 246, 105, 105, 205, 84, 124, 230, 21]
/-- info: true -/
#guard_msgs in #eval genData 5 0xffffffffffffffff == [255, 182, 95, 53, 241]
/-- info: true -/
#guard_msgs in #eval genData 1 300 == [44]
/-- info: true -/
#guard_msgs in #eval genData 0 5 == []
/-- info: true -/
#guard_msgs in #eval (genDataBA 1000 99).data.toList == genData 1000 99
/-- info: true -/
#guard_msgs in #eval (genData 300000 12345).length == 300000 && (genData 300000 12345).getLast? == some 8

-- seeds 240..249, len ≥ 8: plain stream of length len-4, then the 4 bytes forcing CRC-32C = 0
-- (values printed by the Rust functions `gen_data` / `crc_force`, unit tests in the harness' util.rs)
/-- info: true -/
#guard_msgs in #eval genData 8 240 == [240, 82, 190, 29, 16, 189, 72, 12]
/-- info: true -/
#guard_msgs in #eval crcForce [] == [171, 155, 224, 155] && crcForce [1, 2, 3] == [181, 105, 208, 106]
/-- info: true -/
#guard_msgs in #eval (genData 1004 241).drop 1000 == [72, 14, 89, 150] && crc32c (genData 1004 241) == 0
/-- info: true -/
#guard_msgs in #eval (genData 300000 249).drop 299996 == [152, 32, 88, 212] && crc32c (genData 300000 249) == 0
/-- info: true -/
#guard_msgs in #eval (genData 1004 241).take 1000 == genDataPlain 1000 241
/-- info: true -/
#guard_msgs in #eval (List.range 10).all fun i => [8, 9, 11, 64, 1004].all fun len =>
  (genDataBA len (240 + i)).data.toList == genData len (240 + i) && crc32c (genData len (240 + i)) == 0
    && (genData len (240 + i)).length == len
/-- info: true -/
#guard_msgs in #eval (genDataBA 300000 249).data.toList == genData 300000 249
/-- info: true -/
#guard_msgs in #eval (List.range 8).all fun len => (List.range 10).all fun i =>
  genData len (240 + i) == genDataPlain len (240 + i) && (genDataBA len (240 + i)).data.toList == genData len (240 + i)
/-- info: true -/
#guard_msgs in #eval [0, 1, 7, 99, 239, 250, 251, 300, 12345].all fun seed => [0, 1, 7, 8, 100].all fun len =>
  genData len seed == genDataPlain len seed && (genDataBA len seed).data.toList == genData len seed

/-- info: true -/
#guard_msgs in #eval le64 0x0102030405060708 == [8,7,6,5,4,3,2,1]
/-- info: true -/
#guard_msgs in #eval fromLe (le64 0xdeafabcd) == 0xdeafabcd
/-- info: true -/
#guard_msgs in #eval keyBytes 3 1 == [0,0,1]
/-- info: true -/
#guard_msgs in #eval serMeta none == [0,0,0,0,0,0,0,0]
/-- info: true -/
#guard_msgs in #eval serMeta (some [1,2]) == [1,0,0,0,0,0,0,0, 1,0,0,0,0,0,0,0, 0x6d, 2,0,0,0,0,0,0,0, 1,2]
/-- info: true -/
#guard_msgs in #eval deserMeta (serMeta (some [1,2])) == some [("m", [1,2])]
/-- info: true -/
#guard_msgs in #eval (serBlobHeader).length == 20 && blobHeaderFromFile serBlobHeader == .ok BlobHeader.new

def sq16 : List UInt8 := (List.range 16).map (fun i => UInt8.ofNat (i * i))
def rec001 : Record := Record.create 3 1 101 none sq16

/-- info: true -/
#guard_msgs in #eval (List.range 40).all fun klen => (serHeader (Record.create klen 5 1 none []).header).length == headerSize klen
/-- info: true -/
#guard_msgs in #eval rec001.header.key == [0,0,1] && rec001.header.metaSize == 8 && rec001.header.dataSize == 16

-- the two unit tests of record.rs, for offsets 101*i
/-- info: true -/
#guard_msgs in #eval (List.range 8).all fun i =>
  let r := Record.create 3 i 101 none sq16
  let off := 101 * i
  let (w, c) := writableOf (toPartial r) off
  let parsed := parseHeader 3 w.bytes
  parsed == some (r.header.final off) && (r.header.final off).headerChecksum == c &&
    w.bytes == serHeader (r.header.final off) ++ serMeta none ++ sq16 &&
    (headerValidate (r.header.final off) == .ok ())

-- Single and Double give the same bytes
/-- info: true -/
#guard_msgs in #eval recordBytes rec001 77 4096 == recordBytes rec001 77 10 &&
  (writableOf (toPartial rec001 10) 77).1 != (writableOf (toPartial rec001 4096) 77).1

def blob3 : List (Rec × List UInt8) :=
  [ ({ key := 1, ts := 101, del := false, mt := none, data := ⟨16, 0⟩ }, sq16),
    ({ key := 2, ts := 102, del := false, mt := some [9, 8], data := ⟨0, 0⟩ }, []),
    ({ key := 1, ts := 103, del := true, mt := none, data := ⟨0, 0⟩ }, []),
    ({ key := 3, ts := 104, del := false, mt := none, data := ⟨5000, 7⟩ }, genData 5000 7) ]

/-- info: true -/
#guard_msgs in #eval rawRecordsLoad 3 true (blobBytes 3 blob3) == .ok (blobHeaders 3 blob3)
/-- info: true -/
#guard_msgs in #eval rawRecordsLoad 3 false (blobBytes 3 blob3) == .ok (blobHeaders 3 blob3)
/-- info: true -/
#guard_msgs in #eval ((blobHeaders 3 blob3).zip blob3).all fun (h, (r, d)) =>
  entryLoad (blobBytes 3 blob3) h == .ok (serMeta r.mt, if r.del then [] else d) &&
  loadData (blobBytes 3 blob3) h == .ok (if r.del then [] else d) &&
  loadMeta (blobBytes 3 blob3) h == .ok (metaEntries r.mt)
/-- info: true -/
#guard_msgs in #eval (blobHeaders 3 blob3).map (·.isDeleted) == [false, false, true, false]

-- a blob with only its header: `start` fails (Blob::from_file does not call it in that case unless the index is corrupted)
/-- info: true -/
#guard_msgs in #eval rawRecordsLoad 3 true (blobBytes 3 []) == .error (.load .bincode)
-- wrong key size
/-- info: true -/
#guard_msgs in #eval rawRecordsLoad 4 true (blobBytes 3 blob3) == .error .blobKeySize

/-! torn tail record -/
def full := blobBytes 3 blob3
-- torn inside the data of the last record: accepted without data validation, rejected with it
/-- info: true -/
#guard_msgs in #eval rawRecordsLoad 3 false (full.take (full.length - 100)) == .ok (blobHeaders 3 blob3)
/-- info: true -/
#guard_msgs in #eval rawRecordsLoad 3 true (full.take (full.length - 100)) == .error (.load .bincode)
-- torn inside the header of the last record: the whole scan fails
/-- info: true -/
#guard_msgs in #eval rawRecordsLoad 3 false (full.take (full.length - 5000 - 8 - 10)) == .error (.load .bincode)
-- torn exactly at a record boundary: fine
/-- info: true -/
#guard_msgs in #eval rawRecordsLoad 3 true (full.take (full.length - 5000 - 8 - 60)) == .ok ((blobHeaders 3 blob3).take 3)

-- a one-byte change in the data is detected
/-- info: true -/
#guard_msgs in #eval
  let h := (blobHeaders 3 blob3)[0]!
  let f' := full.set (h.dataOffset + 3) 0xAA
  entryLoad f' h == .error .recordDataChecksum && loadData f' h == .error .recordDataChecksum &&
    rawRecordsLoad 3 true f' == .error (.load .recordDataChecksum) &&
    rawRecordsLoad 3 false f' == .ok (blobHeaders 3 blob3)
