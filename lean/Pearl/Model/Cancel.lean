import Pearl.Model.Ops
import Pearl.Model.Fault
/-
Cancellation layer (C14 "Cancellation safety"): a storage operation is a list of atomic SEGMENTS separated by the
`.await` points of the code (`Item.await`; the synchronous code in between is `Item.sync`). The caller may drop the future while it is suspended at an await. What was
done before stays done; a closure handed to `tokio::task::spawn_blocking` when that await was reached is
DETACHED: it runs to completion although nobody waits for it any more; the synchronous code after the
await never runs.

Sources:
* src/storage/core.rs `write_with_optional_meta`: `try_create_active_blob().await` (`has_active_blob`,
  `safe.write().await`, `next_blob_name` = `next_blob_id.fetch_add(1)`, `Blob::open_new`, install),
  `contains_with(..).await?` unless duplicates are allowed, `safe.read().await`, `Blob::write(..).await`,
  `try_update_active_blob(..).await` (a read lock and possibly a message to the worker).
* src/blob/core.rs `Blob::open_new`: `iodriver.create(..).await` (tokio `OpenOptions::open` =
  `spawn_blocking`), `write_header` = `write_append_all(20 bytes).await` + `fsyncdata().await`.
  `Blob::write`: `upgradable_read().await`, `write_to_file(..).await?`, `index.push(..)?` — no await
  between the return of the write and the push.
* src/io/unix/sync.rs: `can_run_inplace(len) = len ≤ 81 920 ∧ runtime is not current-thread`;
  `inplace_sync_call` = `block_in_place` (runs inside the poll, no await);
  `background_sync_call` = `spawn_blocking(f).await` (detached closure). The closure of
  `write_append_writable_data` contains BOTH the reservation `size.fetch_add(len)` and the pwrite(s).
  `fsyncdata` always uses `background_sync_call`.
* src/storage/core.rs `delete_with_optional_meta` / `delete_core` / `delete_in_active` /
  `delete_in_closed`, src/blob/core.rs `Blob::delete` / `push_deletion_record` (`load_index` when the
  index is on disk, then `write_mut`).

A blob is modelled by its file (`Fault.FFile`: bytes + reservation counter), its in-memory index as the
list of pushed records with their offsets (the L2 view `Blob.recs` is this list without the offsets),
and a GHOST list `frecs` of the records whose images were written to the file, in file order; that the
file is `blobBytes klen frecs` is a theorem (`Pearl.C14.parses_after_restart`), not an assumption.
No I/O error occurs in this layer (that is C11): every pwrite that starts completes.
Core-only imports.
-/
namespace Pearl.Cancel
open Pearl

/-- the pieces of an `async fn`: an await point (with the closure handed to `spawn_blocking` when it is
    reached, if any — `none` for a lock, a channel, an in-memory lookup), or synchronous code -/
inductive Item (σ : Type) where
  | await (closure : Option (σ → σ))
  | sync (f : σ → σ)

/-- the ATOMIC SEGMENTS of an operation are the maximal runs of items between two awaits -/
def Item.run {σ : Type} : Item σ → σ → σ
  | .await c, s => (c.getD id) s
  | .sync f, s => f s

/-- the operation runs to completion -/
def runItems {σ : Type} (items : List (Item σ)) (s : σ) : σ := items.foldl (fun s i => i.run s) s

/-- the future is dropped while it is suspended at its await number `k` (0-based; `k` segments have
    completed): everything before that await ran; the closure of that await — already spawned — runs to
    completion; nothing after it runs. `k ≥` number of awaits: the operation completed.
    (Dropping the future before its first poll leaves the state untouched; no extra case is needed as
    every operation below starts with an await without closure.) -/
def cancelAfter {σ : Type} : Nat → List (Item σ) → σ → σ
  | _, [], s => s
  | k, .sync f :: rest, s => cancelAfter k rest (f s)
  | 0, .await c :: _, s => (c.getD id) s
  | k + 1, .await c :: rest, s => cancelAfter k rest ((c.getD id) s)

/-- number of await points = number of places the future can be dropped at -/
def awaits {σ : Type} : List (Item σ) → Nat
  | [] => 0
  | .await _ :: rest => awaits rest + 1
  | .sync _ :: rest => awaits rest

/-! ### configuration -/

def MAX_SYNC_OPERATION_SIZE : Nat := 81920

structure Cfg where
  klen : Nat
  /-- the tokio runtime is a current-thread runtime -/
  currentThread : Bool
  maxSP : Nat := MAX_SINGLE_PASS_DATA_SIZE
deriving Repr

/-- `!can_run_inplace(len)`: the file operation runs in a detached closure -/
def Cfg.detached (c : Cfg) (len : Nat) : Bool := c.currentThread || decide (MAX_SYNC_OPERATION_SIZE < len)

/-! ### state -/

/-- a record with its data bytes -/
abbrev RecB := Rec × List UInt8

structure CBlob where
  id : Nat
  file : Fault.FFile
  /-- in-memory index: pushed records with the offset they were pushed with, in push order -/
  idx : List (RecB × Nat) := []
  onDisk : Bool := false
  /-- index file: entries and the `blob_size` field -/
  idxFile : Option (List (RecB × Nat) × Nat) := none
  /-- ghost: the records whose images were written into the file, in file order -/
  frecs : List RecB := []
deriving DecidableEq, Repr, Inhabited

structure CStore where
  active : Option CBlob := none
  slots : List (Option CBlob) := []
  nextId : Nat := 0
  allowDup : Bool := false
  /-- blob files that exist in the directory but are not (yet) part of the storage: (id, file) -/
  stray : List (Nat × Fault.FFile) := []
deriving DecidableEq, Repr, Inhabited

/-- the L2 view of this session: what the index knows -/
def CBlob.toBlob (b : CBlob) : Blob := { id := b.id, recs := b.idx.map (·.1.1), onDisk := b.onDisk }

def CStore.toStore (s : CStore) : Store :=
  { active := s.active.map CBlob.toBlob, slots := s.slots.map (·.map CBlob.toBlob),
    nextId := s.nextId, allowDup := s.allowDup }

/-- the L2 view a restart builds when it REGENERATES the index of every blob from its file -/
def CBlob.regenBlob (b : CBlob) : Blob := { id := b.id, recs := b.frecs.map (·.1), onDisk := false }

def CStore.regen (s : CStore) : Store :=
  { active := s.active.map CBlob.regenBlob, slots := s.slots.map (·.map CBlob.regenBlob),
    nextId := s.nextId, allowDup := s.allowDup }

/-- the closure of `write_append_writable_data`: reservation and pwrite(s) of one record -/
def CBlob.fileWrite (c : Cfg) (x : RecB) (b : CBlob) : CBlob :=
  let R := recordOf c.klen x.1 x.2
  let off := b.file.size
  { b with
    file := { bytes := writeData b.file.bytes off (writableOf (toPartial R c.maxSP) off).1,
              size := b.file.size + (toPartial R c.maxSP).len }
    frecs := b.frecs ++ [x] }

/-- `index.push` with the offset the write returned -/
def CBlob.push (x : RecB) (off : Nat) (b : CBlob) : CBlob := { b with idx := b.idx ++ [(x, off)] }

/-- the offset the closure of `write_append_writable_data` returned for the record it just wrote:
    `size.fetch_add(len)` gave the size before, which is the size now minus `len` -/
def CBlob.lastOffset (len : Nat) (b : CBlob) : Nat := b.file.size - len

/-- `load_index`: the index is read back into memory (by the C09 theorems: the same entries) -/
def CBlob.loadIndex (b : CBlob) : CBlob := { b with onDisk := false }

/-- `Blob::dump` succeeding: the in-memory entries go to the index file, which carries
    `blob_size = file.size()` -/
def CBlob.dump (b : CBlob) : CBlob :=
  if b.onDisk || b.idx.isEmpty then b
  else { b with onDisk := true, idxFile := some (b.idx, b.file.size) }

/-- the index a restart gives the blob: the index file when it is accepted (`blob_size` = length of the
    blob file), otherwise regenerated from the file -/
def CBlob.restartRecs (b : CBlob) : List Rec :=
  match b.idxFile with
  | some (es, bs) => if bs = b.file.bytes.length then es.map (·.1.1) else b.frecs.map (·.1)
  | none => b.frecs.map (·.1)

def CStore.onActive (f : CBlob → CBlob) (s : CStore) : CStore := { s with active := s.active.map f }

def CStore.onSlot (i : Nat) (f : CBlob → CBlob) (s : CStore) : CStore :=
  { s with slots := s.slots.modify i (·.map f) }

/-! ### creating the active blob -/

/-- `next_blob_name` -/
def bumpId (s : CStore) : CStore := { s with nextId := s.nextId + 1 }

/-- `OpenOptions::open` with `create(true)` -/
def createFile (id : Nat) (s : CStore) : CStore := { s with stray := (id, ⟨[], 0⟩) :: s.stray }

/-- `write_append_all(header)` on the file being created -/
def writeHdr (s : CStore) : CStore :=
  match s.stray with
  | (id, f) :: rest =>
    { s with stray := (id, ⟨pwrite f.bytes f.size serBlobHeader, f.size + blobHeaderSize⟩) :: rest }
  | [] => s

/-- `safe.active_blob = Some(blob)` -/
def install (s : CStore) : CStore :=
  match s.stray with
  | (id, f) :: rest => { s with stray := rest, active := some { id := id, file := f } }
  | [] => s

/-- `ensure_active_blob_exists` when there is no active blob (`id` = the `next_blob_id` it finds):
    `next_blob_name`, `Blob::open_new`, install -/
def openNewItems (c : Cfg) (id : Nat) : List (Item CStore) :=
  [ .sync bumpId,                      -- `next_blob_name()`
    .await (some (createFile id)) ] ++ -- `iodriver.create(path).await` (tokio `OpenOptions::open`)
  -- `write_append_all(header)`: detached closure on a current-thread runtime, inline otherwise
  (if c.currentThread then [ .await (some writeHdr) ] else [ .sync writeHdr ]) ++
  [ .await none,                       -- `fsyncdata().await` (no effect on this state)
    .sync install ]                    -- `safe.active_blob = Some(..)`

/-- `Inner::create_active_blob` when there is no active blob -/
def createItems (c : Cfg) (id : Nat) : List (Item CStore) :=
  [ .await none,                       -- `has_active_blob().await` (read lock)
    .await none ] ++                   -- `safe.write().await`
  openNewItems c id

/-! ### write -/

structure WArgs where
  k : Key
  ts : Nat
  m : Option Meta
  d : Data
  bytes : List UInt8
deriving Repr

def WArgs.entry (a : WArgs) : RecB :=
  ({ key := a.k, ts := a.ts, del := false, mt := a.m.getD none, data := a.d }, a.bytes)

/-- `WritableDataCreator::len` of the record built for an entry -/
def entryLen (c : Cfg) (x : RecB) : Nat := (toPartial (recordOf c.klen x.1 x.2) c.maxSP).len

/-- `header.set_offset_checksum(write_result.blob_offset(), ..)` and `index.push(key, header)` -/
def CBlob.pushWritten (c : Cfg) (x : RecB) (b : CBlob) : CBlob :=
  b.push x (b.lastOffset ((toPartial (recordOf c.klen x.1 x.2) c.maxSP).len))

/-- `write_to_file(..).await?` and `index.push(..)?` of entry `x` on the blob selected by `on`, once
    the lock of the blob is held -/
def recWriteItems (c : Cfg) (on : (CBlob → CBlob) → CStore → CStore) (x : RecB) :
    List (Item CStore) :=
  if c.detached (entryLen c x) then
    [ .await (some (on (CBlob.fileWrite c x))),   -- the closure reserves and writes
      .sync (on (CBlob.pushWritten c x)) ]        -- after it returned
  else
    [ .sync (on (CBlob.fileWrite c x)),           -- `block_in_place`: inside the same poll
      .sync (on (CBlob.pushWritten c x)) ]

/-- the state once the active blob exists -/
def afterCreate (c : Cfg) (s0 : CStore) : CStore :=
  if s0.active.isNone then runItems (createItems c s0.nextId) s0 else s0

/-- `Storage::write_with_optional_meta` -/
def writeSegments (c : Cfg) (a : WArgs) (s0 : CStore) : List (Item CStore) :=
  let s1 := afterCreate c s0
  -- `try_create_active_blob().await`: with an active blob only `has_active_blob().await`
  (if s0.active.isNone then createItems c s0.nextId else [ .await none ]) ++
  -- `contains_with(..).await`: `safe.read().await`, then the lookups
  (if s1.allowDup then [] else [ .await none, .await none ]) ++
  (if !s1.allowDup && (s1.toStore.getLatestEntry a.k a.m).isFound then []
   else
    [ .await none,      -- `safe.read().await`
      .await none ] ++  -- `blob.upgradable_read().await`
    recWriteItems c CStore.onActive a.entry ++
    [ .await none ])    -- `try_update_active_blob`: `active_blob.read().await`

/-! ### delete -/

structure DArgs where
  k : Key
  ts : Nat
  m : Option Meta
  oip : Bool
deriving Repr

def DArgs.entry (a : DArgs) : RecB :=
  ({ key := a.k, ts := a.ts, del := true, mt := a.m.getD none, data := ⟨0, 0⟩ }, [])

/-- `Blob::delete` on one blob (`b0` = the blob as the operation finds it) -/
def blobDeleteItems (c : Cfg) (on : (CBlob → CBlob) → CStore → CStore) (a : DArgs) (oip : Bool)
    (b0 : CBlob) : List (Item CStore) :=
  -- `index.get_latest(key).await` when `only_if_presented`
  (if oip then [ .await none ] else []) ++
  (if !oip || (b0.toBlob.getLatest a.k).isFound then
    -- `push_deletion_record`: `load_index().await` when the index is on disk, then `write_mut`
    (if b0.onDisk then [ .await none, .sync (on CBlob.loadIndex) ] else []) ++
    recWriteItems c on a.entry
   else [])

/-- the closed blobs with their slot numbers -/
def closedWithSlots (s : CStore) : List (Nat × CBlob) :=
  s.slots.zipIdx.filterMap (fun p => p.1.map (fun b => (p.2, b)))

/-- `Storage::delete_with_optional_meta`: the active blob first, then the closed blobs ONE AFTER THE
    OTHER (the code polls the futures of the closed blobs through `FuturesUnordered`: several of them can
    be in flight at once; see the note at `Pearl.C14.cancel_blob_delete`) -/
def deleteSegments (c : Cfg) (a : DArgs) (s0 : CStore) : List (Item CStore) :=
  let needCreate := !a.oip && s0.active.isNone
  let s1 := if needCreate then runItems (createItems c s0.nextId) s0 else s0
  [ .await none ] ++                                       -- `safe.read().await`
  -- `safe.write().await`, `ensure_active_blob_exists`
  (if needCreate then [ .await none ] ++ openNewItems c s0.nextId else []) ++
  (match s1.active with
   | some b => [ .await none ] ++ blobDeleteItems c CStore.onActive a a.oip b   -- `active.write().await`
   | none => []) ++
  [ .await none ] ++                                       -- `blobs.write().await`
  ((closedWithSlots s1).map (fun p => blobDeleteItems c (CStore.onSlot p.1) a true p.2)).flatten

end Pearl.Cancel
