import Pearl.Model.Cancel
/-
Cancellation of `load_index` (C14, defect E24): the index + filter state of ONE blob.

`Model/Cancel.lean` has `load_index` as `[.await none, .sync (on CBlob.loadIndex)]` and no filter state.  This file models
exactly the part that representation leaves out.

Sources (`/repo`, before and after the repair aeda328):
* src/blob/index/core.rs `IndexStruct { inner : InMemory | OnDisk, filter, bloom_offset, .. }`;
  `new`: `InMemory` (empty), filter with a buffer, `bloom_offset = None`;
  `offload_filter`: `if self.on_disk() { self.filter.offload_filter() } else { 0 }` (src/filter/bloom.rs
  `offload_from_memory`: `self.inner = None`; `bloom_offset` is kept: the filter is then read from the index file,
  `read_byte`: `findex.read_meta_at(index + self.bloom_offset.expect("should be set after dump"))`, an error when the
  index is in memory);
  `load`: `InMemory => Ok(())` (no await), `OnDisk => self.load_in_memory(findex, blob_size).await`;
  `load_in_memory` NOW: `get_records_headers(..).await?; read_meta().await?; self.inner = InMemory(..);
  self.filter = ..; self.bloom_offset = None`;  BEFORE aeda328: `get_records_headers(..).await?;
  self.inner = InMemory(..); read_meta().await?; self.filter = ..; self.bloom_offset = None`;
  `push`: `InMemory => filter.add, insert, Ok`, `OnDisk => Err("Index is closed, push is unavalaible")`;
  `dump_in_memory`: no headers => `Ok(0)` (nothing changes); `serialize_filters()` (`Bloom::to_raw`: `Err("Filter
  buffer offloaded, can't serialize")` without a buffer) => `Err`, the headers stay; otherwise the index file is
  written, `bloom_offset = Some(..)`, `inner = OnDisk`.
* src/blob/core.rs `Blob::dump`: `if self.index.on_disk() { Ok(0) } else { fsyncdata().await?; index.dump(..).await }`;
  `Blob::load_index` = `index.load(..).await` (an error: `clear` + regenerate; no I/O error occurs in this layer).
* src/storage/core.rs `restore_active_blob`: `has_active_blob().await`, `safe.write().await`, `blobs.write().await`,
  `blob.load_index().await?`, `blobs.pop()`, `safe.active_blob = Some(..)`;  `close`: the active blob is dumped.

Operations are segment lists over `Pearl.Cancel.Item` (await points and the synchronous code between them);
`Pearl.Cancel.cancelAfter k` = the future is dropped while it is suspended at its await number `k`.
Core-only imports.
-/
namespace Pearl.CancelLoad
open Pearl.Cancel

/-- `IndexStruct::inner` -/
inductive Residence where
  | onDisk
  | inMemory
deriving DecidableEq, Repr, Inhabited

/-- `Bloom::inner`: `Some(buffer)` / `None` -/
inductive FilterSt where
  | resident
  | offloaded
deriving DecidableEq, Repr, Inhabited

/-- what `serialize_filters` returns as `bloom_offset` (8 + length of the range filter; its value plays no role here) -/
def BLOOM_OFFSET : Nat := 8

structure IdxSt where
  index : Residence
  /-- ghost: a record was pushed since the last dump (its index entry exists in memory only) -/
  dirty : Bool
  filter : FilterSt
  bloomOffset : Option Nat
  /-- number of record headers the index holds (in memory or in the index file) -/
  count : Nat
  /-- the blob is the active blob of the storage -/
  active : Bool
deriving DecidableEq, Repr, Inhabited

/-- `IndexStruct::new` (a blob just created by `Blob::open_new`, which the storage installs as active) -/
def IdxSt.new : IdxSt :=
  { index := .inMemory, dirty := false, filter := .resident, bloomOffset := none, count := 0, active := true }

/-- `IndexStruct::from_file` (a closed blob found at start-up with a valid index file of `n + 1` entries):
    `inner = OnDisk`, the filter read from the file, `bloom_offset = Some(..)` -/
def IdxSt.fromFile (n : Nat) : IdxSt :=
  { index := .onDisk, dirty := false, filter := .resident, bloomOffset := some BLOOM_OFFSET, count := n + 1,
    active := false }

/-- outcome of an operation as its caller sees it -/
inductive Res where
  | ok
  | error
deriving DecidableEq, Repr, Inhabited

/-! ### the synchronous pieces -/

/-- `offload_filter` -/
def offload (s : IdxSt) : IdxSt :=
  if s.index = .onDisk then { s with filter := .offloaded } else s

/-- `self.inner = State::InMemory(..)` (the headers read from the index file: the same number of them) -/
def setInner (s : IdxSt) : IdxSt := { s with index := .inMemory }

/-- `self.filter = CombinedFilter::new(..); self.bloom_offset = None` (the filter read from the index file) -/
def setFilter (s : IdxSt) : IdxSt := { s with filter := .resident, bloomOffset := none }

/-- `safe.active_blob = Some(blob)` -/
def makeActive (s : IdxSt) : IdxSt := { s with active := true }

/-- the code before / after aeda328 -/
inductive Variant where
  | old
  | new
deriving DecidableEq, Repr, Inhabited

/-- `IndexStruct::load` as it is NOW (`s0` = the state the call finds): both reads, then the three assignments -/
def loadNew (s0 : IdxSt) : List (Item IdxSt) :=
  if s0.index = .inMemory then []            -- `State::InMemory(_) => Ok(())`: no suspension point
  else
    [ .await none,                           -- `findex.get_records_headers(blob_size).await`
      .await none,                           -- `findex.read_meta().await`
      .sync (fun s => setFilter (setInner s)) ]

/-- `IndexStruct::load` BEFORE aeda328: the state is switched between the two reads -/
def loadOld (s0 : IdxSt) : List (Item IdxSt) :=
  if s0.index = .inMemory then []
  else
    [ .await none,                           -- `findex.get_records_headers(blob_size).await`
      .sync setInner,                        -- `self.inner = State::InMemory(..)`
      .await none,                           -- `findex.read_meta().await`
      .sync setFilter ]

def load : Variant → IdxSt → List (Item IdxSt)
  | .old => loadOld
  | .new => loadNew

/-- `restore_active_blob` on the last closed blob: locks, `load_index`, install -/
def restore (v : Variant) (s0 : IdxSt) : List (Item IdxSt) :=
  [ .await none,                             -- `has_active_blob().await`
    .await none,                             -- `safe.write().await`
    .await none ] ++                         -- `blobs.write().await`
  load v s0 ++
  [ .sync makeActive ]

/-! ### operations without a state change at an await point -/

/-- `index.push` -/
def push (s : IdxSt) : Res × IdxSt :=
  if s.index = .inMemory then (.ok, { s with dirty := true, count := s.count + 1 }) else (.error, s)

/-- `Blob::dump` that is not cancelled -/
def dump (s : IdxSt) : Res × IdxSt :=
  if s.index = .onDisk then (.ok, s)                    -- `Ok(0)`
  else if s.count = 0 then (.ok, s)                     -- no headers: `Ok(0)`, nothing is written
  else if s.filter = .offloaded then (.error, s)        -- `serialize_filters` fails; the headers stay
  else (.ok, { s with index := .onDisk, dirty := false, bloomOffset := some BLOOM_OFFSET })

/-- `Storage::close` on this blob: dump when the index is in memory -/
def close (s : IdxSt) : Res × IdxSt :=
  if s.index = .inMemory then dump s else (.ok, s)

/-- a filter query can be answered: from the buffer, or from the index file at `bloom_offset` (`read_byte`: an error
    with an in-memory index, a panic without `bloom_offset`) -/
def filterReadable (s : IdxSt) : Bool :=
  s.filter = .resident || (s.index = .onDisk && s.bloomOffset.isSome)

/-! ### histories -/

/-- the operations of a history; `cut = none`: the future is polled to completion, `cut = some k`: it is dropped while
    suspended at its await number `k` -/
inductive Op where
  | offload
  | load (cut : Option Nat)
  | push
  | dump
  | restore (cut : Option Nat)
  | close
deriving DecidableEq, Repr, Inhabited

def runCut (cut : Option Nat) (items : List (Item IdxSt)) (s : IdxSt) : IdxSt :=
  match cut with
  | none => runItems items s
  | some k => cancelAfter k items s

/-- one operation: what the caller sees (a dropped future reports nothing: `ok`) and the state it leaves -/
def step (v : Variant) : Op → IdxSt → Res × IdxSt
  | .offload, s => (.ok, offload s)
  | .load cut, s => (.ok, runCut cut (load v s) s)
  | .push, s => push s
  | .dump, s => dump s
  | .restore cut, s => (.ok, runCut cut (restore v s) s)
  | .close, s => close s

/-- a history: the outcomes in order, and the final state -/
def exec (v : Variant) : List Op → IdxSt → List Res × IdxSt
  | [], s => ([], s)
  | op :: ops, s =>
    let r := step v op s
    let rest := exec v ops r.2
    (r.1 :: rest.1, rest.2)

/-- the states a blob's index can be in -/
inductive Reach (v : Variant) : IdxSt → Prop where
  | init : Reach v IdxSt.new
  | opened (n : Nat) : Reach v (IdxSt.fromFile n)
  | step {s : IdxSt} (op : Op) : Reach v s → Reach v (step v op s).2

/-- THE INVARIANT: an in-memory index has its filter buffer (so it can be dumped), an on-disk index knows where its
    filter is in the index file (so an off-loaded filter can be read), an index file is never empty and holds every
    record pushed so far -/
structure Good (s : IdxSt) : Prop where
  mem_resident : s.index = .inMemory → s.filter = .resident
  disk_offset : s.index = .onDisk → s.bloomOffset.isSome = true
  disk_count : s.index = .onDisk → 0 < s.count
  disk_clean : s.index = .onDisk → s.dirty = false
  dirty_count : s.dirty = true → 0 < s.count

instance (s : IdxSt) : Decidable (Good s) :=
  decidable_of_iff
    ((s.index = .inMemory → s.filter = .resident) ∧ (s.index = .onDisk → s.bloomOffset.isSome = true) ∧
     (s.index = .onDisk → 0 < s.count) ∧ (s.index = .onDisk → s.dirty = false) ∧ (s.dirty = true → 0 < s.count))
    ⟨fun ⟨a, b, c, d, e⟩ => ⟨a, b, c, d, e⟩, fun ⟨a, b, c, d, e⟩ => ⟨a, b, c, d, e⟩⟩

/-! ### segment lists from the translator's event list -/

/-- the segment list induced by a list of `"await"` / `"set"` events given the assignments `sets` (in order): every
    `"await"` is a suspension point without a closure; the `"set"` events are executed where they stand, each running
    the next assignment -/
def segsOf : List String → List (IdxSt → IdxSt) → List (Item IdxSt)
  | [], _ => []
  | e :: es, fs =>
    if e == "await" then .await none :: segsOf es fs
    else match fs with
      | f :: fs' => .sync f :: segsOf es fs'
      | [] => segsOf es []

/-- the assignments of `load_in_memory`, in the order of the code now: `self.inner`, `self.filter`, `self.bloom_offset` -/
def loadSets : List (IdxSt → IdxSt) :=
  [ setInner, fun s => { s with filter := .resident }, fun s => { s with bloomOffset := none } ]

/-- all assignments in ONE final synchronous segment -/
def oneSeg (fs : List (IdxSt → IdxSt)) : IdxSt → IdxSt := fun s => fs.foldl (fun s f => f s) s

/-- the same events with the assignments moved into one final synchronous segment after all the suspension points -/
def segsOneFinal (evs : List String) (fs : List (IdxSt → IdxSt)) : List (Item IdxSt) :=
  List.replicate (evs.countP (· == "await")) (.await none) ++
  [ .sync (oneSeg (fs.take (evs.countP (fun e => !(e == "await"))))) ]

/-- every `"await"` precedes every `"set"` (the statement of `Pearl.Tie.C14.load_index_switches_after_reads`) -/
def AwaitsFirst (evs : List String) : Prop := (evs.dropWhile (· == "await")).all (· == "set") = true

instance (evs : List String) : Decidable (AwaitsFirst evs) :=
  inferInstanceAs (Decidable ((evs.dropWhile (· == "await")).all (· == "set") = true))

end Pearl.CancelLoad
