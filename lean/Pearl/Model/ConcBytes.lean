import Pearl.Model.ConcRW
import Pearl.Model.Lts
import Pearl.Model.Fs
/-
L3 × bytes: the product of the concurrent data path `Pearl.ConcRW` (which tracks only "the bytes of `r` are in the
file", `CState.landed`) with the byte-range discipline of `Pearl.Append` (`size.fetch_add(len)` reserves
`[size, size + len)`, `write_all_at` fills it).

Every step of `Pearl.ConcRW` that makes bytes appear in a blob file gets its byte-level meaning:

* `wBlob → wReserved` of `write k ts d` (`File::write_append…`: `let offset = self.size.fetch_add(len)`): reserves
  `Fs.recLen klen (wrec k ts d)` bytes at the file of the ACTIVE blob (the landing blob; the client holds the storage
  lock shared from `wLocked` on, so the blob it reserves in is the blob it later pushes the header into);
* `wReserved → wWritten` (`write_all_at(offset, buf)`, the `Eff.land` step): fills the reserved range;
* `dActive → dClosed` (`delete_in_active`, exclusive blob lock): if the marker is appended, reserves and fills
  `Fs.recLen klen marker` bytes at the active blob, in this one step;
* `dClosed → rel` (`delete_in_closed`, exclusive `blobs` lock): the same for every closed blob that gets a marker.

Rotation creates a file of `blobHeaderSize` bytes (`sizeOf` of an id the store does not hold yet); dumps do not
touch blob files.  Ghost: `Alloc.client`, `Alloc.r`, `Alloc.written`, `Bytes.file` (who wrote a byte last).
-/
namespace Pearl
namespace ConcBytes

open Pearl.ConcRW Pearl.Append

/-- the record `Blob::delete` appends (no metadata) -/
def dmark (k : Key) (ts : Nat) : Rec := { key := k, ts := ts, del := true, mt := none, data := ⟨0, 0⟩ }

/-- one reservation: who, in which blob file, which bytes, for which record; `written`: `write_all_at` returned -/
structure Alloc where
  client : Nat
  blob : Nat
  rng : Range
  r : Rec
  written : Bool
deriving DecidableEq, Repr, Inhabited

structure Bytes where
  /-- `File::size` (the atomic) of the blob files, by blob id -/
  size : Nat → Nat
  /-- every reservation made so far, newest first -/
  allocs : List Alloc
  /-- `file b o = some i`: byte `o` of the file of blob `b` was last written by client `i` -/
  file : Nat → Nat → Option Nat

namespace Bytes

/-- `size.fetch_add(len)` on the file of blob `b`, by client `i`, for record `r` -/
def reserve (y : Bytes) (i b : Nat) (r : Rec) (len : Nat) : Bytes :=
  { y with
    size := fun j => if j = b then (fetchAdd (y.size b) len).2 else y.size j
    allocs := { client := i, blob := b, rng := (fetchAdd (y.size b) len).1, r := r, written := false } :: y.allocs }

/-- does byte `o` of blob file `b` lie in a range that client `i` has reserved and not yet written? -/
def pending (y : Bytes) (i b o : Nat) : Bool :=
  y.allocs.any fun x => x.client == i && !x.written && x.blob == b && decide (x.rng.off ≤ o) && decide (o < x.rng.stop)

/-- `write_all_at`: client `i` fills what it has reserved -/
def land (y : Bytes) (i : Nat) : Bytes :=
  { y with
    allocs := y.allocs.map fun x => if x.client = i then { x with written := true } else x
    file := fun b o => if y.pending i b o then some i else y.file b o }

end Bytes

/-- length of the file of blob `id` as the store describes it: header + records; a blob that does not exist yet
    will be created with its header only -/
def sizeOf (klen : Nat) (st : Store) (id : Nat) : Nat :=
  match st.blobs.find? (fun b => b.id == id) with
  | some b => Fs.contentLen klen b.recs
  | none => blobHeaderSize

/-- what the step of client `i` from the state `s` does to the blob files (applied only if the step is enabled) -/
def bytesStep (klen : Nat) (s : CState) (i : Nat) (y : Bytes) : Bytes :=
  match s.clients[i]? with
  | none => y
  | some c =>
    match c.pc, c.op, s.store.active with
    | .wBlob, .write k ts d, some a => y.reserve i a.id (wrec k ts d) (Fs.recLen klen (wrec k ts d))
    | .wReserved, .write _ _ _, _ => y.land i
    | .dActive, .delete k ts oip, some a =>
      if (Store.blobDelete a k ts none oip).2 then
        (y.reserve i a.id (dmark k ts) (Fs.recLen klen (dmark k ts))).land i
      else y
    | .dClosed _, .delete k ts _, _ =>
      (s.store.closed.foldl (fun y b =>
        if (Store.blobDelete b k ts none true).2 then y.reserve i b.id (dmark k ts) (Fs.recLen klen (dmark k ts))
        else y) y).land i
    | _, _, _ => y

structure BState where
  c : CState
  y : Bytes

def bfire (klen : Nat) (l : Label) (b : BState) : Option BState :=
  match fire l b.c with
  | none => none
  | some c' =>
    some { c := c'
           y := match l with
             | .step i => bytesStep klen b.c i b.y
             | _ => b.y }

def BStep (klen : Nat) (b b' : BState) : Prop := ∃ l, bfire klen l b = some b'

inductive BReach (klen : Nat) (b0 : BState) : BState → Prop where
  | refl : BReach klen b0 b0
  | step {b b' : BState} : BReach klen b0 b → BStep klen b b' → BReach klen b0 b'

def brun (klen : Nat) : List Label → BState → Option BState
  | [], b => some b
  | l :: ls, b =>
    match bfire klen l b with
    | some b' => brun klen ls b'
    | none => none

/-- clients `ops` on the store `st`, whose blob files hold exactly the records of `st` -/
def binit (klen : Nat) (st : Store) (ops : List COp) : BState :=
  { c := init st ops
    y := { size := sizeOf klen st, allocs := [], file := fun _ _ => none } }

end ConcBytes
end Pearl
