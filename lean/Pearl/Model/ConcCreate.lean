/-
L3 (concurrency, life-cycle side): `N` client tasks race to CREATE or to CLOSE the active blob of a storage
that may have none (`src/storage/core.rs`).  The data side (`Pearl/Model/ConcRW.lean`) assumes an active blob
throughout; this system is the part it leaves out: the head of `Storage::write_with_optional_meta`, the
no-active-blob branch of `delete_with_optional_meta`, `Storage::try_create_active_blob` and
`Storage::try_close_active_blob`.

The code (pc of the client after the step, in the order of the code):

  firstOp  (`write_with_optional_meta`: `self.try_create_active_blob().await`  →  `Inner::create_active_blob`)
  -------
  start   → pre        `has_active_blob()`: `self.safe.read().await`               shared lock taken
  pre     → preDone b  `… .active_blob` is `Some`/`None`, guard dropped            shared lock released, answer kept
  preDone true  → done `return Err(active_blob_already_exists)`                    (the write goes on; not modelled)
  preDone false → locked   `self.safe.write().await`                               exclusive lock, when free
  locked  → rel | creating id      `ensure_active_blob_exists(&mut safe)`:
                       `if let None = safe.active_blob { let next = self.next_blob_name()?` (`next_blob_id.fetch_add(1)`)
                                                                                   else `Ok(())`          (`Res.raced`)
  creating id → created id   `Blob::open_new(next, ..).await`  SUSPENSION POINT, the exclusive lock is held;
                             the file `id` exists afterwards
              | rel          … or `open_new` fails (`Label.fail`): `?` returns, the id is NOT given back
                             (FIXME at `next_blob_name`: "Maybe we should revert counter if new blob creation failed?")
  created id  → rel          `safe.active_blob = Some(..)`
  rel     → done             guard dropped

  `delete_with_optional_meta(.., only_if_presented = false)` without an active blob has the same shape: the test
  `safe.active_blob.is_some()` under `safe.read()`, guard dropped, `safe.write().await`,
  `ensure_active_blob_exists(&mut safe)`.  It is `firstOp` as far as this state is concerned.

  closeActive  (`Storage::try_close_active_blob` → `Inner::close_active_blob`)
  -----------
  start → pre → preDone b    as above
  preDone false → done       `return Err(active_blob_doesnt_exist)`
  preDone true  → locked     `self.safe.write().await`
  locked  → rel | closing    `if safe.active_blob.is_none() { Err(..) }`
  closing → rel              `ablob.read().await.fsyncdata().await?` (suspension point; may fail: `Label.fail`, nothing
                             moved), `blobs.write().await`, `safe.active_blob.take()`, `blobs.push(..)`
  rel → done

The pre-check is UNLOCKED with respect to what follows: between `pre → preDone` and `preDone → locked` any number
of other clients may run.  What makes the code right is the SECOND test, inside `ensure`, under the exclusive lock.

`ensureSeeded` is the seeded variant (the change that survived until simultaneous first operations were generated):
`next_blob_name()` hoisted above the test, so a client that lost the race takes an id and drops it.

Not modelled: fairness of tokio's `RwLock` (a queued writer holds back new readers) — the system below admits
MORE interleavings, which is on the safe side for invariants; `restore_active_blob` (moves the last closed blob
back; no id is taken) and the worker's `replace_active_blob` (takes an id under the same exclusive lock while an
active blob exists; `Pearl.Acct`); what `write`/`delete` do after this head (`Pearl.ConcRW`).

Ghost state (read by no step): `burned` (ids whose `open_new` failed), the `Res` in `rel`/`done`.
Ids are `Nat` (`usize` in the code), written `Nat` rather than through an abbreviation.
-/
namespace Pearl
namespace ConcCreate

/-- what a client is doing -/
inductive Kind where
  /-- the head of the first `write` (or `delete`) of a storage without an active blob -/
  | firstOp
  /-- `try_close_active_blob` -/
  | closeActive
deriving DecidableEq, Repr, Inhabited

/-- `Inner::safe`, a `RwLock<Safe>` -/
inductive Lock where
  | free
  /-- held shared by `n ≥ 1` clients -/
  | shared (n : Nat)
  /-- held exclusively by client `c` -/
  | excl (c : Nat)
deriving DecidableEq, Repr, Inhabited

/-- how the call ended (ghost) -/
inductive Res where
  /-- `create_active_blob`: the pre-check saw an active blob: `Err(active_blob_already_exists)` -/
  | exists_
  /-- `ensure_active_blob_exists` saw an active blob under the exclusive lock: lost the race, `Ok(())` -/
  | raced
  /-- created and installed the blob `id` -/
  | created (id : Nat)
  /-- took `id`, `open_new` failed -/
  | createFailed (id : Nat)
  /-- `close_active_blob`: `Err(active_blob_doesnt_exist)` (from either test) -/
  | noActive
  /-- moved the blob `id` to the closed ones -/
  | closed (id : Nat)
  /-- `fsyncdata` failed, nothing moved -/
  | syncFailed
deriving DecidableEq, Repr, Inhabited

inductive Pc where
  /-- before the pre-check -/
  | start
  /-- inside `has_active_blob`: holds the lock shared -/
  | pre
  /-- pre-check answered `has`; holds nothing -/
  | preDone (has : Bool)
  /-- holds the lock exclusively, before the test -/
  | locked
  /-- `id` taken from `next_blob_id`, inside `open_new(..).await`; exclusive lock held -/
  | creating (id : Nat)
  /-- the file of `id` exists, not installed yet; exclusive lock held -/
  | created (id : Nat)
  /-- `close_active_blob` past its test, inside `fsyncdata().await`; exclusive lock held -/
  | closing
  /-- about to drop the exclusive guard -/
  | rel (r : Res)
  | done (r : Res)
deriving DecidableEq, Repr, Inhabited

/-- between `safe.write().await` and the drop of that guard -/
def Pc.holdsX : Pc → Bool
  | .locked | .creating _ | .created _ | .closing | .rel _ => true
  | _ => false

def Pc.isDone : Pc → Bool
  | .done _ => true
  | _ => false

structure Client where
  kind : Kind
  pc : Pc := .start
deriving DecidableEq, Repr, Inhabited

structure State where
  /-- `Safe::active_blob` (its id) -/
  active : Option Nat
  /-- `Safe::blobs`, oldest first -/
  closed : List Nat
  /-- ids of the blob files in the directory, in the order of their creation -/
  files : List Nat
  /-- `Inner::next_blob_id` -/
  nextId : Nat
  lock : Lock
  clients : List Client
  /-- ghost: ids taken whose file was never created, newest first -/
  burned : List Nat
deriving DecidableEq, Repr, Inhabited

/-- `Inner::ensure_active_blob_exists` up to the suspension point: where the client goes and the new counter -/
def ensure (s : State) : Pc × Nat :=
  if s.active.isSome then (.rel .raced, s.nextId) else (.creating s.nextId, s.nextId + 1)

/-- the seeded variant: `let next = self.next_blob_name()?;` BEFORE `if let None = safe.active_blob` -/
def ensureSeeded (s : State) : Pc × Nat :=
  (if s.active.isSome then .rel .raced else .creating s.nextId, s.nextId + 1)

/-- the next step of client `i` (which is `c`): its new pc and the shared state (`clients` untouched);
    `none` if it has to wait or has finished -/
def cstep (seeded : Bool) (s : State) (i : Nat) (c : Client) : Option (Pc × State) :=
  match c.pc with
  | .start =>
    match s.lock with
    | .free => some (.pre, { s with lock := .shared 1 })
    | .shared n => some (.pre, { s with lock := .shared (n + 1) })
    | .excl _ => none
  | .pre =>
    match s.lock with
    | .shared (n + 1) => some (.preDone s.active.isSome, { s with lock := if n = 0 then .free else .shared n })
    | _ => none
  | .preDone has =>
    match c.kind, has with
    | .firstOp, true => some (.done .exists_, s)
    | .closeActive, false => some (.done .noActive, s)
    | _, _ =>
      match s.lock with
      | .free => some (.locked, { s with lock := .excl i })
      | _ => none
  | .locked =>
    match c.kind with
    | .firstOp =>
      let r := if seeded then ensureSeeded s else ensure s
      some (r.1, { s with nextId := r.2 })
    | .closeActive => some (if s.active.isSome then .closing else .rel .noActive, s)
  | .creating id => some (.created id, { s with files := s.files ++ [id] })
  | .created id => some (.rel (.created id), { s with active := some id })
  | .closing =>
    match s.active with
    | some a => some (.rel (.closed a), { s with active := none, closed := s.closed ++ [a] })
    | none => some (.rel .noActive, s)
  | .rel r => some (.done r, { s with lock := .free })
  | .done _ => none

/-- a suspension point of client `i` ends with an error -/
def cfail (s : State) (c : Client) : Option (Pc × State) :=
  match c.pc with
  | .creating id => some (.rel (.createFailed id), { s with burned := id :: s.burned })
  | .closing => some (.rel .syncFailed, s)
  | _ => none

inductive Label where
  /-- client `i` does its next step -/
  | step (i : Nat)
  /-- the I/O client `i` is waiting for fails (`open_new`, `fsyncdata`) -/
  | fail (i : Nat)
deriving DecidableEq, Repr, Inhabited

def Label.isFail : Label → Bool
  | .fail _ => true
  | _ => false

def Label.client : Label → Nat
  | .step i => i
  | .fail i => i

def fire (seeded : Bool) (l : Label) (s : State) : Option State :=
  match s.clients[l.client]? with
  | none => none
  | some c =>
    match (match l with | .step i => cstep seeded s i c | .fail _ => cfail s c) with
    | none => none
    | some (pc, t) => some { t with clients := s.clients.set l.client { c with pc := pc } }

def Step (seeded : Bool) (s s' : State) : Prop := ∃ l, fire seeded l s = some s'

inductive Reach (seeded : Bool) (s0 : State) : State → Prop where
  | refl : Reach seeded s0 s0
  | step {s s' : State} : Reach seeded s0 s → Step seeded s s' → Reach seeded s0 s'

/-- run a schedule (`none` if some label is not enabled when its turn comes) -/
def runSched (seeded : Bool) : List Label → State → Option State
  | [], s => some s
  | l :: ls, s =>
    match fire seeded l s with
    | some s' => runSched seeded ls s'
    | none => none

/-- a storage opened on a directory holding the closed blobs `0 … n-1` and no active blob (`n = 0`: the empty
    directory), clients `kinds`, nobody started -/
def initAt (n : Nat) (kinds : List Kind) : State :=
  { active := none
    closed := List.range n
    files := List.range n
    nextId := n
    lock := .free
    clients := kinds.map (fun k => { kind := k })
    burned := [] }

/-- the empty directory -/
def init (kinds : List Kind) : State := initAt 0 kinds

/-- a storage with the closed blobs `0 … n-1` AND the active blob `n` (what `Storage::init` leaves behind) -/
def initActive (n : Nat) (kinds : List Kind) : State :=
  { active := some n
    closed := List.range n
    files := List.range (n + 1)
    nextId := n + 1
    lock := .free
    clients := kinds.map (fun k => { kind := k })
    burned := [] }

/-- everybody has returned -/
def quiescent (s : State) : Prop := ∀ c ∈ s.clients, c.pc.isDone = true

instance (s : State) : Decidable (quiescent s) := by unfold quiescent; infer_instance

/-- `(max of l) + 1`, `0` for the empty list -/
def maxSucc : List Nat → Nat
  | [] => 0
  | x :: l => max (x + 1) (maxSucc l)

/-- the pc of the client that holds the lock exclusively -/
def holderPc (s : State) : Option Pc :=
  match s.lock with
  | .excl c => (s.clients[c]?).map (·.pc)
  | _ => none

/-- the id of the client inside `ensure` between "id taken" and "file created" -/
def taking (s : State) : List Nat :=
  match holderPc s with
  | some (.creating id) => [id]
  | _ => []

/-- the id of the client inside `ensure` between "file created" and "installed" -/
def uninstalled (s : State) : List Nat :=
  match holderPc s with
  | some (.created id) => [id]
  | _ => []

/-! ### runs -/
namespace Demo

/-- three clients: two first operations and a close -/
def kinds3 : List Kind := [.firstOp, .firstOp, .closeActive]

/-- both first operations do their pre-check before anybody creates; the close starts after the blob exists -/
def sched3 : List Label :=
  [.step 0, .step 1, .step 0, .step 1,            -- both pre-checks: "none"
   .step 0, .step 0, .step 0, .step 0, .step 0,   -- 0: lock, take id 0, create, install, release
   .step 2, .step 2,                              -- 2: pre-check "some"
   .step 1, .step 1, .step 1,                     -- 1: lock, ensure: raced, release
   .step 2, .step 2, .step 2, .step 2,            -- 2: lock, test, move, release
   .step 0, .step 1, .step 2]                     -- (nothing left: these are not enabled)

def sched3ok : List Label := sched3.take 18

/-- two clients, both pre-checks first -/
def sched2 : List Label :=
  [.step 0, .step 1, .step 0, .step 1,
   .step 0, .step 0, .step 0, .step 0, .step 0,
   .step 1, .step 1, .step 1]

/-- the creation of client 0 fails (its id 0 is burned), client 1 creates blob 1, client 2 closes it -/
def sched3fail : List Label :=
  [.step 0, .step 1, .step 0, .step 1,
   .step 0, .step 0, .fail 0, .step 0,            -- 0: lock, take id 0, `open_new` fails, release
   .step 1, .step 1, .step 1, .step 1, .step 1,   -- 1: lock, take id 1, create, install, release
   .step 2, .step 2, .step 2, .step 2, .step 2, .step 2]

end Demo

end ConcCreate
end Pearl
