import Pearl.Model.Ops
import Pearl.Spec
/-
L3 (concurrency, data side): `N` client tasks run one operation each against the L2 store of
`Pearl/Model/Store.lean`, split into the atomic steps the code performs, in the order the code performs them;
a worker may rotate the active blob or dump the indexes of the closed blobs in between.

Locks (what makes a step atomic):

* `Inner::safe` (tokio `RwLock<Safe>`), the STORAGE lock.  `Storage::write_with_optional_meta`, `read_with_optional_meta`,
  `contains_with`, `delete_with_optional_meta` take it shared (`safe.read().await`) and keep the guard until they
  are done with the blobs; `ObserverWorker::try_update_active_blob` → `Safe::replace_active_blob` needs it exclusively
  (`safe().write().await`).  Hence: NO ROTATION while some client is between its `acquire` and its `release`
  (`Pc.holdsS`), in particular none between the two look-ups of one read.
* `Safe::active_blob : Box<async_lock::RwLock<Blob>>`, the BLOB lock.  `Blob::write` holds it `upgradable_read()`
  (one writer at a time, readers admitted) over `write_to_file` (`size.fetch_add`, `write_all_at`) and
  `index.push`; `delete_in_active` holds it `write()` (exclusive) over the liveness check and the marker
  append; a reader holds it `read()` over one `get_latest_entry`.  `blobLock` below is the upgradable/exclusive side.
* `InMemoryIndex`'s `std::sync::RwLock`: `push` under `write()`, `get_latest` under `read()` — each is one step.
* `Safe::blobs : Arc<async_lock::RwLock<HierarchicalFilters<..>>>`, the CLOSED-BLOBS lock: a reader holds it
  `read()` over the whole scan of the closed blobs, `delete_in_closed` and `try_dump_old_blob_indexes` hold it
  `write()` — each is one step.

Program of a client (`src/storage/core.rs`, `src/blob/core.rs`, `src/blob/index/core.rs`), pc after the step:

  write k ts d                                    read k / contains k                 delete k ts oip
  ------------                                    -------------------                 ---------------
  idle   → start     invoke                       idle  → start   invoke              idle    → start    invoke
  [!allow_duplicates: `contains_with`:]           start → lookA   safe.read()         start   → dActive  safe.read()
  start  → lookA     safe.read()                  lookA → lookC   active blob:        dActive → dClosed  active_blob.write():
  lookA  → lookC     look into the active blob              `ablob.read().get_latest`           check + marker (one step)
  lookC  → chk       look into the closed blobs   lookC → load    closed blobs,       dClosed → rel      blobs.write(): every closed
  chk    → ret       found: `return Ok(())`                 newest first, `latest`                       blob: check + marker
         | wStart    else drop(safe)              load  → rel     Found: `entry.load()`  rel  → ret      drop(safe)
  wStart → wLocked   safe.read()                  rel   → ret     drop(safe)          ret     → done     respond
  wLocked→ wBlob     blob.upgradable_read()       ret   → done    respond
  wBlob  → wReserved size.fetch_add(len)
  wReserved→wWritten write_all_at(off)            (`contains`: `lookC → rel`, no load)
  wWritten→ wPushed  index.push (under the index write lock)
  wPushed→ rel       drop(blob guard)
  rel    → ret       drop(safe)
  ret    → done      acknowledge

Not modelled (assumed): an active blob exists throughout (`init` creates one, `replace_active_blob` keeps one;
`close_active_blob`/`restore_active_blob` are lifecycle calls, see C13/C14), so `try_create_active_blob` at the
head of `write` and the exclusive-lock branch of `delete` are no-ops; metadata (`write`, `read`, `delete`
without `Meta`); I/O errors; the bounded worker channel (`Pearl.Lts`); byte offsets (`Pearl.Append`).

Ghost state (not read by any step): `Client.born` (the store when the operation was invoked), the snapshot in
`Pc.lookC`, the place in `Resp.wrote` (the real call answers `Ok(())` whether it stored or skipped), `trace`.
-/
namespace Pearl
namespace ConcRW

/-- one client operation (no metadata) -/
inductive COp where
  | write (k : Key) (ts : Nat) (d : Data)
  | read (k : Key)
  | contains (k : Key)
  | delete (k : Key) (ts : Nat) (oip : Bool)
deriving DecidableEq, Repr, Inhabited

def COp.key : COp → Key
  | .write k _ _ => k
  | .read k => k
  | .contains k => k
  | .delete k _ _ => k

def COp.isDelete : COp → Bool
  | .delete _ _ _ => true
  | _ => false

/-- the record `Storage::write(key, value, ts)` appends (`Store.write` with `m = none`) -/
def wrec (k : Key) (ts : Nat) (d : Data) : Rec := { key := k, ts := ts, del := false, mt := none, data := d }

/-- what the caller gets back -/
inductive Resp where
  /-- `write`: `Ok(())`.  Ghost: where the record went (`none`: duplicate found, nothing stored). -/
  | wrote (place : Option PRec)
  /-- `read`: the classification and, for `Found`, the loaded record -/
  | value (r : ReadResult Rec)
  /-- `read`: a header was found but the bytes it points to are not (completely) in the file -/
  | torn
  /-- `contains` -/
  | has (r : ReadResult Nat)
  /-- `delete`: number of blobs marked -/
  | deleted (n : Nat)
deriving DecidableEq, Repr, Inhabited

/-- the trace: invocations, responses and the points at which an operation takes effect or looks -/
inductive Ev where
  | inv (i : Nat) (op : COp)
  | res (i : Nat) (r : Resp)
  /-- client `i` looks into the active blob (its first look-up) -/
  | look (i : Nat)
  /-- client `i` pushes the header of `r` into the index of the active blob -/
  | push (i : Nat) (r : Rec)
  /-- client `i`: `delete_in_active` -/
  | delA (i : Nat) (k : Key) (ts : Nat) (oip : Bool)
  /-- client `i`: `delete_in_closed` -/
  | delC (i : Nat) (k : Key) (ts : Nat)
  /-- worker: `replace_active_blob` -/
  | rot
  /-- worker: `try_dump_old_blob_indexes` -/
  | dump
deriving DecidableEq, Repr, Inhabited

/-! ### the store mutations and look-ups of single steps -/

/-- `index.push` of the active blob (the bytes are in the file already) -/
def appendActive (s : Store) (r : Rec) : Store :=
  match s.active with
  | some a => { s with active := some (a.append r) }
  | none => s

/-- `Storage::delete_in_active`; returns the number of blobs marked (0 or 1) -/
def delActive (s : Store) (k : Key) (ts : Nat) (oip : Bool) : Store × Nat :=
  match s.active with
  | some a => ({ s with active := some (Store.blobDelete a k ts none oip).1 },
               if (Store.blobDelete a k ts none oip).2 then 1 else 0)
  | none => (s, 0)

/-- `Storage::delete_in_closed` (`DELETE_ONLY_IF_PRESENTED = true`) -/
def delClosed (s : Store) (k : Key) (ts : Nat) : Store × Nat :=
  let res := s.slots.map (fun o => o.map (fun b => Store.blobDelete b k ts none true))
  ({ s with slots := res.map (fun o => o.map (·.1)) },
   (res.filter (fun o => match o with | some (_, true) => true | _ => false)).length)

/-- first half of `Storage::get_latest_entry`: the active blob -/
def lookActive (s : Store) (k : Key) : ReadResult Rec :=
  match s.active with
  | some a => ReadResult.notFound.latest (a.getLatestEntry k none)
  | none => .notFound

/-- second half: the closed blobs, newest first -/
def lookClosed (s : Store) (k : Key) (acc : ReadResult Rec) : ReadResult Rec :=
  s.closed.reverse.foldl (fun acc b => acc.latest (b.getLatestEntry k none)) acc

/-! ### clients -/

inductive Pc where
  /-- not yet invoked -/
  | idle
  /-- invoked, before the first `safe.read()` -/
  | start
  /-- holds the storage lock; about to look into the active blob -/
  | lookA
  /-- … about to look into the closed blobs; `acc` is what the active blob answered.
      Ghost `snap`: the store as it was at that look-up. -/
  | lookC (acc : ReadResult Rec) (snap : Store)
  /-- `read`: look-up done, about to load the data -/
  | load (res : ReadResult Rec)
  /-- `write` (duplicates disallowed): `contains_with` done, about to drop its guard and decide -/
  | chk (res : ReadResult Rec)
  /-- `write`: no duplicate (or duplicates allowed); before `safe.read()` -/
  | wStart
  /-- `write`: holds the storage lock; before `blob.upgradable_read()` -/
  | wLocked
  /-- `write`: holds the blob lock; before `size.fetch_add` -/
  | wBlob
  /-- `write`: offset reserved; before `write_all_at` -/
  | wReserved
  /-- `write`: bytes in the file; before `index.push` -/
  | wWritten
  /-- `write`: header pushed (ghost: at `p`); before dropping the blob guard -/
  | wPushed (p : PRec)
  /-- `delete`: holds the storage lock; before `delete_in_active` -/
  | dActive
  /-- `delete`: `n` markers in the active blob; before `delete_in_closed` -/
  | dClosed (n : Nat)
  /-- holds the storage lock, about to drop it; the response is decided -/
  | rel (r : Resp)
  /-- no lock; about to return -/
  | ret (r : Resp)
  | done (r : Resp)
deriving Repr, Inhabited

/-- between `safe.read().await` and the drop of that guard -/
def Pc.holdsS : Pc → Bool
  | .lookA | .lookC _ _ | .load _ | .chk _ | .wLocked | .wBlob | .wReserved | .wWritten | .wPushed _
  | .dActive | .dClosed _ | .rel _ => true
  | _ => false

/-- inside `Blob::write`'s upgradable section -/
def Pc.holdsB : Pc → Bool
  | .wBlob | .wReserved | .wWritten | .wPushed _ => true
  | _ => false

structure Client where
  op : COp
  pc : Pc := .idle
  /-- ghost: the store at the moment of the invocation -/
  born : Store
deriving Repr, Inhabited

/-- what a client step does to the shared state -/
inductive Eff where
  | skip
  /-- `write_all_at` completed: the bytes of `r` are in the file of the active blob -/
  | land (r : Rec)
  | lockB
  | unlockB
  | push (r : Rec)
  | delA (k : Key) (ts : Nat) (oip : Bool)
  | delC (k : Key) (ts : Nat)
deriving DecidableEq, Repr, Inhabited

namespace Eff

def store : Eff → Store → Store
  | .push r, s => appendActive s r
  | .delA k ts oip, s => (delActive s k ts oip).1
  | .delC k ts, s => (delClosed s k ts).1
  | _, s => s

def landed : Eff → List Rec → List Rec
  | .land r, l => r :: l
  | _, l => l

def blobLock (i : Nat) : Eff → Option Nat → Option Nat
  | .lockB, _ => some i
  | .unlockB, _ => none
  | _, b => b

def evs (i : Nat) : Eff → List Ev
  | .push r => [.push i r]
  | .delA k ts oip => [.delA i k ts oip]
  | .delC k ts => [.delC i k ts]
  | _ => []

end Eff

/-- result of a client step -/
structure Out where
  pc : Pc
  eff : Eff := .skip
  evs : List Ev := []

/-- the next step of client `i`, `none` if it cannot move (blob lock taken, or finished).
    `st`, `landed`, `bl` are the store, the landed bytes and the holder of the blob lock. -/
def cstep (st : Store) (landed : List Rec) (bl : Option Nat) (i : Nat) (c : Client) : Option Out :=
  match c.pc with
  | .idle => some { pc := .start, evs := [.inv i c.op] }
  | .start =>
    match c.op with
    | .write _ _ _ => some { pc := if st.allowDup then .wLocked else .lookA }
    | .delete _ _ _ => some { pc := .dActive }
    | _ => some { pc := .lookA }
  | .lookA => some { pc := .lookC (lookActive st c.op.key) st, evs := [.look i] }
  | .lookC acc _ =>
    match c.op with
    | .read _ => some { pc := .load (lookClosed st c.op.key acc) }
    | .contains _ => some { pc := .rel (.has ((lookClosed st c.op.key acc).map (·.ts))) }
    | .write _ _ _ => some { pc := .chk (lookClosed st c.op.key acc) }
    | .delete _ _ _ => none
  | .load res =>
    match res with
    | .found r => some { pc := .rel (if r ∈ landed then .value (.found r) else .torn) }
    | _ => some { pc := .rel (.value res) }
  | .chk res => some { pc := if res.isFound then .ret (.wrote none) else .wStart }
  | .wStart => some { pc := .wLocked }
  | .wLocked => if bl = none then some { pc := .wBlob, eff := .lockB } else none
  | .wBlob => some { pc := .wReserved }
  | .wReserved =>
    match c.op with
    | .write k ts d => some { pc := .wWritten, eff := .land (wrec k ts d) }
    | _ => none
  | .wWritten =>
    match c.op, st.active with
    | .write k ts d, some a =>
      some { pc := .wPushed { r := wrec k ts d, blob := a.id, seq := a.recs.length }, eff := .push (wrec k ts d) }
    | _, _ => none
  | .wPushed p => some { pc := .rel (.wrote (some p)), eff := .unlockB }
  | .dActive =>
    match c.op with
    | .delete k ts oip =>
      if bl = none then some { pc := .dClosed (delActive st k ts oip).2, eff := .delA k ts oip } else none
    | _ => none
  | .dClosed n =>
    match c.op with
    | .delete k ts _ => some { pc := .rel (.deleted (n + (delClosed st k ts).2)), eff := .delC k ts }
    | _ => none
  | .rel r => some { pc := .ret r }
  | .ret r => some { pc := .done r, evs := [.res i r] }
  | .done _ => none

/-- `born` is set by the invocation -/
def bornAfter (st : Store) (c : Client) : Store :=
  match c.pc with
  | .idle => st
  | _ => c.born

structure CState where
  store : Store
  /-- records whose data bytes are completely in a blob file -/
  landed : List Rec
  /-- holder of the active blob's upgradable lock -/
  blobLock : Option Nat
  clients : List Client
  /-- newest first -/
  trace : List Ev
deriving Repr, Inhabited

inductive Label where
  | step (i : Nat)
  /-- the worker switches the active blob (`replace_active_blob` under the exclusive storage lock) -/
  | rotate
  /-- the worker dumps the indexes of the closed blobs -/
  | dump
deriving DecidableEq, Repr, Inhabited

def fire (l : Label) (s : CState) : Option CState :=
  match l with
  | .step i =>
    match s.clients[i]? with
    | none => none
    | some c =>
      match cstep s.store s.landed s.blobLock i c with
      | none => none
      | some o =>
        some { store := o.eff.store s.store
               landed := o.eff.landed s.landed
               blobLock := o.eff.blobLock i s.blobLock
               clients := s.clients.set i { op := c.op, pc := o.pc, born := bornAfter s.store c }
               trace := o.eff.evs i ++ o.evs ++ s.trace }
  | .rotate =>
    if s.clients.all (fun c => !c.pc.holdsS) then
      some { s with store := s.store.replaceActive, trace := .rot :: s.trace }
    else none
  | .dump => some { s with store := s.store.settle, trace := .dump :: s.trace }

def Step (s s' : CState) : Prop := ∃ l, fire l s = some s'

inductive Reach (s0 : CState) : CState → Prop where
  | refl : Reach s0 s0
  | step {s s' : CState} : Reach s0 s → Step s s' → Reach s0 s'

/-- run a schedule (`none` if some label is not enabled when its turn comes) -/
def runSched : List Label → CState → Option CState
  | [], s => some s
  | l :: ls, s =>
    match fire l s with
    | some s' => runSched ls s'
    | none => none

/-- every record of a store -/
def allRecs (st : Store) : List Rec := st.blobs.flatMap (·.recs)

/-- clients `ops` (none invoked yet) on the store `st` -/
def init (st : Store) (ops : List COp) : CState :=
  { store := st
    landed := allRecs st
    blobLock := none
    clients := ops.map (fun op => { op := op, pc := .idle, born := st })
    trace := [] }

/-- everybody has returned -/
def quiescent (s : CState) : Prop := ∀ c ∈ s.clients, ∃ r, c.pc = .done r

/-- the response of client `i`, once it has returned -/
def respOf (s : CState) (i : Nat) : Option Resp :=
  match s.clients[i]? with
  | some { pc := .done r, .. } => some r
  | _ => none

/-! ### replaying the trace on the sequential model -/

/-- what an event does to the store -/
def Ev.apply (s : Store) : Ev → Store
  | .push _ r => appendActive s r
  | .delA _ k ts oip => (delActive s k ts oip).1
  | .delC _ k ts => (delClosed s k ts).1
  | .rot => s.replaceActive
  | .dump => s.settle
  | _ => s

/-- the store after the events of `tr` (newest first) took effect on `s0`, oldest first -/
def replay (s0 : Store) (tr : List Ev) : Store := tr.foldr (fun e s => Ev.apply s e) s0

/-- `i` got its response before `j` was invoked (trace newest first) -/
def AckedBefore (i j : Nat) : List Ev → Prop
  | [] => False
  | e :: t => ((∃ op, e = .inv j op) ∧ ∃ r, Ev.res i r ∈ t) ∨ AckedBefore i j t

/-- the event at which an operation is linearized: the push of a write, the first look-up of a read,
    `contains` or skipped write, the first marker phase of a delete -/
def Ev.linOf (i : Nat) : Ev → Bool
  | .look j => i == j
  | .push j _ => i == j
  | .delA j _ _ _ => i == j
  | _ => false

/-- the linearization point of `i` precedes that of `j` (trace newest first) -/
def LinBefore (i j : Nat) : List Ev → Prop
  | [] => False
  | e :: t => (e.linOf j = true ∧ ∃ x ∈ t, Ev.linOf i x = true) ∨ LinBefore i j t

/-- the sequential operation an event stands for (`delC` is the second half of the `delete` of its `delA`) -/
def Ev.toOp : Ev → Option Op
  | .push _ r => some (.write r.key r.ts none r.data)
  | .delA _ k ts oip => some (.delete k ts none oip)
  | .rot => some .replaceActive
  | .dump => some .settle
  | _ => none

def Ev.mutates : Ev → Bool
  | .push _ _ | .delA _ _ _ _ | .delC _ _ _ | .rot | .dump => true
  | _ => false

/-- parse a chronological list of mutating events into sequential operations; fails if the two phases of a
    delete are separated by another mutation -/
def coalesce : List Ev → Option (List Op)
  | [] => some []
  | .push _ r :: t => (coalesce t).map (Op.write r.key r.ts none r.data :: ·)
  | .delA i k ts oip :: .delC j k' ts' :: t =>
    if i = j ∧ k = k' ∧ ts = ts' then (coalesce t).map (Op.delete k ts none oip :: ·) else none
  | .rot :: t => (coalesce t).map (Op.replaceActive :: ·)
  | .dump :: t => (coalesce t).map (Op.settle :: ·)
  | _ => none

/-- the mutating events of a trace, oldest first -/
def muts (tr : List Ev) : List Ev := tr.reverse.filter Ev.mutates

/-- no `write` of the list is skipped by the duplicate check of the sequential model -/
def NoSkip : Store → List Op → Prop
  | _, [] => True
  | s, op :: ops =>
    (match op with
     | .write k _ m _ => s.allowDup = true ∨ (s.getLatestEntry k m).isFound = false
     | _ => True) ∧ NoSkip (s.apply op) ops

end ConcRW
end Pearl
