import Pearl.Model.Filter
/-
L3: the filter container `HierarchicalFilters<Key, Filter, Child>` (`src/filter/hierarchical.rs`), exactly as
stored: an arena `inner : Vec<Option<Inner>>` addressed by index (`Node { filter, children, parent }` or
`Leaf { parent, leaf }`), the vector `children : Vec<Option<Leaf<Child>>>` whose holes are kept, `root`,
`group_size`, `level`.  Generic in the filter type (operations `FilterOps`) and in the child type
(`ChildOps`).

Totalisation of Rust panics (all unreachable for a container built by `new`/`push`/`pop` with
`group_size ≥ 1`, see `Container.Inv` in `Pearl/Proofs/ContainerLemmas.lean`):
* `get`/`get_mut` on an id that is not a `Node` ("node not found"): read gives the default node, write is a no-op;
* `last_inner_node().unwrap()` on a root without children (only `group_size = 0`): `push` returns the container
  unchanged, `Container.pushPanics` tells this case apart.
Loops that follow `parent` pointers / the iterator stack get a fuel bound (`inner.len() + 2`): the arena
of a well-formed container is a tree of depth ≤ 3, so the bound is never reached.
-/
namespace Pearl

/-- what the container needs from `FilterTrait` -/
structure FilterOps (F : Type) where
  /-- `checked_add_assign(&mut self, other)`: `(self afterwards, returned flag)` -/
  merge : F → F → F × Bool
  /-- `contains_fast` -/
  containsFast : F → Key → FilterResult
  /-- `offload_filter`: `(self afterwards, freed bytes)` -/
  offload : F → F × Nat

/-- what the container needs from its children (`BloomProvider`) -/
structure ChildOps (F C : Type) where
  /-- `get_filter_fast()`, else `get_filter().await` (both are clones of the same filter for `Blob`) -/
  filterOf : C → Option F
  /-- `check_filter(item).await` -/
  checkFilter : C → Key → FilterResult
  /-- `offload_buffer(needed_memory, level)`: `(child afterwards, freed)` -/
  offload : C → Nat → Nat → C × Nat

/-- `InnerNode { filter, children, parent }` -/
structure FNode (F : Type) where
  filter : Option F := none
  children : List Nat := []
  parent : Option Nat := none
deriving Repr

instance {F} : Inhabited (FNode F) := ⟨{}⟩

/-- `enum Inner { Node(InnerNode), Leaf(InnerLeaf { parent, leaf }) }` -/
inductive FInner (F : Type) where
  | node (n : FNode F)
  | leaf (parent : Nat) (leaf : Nat)
deriving Repr

/-- `Leaf<T> { parent, data }` -/
structure FLeaf (C : Type) where
  parent : Nat
  data : C
deriving Repr

/-- `HierarchicalFilters { inner, children, root, group_size, level }` -/
structure Container (F C : Type) where
  inner : List (Option (FInner F))
  children : List (Option (FLeaf C))
  root : Nat
  groupSize : Nat
  level : Nat
deriving Repr

/-- index of the last `some` (`pop` / `last_id` scan backwards over the holes) -/
def lastSomeIdx {α : Type} : List (Option α) → Option Nat
  | [] => none
  | o :: rest =>
    match lastSomeIdx rest with
    | some i => some (i + 1)
    | none => if o.isSome then some 0 else none

/-- `BTreeSet::insert` on the ascending duplicate-free list that stands for the set -/
def setInsert (x : Nat) : List Nat → List Nat
  | [] => [x]
  | y :: ys => if x < y then x :: y :: ys else if x = y then y :: ys else y :: setInsert x ys

namespace Container

variable {F C : Type}

/-- `HierarchicalFilters::new` -/
def new (groupSize level : Nat) : Container F C :=
  { inner := [some (.node {})], children := [], root := 0, groupSize := groupSize, level := level }

/-- `get_inner` -/
def getInner (c : Container F C) (id : Nat) : Option (FInner F) := (c.inner[id]?).join

/-- `get_child` -/
def getChild (c : Container F C) (id : Nat) : Option (FLeaf C) := (c.children[id]?).join

/-- `get(id)` where the code would panic on a non-node: `none` -/
def getNode (c : Container F C) (id : Nat) : Option (FNode F) :=
  match c.getInner id with
  | some (.node n) => some n
  | _ => none

/-- `get_mut(id)` followed by an in-place update -/
def modifyNode (c : Container F C) (id : Nat) (f : FNode F → FNode F) : Container F C :=
  { c with inner := c.inner.modify id (fun o =>
      match o with
      | some (.node n) => some (.node (f n))
      | x => x) }

/-- `Inner::merge_filters(dest, source)`: the new value of `dest` -/
def mergeFilters (ops : FilterOps F) (dest source : Option F) : Option F :=
  match dest, source with
  | some d, some s =>
    let (d', ok) := ops.merge d s
    if ok then some d' else none
  | _, _ => none

/-- `init_filter_from_cow`: a clone of the child's filter, or `None` -/
def initFilter (item : Option F) : Option F := item

/-- the `while let Some(id) = parent` loop of `add_child` -/
def mergeUp (ops : FilterOps F) (item : Option F) : Nat → Container F C → Option Nat → Container F C
  | 0, c, _ => c
  | _, c, none => c
  | fuel + 1, c, some id =>
    let c' := c.modifyNode id (fun n => { n with filter := mergeFilters ops n.filter item })
    mergeUp ops item fuel c' ((c.getNode id).bind (·.parent))

/-- `add_child(node, child)` -/
def addChild (ops : FilterOps F) (cops : ChildOps F C) (c : Container F C) (node : Nat) (child : C) :
    Container F C × Nat :=
  let itemFilter := cops.filterOf child
  let innerId := c.inner.length
  let childId := c.children.length
  let c1 : Container F C := { c with inner := c.inner ++ [some (.leaf node childId)] }
  let parent0 := (c1.getNode node).bind (·.parent)
  let c2 := c1.modifyNode node (fun n =>
    { n with
      filter := if n.children.isEmpty then initFilter itemFilter else mergeFilters ops n.filter itemFilter
      children := n.children ++ [innerId] })
  let c3 := mergeUp ops itemFilter (c2.inner.length + 2) c2 parent0
  ({ c3 with children := c3.children ++ [some { parent := node, data := child }] }, childId)

/-- `last_inner_node` -/
def lastInnerNode (c : Container F C) : Option Nat :=
  ((c.getNode c.root).getD {}).children.getLast?

/-- `new_inner_node` -/
def newInnerNode (c : Container F C) : Container F C × Nat :=
  let nodeId := c.inner.length
  let c1 := c.modifyNode c.root (fun n => { n with children := n.children ++ [nodeId] })
  ({ c1 with inner := c1.inner ++ [some (.node { parent := some c.root })] }, nodeId)

/-- the case in which `push` panics (`last_inner_node().unwrap()`) -/
def pushPanics (c : Container F C) : Bool :=
  !(c.children.length < c.groupSize) && c.lastInnerNode.isNone

/-- `push(child)` -/
def push (ops : FilterOps F) (cops : ChildOps F C) (c : Container F C) (child : C) : Container F C × Nat :=
  if c.children.length < c.groupSize then
    let (c1, res) := addChild ops cops c c.root child
    if c1.children.length ≥ c1.groupSize then
      let newRootId := c1.inner.length
      let c2 := c1.modifyNode c1.root (fun n => { n with parent := some newRootId })
      let filter := ((c2.getNode c2.root).getD {}).filter
      let newRoot : FInner F := .node { filter := filter, children := [c2.root], parent := none }
      ({ c2 with root := newRootId, inner := c2.inner ++ [some newRoot] }, res)
    else (c1, res)
  else
    match c.lastInnerNode with
    | none => (c, 0)
    | some id =>
      if ((c.getNode id).getD {}).children.length ≥ c.groupSize then
        let (c1, id1) := c.newInnerNode
        addChild ops cops c1 id1 child
      else addChild ops cops c id child

/-- `extend` / `from_vec` -/
def extend (ops : FilterOps F) (cops : ChildOps F C) (c : Container F C) (xs : List C) : Container F C :=
  xs.foldl (fun c x => (push ops cops c x).1) c

/-- `last_id` -/
def lastId (c : Container F C) : Option Nat := lastSomeIdx c.children

/-- `remove(id)`: only the child slot is emptied -/
def remove (c : Container F C) (id : Nat) : Container F C × Option C :=
  match c.getChild id with
  | some lf => ({ c with children := c.children.set id none }, some lf.data)
  | none => (c, none)

/-- `pop` -/
def pop (c : Container F C) : Container F C × Option C :=
  match c.lastId with
  | some i => c.remove i
  | none => (c, none)

/-- `len`: present children -/
def len (c : Container F C) : Nat := (c.children.filter Option.isSome).length

/-- the test made when an arena entry is about to be pushed on the iterator stack:
    a `Node` whose filter says `NotContains` and a `Leaf` whose slot is empty are skipped -/
def accepts (ops : FilterOps F) (c : Container F C) (k : Key) (id : Nat) : Bool :=
  match c.getInner id with
  | none => false
  | some (.node n) => n.filter.map (fun f => ops.containsFast f k) != some .notContains
  | some (.leaf _ j) => (c.getChild j).isSome

/-- `PossibleRevIter`, collected: post-order walk below `id` (the entry itself was accepted by its parent, or
    is the root, whose own filter is not consulted); yields child ids -/
def walk (ops : FilterOps F) (c : Container F C) (rev : Bool) (k : Key) : Nat → Nat → List Nat
  | 0, _ => []
  | fuel + 1, id =>
    match c.getInner id with
    | none => []
    | some (.leaf _ j) => if (c.getChild j).isSome then [j] else []
    | some (.node n) =>
      ((if rev then n.children.reverse else n.children).filter (accepts ops c k)).flatMap
        (walk ops c rev k fuel)

/-- `iter_possible_childs(key)` / `iter_possible_childs_rev(key)` as the list of yielded child ids -/
def iterPossible (ops : FilterOps F) (c : Container F C) (rev : Bool) (k : Key) : List Nat :=
  walk ops c rev k (c.inner.length + 2) c.root

/-- `PossibleRevIter::next` as written (explicit stack of `(index, entry)` pairs, top first): the new stack and
    the yielded child id.  `fuel` bounds the `while let` loop. -/
def iterNext (ops : FilterOps F) (c : Container F C) (rev : Bool) (k : Key) :
    Nat → List (Nat × Nat) → Option (Nat × List (Nat × Nat))
  | 0, _ => none
  | fuel + 1, st =>
    match st with
    | [] => none                                   -- `self.stack.pop()` on an empty stack
    | (index, id) :: rest =>
      match c.getInner id with
      | some (.node node) =>
        let len := node.children.length
        if index ≥ len then iterNext ops c rev k fuel rest
        else
          let st' := (index + 1, id) :: rest
          let chId := node.children.getD (if rev then len - index - 1 else index) 0
          match c.getInner chId with
          | none => iterNext ops c rev k fuel st'
          | some (.node n) =>
            if n.filter.map (fun f => ops.containsFast f k) == some .notContains then iterNext ops c rev k fuel st'
            else iterNext ops c rev k fuel ((0, chId) :: st')
          | some (.leaf _ j) =>
            if (c.getChild j).isNone then iterNext ops c rev k fuel st'
            else iterNext ops c rev k fuel ((0, chId) :: st')
      | some (.leaf _ j) =>
        match c.getChild j with                    -- `get_child(leaf.leaf).map(..)`: `None` ends the iteration
        | some _ => some (j, rest)
        | none => none
      | none => none

/-- the iterator run to exhaustion (`collect`) -/
def iterStackCollect (ops : FilterOps F) (c : Container F C) (rev : Bool) (k : Key) :
    Nat → List (Nat × Nat) → List Nat
  | 0, _ => []
  | fuel + 1, st =>
    match iterNext ops c rev k (4 * (c.inner.length + 2)) st with
    | none => []
    | some (j, st') => j :: iterStackCollect ops c rev k fuel st'

/-- `iter_possible_childs(_rev)(key).collect()` through the stack machine; `iterPossible` is its recursive
    reading (compared on the scenarios of `FilterTests.lean`) -/
def iterPossibleStack (ops : FilterOps F) (c : Container F C) (rev : Bool) (k : Key) : List Nat :=
  iterStackCollect ops c rev k (c.children.length + 1) [(0, c.root)]

/-- all leaves below an arena entry, present or removed, ignoring filters -/
def leavesBelow (c : Container F C) : Nat → Nat → List Nat
  | 0, _ => []
  | fuel + 1, id =>
    match c.getInner id with
    | none => []
    | some (.leaf _ j) => [j]
    | some (.node n) => n.children.flatMap (leavesBelow c fuel)

/-- `BloomProvider::check_filter` of the container: `NotContains` iff every visited child says so
    (`FuturesUnordered` + the commutative `Add`) -/
def checkFilter (ops : FilterOps F) (cops : ChildOps F C) (c : Container F C) (k : Key) : FilterResult :=
  ((iterPossible ops c false k).filterMap (fun j => (c.getChild j).map (fun lf => cops.checkFilter lf.data k))).foldl
    (· + ·) .notContains

/-- `BloomProvider::check_filter_fast` of the container -/
def checkFilterFast (ops : FilterOps F) (c : Container F C) (k : Key) : FilterResult :=
  if (iterPossible ops c false k).isEmpty then .notContains else .needAdditionalCheck

/-- `get_filter` / `get_filter_fast` of the container: the root's filter -/
def getFilter (c : Container F C) : Option F := (c.getNode c.root).bind (·.filter)

/-- first loop of `offload_buffer`: children in order; `(children, freed, parents, returned early)` -/
def offloadChildren (cops : ChildOps F C) (needed level selfLevel : Nat) :
    List (Option (FLeaf C)) → Nat → List Nat → List (Option (FLeaf C)) × Nat × List Nat × Bool
  | [], freed, ps => ([], freed, ps, false)
  | none :: rest, freed, ps =>
    let (r, f, p, e) := offloadChildren cops needed level selfLevel rest freed ps
    (none :: r, f, p, e)
  | some lf :: rest, freed, ps =>
    if freed ≥ needed then (some lf :: rest, freed, ps, true)
    else
      let ps' := if level ≥ selfLevel then setInsert lf.parent ps else ps
      let (d, n) := cops.offload lf.data (needed - freed) level
      let (r, f, p, e) := offloadChildren cops needed level selfLevel rest (freed + n) ps'
      (some { lf with data := d } :: r, f, p, e)

/-- one `for parent in parents` round: `(container, freed, new_parents, returned early)` -/
def offloadRound (ops : FilterOps F) (needed : Nat) :
    List Nat → Container F C → Nat → List Nat → Container F C × Nat × List Nat × Bool
  | [], c, freed, np => (c, freed, np, false)
  | p :: ps, c, freed, np =>
    if freed ≥ needed then (c, freed, np, true)
    else
      match c.getNode p with
      | some n =>
        let (flt, got) :=
          match n.filter with
          | some f => let (f', m) := ops.offload f; (some f', m)
          | none => (none, 0)
        let c' := c.modifyNode p (fun n => { n with filter := flt })
        let np' := match n.parent with
          | some q => setInsert q np
          | none => np
        offloadRound ops needed ps c' (freed + got) np'
      | none => offloadRound ops needed ps c freed np

/-- the `while !parents.is_empty()` loop -/
def offloadNodes (ops : FilterOps F) (needed : Nat) : Nat → Container F C → Nat → List Nat → Container F C × Nat
  | 0, c, freed, _ => (c, freed)
  | _, c, freed, [] => (c, freed)
  | fuel + 1, c, freed, ps =>
    let (c', f', np, early) := offloadRound ops needed ps c freed []
    if early then (c', f') else offloadNodes ops needed fuel c' f' np

/-- `BloomProvider::offload_buffer(needed_memory, level)` of the container: `(container, freed)` -/
def offload (ops : FilterOps F) (cops : ChildOps F C) (c : Container F C) (needed level : Nat) :
    Container F C × Nat :=
  let (chs, freed, parents, early) := offloadChildren cops needed level c.level c.children 0 []
  let c1 := { c with children := chs }
  if early then (c1, freed)
  else if level < c.level then (c1, freed)
  else offloadNodes ops needed (c1.inner.length + 2) c1 freed parents

end Container

/-! ## the instance used by the storage: `HierarchicalFilters<K, CombinedFilter<K>, Blob<K>>` -/

/-- the operations of `CombinedFilter` for a given hash family -/
def combinedOps (h : Nat → Key → Nat) : FilterOps Combined :=
  { merge := Combined.merge, containsFast := Combined.containsFast h, offload := Combined.offload }

/-- the part of a blob the filters depend on: the keys of its index, its `CombinedFilter`, and, when the index
    is on disk, the meta buffer of the index file with the `bloom_offset` -/
structure FBlob where
  keys : List Key
  filter : Combined
  file : Option (List Nat × Nat) := none
deriving Repr, Inhabited

namespace FBlob

/-- `IndexStruct::push`: refused when the index is on disk, else key added to the filter and the map -/
def push (h : Nat → Key → Nat) (b : FBlob) (k : Key) : Option FBlob :=
  match b.file with
  | some _ => none
  | none => some { b with keys := b.keys ++ [k], filter := b.filter.add h k }

/-- `IndexStruct::dump_in_memory` (filter part); `none` = `serialize_filters` failed -/
def dump (keyLen : Nat) (b : FBlob) : Option FBlob :=
  match b.file with
  | some _ => some b
  | none =>
    if b.keys.isEmpty then some b
    else (serializeFilters keyLen b.filter).map (fun mo => { b with file := some mo })

/-- `IndexStruct::load_in_memory` (filter part): the filter is replaced by the one stored in the file -/
def load (bloomIsOn : Bool) (b : FBlob) : Option FBlob :=
  match b.file with
  | none => some b
  | some (metaBuf, _) =>
    (combinedOfFile bloomIsOn metaBuf).map (fun (c, _) => { b with filter := c, file := none })

/-- `IndexStruct::offload_filter`: only when on disk -/
def offload (b : FBlob) : FBlob × Nat :=
  match b.file with
  | some _ => let (f, n) := b.filter.offload; ({ b with filter := f }, n)
  | none => (b, 0)

/-- `Blob::check_filter`: an in-memory index answers by key presence, else the filters with the file behind -/
def checkFilter (h : Nat → Key → Nat) (b : FBlob) (k : Key) : FilterResult :=
  match b.file with
  | none => if b.keys.contains k then .needAdditionalCheck else .notContains
  | some (metaBuf, off) => b.filter.contains h (metaReadByte metaBuf off) k

/-- `Blob::check_filter_fast` -/
def checkFilterFast (h : Nat → Key → Nat) (b : FBlob) (k : Key) : FilterResult :=
  match b.file with
  | none => if b.keys.contains k then .needAdditionalCheck else .notContains
  | some _ => b.filter.containsFast h k

end FBlob

/-- the way `Storage::get_latest_entry` / `read_all_with_deletion_marker` treat the closed blob in slot `j` for
    key `k`: the blob is not consulted when `iter_possible_childs_rev(k)` does not yield it, and its own
    `get_latest_entry(key, meta, check_filters = true)` answers `NotFound` without looking at the index when
    `check_filter(k)` says `NotContains` -/
def storagePrunes (h : Nat → Key → Nat) (c : Container Combined FBlob) (j : Nat) (k : Key) : Bool :=
  !(Container.iterPossible (combinedOps h) c true k).contains j ||
    (match c.getChild j with
     | some lf => lf.data.checkFilter h k == .notContains
     | none => true)

/-- `impl BloomProvider for Blob` -/
def blobOps (h : Nat → Key → Nat) : ChildOps Combined FBlob :=
  { filterOf := fun b => some b.filter
    checkFilter := FBlob.checkFilter h
    offload := fun b _ _ => b.offload }

end Pearl
