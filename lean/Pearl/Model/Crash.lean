import Pearl.Model.Record
/-
L5 byte layer, part 5: what start-up does with a blob file that a crash left behind
(`Blob::from_file` without an index file, `Storage::read_blobs`, `Storage::should_save_corrupted_blob`).

Sources: src/blob/core.rs (`from_file`, `try_regenerate_index`, `RawRecords`), src/blob/header.rs,
src/storage/core.rs (`read_blobs`, `should_save_corrupted_blob`), src/error.rs (`ValidationErrorKind`).
Core-only imports.
-/
namespace Pearl

/-- what `Storage::read_blobs` does with one blob file (`ignore_corrupted = false`) -/
inductive InitOutcome where
  /-- the blob is opened; these headers were pushed into its in-memory index, in this order -/
  | ok (headers : List RecHeader)
  /-- the file is moved into the corrupted directory and start-up continues -/
  | quarantine
  /-- start-up fails with the error -/
  | fail
deriving DecidableEq, Repr, Inhabited

/-- what `should_save_corrupted_blob` looks at: `ErrorKind::Bincode`, `ErrorKind::Validation { kind }`
    (by the name of the `ValidationErrorKind`), anything else -/
inductive ErrClass where
  | bincode
  | validation (kind : String)
  | other
deriving DecidableEq, Repr, Inhabited

/-- the table of `should_save_corrupted_blob` (tied to the extracted constants in Pearl/Props/C06.lean) -/
def SAVE_CORRUPTED_BINCODE : Bool := true
def SAVE_CORRUPTED_VALIDATION_EXCEPT : String := "BlobVersion"
def SAVE_CORRUPTED_OTHER : Bool := false

/-- `Storage::should_save_corrupted_blob` -/
def shouldSaveCorruptedBlob : ErrClass → Bool
  | .bincode => SAVE_CORRUPTED_BINCODE
  | .validation kind => kind != SAVE_CORRUPTED_VALIDATION_EXCEPT
  | .other => SAVE_CORRUPTED_OTHER

/-- the error kind `Header::from_file` produces -/
def BlobHeaderErr.cls : BlobHeaderErr → ErrClass
  | .bincode => .bincode
  | .blobMagicByte => .validation "BlobMagicByte"
  | .blobVersion => .validation "BlobVersion"

/-- the error kind `RawRecords::start` / `load` produce -/
def ScanErr.cls : ScanErr → ErrClass
  | .load .bincode => .bincode
  | .load .recordMagicByte => .validation "RecordMagicByte"
  | .load .recordHeaderChecksum => .validation "RecordHeaderChecksum"
  | .load .recordDataChecksum => .validation "RecordDataChecksum"
  | .blobKeySize => .validation "BlobKeySize"
  | .fuel => .other

def classifyClass (c : ErrClass) : InitOutcome :=
  if shouldSaveCorruptedBlob c then .quarantine else .fail

/-- quarantine or fail, for an error of `Header::from_file` -/
def classifyHeaderErr (e : BlobHeaderErr) : InitOutcome := classifyClass e.cls
/-- quarantine or fail, for an error of the scan -/
def classifyScanErr (e : ScanErr) : InitOutcome := classifyClass e.cls

/-- `Blob::from_file` when the index file is absent, followed by the decision of `read_blobs`:
    the blob header is read and validated; the scan runs only if the file is longer than the blob
    header (`size > header_size`, otherwise "empty or corrupted blob" is logged and the blob is opened
    with an empty index) -/
def openBlob (klen : Nat) (validateData : Bool) (file : List UInt8) : InitOutcome :=
  match blobHeaderFromFile file with
  | .error e => classifyHeaderErr e
  | .ok _ =>
    if blobHeaderSize < file.length then
      match rawRecordsLoad klen validateData file with
      | .error e => classifyScanErr e
      | .ok hs => .ok hs
    else .ok []

end Pearl
