/-
L5 byte layer, part 2: CRC-32C (`crc::Crc::<u32>::new(&CRC_32_ISCSI)`: reflected polynomial
0x82F63B78, init 0xFFFFFFFF, xorout 0xFFFFFFFF, input and output reflected) as a bit-serial register.

`stepD` is the direct (non-augmented) LFSR step; a byte is processed least-significant bit first.
`crc32c` is the one definition that both the theorems and the driver use.
Core-only imports.
-/
namespace Pearl.Crc

abbrev P : BitVec 32 := 0x82F63B78#32
abbrev e0 : BitVec 32 := 1#32
abbrev e31 : BitVec 32 := 0x80000000#32

def bit (b : Bool) (v : BitVec 32) : BitVec 32 := if b then v else 0#32

def A (s : BitVec 32) : BitVec 32 := (s >>> 1) ^^^ bit (s.getLsbD 0) P
/-- direct form: input bit enters at the low end -/
def stepD (s : BitVec 32) (b : Bool) : BitVec 32 := A (s ^^^ bit b e0)
/-- augmented form (used only in proofs): input bit enters at the high end -/
def stepA (s : BitVec 32) (b : Bool) : BitVec 32 := A s ^^^ bit b e31
def runD (s : BitVec 32) (w : List Bool) : BitVec 32 := w.foldl stepD s
def runA (s : BitVec 32) (w : List Bool) : BitVec 32 := w.foldl stepA s

def Ai : Nat → BitVec 32 → BitVec 32
  | 0, s => s
  | n+1, s => Ai n (A s)

/-- `LowAt s j`: bit `j` is the lowest set bit of `s`. -/
def LowAt (s : BitVec 32) (j : Nat) : Prop := s.getLsbD j = true ∧ ∀ i, i < j → s.getLsbD i = false

/-- the 8 bits of a byte in processing order (least significant first) -/
def byteBits (b : UInt8) : List Bool :=
  [b.toBitVec.getLsbD 0, b.toBitVec.getLsbD 1, b.toBitVec.getLsbD 2, b.toBitVec.getLsbD 3,
   b.toBitVec.getLsbD 4, b.toBitVec.getLsbD 5, b.toBitVec.getLsbD 6, b.toBitVec.getLsbD 7]

/-- the bit string a byte string feeds to the register -/
def bitsOf (l : List UInt8) : List Bool := l.flatMap byteBits

/-- 8 register steps for one byte -/
def stepByte (s : BitVec 32) (b : UInt8) : BitVec 32 := (byteBits b).foldl stepD s

abbrev init : BitVec 32 := 0xFFFFFFFF#32
abbrev xorout : BitVec 32 := 0xFFFFFFFF#32

/-- the register after a byte string -/
def crcReg (s : BitVec 32) (l : List UInt8) : BitVec 32 := l.foldl stepByte s

end Pearl.Crc

namespace Pearl

/-- `CRC32C.checksum(bytes)` -/
def crc32c (l : List UInt8) : UInt32 := UInt32.ofBitVec (Crc.crcReg Crc.init l ^^^ Crc.xorout)

end Pearl
