import Pearl.Model.Crc
/-
"CRC forcing": the 4 bytes which, appended to a byte string, make its CRC-32C equal to 0
(`crc_force` of the Rust harness, `util.rs`).  Used by the data generator for seeds 240..249.

The byte table `tab i` is 8 register steps from `i`; one byte step of the register is
`s' = (s >>> 8) ^^^ tab (low byte of s ^^^ b)` (proved in `Pearl/Proofs/CrcForce.lean`).  The high byte of
`s'` is the high byte of the table entry alone and the 256 high bytes are pairwise different, so walking
backwards from the wanted final register identifies the four table entries (last step first); walking
forwards from the actual register then gives the four bytes.
Core-only imports: this file links into the `pearl-model` executable.
-/
namespace Pearl.Crc

/-- entry `i` of the byte table of the reflected CRC: 8 register steps from `i` -/
def tab (i : UInt8) : BitVec 32 := Ai 8 (i.toBitVec.setWidth 32)

def hiByte (v : BitVec 32) : UInt8 := UInt8.ofBitVec ((v >>> 24).setWidth 8)
def loByte (v : BitVec 32) : UInt8 := UInt8.ofBitVec (v.setWidth 8)

/-- search downwards from `n - 1` for the table index whose entry has high byte `h` -/
def revHiFrom (h : UInt8) : Nat → UInt8
  | 0 => 0
  | n+1 => if hiByte (tab (UInt8.ofNat n)) = h then UInt8.ofNat n else revHiFrom h n

/-- the table index whose entry has high byte `h` -/
def revHi (h : UInt8) : UInt8 := revHiFrom h 256

/-- `k` backward steps from the wanted register `t`: the table indices used by the last `k` byte steps, in
    processing order.  (After a backward step only the bits above the low byte(s) of `t` are known; only the high
    byte is used.) -/
def backIdx : Nat → BitVec 32 → List UInt8 → List UInt8
  | 0, _, acc => acc
  | k+1, t, acc =>
    let i := revHi (hiByte t)
    backIdx k ((t ^^^ tab i) <<< 8) (i :: acc)

/-- forward walk from register `s` using the given table indices: the bytes that select them -/
def forceFrom (s : BitVec 32) : List UInt8 → List UInt8
  | [] => []
  | i :: r => (i ^^^ loByte s) :: forceFrom ((s >>> 8) ^^^ tab i) r

/-- the register value whose final xor gives checksum 0 -/
abbrev forceTarget : BitVec 32 := 0#32 ^^^ xorout

/-- the 4 bytes that drive the register from `s` to `t` -/
def forceRegTo (t s : BitVec 32) : List UInt8 := forceFrom s (backIdx 4 t [])

/-- the 4 bytes that drive the register from `s` to `forceTarget` -/
def forceReg (s : BitVec 32) : List UInt8 := forceRegTo forceTarget s

end Pearl.Crc

namespace Pearl

/-- the 4 bytes `t` with `crc32c (p ++ t) = 0` -/
def crcForce (p : List UInt8) : List UInt8 := Crc.forceReg (Crc.crcReg Crc.init p)

/-- the register after the bytes `ba[i ..]` (`ByteArray` version of `Crc.crcReg`) -/
def crcRegBA (ba : ByteArray) (i : Nat) (s : BitVec 32) : BitVec 32 :=
  if h : i < ba.size then crcRegBA ba (i + 1) (Crc.stepByte s ba[i]) else s
termination_by ba.size - i

/-- `ByteArray` version of `crcForce` -/
def crcForceBA (p : ByteArray) : List UInt8 := Crc.forceReg (crcRegBA p 0 Crc.init)

end Pearl
