import Pearl.Model.Script
import Pearl.Model.Worker
import Pearl.Model.Fs
import Pearl.Model.Record
import Pearl.Model.BPTreeBytes
import Pearl.Model.BloomProto
import Pearl.Model.FilterDriver
import Pearl.Model.AcctScript
/-
Driver state around the L2 store: configuration, a lower bound of wall-clock time (sum of `wait`s),
blob birth times (for the rotation debounce), open/closed.  Nondeterministic background events
(a rotation that may or may not have been debounced) are taken from the implementation's transcript as
annotations (`@switched`) and checked for *enabledness* here.
-/
namespace Pearl.Driver
open Pearl Pearl.Script

structure DState where
  store : Store := {}
  maxData : Nat := 1000000
  klen : Nat := 4
  now : Nat := 0
  born : List (Nat × Nat) := []
  isOpen : Bool := false
  /-- background-worker flags (`Pearl.WState` minus the store) -/
  deferred : Bool := false
  dumpRunning : Bool := false
  fsyncRunning : Bool := false
  bloom : BloomProto.BState := {}
  /-- L6: file counters / index files next to the store, and the events since the last `trace` -/
  fs : Fs.FsState := {}
  pendingEv : List Event := []
  /-- L3 at the storage level: per-blob filters and the container of the closed blobs -/
  fstate : FilterDriver.FState := {}
  /-- L7 (C15, file part): the directory-accounting model in lock-step with the script (`Pearl/Model/AcctScript.lean`) -/
  acct : AcctScript.AD := {}
deriving Inhabited

/-- run one message through the proved worker model (`processMsgFixed` = the loop as it is in /repo) -/
def worker (d : DState) (t : OpType) (pred : Option BlobPred) : DState :=
  let lim : Limits := { maxCount := d.maxData, maxSize := 1000000000000000 }
  let w : WState := { store := d.store, alive := true, deferred := d.deferred,
                      dumpRunning := d.dumpRunning, fsyncRunning := d.fsyncRunning }
  let w' := processMsgFixed lim w (.op t pred)
  { d with store := w'.store, deferred := w'.deferred, dumpRunning := w'.dumpRunning,
           fsyncRunning := w'.fsyncRunning }

def debounceSure : Nat := 250

def bornOf (d : DState) (id : Nat) : Nat :=
  match d.born.find? (·.1 == id) with
  | some p => p.2
  | none => d.now

/-- record the birth time of blobs that did not exist before -/
def noteBorn (d : DState) : DState :=
  let fresh := d.store.blobs.filter (fun b => !(d.born.any (·.1 == b.id)))
  { d with born := d.born ++ fresh.map (fun b => (b.id, d.now)) }

def cfgNat (toks : List String) (key : String) (dflt : Nat) : Nat :=
  match toks.findSome? (fun t => match kv t with | some (k, v) => if k == key then v.toNat? else none | none => none) with
  | some n => n
  | none => dflt

/-- stable insertion by timestamp (what `push` does, see `push_eq` in Proofs/IndexLemmas) on records paired
    with their full on-disk headers -/
def insertAsc (x : Rec × BPTree.RawHeader) (v : List (Rec × BPTree.RawHeader)) : List (Rec × BPTree.RawHeader) :=
  v.takeWhile (fun y => y.1.ts ≤ x.1.ts) ++ x :: v.dropWhile (fun y => y.1.ts ≤ x.1.ts)

def rawOf (h : RecHeader) (key : Nat) : BPTree.RawHeader :=
  { key := key, metaSize := h.metaSize, dataSize := h.dataSize, flags := h.flags.toNat, blobOffset := h.blobOffset,
    timestamp := h.timestamp, dataChecksum := h.dataChecksum.toNat, headerChecksum := h.headerChecksum.toNat }

def insertKeySorted (k : Nat) : List Nat → List Nat
  | [] => [k]
  | x :: xs => if k < x then k :: x :: xs else if k == x then x :: xs else x :: insertKeySorted k xs

/-- L4: the byte image of the index file of a blob (filter section and hash zeroed), as dumped from the
    in-memory index built by pushing the blob's headers in file order -/
def indexImage (klen : Nat) (b : Blob) (metaLen : Nat) : List UInt8 :=
  let withData := b.recs.map fun r => (r, genData r.data.len r.data.seed)
  let hdrs := blobHeaders klen withData
  let blobSize := (blobBytes klen withData).length
  let pairs := (b.recs.zip hdrs).map fun (r, h) => (r, rawOf h r.key)
  let keys := pairs.foldl (fun ks p => insertKeySorted p.1.key ks) []
  let m : BPTree.InMem BPTree.RawHeader := keys.map fun k =>
    (k, ((pairs.filter (fun p => p.1.key == k)).foldl (fun v x => insertAsc x v) []).map (·.2))
  let f := BPTree.build (BPTree.Params.real klen) metaLen m
  let bytes := BPTree.indexFileBytes f (List.replicate metaLen 0) (List.replicate 32 0) blobSize
  bytes.map UInt8.ofNat

def annotNats (toks : List String) (key : String) : List (Nat × Nat) :=
  match toks.find? (fun t => t.startsWith ("@" ++ key ++ "=")) with
  | none => []
  | some t =>
    ((t.drop (key.length + 2)).toString.splitOn ",").filterMap fun p =>
      match p.splitOn ":" with
      | [a, b] => match a.toNat?, b.toNat? with
        | some a, some b => some (a, b)
        | _, _ => none
      | _ => none

/-- rotation after a write: `TryUpdateActiveBlob` is sent when the active blob is at/over its record
    limit and older than the debounce interval; the worker then replaces it -/
def afterWrite (d : DState) (annotated : Bool) : DState × String :=
  match d.store.active with
  | none => (d, "ok")
  | some a =>
    let over := decide (a.count ≥ d.maxData)
    let age := d.now - bornOf d a.id
    if over && (decide (age ≥ debounceSure) || annotated) then
      (noteBorn (worker d .tryUpdateActiveBlob none), "ok switched")
    else (d, "ok")

def stepCore (d : DState) (line : String) : DState × String :=
  let toks0 := line.trimAscii.toString.splitOn " "
  let annotated := toks0.contains "@switched"
  let toks := toks0.filter (fun t => !t.startsWith "@" && t ≠ "")
  let line' := " ".intercalate toks
  match toks with
  | "bloom" :: _ | "bloom2" :: _ =>
    let (b, o) := BloomProto.step d.bloom toks0
    ({ d with bloom := b }, o)
  | "cfg" :: rest =>
    let (s, o) := Script.step d.store line'
    (noteBorn { store := s, maxData := cfgNat rest "maxdata" 1000000, klen := cfgNat rest "key" 4,
                now := 0, born := [], isOpen := true }, o)
  | ["wait", n] => ({ d with now := d.now + n.toNat?.getD 0 }, "ok")
  | ["open"] | ["open", "lazy"] =>
    if d.isOpen then (d, "err AlreadyOpen")
    else
      let s := d.store.apply (.restart (toks.length == 2))
      -- birth times after a reopen: only a lower bound is known
      ({ d with store := s, isOpen := true, born := s.blobs.map (fun b => (b.id, d.now)) }, "ok")
  | _ =>
    if !d.isOpen then (d, "err NoStorage")
    else
      match toks with
      | ["close"] => ({ d with isOpen := false }, "ok")
      | "restart" :: rest =>
        let s := d.store.apply (.restart (rest.contains "lazy"))
        ({ d with store := s, born := s.blobs.map (fun b => (b.id, d.now)) }, "ok")
      | "replayfrom" :: rest =>
        -- the directory is replaced by the one the pinned release wrote for the same history (C17)
        let s := d.store.apply (.restart (rest.contains "lazy"))
        ({ d with store := s, born := s.blobs.map (fun b => (b.id, d.now)) }, "ok")
      | "crashsweep" :: _ => (d, "sweep ok")   -- crash states are explored on copies; the live storage goes on
      | "metasweep" :: _ => (d, "sweep ok")    -- metadata round-trips are explored in a scratch directory
      | "offfault" :: _ => (d, "sweep ok")     -- an off-loaded filter with an unreadable index file, in a scratch directory
      | "toolsweep" :: _ =>
        let s := d.store.apply (.restart false)
        ({ d with store := s, born := s.blobs.map (fun b => (b.id, d.now)) }, "sweep ok")
      | "flipsweep" :: _ =>
        -- altered data bytes are never served (C05); the command ends with a reopen of the intact directory
        let s := d.store.apply (.restart false)
        ({ d with store := s, born := s.blobs.map (fun b => (b.id, d.now)) }, "sweep ok")
      | "dmgsweep" :: rest =>
        -- index files are a disposable cache: every damaged copy answers like the original (C03);
        -- the command ends with a reopen of the undamaged directory
        let s := d.store.apply (.restart (rest.contains "lazy"))
        ({ d with store := s, born := s.blobs.map (fun b => (b.id, d.now)) }, "sweep ok")
      | "w" :: _ =>
        let (s, o) := Script.step d.store line'
        if o == "ok" then afterWrite (noteBorn { d with store := s }) annotated
        else ({ d with store := s }, o)
      | ["close_active_bg"] => (worker (worker d .closeActiveBlob none) .tryDumpBlobIndexes none, "ok")
      | ["create_active_bg"] => (noteBorn (worker d .createActiveBlob none), "ok")
      | ["restore_active_bg"] => (worker d .restoreActiveBlob none, "ok")
      | ["force", p] =>
        let pred : Option BlobPred := match p with
          | "always" => some (fun _ => true)
          | "never" => some (fun _ => false)
          | "nonempty" => some (fun st => match st with | some x => decide (x.recordsCount > 0) | none => false)
          | "ge3" => some (fun st => match st with | some x => decide (x.recordsCount ≥ 3) | none => false)
          | _ => some (fun _ => false)
        (noteBorn (worker (worker d .forceUpdateActiveBlob pred) .tryDumpBlobIndexes none), "ok")
      | ["free"] => (worker d .tryDumpBlobIndexes none, "ok")
      | ["offload", _, _] => (d, "ok")
      | ["fsync"] => (d, "ok")
      | ["alive"] => (d, "alive")
      | ["blobsum"] =>
        -- L5: the bytes of every blob file, as a function of the records appended to it
        (d, "#blobsum" ++ String.join (d.store.blobs.map fun b =>
          let bytes := blobBytes d.klen (b.recs.map fun r => (r, genData r.data.len r.data.seed))
          s!" {b.id}:{bytes.length}:{(crc32c bytes).toNat}"))
      | ["indexsum"] =>
        let metas := annotNats toks0 "meta"
        (d, "#indexsum" ++ String.join ((d.store.blobs.filter (·.onDisk)).map fun b =>
          let ml := match metas.find? (·.1 == b.id) with | some p => p.2 | none => 0
          let img := indexImage d.klen b ml
          s!" {b.id}:{img.length}:{ml}:{(crc32c img).toNat}"))
      | ["snap"] => (d, "snap ok")
      | ["settle"] =>
        -- every requested dump has completed (`dumpDone`)
        ({ d with store := d.store.apply .settle, dumpRunning := false, deferred := false }, "ok")
      | _ =>
        let (s, o) := Script.step d.store line'
        (noteBorn { d with store := s }, o)

/-! ### L6: the `trace` / `dirty` outputs -/

def forcePred (p : String) : BlobPred :=
  match p with
  | "always" => fun _ => true
  | "never" => fun _ => false
  | "nonempty" => fun st => match st with | some x => decide (x.recordsCount > 0) | none => false
  | "ge3" => fun st => match st with | some x => decide (x.recordsCount ≥ 3) | none => false
  | _ => fun _ => false

/-- the file-level operations a script line stands for, given what the L2/L3 step answered -/
def fsOps (toks : List String) (out : String) : List Fs.FsOp :=
  match toks with
  | ["w", k, ts, m, len, seed] =>
    match hexNat k, ts.toNat?, parseMeta m, len.toNat?, seed.toNat? with
    | some k, some ts, some m, some len, some seed =>
      if out.startsWith "ok" then [.write k ts m ⟨len, if len == 0 then 0 else seed⟩ (out == "ok switched")] else []
    | _, _, _, _, _ => []
  | ["d", k, ts, m, oip] =>
    match hexNat k, ts.toNat?, parseMeta m, oip.toNat? with
    | some k, some ts, some m, some oip => if out.startsWith "n=" then [.delete k ts m (oip != 0)] else []
    | _, _, _, _ => []
  | ["close_active"] | ["close_active_bg"] => [.closeActive]
  | ["create_active"] | ["create_active_bg"] => [.createActive]
  | ["restore_active"] | ["restore_active_bg"] => [.restoreActive]
  | ["force", p] => [.force (forcePred p)]
  | ["free"] => [.free]
  | ["settle"] => [.settle]
  | ["fsync"] => [.fsync]
  | "restart" :: rest => [.restart (rest.contains "lazy")]
  | "flipsweep" :: _ => [.restart false]
  | "toolsweep" :: _ => [.restart false]
  | "dmgsweep" :: rest => [.restart (rest.contains "lazy")]
  | "replayfrom" :: rest => [.restart (rest.contains "lazy")]
  | ["close"] => [.close]
  | ["open"] => [.open false]
  | ["open", "lazy"] => [.open true]
  | _ => []

def stepL6 (d : DState) (line : String) : DState × String :=
  let toks0 := (line.trimAscii.toString.splitOn " ").filter (fun t => t ≠ "")
  -- `cancel <k> <op...>`: the model runs the operation to completion; when the implementation really dropped the
  -- future the judge stops comparing with the model (the Spec oracle accepts "entirely or not at all")
  let line := if toks0.head? == some "cancel" then " ".intercalate (toks0.drop 2) else line
  let toks := (line.trimAscii.toString.splitOn " ").filter (fun t => !t.startsWith "@" && t ≠ "")
  match toks with
  | "trace" :: _ =>
    if !d.isOpen then (d, "err NoStorage") else ({ d with pendingEv := [] }, Fs.showTrace d.pendingEv)
  | ["dirty"] =>
    if !d.isOpen then (d, "err NoStorage") else (d, Fs.showDirty d.fs)
  | ["quiesce"] =>
    if !d.isOpen then (d, "err NoStorage") else (d, "ok")
  | "cfg" :: rest =>
    let (d', o) := stepCore d line
    let r := Fs.init (rest.any (· == "dup=1")) (cfgNat rest "dirty" 33554432) (cfgNat rest "key" 4)
      (cfgNat rest "fsyncfix" 1 != 0) (cfgNat rest "restorefix" 1 != 0)
    ({ d' with fs := r.1, pendingEv := r.2 }, o)
  | _ =>
    let (d', o) := stepCore d line
    let r := Fs.runFrom (d.fs, []) (fsOps toks o)
    ({ d' with fs := r.1, pendingEv := d.pendingEv ++ r.2 }, o)

/-- `stepL6` plus the filter state: `cf` / `cfs` / `gfc` are answered by `FilterDriver.query`, every other line
    updates the filter state from the L2 stores before and after it -/
def stepL3 (d : DState) (line : String) : DState × String :=
  let toks0 := (line.trimAscii.toString.splitOn " ").filter (fun t => t ≠ "")
  let toks0 := if toks0.head? == some "cancel" then toks0.drop 2 else toks0
  match toks0.filter (fun t => !t.startsWith "@") with
  | [q, k] =>
    if q == "cf" || q == "cfs" || q == "gfc" then
      if !d.isOpen then (d, "err NoStorage")
      else
        match FilterDriver.parseKey d.fstate k with
        | some key => (d, FilterDriver.query d.fstate d.store q key)
        | none => (d, "bad-op")
    else
      let (d', o) := stepL6 d line
      if o == "err NoStorage" || o == "err AlreadyOpen" then (d', o)
      else ({ d' with fstate := FilterDriver.apply d.fstate d.store d'.store toks0 }, o)
  | _ =>
    let (d', o) := stepL6 d line
    if o == "err NoStorage" || o == "err AlreadyOpen" then (d', o)
    else ({ d' with fstate := FilterDriver.apply d.fstate d.store d'.store toks0 }, o)

/-- the tokens of a line as the accounting model sees them: annotations kept, a `cancel <k>` prefix stripped
    (the operation is run to completion; a really cancelled one is announced by the comparison program with `@lost`) -/
def acctToks (line : String) : List String :=
  let toks0 := (line.trimAscii.toString.splitOn " ").filter (fun t => t ≠ "")
  if toks0.head? == some "cancel" then toks0.drop 2 else toks0

/-- `stepL3` plus the directory-accounting state (L7): `fcounts` is answered from `d.acct` (also after `nomodel`: the
    accounting state follows quarantines, which the L2 store does not); every other line is answered as before and
    steps `d.acct` by the `Acct.AOp`s it stands for (`AcctScript.track`) -/
def step (d : DState) (line : String) : DState × String :=
  let toks0 := acctToks line
  match toks0.filter (fun t => !t.startsWith "@") with
  | ["fcounts"] => (d, AcctScript.showFcounts d.acct)
  | _ =>
    let r := stepL3 d line
    ({ r.1 with acct := AcctScript.track d.acct toks0 r.2 }, r.2)

end Pearl.Driver

