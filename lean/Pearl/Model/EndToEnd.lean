import Pearl.Model.Ops
import Pearl.Model.Container
import Pearl.Model.BPTree
import Pearl.Model.Record
/-
End-to-end composition of the layers: a *concrete* storage whose blobs carry

  (1) the bytes of the blob file            (L5: `serBlobHeader`, `appendRecord`, `entryLoad`, `rawRecordsLoad`),
  (2) the index, in memory (`InMem RecHeader` = `BTreeMap<K, Vec<RecordHeader>>`) or as the on-disk
      B+tree image the serializer builds from it (L4: `BPTree.build`, `IndexFile.getLatest`, `IndexFile.load`),
  (3) the `CombinedFilter` of the index (L3: `Combined.add`, `serializeFilters`, `combinedOfFile`),

with the closed blobs held in the arena container `HierarchicalFilters` (L3: `Container.push / pop /
iterPossibleStack`).  Operations and the read path are written with the layer functions only, following
`src/storage/core.rs`, `src/blob/core.rs`, `src/blob/entry.rs`, `src/blob/index/core.rs`.

The only component that is not physical is `CBlob.ghost`: the list of L2 records appended to the blob
(a history variable).  No concrete operation and no part of the read path reads it (proved in
`Pearl/Proofs/EndToEndGhost.lean`: `read_ghost_irrelevant`, `step_eraseGhost`); it is only appended to
(by `writeRec`) and carried along, and it is what the abstraction function `CState.abs` projects.

Left out (as allowed): metadata (`read_with`, `write_with`: every record has the empty meta), bloom off-loading.
Errors (`Err(_)` of the Rust code) are outcomes of the model functions (`Except CErr`, or "state unchanged" for
an operation that fails); `Pearl/Props/EndToEnd.lean` proves they do not occur on reachable states.
-/
namespace Pearl.E2E
open Pearl Pearl.BPTree

/-- storage configuration -/
structure Cfg where
  /-- `K::LEN` -/
  klen : Nat := 1
  /-- `bloom_filter_group_size` -/
  group : Nat := 2
  /-- `IndexConfig::bloom_config` with the `bits_count` `Bloom::new` derives from it -/
  bloom : Option (BloomConfig × Nat) := none
  /-- the hash family of the bloom filter (hasher index → key → 64-bit hash) -/
  h : Nat → Key → Nat
  /-- `allow_duplicates` -/
  allowDup : Bool := false
  /-- `validate_data_during_index_regen` -/
  validateData : Bool := true

/-- the bytes of a value (`gen_data(len, seed)` of the harness) -/
def dataOf (d : Data) : List UInt8 := genData d.len d.seed

/-- the key of a record header as a `Key` (big-endian value of `header.key()`; `header.key().into()`) -/
def hdrKey (h : RecHeader) : Nat := fromLe h.key.reverse

instance : Keyed RecHeader := ⟨hdrKey⟩

/-! ## the in-memory index (`IndexStruct::push`, `State::InMemory` arm) -/

/-- `while pos < v.len() && v[pos].timestamp() <= h.timestamp() { pos += 1 }` on the suffix from `pos` -/
def skipAux {α : Type} (ts : α → Nat) (t : Nat) : List α → Nat → Nat
  | [], pos => pos
  | r :: rs, pos => if ts r ≤ t then skipAux ts t rs (pos + 1) else pos

/-- insertion into the per-key vector: binary search for vectors longer than 4 (its result stands for
    "some position with only timestamps `≤` before it", here the lower bound), then the linear skip -/
def vecPush {α : Type} (ts : α → Nat) (v : List α) (h : α) : List α :=
  let start := if v.length > 4 then (v.takeWhile (fun r => decide (ts r < ts h))).length else 0
  v.insertIdx (skipAux ts (ts h) (v.drop start) start) h

/-- `headers.get_mut(key)` → ordered insert, else `headers.insert(key, vec![h])` on the key-ascending list
    that stands for the `BTreeMap` -/
def memPush (k : Nat) (h : RecHeader) : InMem RecHeader → InMem RecHeader
  | [] => [(k, [h])]
  | (k', v) :: rest =>
    if k < k' then (k, [h]) :: (k', v) :: rest
    else if k = k' then (k', vecPush RecHeader.timestamp v h) :: rest
    else (k', v) :: memPush k h rest

/-- `State<FileIndex, K>`: `InMemory(headers)` or `OnDisk(file index)`; the on-disk state carries the meta
    buffer of the index file (the serialized filters) and `bloom_offset` -/
inductive CIndex where
  | mem (m : InMem RecHeader)
  | disk (f : IndexFile RecHeader) (metaBuf : List Nat) (bloomOffset : Nat)

namespace CIndex

def onDisk : CIndex → Bool
  | mem _ => false
  | disk .. => true

/-- `get_latest` before classification: `headers.get(key).and_then(|h| h.last())` /
    `BPTreeFileIndex::get_latest`; the outer `none` is an error of the file look-up -/
def getLatest : CIndex → Nat → Option (Option RecHeader)
  | mem m, k => some (memLatest m k)
  | disk f _ _, k => f.getLatest k

/-- `contains_key_fast` -/
def containsKeyFast : CIndex → Nat → Option Bool
  | mem m, k => some (m.lookup k).isSome
  | disk .., _ => none

end CIndex

/-! ## blobs -/

/-- `Blob<K>`: id, file, index with its filter.  `ghost` is the history variable (see the header). -/
structure CBlob where
  id : Nat
  file : List UInt8
  index : CIndex
  filter : Combined
  ghost : List Rec

/-- `Entry`: a header and the file it is to be loaded from -/
structure CEntry where
  hdr : RecHeader
  file : List UInt8
deriving DecidableEq, Repr

inductive CErr where
  /-- an error of the on-disk index look-up -/
  | index
  /-- an error of `Entry::load` -/
  | load (e : LoadErr)
deriving DecidableEq, Repr

/-- `IndexStruct::new`: bloom from the config (if any), empty range filter -/
def newFilter (cfg : Cfg) : Combined :=
  { bloom := cfg.bloom.map (fun p => Bloom.new p.1 p.2), range := Range.new }

/-- `bloom_is_on` -/
def Cfg.bloomIsOn (cfg : Cfg) : Bool := cfg.bloom.isSome

namespace CBlob

/-- `Blob::open_new`: the file holds the blob header; empty in-memory index -/
def openNew (cfg : Cfg) (id : Nat) : CBlob :=
  { id := id, file := serBlobHeader, index := .mem [], filter := newFilter cfg, ghost := [] }

/-- `IndexStruct::push(key, h)`: refused when the index is on disk, else the key is added to the filter and
    the header filed under `key` -/
def indexPush (cfg : Cfg) (b : CBlob) (k : Key) (h : RecHeader) : Option CBlob :=
  match b.index with
  | .mem m => some { b with index := .mem (memPush k h m), filter := b.filter.add cfg.h k }
  | .disk .. => none

/-- `Blob::write` / `write_mut` for the record `Storage` builds for `r`: partial serialisation, append at the
    end of the file, `set_offset_checksum`, `index.push`.  When the push is refused ("Index is closed") the
    bytes stay appended. -/
def writeRec (cfg : Cfg) (b : CBlob) (r : Rec) : CBlob :=
  let R := recordOf cfg.klen r (dataOf r.data)
  let file' := appendRecord b.file R
  let hdr := writtenHeader R b.file.length
  match ({ b with file := file' } : CBlob).indexPush cfg r.key hdr with
  | some b' => { b' with ghost := b.ghost ++ [r] }
  | none => { b with file := file' }

/-- `Blob::load_index` → `IndexStruct::load`: `get_records_headers` and the filters of the meta buffer
    (`bloom_is_on` decides whether the bloom is kept).  A failed load leaves the blob as it is (the code
    regenerates the index from the blob file in that case). -/
def loadIndex (cfg : Cfg) (b : CBlob) : CBlob :=
  match b.index with
  | .mem _ => b
  | .disk f metaBuf _ =>
    match f.load, combinedOfFile cfg.bloomIsOn metaBuf with
    | some m, some (flt, _) => { b with index := .mem m, filter := flt }
    | _, _ => b

/-- `Blob::dump` → `IndexStruct::dump_in_memory`: nothing for an on-disk or empty index; else
    `serialize_filters` and `FileIndex::from_records` (the B+tree serializer with the real parameters) -/
def dump (cfg : Cfg) (b : CBlob) : CBlob :=
  match b.index with
  | .disk .. => b
  | .mem m =>
    if m.isEmpty then b
    else
      match serializeFilters cfg.klen b.filter with
      | none => b
      | some (metaBuf, off) =>
        { b with index := .disk (build (Params.real cfg.klen) metaBuf.length m) metaBuf off }

/-- `Blob::check_filter`: `contains_key_fast` for an in-memory index, else the filters with the index file
    behind them -/
def checkFilter (cfg : Cfg) (b : CBlob) (k : Key) : FilterResult :=
  match b.index with
  | .mem m => if (m.lookup k).isSome then .needAdditionalCheck else .notContains
  | .disk _ metaBuf off => b.filter.contains cfg.h (metaReadByte metaBuf off) k

/-- `IndexStruct::get_latest`: classification of the header found, as an `Entry` of this blob's file -/
def indexLatest (b : CBlob) (k : Key) : Except CErr (ReadResult CEntry) :=
  match b.index.getLatest k with
  | none => .error .index
  | some none => .ok .notFound
  | some (some h) => if h.isDeleted then .ok (.deleted h.timestamp) else .ok (.found ⟨h, b.file⟩)

/-- `Blob::get_latest_entry(key, None, check_filters = true)` -/
def getLatestEntry (cfg : Cfg) (b : CBlob) (k : Key) : Except CErr (ReadResult CEntry) :=
  if b.checkFilter cfg k == .notContains then .ok .notFound else b.indexLatest k

/-- `Blob::delete(key, ts, None, only_if_presented)`: `(blob afterwards, deleted)`; an error of the index
    look-up leaves the blob unchanged -/
def delete (cfg : Cfg) (b : CBlob) (k : Key) (ts : Nat) (oip : Bool) : CBlob × Bool :=
  let present : Bool :=
    match b.indexLatest k with
    | .ok r => r.isFound
    | .error _ => false
  if !oip || present then
    ((b.loadIndex cfg).writeRec cfg { key := k, ts := ts, del := true, mt := none, data := ⟨0, 0⟩ }, true)
  else (b, false)

/-- `IndexStruct::offload_filter` (never called by the operations below; needed by `ChildOps`) -/
def offloadFilter (b : CBlob) : CBlob × Nat :=
  match b.index with
  | .disk .. => let (f, n) := b.filter.offload; ({ b with filter := f }, n)
  | .mem _ => (b, 0)

end CBlob

/-- `impl BloomProvider for Blob` -/
def childOps (cfg : Cfg) : ChildOps Combined CBlob :=
  { filterOf := fun b => some b.filter
    checkFilter := CBlob.checkFilter cfg
    offload := fun b _ _ => b.offloadFilter }

abbrev fops (cfg : Cfg) : FilterOps Combined := combinedOps cfg.h

/-! ## the storage -/

/-- `Safe { active_blob, blobs }` and `next_blob_id` -/
structure CState where
  active : Option CBlob
  cont : Container Combined CBlob
  nextId : Nat

/-- `iter_mut` over the children of the container: the arena is not touched -/
def mapChildren (c : Container Combined CBlob) (f : CBlob → CBlob) : Container Combined CBlob :=
  { c with children := c.children.map (fun o => o.map (fun lf => { lf with data := f lf.data })) }

/-- `get_child_mut(i)` -/
def modifyChild (c : Container Combined CBlob) (i : Nat) (f : CBlob → CBlob) : Container Combined CBlob :=
  { c with children := c.children.modify i (fun o => o.map (fun lf => { lf with data := f lf.data })) }

/-- the children that are present, in slot order -/
def closedBlobs (c : Container Combined CBlob) : List CBlob := c.children.filterMap (fun o => o.map (·.data))

/-- `ReadResult::<Entry>::timestamp` -/
def entryTs? : ReadResult CEntry → Option Nat
  | .found e => some e.hdr.timestamp
  | .deleted t => some t
  | .notFound => none

/-- `ReadResult::latest` -/
def entryLatest (self other : ReadResult CEntry) : ReadResult CEntry :=
  if optGt (entryTs? other) (entryTs? self) then other else self

/-- the `latest_entry = latest_entry.latest(entry?)` loop over the futures, in order; the first error ends it -/
def foldEntries (f : CBlob → Except CErr (ReadResult CEntry)) :
    List CBlob → ReadResult CEntry → Except CErr (ReadResult CEntry)
  | [], acc => .ok acc
  | b :: bs, acc =>
    match f b with
    | .error e => .error e
    | .ok r => foldEntries f bs (entryLatest acc r)

def insertById (b : CBlob) : List CBlob → List CBlob
  | [] => [b]
  | c :: cs => if b.id < c.id then b :: c :: cs else c :: insertById b cs

/-- the blob files of the directory in the order `init` opens them -/
def sortById (l : List CBlob) : List CBlob := l.foldr insertById []

/-- `Blob::from_file` when there is no index file: header check, then — when the file holds more than the
    header — `try_regenerate_index`: `RawRecords::start / load` and `index.push(header.key().into(), header)`
    for every header.  `none` = an error (`init` fails). -/
def regen (cfg : Cfg) (old : CBlob) : Option CBlob :=
  match blobHeaderFromFile old.file with
  | .error _ => none
  | .ok _ =>
    let b0 : CBlob := { old with index := .mem [], filter := newFilter cfg }
    if old.file.length > blobHeaderSize then
      match rawRecordsLoad cfg.klen cfg.validateData old.file with
      | .error _ => none
      | .ok hs => some (hs.foldl (fun b h => (b.indexPush cfg (hdrKey h) h).getD b) b0)
    else some b0

def regenAll (cfg : Cfg) : List CBlob → Option (List CBlob)
  | [] => some []
  | b :: bs =>
    match regen cfg b, regenAll cfg bs with
    | some b', some bs' => some (b' :: bs')
    | _, _ => none

namespace CState

/-- `HierarchicalFilters::new(group_size, 1)` -/
def emptyCont (cfg : Cfg) : Container Combined CBlob := Container.new cfg.group 1

/-- new active blob with the next id -/
def createActive (cfg : Cfg) (c : CState) : CState :=
  { c with active := some (CBlob.openNew cfg c.nextId), nextId := c.nextId + 1 }

def ensureActive (cfg : Cfg) (c : CState) : CState :=
  match c.active with
  | some _ => c
  | none => c.createActive cfg

/-- the storage after `init` on an empty directory -/
def init (cfg : Cfg) : CState :=
  ({ active := none, cont := emptyCont cfg, nextId := 0 } : CState).createActive cfg

/-- the blobs `Storage::get_latest_entry` asks, in order: the active blob, then what
    `iter_possible_childs_rev(key)` yields (the stack machine of `PossibleRevIter::next`) -/
def consulted (cfg : Cfg) (c : CState) (k : Key) : List CBlob :=
  c.active.toList ++
    (Container.iterPossibleStack (fops cfg) c.cont true k).filterMap (fun j => (c.cont.getChild j).map (·.data))

/-- `Storage::get_latest_entry(safe, key, None)` -/
def getLatestEntry (cfg : Cfg) (c : CState) (k : Key) : Except CErr (ReadResult CEntry) :=
  foldEntries (fun b => b.getLatestEntry cfg k) (c.consulted cfg k) .notFound

/-- `Storage::contains` -/
def contains (cfg : Cfg) (c : CState) (k : Key) : Except CErr (ReadResult Nat) :=
  match c.getLatestEntry cfg k with
  | .error e => .error e
  | .ok r => .ok (r.map (·.hdr.timestamp))

/-- `Storage::read` = `read_with_optional_meta(key, None)`: the latest entry, then `Entry::load` of the winner
    (header magic, header checksum, data checksum) and `into_data()` -/
def read (cfg : Cfg) (c : CState) (k : Key) : Except CErr (ReadResult (List UInt8)) :=
  match c.getLatestEntry cfg k with
  | .error e => .error e
  | .ok (.found e) =>
    match entryLoad e.file e.hdr with
    | .error le => .error (.load le)
    | .ok (_, data) => .ok (.found data)
  | .ok (.deleted ts) => .ok (.deleted ts)
  | .ok .notFound => .ok .notFound

/-- `Storage::write(key, value, ts)`; a failed existence check leaves the state as it is -/
def write (cfg : Cfg) (c : CState) (k : Key) (ts : Nat) (d : Data) : CState :=
  let c := c.ensureActive cfg
  let dup : Except CErr Bool :=
    if cfg.allowDup then .ok false
    else
      match c.contains cfg k with
      | .error e => .error e
      | .ok r => .ok r.isFound
  match dup with
  | .error _ => c
  | .ok true => c
  | .ok false =>
    match c.active with
    | none => c
    | some a => { c with active := some (a.writeRec cfg { key := k, ts := ts, del := false, mt := none, data := d }) }

/-- `Storage::delete(key, ts, only_if_presented)`: `delete_in_active`, then `delete_in_closed` (always
    `only_if_presented`); returns the number of blobs marked -/
def delete (cfg : Cfg) (c : CState) (k : Key) (ts : Nat) (oip : Bool) : CState × Nat :=
  let c := if oip then c else c.ensureActive cfg
  let act := c.active.map (fun a => (a.delete cfg k ts oip).1)
  let nAct := match c.active with
    | some a => if (a.delete cfg k ts oip).2 then 1 else 0
    | none => 0
  let nClosed := ((closedBlobs c.cont).filter (fun b => (b.delete cfg k ts true).2)).length
  ({ c with active := act, cont := mapChildren c.cont (fun b => (b.delete cfg k ts true).1) }, nAct + nClosed)

/-- `Inner::close_active_blob`: the blob is pushed into the container -/
def closeActive (cfg : Cfg) (c : CState) : Except ErrKind CState :=
  match c.active with
  | none => .error .activeBlobDoesntExist
  | some a => .ok { c with active := none, cont := (c.cont.push (fops cfg) (childOps cfg) a).1 }

/-- `Inner::create_active_blob` -/
def tryCreateActive (cfg : Cfg) (c : CState) : Except ErrKind CState :=
  match c.active with
  | some _ => .error .activeBlobExists
  | none => .ok (c.createActive cfg)

/-- `Inner::restore_active_blob`: `last_id`, `get_child_mut(last_id)` + `load_index`, `pop` -/
def restoreActive (cfg : Cfg) (c : CState) : Except ErrKind CState :=
  match c.active with
  | some _ => .error .activeBlobExists
  | none =>
    match c.cont.lastId with
    | none => .error .uninitialized
    | some i =>
      match (modifyChild c.cont i (CBlob.loadIndex cfg)).pop with
      | (cont', some b) => .ok { c with active := some b, cont := cont' }
      | (_, none) => .error .uninitialized

/-- `Safe::replace_active_blob` with a fresh blob -/
def replaceActive (cfg : Cfg) (c : CState) : CState :=
  let old := c.active
  let c := c.createActive cfg
  match old with
  | none => c
  | some a => { c with cont := (c.cont.push (fops cfg) (childOps cfg) a).1 }

/-- `try_dump_old_blob_indexes` run to completion: `blob.dump()` for every closed blob -/
def settle (cfg : Cfg) (c : CState) : CState :=
  { c with cont := mapChildren c.cont (CBlob.dump cfg) }

/-- all blobs, oldest → newest -/
def blobs (c : CState) : List CBlob := closedBlobs c.cont ++ c.active.toList

/-- close + `init` on the same directory *without index files*: every blob file is opened in id order and its
    index regenerated by the scan (`regen`); with `lazy = false` the last blob becomes the active one, the
    others are dumped and pushed into a fresh container; `next_blob_id` = max id + 1.
    A failed `init` leaves the state as it is. -/
def restart (cfg : Cfg) (c : CState) (lazy : Bool) : CState :=
  match regenAll cfg (sortById c.blobs) with
  | none => c
  | some bs =>
    let maxNext := bs.foldl (fun m b => max m (b.id + 1)) 0
    if lazy then
      { active := none
        cont := Container.extend (fops cfg) (childOps cfg) (emptyCont cfg) (bs.map (CBlob.dump cfg))
        nextId := maxNext }
    else
      match bs.getLast? with
      | none => ({ active := none, cont := emptyCont cfg, nextId := 0 } : CState).createActive cfg
      | some a =>
        { active := some a
          cont := Container.extend (fops cfg) (childOps cfg) (emptyCont cfg) (bs.dropLast.map (CBlob.dump cfg))
          nextId := maxNext }

end CState

/-- concrete operations (no metadata) -/
inductive COp where
  | write (k : Key) (ts : Nat) (d : Data)
  | delete (k : Key) (ts : Nat) (oip : Bool)
  | closeActive
  | createActive
  | restoreActive
  | replaceActive
  /-- background index dumps complete -/
  | settle
  /-- close + init without index files -/
  | restart (lazy : Bool)
deriving Repr, Inhabited

/-- the L2 operation a concrete operation implements -/
def COp.abs : COp → Op
  | .write k ts d => .write k ts none d
  | .delete k ts oip => .delete k ts none oip
  | .closeActive => .closeActive
  | .createActive => .createActive
  | .restoreActive => .restoreActive
  | .replaceActive => .replaceActive
  | .settle => .settle
  | .restart lazy => .restart lazy

namespace CState

def step (cfg : Cfg) (c : CState) : COp → CState
  | .write k ts d => c.write cfg k ts d
  | .delete k ts oip => (c.delete cfg k ts oip).1
  | .closeActive => match c.closeActive cfg with | .ok c' => c' | .error _ => c
  | .createActive => match c.tryCreateActive cfg with | .ok c' => c' | .error _ => c
  | .restoreActive => match c.restoreActive cfg with | .ok c' => c' | .error _ => c
  | .replaceActive => c.replaceActive cfg
  | .settle => c.settle cfg
  | .restart lazy => c.restart cfg lazy

def run (cfg : Cfg) (c : CState) (ops : List COp) : CState := ops.foldl (step cfg) c

end CState

/-! ## abstraction to L2 -/

def CBlob.abs (b : CBlob) : Blob := { id := b.id, recs := b.ghost, onDisk := b.index.onDisk }

def CState.abs (cfg : Cfg) (c : CState) : Store :=
  { active := c.active.map CBlob.abs
    slots := c.cont.children.map (fun o => o.map (fun lf => lf.data.abs))
    nextId := c.nextId
    allowDup := cfg.allowDup }

end Pearl.E2E
