import Pearl.Model.EndToEnd
/-
End-to-end composition, sessions with DIFFERENT bloom configurations on one directory (C10 / C17).

`Pearl/Model/EndToEnd.lean` keeps ONE configuration (`Cfg.bloom`) for a whole history.  Here a history is a sequence
of sessions: `restartWith bloom' lazy` closes the storage and runs `Storage::init` on the same directory with a
configuration that differs in `IndexConfig::bloom_config` only (other element count / hasher count / bit count, or
`None` = no bloom filter).  `K::LEN`, the hash family (hasher `j` is `AHasher::new_with_keys(j+1, j+2)` whatever the
configuration says), `allow_duplicates`, the group size stay.

What the code does with the filters at start-up (`Blob::from_file`, `IndexStruct::from_file`, `deserialize_filters`,
`bloom_is_on`; `Storage::init_from_existing`, `HierarchicalFilters::from_vec`):

* a blob whose index file exists and is accepted starts `State::OnDisk` with the filters READ FROM THE FILE:
  `Bloom::from_raw` rebuilds the filter with the geometry it was written with (`Save { config, buf, bits_count }`:
  the hashers are `hashers(save.config.hashers_count)`, the bit count `save.bits_count`) — whatever the configuration
  of the new session says; `bloom_is_on == false` drops it (`CombinedFilter { bloom: None, range }`); a bloom-less
  session wrote `Bloom::empty()` (`bits_count = 0`, no hashers), which a session with a bloom filter reads back as
  exactly that empty filter;
* a blob without (accepted) index file gets `Index::new` of the NEW configuration and is regenerated from the blob
  file (`try_regenerate_index`);
* the container is rebuilt by pushing the blobs in id order (`from_vec` = `push` each): `add_child` merges the
  child's filter into the node filters with `merge_filters`: a refused `checked_add_assign` sets the node filter to
  `None` ("unknown": every key passes).

Model: the structured storage `CState` of `EndToEnd.lean` (file bytes, index in memory or as the B+tree image with the
serialized filter section, `CombinedFilter`, arena container).  "The index file of the blob exists" is "the index of
the blob is on disk" (`CIndex.disk`: the file image with its filter section `metaBuf`); a blob whose index is in
memory when the storage is closed is regenerated (an index file left by an earlier dump is stale as soon as the blob
was written to after the load — `validate` rejects it by `blob_size`; the case "loaded and never written again" is
not distinguished here: it yields a filter of the old geometry instead of the new one, which the invariant of
`Pearl/Proofs/EndToEndCfg.lean` covers as well, being independent of the geometry).

The container operations are parametrised by the `FilterOps` used for MERGING at start-up (`restartWithOps`), so that
the seeded variants of `checked_add_assign` / `merge_filters` can be run on the same histories (`Pearl/Props`).
-/
namespace Pearl.E2E
open Pearl Pearl.BPTree

/-- the configuration of a session that differs in the bloom configuration only -/
def Cfg.withBloom (cfg : Cfg) (bloom : Option (BloomConfig × Nat)) : Cfg := { cfg with bloom := bloom }

/-- `Blob::from_file` at the level of `CBlob`: an index on disk *is* the (accepted) index file — the blob keeps
    it, with the filters `IndexStruct::from_file` deserializes from its filter section under the `bloom_is_on` of
    the NEW configuration (and the `bloom_offset` that comes with them); a filter section that does not deserialize is
    `Err` → `is_index_corrupted` → regeneration; an index in memory means no usable index file: `Index::new` of the
    new configuration + `try_regenerate_index` (`regen`).  `none` = `Err` (`init` fails). -/
def reopen (cfg : Cfg) (old : CBlob) : Option CBlob :=
  match old.index with
  | .mem _ => regen cfg old
  | .disk f metaBuf _ =>
    match blobHeaderFromFile old.file with
    | .error _ => none
    | .ok _ =>
      match combinedOfFile cfg.bloomIsOn metaBuf with
      | some (flt, off) => some { old with index := .disk f metaBuf off, filter := flt }
      | none => regen cfg old

def reopenAll (cfg : Cfg) : List CBlob → Option (List CBlob)
  | [] => some []
  | b :: bs =>
    match reopen cfg b, reopenAll cfg bs with
    | some b', some bs' => some (b' :: bs')
    | _, _ => none

namespace CState

/-- close + `init` on the same directory under the configuration `cfg` (the NEW one), the container being rebuilt
    with the merge operation of `ops`: blobs in id order, each reopened (`reopen`); with `lazy = false` the last one
    becomes the active blob after `load_index()`; the others are `dump()`ed (nothing for an on-disk index; an index
    regenerated in memory is written with the filter of the new configuration) and pushed into a fresh container.
    A failed `init` leaves the state as it is. -/
def restartWithOps (ops : FilterOps Combined) (cfg : Cfg) (c : CState) (lazy : Bool) : CState :=
  match reopenAll cfg (sortById c.blobs) with
  | none => c
  | some bs =>
    let maxNext := bs.foldl (fun m b => max m (b.id + 1)) 0
    if lazy then
      { active := none
        cont := Container.extend ops (childOps cfg) (emptyCont cfg) (bs.map (CBlob.dump cfg))
        nextId := maxNext }
    else
      match bs.getLast? with
      | none => ({ active := none, cont := emptyCont cfg, nextId := 0 } : CState).createActive cfg
      | some a =>
        { active := some (a.loadIndex cfg)
          cont := Container.extend ops (childOps cfg) (emptyCont cfg) (bs.dropLast.map (CBlob.dump cfg))
          nextId := maxNext }

/-- … with the real `checked_add_assign` -/
def restartWith (cfg : Cfg) (c : CState) (lazy : Bool) : CState := restartWithOps (fops cfg) cfg c lazy

end CState

/-- operations of a history with several sessions -/
inductive XOp where
  /-- an operation of the running session -/
  | op (o : COp)
  /-- close, then `init` with the bloom configuration `bloom` (`none` = no bloom filter) -/
  | restartWith (bloom : Option (BloomConfig × Nat)) (lazy : Bool)
deriving Repr, Inhabited

/-- the L2 operation -/
def XOp.abs : XOp → Op
  | .op o => o.abs
  | .restartWith _ lazy => .restart lazy

/-- the storage together with the configuration of the running session -/
structure XState where
  cfg : Cfg
  st : CState

namespace XState

/-- a new storage under `cfg` -/
def init (cfg : Cfg) : XState := { cfg := cfg, st := CState.init cfg }

/-- one operation; the start-up merges with `ops` (the real one is `fops`) -/
def stepOps (ops : FilterOps Combined) (x : XState) : XOp → XState
  | .op o => { x with st := x.st.step x.cfg o }
  | .restartWith bloom lazy =>
    { cfg := x.cfg.withBloom bloom, st := x.st.restartWithOps ops (x.cfg.withBloom bloom) lazy }

def step (x : XState) (o : XOp) : XState := x.stepOps (fops x.cfg) o

def run (x : XState) (os : List XOp) : XState := os.foldl step x

def runOps (ops : FilterOps Combined) (x : XState) (os : List XOp) : XState := os.foldl (stepOps ops) x

/-- `Storage::read` of the running session -/
def read (x : XState) (k : Key) : Except CErr (ReadResult (List UInt8)) := x.st.read x.cfg k

/-- `Storage::contains` of the running session -/
def contains (x : XState) (k : Key) : Except CErr (ReadResult Nat) := x.st.contains x.cfg k

end XState

/-- the bloom configurations the `restartWith` steps of a history switch to, in order -/
def XOp.blooms : List XOp → List (Option (BloomConfig × Nat))
  | [] => []
  | .op _ :: rest => XOp.blooms rest
  | .restartWith b _ :: rest => b :: XOp.blooms rest

/-! ## the seeded variants of the merge rule (C10 / C17), as `FilterOps` -/

/-- seeded variant 1: `checked_add_assign` without the comparison of the hasher counts -/
def Bloom.mergeNoHashers (b o : Bloom) : Bloom × Bool :=
  match b.inner, o.inner with
  | some v, some w =>
    if v.bits == w.bits then
      match v.orWith w with
      | some r => ({ b with inner := some r }, true)
      | none => (b, false)
    else (b, false)
  | _, _ => (b, false)

/-- seeded variant 3: merging with an empty bloom (`bits_count = 0`: what a bloom-less session writes) "succeeds"
    and leaves `self` as it is -/
def Bloom.mergeEmptyOk (b o : Bloom) : Bloom × Bool :=
  if o.bits == 0 then (b, true) else b.merge o

/-- `CombinedFilter::checked_add_assign` over a given bloom merge -/
def Combined.mergeVia (bm : Bloom → Bloom → Bloom × Bool) (c o : Combined) : Combined × Bool :=
  let (r, _) := c.range.merge o.range
  match c.bloom, o.bloom with
  | some x, some y => let (x', ok) := bm x y; ({ bloom := some x', range := r }, ok)
  | none, none => ({ bloom := none, range := r }, true)
  | _, _ => ({ bloom := c.bloom, range := r }, false)

def opsNoHashers (h : Nat → Key → Nat) : FilterOps Combined :=
  { combinedOps h with merge := Combined.mergeVia Bloom.mergeNoHashers }

def opsEmptyOk (h : Nat → Key → Nat) : FilterOps Combined :=
  { combinedOps h with merge := Combined.mergeVia Bloom.mergeEmptyOk }

/-- seeded variant 2: `merge_filters` that keeps the node filter when `checked_add_assign` refuses (the range part
    has been merged by then, the bloom part is the stale one) -/
def opsKeepStale (h : Nat → Key → Nat) : FilterOps Combined :=
  { combinedOps h with merge := fun c o => ((Combined.merge c o).1, true) }

end Pearl.E2E
