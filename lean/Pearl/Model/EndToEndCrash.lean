import Pearl.Model.EndToEndMeta
import Pearl.Model.Crash
import Pearl.Model.Fs
/-
End-to-end crash recovery (property C06 on the composed storage of `Pearl/Model/EndToEnd.lean`; nothing there
is changed).

A crash leaves, of every blob file, the first `cut id` bytes (`cut id ≥` the file length: every issued write
survived — a process kill; `cut id` between the synced size and the file length: a power loss).  Whatever was in
memory is gone and the index files are taken as removed (an index file that is present but stale or truncated is
rejected by `IndexHeader` validation, C03, and start-up falls back to the scan, which is the case modelled here).
Start-up is `Storage::init` on that directory: `read_blobs` opens every blob file (`Blob::from_file` without an
index file = `regen` of `Pearl/Model/EndToEnd.lean`: blob header, then the scan `RawRecords::load`); a file whose
error `should_save_corrupted_blob` accepts is moved to the corrupted directory and start-up continues without it
(`openBlob` of `Pearl/Model/Crash.lean` = `.quarantine`); its id still counts for `next_blob_id`
(src/storage/core.rs `read_blobs`: `max_blob_id = max_blob_id.max(Some(file_name.id()))`).

The existing `CState.restart` treats a failed `regen` as "init fails, state unchanged"; `CState.recover` below is
the same function with the quarantine decision of `read_blobs` in place of that (`recover_eq_restart`, in
`Pearl/Proofs/EndToEndCrash.lean`: they agree whenever no file is rejected).

The history variable `ghost` of a crashed blob is the list of the records that are complete in the surviving
prefix.  It is computed from the record lengths (`complete`), not from the bytes.
-/
namespace Pearl.E2E
open Pearl Pearl.BPTree

/-! ## which records survive a cut -/

/-- the number of the records `recs`, laid out one after the other from offset `off` (`Fs.recLen` bytes each),
    that end at or before `t` -/
def completeFrom (klen : Nat) : Nat → List Rec → Nat → Nat
  | _, [], _ => 0
  | off, r :: rs, t =>
    if off + Fs.recLen klen r ≤ t then completeFrom klen (off + Fs.recLen klen r) rs t + 1 else 0

/-- the number of records of a blob file that are complete in its first `t` bytes -/
def complete (klen : Nat) (recs : List Rec) (t : Nat) : Nat := completeFrom klen blobHeaderSize recs t

/-- where a cut falls -/
inductive CutKind where
  /-- inside the blob header (`t < 20`) -/
  | blobHeader
  /-- at the end of record `n - 1` (`n = 0`: at the end of the blob header), or at / after the end of the file;
      `n` records survive -/
  | clean (n : Nat)
  /-- strictly inside the header of record `n` (`n` records are complete) -/
  | recHeader (n : Nat)
  /-- the header of record `n` is complete, its meta / data is cut -/
  | body (n : Nat)
deriving DecidableEq, Repr

def cutKind (klen : Nat) (recs : List Rec) (t : Nat) : CutKind :=
  if t < blobHeaderSize then .blobHeader
  else
    let n := complete klen recs t
    if n = recs.length ∨ t = Fs.contentLen klen (recs.take n) then .clean n
    else if t < Fs.contentLen klen (recs.take n) + headerSize klen then .recHeader n
    else .body n

/-- the record has a non-empty data part in the file -/
def hasData (r : Rec) : Bool := !r.del && r.data.len != 0

/-- what `read_blobs` does with the file -/
inductive Fate where
  /-- opened with the headers of the first `n` records — and, when `torn`, the header of record `n`, whose
      meta / data is incomplete (finding E8) -/
  | opened (n : Nat) (torn : Bool)
  /-- moved to the corrupted directory -/
  | quarantined
deriving DecidableEq, Repr

/-- the fate of a blob with records `recs` cut at `t`: a cut blob header or record header is a `Bincode` error
    (quarantine); a cut meta / data is noticed only by the validating scan, and only if the record has data -/
def fate (klen : Nat) (validate : Bool) (recs : List Rec) (t : Nat) : Fate :=
  match cutKind klen recs t with
  | .blobHeader => .quarantined
  | .clean n => .opened n false
  | .recHeader _ => .quarantined
  | .body n =>
    match recs[n]? with
    | some r => if validate && hasData r then .quarantined else .opened n true
    | none => .quarantined

/-! ## the crash -/

/-- a blob after the crash: the file is cut, the in-memory index and filter are gone (and there is no index
    file); the history variable keeps the records that are complete in the surviving prefix -/
def CBlob.crash (cfg : Cfg) (b : CBlob) (t : Nat) : CBlob :=
  { id := b.id, file := b.file.take t, index := .mem [], filter := newFilter cfg,
    ghost := b.ghost.take (complete cfg.klen b.ghost t) }

/-- the directory after the crash: every blob file cut at `cut id` -/
def CState.crash (cfg : Cfg) (c : CState) (cut : Nat → Nat) : CState :=
  { active := c.active.map (fun b => b.crash cfg (cut b.id))
    cont := mapChildren c.cont (fun b => b.crash cfg (cut b.id))
    nextId := c.nextId }

/-! ## start-up with quarantine -/

/-- `Storage::read_blobs` (`ignore_corrupted = false`), on the blob files in id order: a quarantined file is
    left out, an error that is not to be saved fails `init` (`none`) -/
def readBlobs (cfg : Cfg) : List CBlob → Option (List CBlob)
  | [] => some []
  | b :: bs =>
    match openBlob cfg.klen cfg.validateData b.file with
    | .fail => none
    | .quarantine => readBlobs cfg bs
    | .ok _ =>
      match regen cfg b, readBlobs cfg bs with
      | some b', some bs' => some (b' :: bs')
      | _, _ => none

/-- the rest of `init_from_existing` for the opened blobs `bs` (in id order): with `lazy = false` the last blob
    becomes the active one — a fresh blob with id `maxNext` when no blob is left —, the others are dumped and
    pushed into a fresh container; `next_blob_id = maxNext` -/
def CState.ofBlobs (cfg : Cfg) (bs : List CBlob) (maxNext : Nat) (lazy : Bool) : CState :=
  if lazy then
    { active := none
      cont := Container.extend (fops cfg) (childOps cfg) (CState.emptyCont cfg) (bs.map (CBlob.dump cfg))
      nextId := maxNext }
  else
    match bs.getLast? with
    | none => ({ active := none, cont := CState.emptyCont cfg, nextId := maxNext } : CState).createActive cfg
    | some a =>
      { active := some a
        cont := Container.extend (fops cfg) (childOps cfg) (CState.emptyCont cfg) (bs.dropLast.map (CBlob.dump cfg))
        nextId := maxNext }

/-- `max_blob_id + 1` over the blob files of the directory, the quarantined ones included -/
def maxNextId (l : List CBlob) : Nat := l.foldl (fun m b => max m (b.id + 1)) 0

/-- `Storage::init` on the directory of `c` without index files; `none` = `init` fails -/
def CState.recover (cfg : Cfg) (c : CState) (lazy : Bool) : Option CState :=
  match readBlobs cfg (sortById c.blobs) with
  | none => none
  | some bs => some (CState.ofBlobs cfg bs (maxNextId (sortById c.blobs)) lazy)

/-- crash, then start-up -/
def CState.crashRecover (cfg : Cfg) (c : CState) (cut : Nat → Nat) (lazy : Bool) : Option CState :=
  (c.crash cfg cut).recover cfg lazy

/-! ## synced sizes (from the file layer `Pearl/Model/Fs.lean`) -/

/-- the synced size of blob file `id` in a state of the file layer: `FileInner::synced_size`, advanced by the
    sync of the header at creation (`Blob::open_new`), the sync before a dump (`Blob::dump`), the sync when a blob
    is closed, and `fsyncdata` (explicit, or by the dirty-bytes limit) -/
def syncedOf (s : Fs.FsState) (id : Nat) : Nat :=
  match s.disk.files id with
  | some f => f.synced
  | none => 0

end Pearl.E2E

namespace Pearl
open Pearl.E2E

/-! ## the crash at L2 -/

/-- L2: the blob keeps the records that are complete in the first `t` bytes of its file; no index file -/
def Blob.crash (klen : Nat) (b : Blob) (t : Nat) : Blob :=
  { id := b.id, recs := b.recs.take (complete klen b.recs t), onDisk := false }

/-- L2: every blob cut at `cut id` -/
def Store.crash (klen : Nat) (s : Store) (cut : Nat → Nat) : Store :=
  { s with
    active := s.active.map (fun b => b.crash klen (cut b.id))
    slots := s.slots.map (fun o => o.map (fun b => b.crash klen (cut b.id))) }

/-- L2: the storage `init` builds from the opened blobs `bs` (in id order) -/
def Store.ofBlobs (allowDup : Bool) (bs : List Blob) (maxNext : Nat) (lazy : Bool) : Store :=
  if lazy then
    { active := none
      slots := bs.map (fun b => some (if b.recs.isEmpty then b else { b with onDisk := true }))
      nextId := maxNext
      allowDup := allowDup }
  else
    match bs.getLast? with
    | none => ({ active := none, slots := [], nextId := maxNext, allowDup := allowDup } : Store).createActive
    | some a =>
      { active := some { a with onDisk := false }
        slots := bs.dropLast.map (fun b => some (if b.recs.isEmpty then b else { b with onDisk := true }))
        nextId := maxNext
        allowDup := allowDup }

/-- L2: the blobs that survive start-up, in id order: a quarantined blob is left out, an opened blob holds the
    records that are complete in the surviving prefix of its file -/
def Store.survivors (klen : Nat) (validate : Bool) (s : Store) (cut : Nat → Nat) : List Blob :=
  (Store.sortById s.blobs).filterMap fun b =>
    match fate klen validate b.recs (cut b.id) with
    | .quarantined => none
    | .opened n _ => some { id := b.id, recs := b.recs.take n, onDisk := false }

/-- L2: crash at `cut`, then start-up with quarantine -/
def Store.crashRecover (klen : Nat) (validate : Bool) (s : Store) (cut : Nat → Nat) (lazy : Bool) : Store :=
  Store.ofBlobs s.allowDup (s.survivors klen validate cut)
    ((Store.sortById s.blobs).foldl (fun m b => max m (b.id + 1)) 0) lazy

end Pearl
