import Pearl.Model.EndToEndStart
import Pearl.Model.EndToEndCrash
/-
End-to-end crash recovery WITH index files at every written length (property C06, the quantifier "every per-file
truncation length beyond the last sync (every byte of the tail record, index files at every written length)").
New definitions only; nothing of `EndToEndStart.lean` / `EndToEndCrash.lean` is changed.

  (a) THE TWO-PHASE DUMP of an index file (`BPTreeFileIndex::from_records`, src/blob/index/bptree/core.rs):
        clean_file(path, recreate)                 an existing file is truncated to length 0 (`StdFile::create`)
        (header, meta, buf) = serialize(..)        `buf` = header | filters | tree meta | nodes | record headers; the
                                                   header in `buf` carries the hash, its `written` bit is CLEAR
        file = iodriver.create(path)
        file.write_append_all(buf)                 phase 1
        header.set_written(true)
        file.write_all_at(0, serialize(header))    phase 2: the 83 header bytes again, `written` bit set
        file.fsyncdata()
      (`Pearl/Model/Fs.lean`, `Act.dump`: `sync blob; create index; write index; idxHeader .. true; sync index` — the
      blob file is synced BEFORE the index file is created.)
      `DumpStage` / `DumpStage.bytes` are the contents of the index file a crash can leave while this runs: the first
      `t` bytes of `buf` (`appending t`; `t = 0` is the empty file `clean_file` / `create` leave), `buf` with the first
      `j` bytes of the header overwritten by the new header (`rewriting j`), and the finished file (`done`).

  (b) THE CRASHED DIRECTORY at byte level: `BState.crash` cuts every blob file at `cut id`; whatever was in memory is
      gone.  `IdxAtCrash cfg sha recs idx`: what may lie next to the blob file whose records were `recs` when the
      crash happened: nothing; the complete image of the dump made when the blob held `recs.take m` (any `m`: current
      or stale — and, against the CUT blob file, possibly describing MORE records than the file still holds); any
      proper prefix of such an image; any stage of an interrupted dump.

  (c) START-UP WITH QUARANTINE AND INDEX FILES: `fromFileQ` = `Blob::from_file` on a blob file and the bytes of its
      index file (exactly `fromFileB` of `EndToEndStart.lean`) followed by the decision `read_blobs` takes on an `Err`
      (`should_save_corrupted_blob`, `Pearl/Model/Crash.lean`); `readBlobsIdx`, `BState.ofBlobsIdx`,
      `BState.recoverWithIndexes` = `Storage::init` on the directory.
-/
namespace Pearl.E2E
open Pearl Pearl.BPTree

/-! ## (a) the two-phase dump -/

/-- what `Blob::dump` hands to `FileIndex::from_records` for a blob that holds exactly the records `recs`: the
    structured file and the filter section (`none`: nothing is dumped) — `dumpedImage` is `imageOf` of these
    (`dumpedImage_eq_parts`) -/
def dumpedParts (cfg : Cfg) (recs : List Rec) : Option (IndexFile RecHeader × List Nat) :=
  let b := recs.foldl (fun b r => b.writeRec cfg r) (BBlob.openNew cfg 0)
  match b.index with
  | .disk .. => none
  | .mem m =>
    if m.isEmpty then none
    else (serializeFilters cfg.klen b.filter).map (fun p => (build (Params.real cfg.klen) p.1.length m, p.1))

/-- the hash `serialize` puts into the header: SHA-256 of the buffer with a zeroed hash and the `written` bit clear -/
def imageHash (sha : List Nat → List Nat) (f : IndexFile RecHeader) (metaBuf : List Nat) (blobSize : Nat) : List Nat :=
  sha (indexFileBytesUnwritten (rawFile f) metaBuf (List.replicate 32 0) blobSize)

/-- phase 1: the buffer `write_append_all` writes — the hash is filled in, the `written` bit is clear -/
def imageOfUnwritten (sha : List Nat → List Nat) (f : IndexFile RecHeader) (metaBuf : List Nat) (blobSize : Nat) :
    List Nat :=
  indexFileBytesUnwritten (rawFile f) metaBuf (imageHash sha f metaBuf blobSize) blobSize

/-- phase 2: the header `write_all_at(0, ..)` writes — the same header with the `written` bit set -/
def headerWritten (sha : List Nat → List Nat) (f : IndexFile RecHeader) (metaBuf : List Nat) (blobSize : Nat) :
    List Nat :=
  indexHeaderBytes (rawFile f) (imageHash sha f metaBuf blobSize) true blobSize

/-- where `from_records` was when the crash happened -/
inductive DumpStage where
  /-- phase 1: the first `t` bytes of the buffer are in the file (`t = 0`: the empty file) -/
  | appending (t : Nat)
  /-- phase 2: the whole buffer is in the file, the first `j` bytes of the header are rewritten -/
  | rewriting (j : Nat)
  /-- finished -/
  | done
deriving DecidableEq, Repr

/-- the bytes of the index file at that stage -/
def DumpStage.bytes (sha : List Nat → List Nat) (f : IndexFile RecHeader) (metaBuf : List Nat) (blobSize : Nat) :
    DumpStage → List Nat
  | .appending t => (imageOfUnwritten sha f metaBuf blobSize).take t
  | .rewriting j =>
    (headerWritten sha f metaBuf blobSize).take j ++
      (imageOfUnwritten sha f metaBuf blobSize).drop ((headerWritten sha f metaBuf blobSize).take j).length
  | .done => imageOf sha f metaBuf blobSize

/-! ## (b) the crashed directory -/

/-- a blob after the crash, at byte level: the file is cut; index and filter (memory) are gone -/
def BBlob.crash (cfg : Cfg) (b : BBlob) (t : Nat) : BBlob :=
  { id := b.id, file := b.file.take t, index := .mem [], filter := newFilter cfg }

/-- the directory after the crash: every blob file cut at `cut id` -/
def BState.crash (cfg : Cfg) (c : BState) (cut : Nat → Nat) : BState :=
  { active := c.active.map (fun b => b.crash cfg (cut b.id))
    cont := mapChildrenB c.cont (fun b => b.crash cfg (cut b.id))
    nextId := c.nextId }

/-- what may lie next to the blob file whose records were `recs` at the moment of the crash -/
inductive IdxAtCrash (cfg : Cfg) (sha : List Nat → List Nat) (recs : List Rec) : Option (List Nat) → Prop where
  /-- no index file -/
  | absent : IdxAtCrash cfg sha recs none
  /-- the complete image of the dump made when the blob held `recs.take m` (`m = recs.length`: current) -/
  | dumped (m : Nat) (img : List Nat) (hm : m ≤ recs.length) (h : dumpedImage cfg sha (recs.take m) = some img) :
      IdxAtCrash cfg sha recs (some img)
  /-- any proper prefix of such an image (the empty file and the header-only file included) -/
  | truncated (m : Nat) (img : List Nat) (t : Nat) (hm : m ≤ recs.length)
      (h : dumpedImage cfg sha (recs.take m) = some img) (ht : t < img.length) :
      IdxAtCrash cfg sha recs (some (img.take t))
  /-- a dump of `recs.take m` was interrupted at any stage of the two-phase write -/
  | interrupted (m : Nat) (f : IndexFile RecHeader) (mb : List Nat) (st : DumpStage) (hm : m ≤ recs.length)
      (h : dumpedParts cfg (recs.take m) = some (f, mb)) :
      IdxAtCrash cfg sha recs (some (st.bytes sha f mb (blobFileLen cfg (recs.take m))))

/-! ## (c) start-up with quarantine and index files -/

/-- what `read_blobs` makes of one blob file -/
inductive StartOutcome where
  /-- `Blob::from_file` returned this blob -/
  | ok (b : BBlob)
  /-- `Err`, and `should_save_corrupted_blob`: the file is moved to the corrupted directory -/
  | quarantine
  /-- `Err` that is not to be saved, or a panic: `init` fails -/
  | fail

/-- the decision of `read_blobs` for an error class -/
def StartOutcome.ofInit : InitOutcome → StartOutcome
  | .quarantine => .quarantine
  | _ => .fail

/-- `Blob::from_file(path, iodriver, config)` on the blob file `old.file` with the bytes of the index file next to
    it, and what `read_blobs` does with an `Err`.  The `ok` arm is `fromFileB` (`fromFileQ_ok_iff`). -/
def fromFileQ (cfg : Cfg) (old : BBlob) (idx : Option (List Nat)) : StartOutcome :=
  match blobHeaderFromFile old.file with
  | .error e => .ofInit (classifyHeaderErr e)
  | .ok _ =>
    let fresh : BBlob := { old with index := .mem [], filter := newFilter cfg }
    let opened : Option (BBlob × Bool) :=
      match idx with
      | none => some (fresh, false)
      | some img =>
        match openIndex cfg old.file.length img with
        | .accepted flt off => some ({ old with index := .disk img off, filter := flt }, false)
        | .rejected => some (fresh, true)
        | .panic => none
    match opened with
    | none => .fail
    | some (b, corrupted) =>
      if corrupted || decide (old.file.length > blobHeaderSize) then
        match b.index with
        | .disk .. => .ok b
        | .mem _ =>
          match rawRecordsLoad cfg.klen cfg.validateData b.file with
          | .error e => .ofInit (classifyScanErr e)
          | .ok hs => .ok (hs.foldl (fun b h => (b.indexPush cfg (hdrKey h) h).getD b) b)
      else .ok b

/-- `Storage::read_blobs` (`ignore_corrupted = false`) on the blob files in id order, each with the index file the
    directory holds for its id: a quarantined file is left out, any other failure fails `init` -/
def readBlobsIdx (cfg : Cfg) (dir : Nat → Option (List Nat)) : List BBlob → Option (List BBlob)
  | [] => some []
  | b :: bs =>
    match fromFileQ cfg b (dir b.id) with
    | .fail => none
    | .quarantine => readBlobsIdx cfg dir bs
    | .ok b' =>
      match readBlobsIdx cfg dir bs with
      | some bs' => some (b' :: bs')
      | none => none

namespace BState

/-- the rest of `init_from_existing` for the opened blobs `bs` (in id order), as in `restartWithIndexes` /
    `CState.ofBlobs`: with `lazy = false` the last blob is popped and `load_index()` is called on it, every other
    blob is dumped and pushed into a fresh container; `next_blob_id = maxNext` -/
def ofBlobsIdx (cfg : Cfg) (sha : List Nat → List Nat) (bs : List BBlob) (maxNext : Nat) (lazy : Bool) :
    Option BState :=
  if lazy then
    some
      { active := none
        cont := Container.extend (fops cfg) (childOpsB cfg) (emptyCont cfg) (bs.map (BBlob.dump cfg sha))
        nextId := maxNext }
  else
    match bs.getLast? with
    | none => some (({ active := none, cont := emptyCont cfg, nextId := maxNext } : BState).createActive cfg)
    | some a =>
      match loadIndexOrRegenB cfg a with
      | none => none
      | some a' =>
        some
          { active := some a'
            cont := Container.extend (fops cfg) (childOpsB cfg) (emptyCont cfg)
              (bs.dropLast.map (BBlob.dump cfg sha))
            nextId := maxNext }

/-- `Storage::init` on the directory of `c` WITH index files (`dir id` = the bytes of the index file of blob `id`, if
    there is one) and with the quarantine decision of `read_blobs`; `none` = `init` fails -/
def recoverWithIndexes (cfg : Cfg) (sha : List Nat → List Nat) (c : BState) (dir : Nat → Option (List Nat))
    (lazy : Bool) : Option BState :=
  match readBlobsIdx cfg dir (sortByIdB c.blobs) with
  | none => none
  | some bs => ofBlobsIdx cfg sha bs ((sortByIdB c.blobs).foldl (fun m b => max m (b.id + 1)) 0) lazy

/-- crash, then start-up with the index files `dir` -/
def crashRecoverWithIndexes (cfg : Cfg) (sha : List Nat → List Nat) (c : BState) (cut : Nat → Nat)
    (dir : Nat → Option (List Nat)) (lazy : Bool) : Option BState :=
  (c.crash cfg cut).recoverWithIndexes cfg sha dir lazy

end BState

end Pearl.E2E
