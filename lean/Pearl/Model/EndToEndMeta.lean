import Pearl.Model.EndToEnd
import Pearl.Model.BPTreeBytes
import Pearl.Model.IndexValidate
/-
End-to-end composition, extension of `Pearl/Model/EndToEnd.lean` (nothing there is changed):

  (1) METADATA.  `write_with` / `delete_with` (a record carries the empty meta map or the one-entry map
      `{"m": v}`, as the L5 model has it), `contains_with`, `read_with(meta)`:
      `Blob::get_entry_with_meta` (`index.get_all_with_deletion_marker`, the local marker is split off, the
      remaining headers are scanned newest first by `filter_entries`, which loads every candidate's meta from the
      blob file with `Entry::load_meta` and compares it), across blobs `ReadResult::latest`, then `Entry::load`.
  (2) `read_all_with_deletion_marker` / `read_all`: per blob `read_all_entries_with_deletion_marker` (through the
      vector or the index file), cross-blob stable sort by timestamp, global cut after the first marker.
  (3) `delete` with `only_if_presented` for records with meta (`Blob::delete` decides through `index.get_latest`).

Sources: `src/storage/core.rs` (`write_with_optional_meta`, `read_with_optional_meta`, `contains_with`,
`read_all_with_deletion_marker`, `read_all`, `delete_with_optional_meta`, `delete_core`), `src/blob/core.rs`
(`get_latest_entry`, `get_entry_with_meta`, `filter_entries`, `read_all_entries_with_deletion_marker`, `delete`),
`src/blob/index/core.rs` (`get_all_with_deletion_marker`), `src/blob/entry.rs` (`load_meta`).

  (4) THE INDEX FILE AS BYTES (second half of this file): the on-disk index of a blob is the byte string
      `indexFileBytes` of `Pearl/Model/BPTreeBytes.lean`, and every look-up (`get_latest`, `find_by_key`,
      `get_records_headers`, `read_meta`, `read_meta_at`, `from_file`) is done on the bytes (`BIdx`); the storage
      built on it is `BState`, with the same operations as `CState`.

`Meta` equality: `Meta` is a `HashMap<String, Vec<u8>>`; the model lists the entries of a deserialised map in
stream order (`deserMeta`).  Every map of the model has at most one entry, so equality of the entry lists is
equality of the maps.
-/
namespace Pearl.E2E
open Pearl Pearl.BPTree

/-! ## the index: `get_all_with_deletion_marker` -/

/-- `let first_del = hs.iter().position(|h| h.is_deleted()); hs.truncate(first_del + 1)` -/
def cutDel : List RecHeader → List RecHeader
  | [] => []
  | h :: hs => if h.isDeleted then [h] else h :: cutDel hs

namespace CIndex

/-- `IndexStruct::get_all_with_deletion_marker`: the vector of the key reversed (`State::InMemory`) or
    `BPTreeFileIndex::find_by_key` (`State::OnDisk`), cut after the first marker; no entry = `vec![]`.
    `none` is an error of the file look-up. -/
def getAllMarked : CIndex → Nat → Option (List RecHeader)
  | mem m, k => some (cutDel ((memAll m k).getD []))
  | disk f _ _, k => (f.findByKey k).map (fun o => cutDel (o.getD []))

end CIndex

/-! ## blobs -/

namespace CBlob

/-- `headers_to_entries` -/
def toEntries (b : CBlob) (hs : List RecHeader) : List CEntry := hs.map (fun h => ⟨h, b.file⟩)

/-- `Blob::read_all_entries_with_deletion_marker` -/
def readAllEntriesMarked (b : CBlob) (k : Key) : Except CErr (List CEntry) :=
  match b.index.getAllMarked k with
  | none => .error .index
  | some hs => .ok (b.toEntries hs)

/-- `Blob::filter_entries`: `for mut entry in entries { if Some(meta) == entry.load_meta().await? { return
    Ok(Some(entry)) } } Ok(None)` -/
def filterEntries (m : Meta) : List CEntry → Except CErr (Option CEntry)
  | [] => .ok none
  | e :: es =>
    match loadMeta e.file e.hdr with
    | .error le => .error (.load le)
    | .ok mt => if mt = metaEntries m then .ok (some e) else filterEntries m es

/-- `Blob::get_entry_with_meta` -/
def getEntryWithMeta (b : CBlob) (k : Key) (m : Meta) : Except CErr (ReadResult CEntry) :=
  match b.index.getAllMarked k with
  | none => .error .index
  | some hs =>
    let deletedTs : Option Nat := (hs.getLast?.filter (fun h => h.isDeleted)).map (fun h => h.timestamp)
    let hs' := if deletedTs.isSome then hs.take (hs.length - 1) else hs
    match filterEntries m (b.toEntries hs') with
    | .error e => .error e
    | .ok (some e) => .ok (.found e)
    | .ok none =>
      match deletedTs with
      | some ts => .ok (.deleted ts)
      | none => .ok .notFound

/-- `Blob::get_latest_entry(key, meta, check_filters = true)` -/
def getLatestEntryM (cfg : Cfg) (b : CBlob) (k : Key) (m : Option Meta) : Except CErr (ReadResult CEntry) :=
  if b.checkFilter cfg k == .notContains then .ok .notFound
  else
    match m with
    | some m => b.getEntryWithMeta k m
    | none => b.indexLatest k

/-- `Blob::delete(key, ts, meta, only_if_presented)`: the marker is `Record::deleted(key, ts, meta)`
    (`meta.unwrap_or_default()`); liveness is decided by `index.get_latest(key)` — through the vector or the
    index file — and does not look at metadata -/
def deleteM (cfg : Cfg) (b : CBlob) (k : Key) (ts : Nat) (m : Option Meta) (oip : Bool) : CBlob × Bool :=
  let present : Bool :=
    match b.indexLatest k with
    | .ok r => r.isFound
    | .error _ => false
  if !oip || present then
    ((b.loadIndex cfg).writeRec cfg { key := k, ts := ts, del := true, mt := m.getD none, data := ⟨0, 0⟩ }, true)
  else (b, false)

end CBlob

/-! ## the storage -/

/-- the loop over the blobs of `read_all_with_deletion_marker`: the first error ends it -/
def collectEntries (f : CBlob → Except CErr (List CEntry)) : List CBlob → Except CErr (List (List CEntry))
  | [] => .ok []
  | b :: bs =>
    match f b with
    | .error e => .error e
    | .ok es =>
      match collectEntries f bs with
      | .error e => .error e
      | .ok r => .ok (es :: r)

/-- one insertion step of the stable `sort_by(|a, b| b.timestamp().cmp(&a.timestamp()))` -/
def insertEntryDesc (x : CEntry) : List CEntry → List CEntry
  | [] => [x]
  | y :: ys => if x.hdr.timestamp ≥ y.hdr.timestamp then x :: y :: ys else y :: insertEntryDesc x ys

/-- stable sort by timestamp, descending -/
def sortEntriesDesc (l : List CEntry) : List CEntry := l.foldr insertEntryDesc []

/-- `position(|h| h.is_deleted())` + `truncate(first_del + 1)` on entries -/
def cutEntries : List CEntry → List CEntry
  | [] => []
  | e :: es => if e.hdr.isDeleted then [e] else e :: cutEntries es

/-- the tail of `read_all_with_deletion_marker`, on the per-blob lists in the order they were obtained:
    `affected_blobs_count`, `deletion_marker_presence`, the sort and the cut -/
def mergeEntries (per : List (List CEntry)) : List CEntry :=
  let affected := (per.filter (fun l => !l.isEmpty)).length
  let delPresent := per.any (fun l => match l.getLast? with | some e => e.hdr.isDeleted | none => false)
  let all := per.flatten
  if affected > 1 then
    let sorted := sortEntriesDesc all
    if delPresent then cutEntries sorted else sorted
  else all

namespace CState

/-- `Storage::get_latest_entry(safe, key, meta)` -/
def getLatestEntryM (cfg : Cfg) (c : CState) (k : Key) (m : Option Meta) : Except CErr (ReadResult CEntry) :=
  foldEntries (fun b => b.getLatestEntryM cfg k m) (c.consulted cfg k) .notFound

/-- `Storage::contains_with(key, meta)` -/
def containsWith (cfg : Cfg) (c : CState) (k : Key) (m : Option Meta) : Except CErr (ReadResult Nat) :=
  match c.getLatestEntryM cfg k m with
  | .error e => .error e
  | .ok r => .ok (r.map (·.hdr.timestamp))

/-- `Storage::read_with_optional_meta(key, meta)`: the latest entry, then `Entry::load` of the winner and
    `into_data()` -/
def readWithOpt (cfg : Cfg) (c : CState) (k : Key) (m : Option Meta) : Except CErr (ReadResult (List UInt8)) :=
  match c.getLatestEntryM cfg k m with
  | .error e => .error e
  | .ok (.found e) =>
    match entryLoad e.file e.hdr with
    | .error le => .error (.load le)
    | .ok (_, data) => .ok (.found data)
  | .ok (.deleted ts) => .ok (.deleted ts)
  | .ok .notFound => .ok .notFound

/-- `Storage::read_with(key, meta)` -/
def readWith (cfg : Cfg) (c : CState) (k : Key) (m : Meta) : Except CErr (ReadResult (List UInt8)) :=
  c.readWithOpt cfg k (some m)

/-- `Storage::write_with_optional_meta(key, value, ts, meta)` (`write` = `None`, `write_with(meta)` =
    `Some(meta)`): the duplicate check is `contains_with(key, meta)`; a failed check leaves the state as it is -/
def writeWithOpt (cfg : Cfg) (c : CState) (k : Key) (ts : Nat) (m : Option Meta) (d : Data) : CState :=
  let c := c.ensureActive cfg
  let dup : Except CErr Bool :=
    if cfg.allowDup then .ok false
    else
      match c.containsWith cfg k m with
      | .error e => .error e
      | .ok r => .ok r.isFound
  match dup with
  | .error _ => c
  | .ok true => c
  | .ok false =>
    match c.active with
    | none => c
    | some a =>
      { c with active := some (a.writeRec cfg { key := k, ts := ts, del := false, mt := m.getD none, data := d }) }

/-- `Storage::delete_with_optional_meta(key, ts, meta, only_if_presented)` -/
def deleteWithOpt (cfg : Cfg) (c : CState) (k : Key) (ts : Nat) (m : Option Meta) (oip : Bool) : CState × Nat :=
  let c := if oip then c else c.ensureActive cfg
  let act := c.active.map (fun a => (a.deleteM cfg k ts m oip).1)
  let nAct := match c.active with
    | some a => if (a.deleteM cfg k ts m oip).2 then 1 else 0
    | none => 0
  let nClosed := ((closedBlobs c.cont).filter (fun b => (b.deleteM cfg k ts m true).2)).length
  ({ c with active := act, cont := mapChildren c.cont (fun b => (b.deleteM cfg k ts m true).1) }, nAct + nClosed)

/-- `Storage::read_all_with_deletion_marker`: the active blob, then the children `iter_possible_childs_rev(key)`
    yields (no per-blob `check_filter` on this path), `read_all_entries_with_deletion_marker` of each -/
def readAllMarked (cfg : Cfg) (c : CState) (k : Key) : Except CErr (List CEntry) :=
  match collectEntries (fun b => b.readAllEntriesMarked k) (c.consulted cfg k) with
  | .error e => .error e
  | .ok per => .ok (mergeEntries per)

/-- `Storage::read_all`: the marker (a last entry that is deleted) is dropped -/
def readAll (cfg : Cfg) (c : CState) (k : Key) : Except CErr (List CEntry) :=
  match c.readAllMarked cfg k with
  | .error e => .error e
  | .ok es =>
    match es.getLast? with
    | some e => if e.hdr.isDeleted then .ok (es.take (es.length - 1)) else .ok es
    | none => .ok es

end CState

/-! ## operations with metadata -/

/-- concrete operations, with optional metadata on `write` and `delete` -/
inductive MOp where
  | write (k : Key) (ts : Nat) (m : Option Meta) (d : Data)
  | delete (k : Key) (ts : Nat) (m : Option Meta) (oip : Bool)
  | closeActive
  | createActive
  | restoreActive
  | replaceActive
  | settle
  | restart (lazy : Bool)
deriving Repr, Inhabited

/-- the L2 operation -/
def MOp.abs : MOp → Op
  | .write k ts m d => .write k ts m d
  | .delete k ts m oip => .delete k ts m oip
  | .closeActive => .closeActive
  | .createActive => .createActive
  | .restoreActive => .restoreActive
  | .replaceActive => .replaceActive
  | .settle => .settle
  | .restart lazy => .restart lazy

/-- the operations of `Pearl/Model/EndToEnd.lean` are the ones without metadata -/
def COp.toM : COp → MOp
  | .write k ts d => .write k ts none d
  | .delete k ts oip => .delete k ts none oip
  | .closeActive => .closeActive
  | .createActive => .createActive
  | .restoreActive => .restoreActive
  | .replaceActive => .replaceActive
  | .settle => .settle
  | .restart lazy => .restart lazy

namespace CState

def stepM (cfg : Cfg) (c : CState) : MOp → CState
  | .write k ts m d => c.writeWithOpt cfg k ts m d
  | .delete k ts m oip => (c.deleteWithOpt cfg k ts m oip).1
  | .closeActive => c.step cfg .closeActive
  | .createActive => c.step cfg .createActive
  | .restoreActive => c.step cfg .restoreActive
  | .replaceActive => c.step cfg .replaceActive
  | .settle => c.step cfg .settle
  | .restart lazy => c.step cfg (.restart lazy)

def runM (cfg : Cfg) (c : CState) (ops : List MOp) : CState := ops.foldl (stepM cfg) c

end CState

/-! # (4) the index file as bytes

`src/blob/index/bptree/core.rs` (`from_file`, `read_root`, `find_leaf_node`, `read_header`, `read_header_buf`,
`get_leftmost`, `read_headers`, `go_left`, `go_right`, `go_right_file`, `get_records_headers`, `read_meta`,
`read_meta_at`), `src/blob/index/bptree/node.rs` (`key_offset_serialized`, `binary_search_serialized`).

A file is the list of its bytes (`Nat`s below 256, as in `Pearl/Model/BPTreeBytes.lean`).  Results are
`Option (Option _)` as in `Pearl/Model/BPTree.lean`: the outer `none` is any abnormal outcome (an `Err`, a slice
panic, an arithmetic overflow panic, a read past the end of the file, a loop out of fuel).

What is NOT modelled at byte level: the SHA-256 of the index header.  `hash` is an uninterpreted 32-byte field (as
in `BPTreeBytes.lean`), so the check `hash_valid` of `get_records_headers` is not performed by `BIdx.load`; the
other checks of `validate_header` (`written` bit, version, key size, blob size, magic) are.
-/

/-- big-endian value of key bytes (`K::Ref::from(&buf[..])` compared with `Ord` = comparison of these values) -/
def beNat (bs : List Nat) : Nat := bs.foldl (fun acc b => acc * 256 + b) 0

/-- `bincode::deserialize::<RecordHeader>(bytes)`: the L5 deserializer on the bytes -/
def deserHdr (bs : List Nat) : Option RecHeader := deserHeader (bs.map UInt8.ofNat)

/-- `BPTreeFileIndex<K>`: the file and what `from_file` keeps in memory -/
structure BIdx where
  file : List Nat
  header : IndexHeaderV
  metadata : TreeMetaV
  /-- `root_node`: the first block of the tree region, zero padded to `BLOCK_SIZE` -/
  root : List Nat

/-- `read_root`: `min(file.size() - root_offset, BLOCK_SIZE)` bytes at `root_offset`, resized to `BLOCK_SIZE` -/
def readRoot (file : List Nat) (tm : TreeMetaV) : Option (List Nat) :=
  if file.length < tm.treeOffset then none
  else
    let n := min (file.length - tm.treeOffset) 4096
    (BPTree.readExactAt file tm.treeOffset n).map (fun b => b ++ List.replicate (4096 - n) 0)

namespace BIdx

/-- `BPTreeFileIndex::from_file`: `read_index_header`, `read_tree_meta`, `check_file_size`, `read_root` -/
def fromFile (file : List Nat) : Option BIdx :=
  match readIndexHeader file with
  | none => none
  | some h =>
    match readTreeMeta file h with
    | none => none
    | some tm =>
      if !checkFileSize h tm file.length then none
      else
        match readRoot file tm with
        | none => none
        | some r => some ⟨file, h, tm, r⟩

/-- `header.record_header_size` -/
def rhs (x : BIdx) : Nat := x.header.recordHeaderSize

/-- `Node::key_offset_serialized(buf, key)` with `binary_search_serialized` inlined: `NodeMeta.size` from the
    first 8 bytes, the binary search over the `size` keys of `K` bytes, then the `u64` at
    `offsets_offset + ind * 8` -/
def keyOffset (K : Nat) (buf : List Nat) (k : Nat) : Option Nat :=
  if buf.length < 8 then none
  else
    let nodeSize := leNat (buf.take 8)
    let offsetsOffset := 8 + nodeSize * K
    if buf.length < offsetsOffset then none
    else if K = 0 then none
    else
      let keys := (buf.take offsetsOffset).drop 8
      if keys.length / K = 0 then none
      else
        let keyAt := fun i =>
          if (i + 1) * K ≤ keys.length then some (beNat ((keys.drop (i * K)).take K)) else none
        match binSearch keyAt (keys.length / K) k with
        | none => none
        | some res =>
          let ind := match res with
            | .found pos => pos + 1
            | .notFound pos => pos
          let off := offsetsOffset + ind * 8
          if buf.length < off + 8 then none else some (leNat ((buf.drop off).take 8))

/-- `find_leaf_node`: the root comes from `root_node`, every other node is a `read_exact_at` of a whole block -/
def findLeafNodeAux (K : Nat) (x : BIdx) (k : Nat) : Nat → Nat → Option Nat
  | 0, _ => none
  | fuel + 1, off =>
    if off < x.metadata.leavesOffset then
      match (if off = x.metadata.treeOffset then some x.root else BPTree.readExactAt x.file off 4096) with
      | none => none
      | some buf =>
        match keyOffset K buf k with
        | none => none
        | some off' => findLeafNodeAux K x k fuel off'
    else some off

def findLeafNode (K : Nat) (x : BIdx) (k : Nat) : Option Nat :=
  findLeafNodeAux K x k (x.file.length + 1) x.metadata.treeOffset

/-- `leaf_node_buf_size` -/
def leafNodeBufSize (x : BIdx) (leafOff : Nat) : Option Nat :=
  if x.file.length < leafOff then none else some (min (x.file.length - leafOff) 4096)

/-- `deserialize(&buf[off .. off + rhs])` -/
def bufRead (x : BIdx) (buf : List Nat) (off : Nat) : Option RecHeader :=
  if off + x.rhs ≤ buf.length then deserHdr ((buf.drop off).take x.rhs) else none

/-- `read_header_buf` -/
def readHeaderBuf (x : BIdx) (buf : List Nat) (k : Nat) : Option (Option (RecHeader × Nat)) :=
  if x.rhs = 0 then none
  else
    match binSearch (fun i => (x.bufRead buf (x.rhs * i)).map hdrKey) (buf.length / x.rhs) k with
    | none => none
    | some (.notFound _) => some none
    | some (.found m) =>
      match x.bufRead buf (x.rhs * m) with
      | none => none
      | some h => some (some (h, x.rhs * m))

/-- `get_leftmost` -/
def getLeftmostAux (x : BIdx) (buf : List Nat) (k : Nat) : Nat → Nat → RecHeader → Option RecHeader
  | 0, _, _ => none
  | fuel + 1, offset, prev =>
    if offset > 0 then
      let offset := offset - x.rhs
      match x.bufRead buf offset with
      | none => none
      | some cur => if hdrKey cur ≠ k then some prev else getLeftmostAux x buf k fuel offset cur
    else some prev

def getLeftmost (x : BIdx) (buf : List Nat) (k : Nat) (offset : Nat) (prev : RecHeader) : Option RecHeader :=
  if x.rhs = 0 then none else getLeftmostAux x buf k (offset / x.rhs + 2) offset prev

/-- `read_header`: the leaf window is `read_exact_at(leaf_offset, leaf_node_buf_size)` -/
def readHeader (x : BIdx) (leafOff : Nat) (k : Nat) : Option (Option RecHeader) :=
  match x.leafNodeBufSize leafOff with
  | none => none
  | some len =>
    if 4096 < len then none
    else
      match BPTree.readExactAt x.file leafOff len with
      | none => none
      | some buf =>
        match x.readHeaderBuf buf k with
        | none => none
        | some none => some none
        | some (some (h, off)) => (x.getLeftmost buf k off h).map some

/-- `BPTreeFileIndex::get_latest` -/
def getLatest (K : Nat) (x : BIdx) (k : Nat) : Option (Option RecHeader) :=
  match findLeafNode K x k with
  | none => none
  | some leafOff => x.readHeader leafOff k

/-- `go_left` -/
def goLeftAux (x : BIdx) (buf : List Nat) (k : Nat) : Nat → List RecHeader → Nat → Option (List RecHeader)
  | 0, _, _ => none
  | fuel + 1, hs, offset =>
    if x.rhs ≤ offset then
      let start := offset - x.rhs
      match x.bufRead buf start with
      | none => none
      | some rh => if hdrKey rh = k then goLeftAux x buf k fuel (hs ++ [rh]) start else some hs
    else some hs

def goLeft (x : BIdx) (buf : List Nat) (k : Nat) (hs : List RecHeader) (offset : Nat) : Option (List RecHeader) :=
  if x.rhs = 0 then none else goLeftAux x buf k (offset / x.rhs + 1) hs offset

/-- `leaves_end = leaves_offset + record_header_size * records_count` -/
def leavesEnd (x : BIdx) : Nat := x.metadata.leavesOffset + x.rhs * x.header.recordsCount

/-- `go_right_file`: one `read_exact_at` of `rhs` bytes per header -/
def goRightFileAux (x : BIdx) : Nat → List RecHeader → Nat → Option (List RecHeader)
  | 0, _, _ => none
  | fuel + 1, hs, offset =>
    if offset + x.rhs ≤ x.leavesEnd then
      match (BPTree.readExactAt x.file offset x.rhs).bind deserHdr, hs.head? with
      | some h, some h0 =>
        if hdrKey h = hdrKey h0 then goRightFileAux x fuel (hs ++ [h]) (offset + x.rhs) else some hs
      | _, _ => none
    else some hs

def goRightFile (x : BIdx) (hs : List RecHeader) (offset : Nat) : Option (List RecHeader) :=
  if x.rhs = 0 then none else goRightFileAux x (x.header.recordsCount + 1) hs offset

/-- the `while offset + rhs < right_bound` loop of `go_right`, then `go_right_file` -/
def goRightAux (x : BIdx) (buf : List Nat) (leafOff rightBound : Nat) :
    Nat → List RecHeader → Nat → Option (List RecHeader)
  | 0, _, _ => none
  | fuel + 1, hs, offset =>
    if offset + x.rhs < rightBound then
      match x.bufRead buf offset, hs.head? with
      | some rh, some h0 =>
        if hdrKey rh = hdrKey h0 then goRightAux x buf leafOff rightBound fuel (hs ++ [rh]) (offset + x.rhs)
        else some hs
      | _, _ => none
    else x.goRightFile hs (leafOff + offset)

/-- `go_right` -/
def goRight (x : BIdx) (hs : List RecHeader) (buf : List Nat) (leafOff offset : Nat) : Option (List RecHeader) :=
  if x.rhs = 0 then none
  else if x.leavesEnd < leafOff then none
  else
    let rightBound := min (x.leavesEnd - leafOff) buf.length
    goRightAux x buf leafOff rightBound (buf.length / x.rhs + 1) hs (offset + x.rhs)

/-- `read_headers` -/
def readHeaders (x : BIdx) (leafOff : Nat) (k : Nat) : Option (Option (List RecHeader)) :=
  match x.leafNodeBufSize leafOff with
  | none => none
  | some len =>
    if 4096 < len then none
    else
      match BPTree.readExactAt x.file leafOff len with
      | none => none
      | some buf =>
        match x.readHeaderBuf buf k with
        | none => none
        | some none => some none
        | some (some (h, off)) =>
          match x.goLeft buf (hdrKey h) [] off with
          | none => none
          | some hs =>
            let hs := if hs.length > 1 then hs.reverse else hs
            (x.goRight (hs ++ [h]) buf leafOff off).map some

/-- `BPTreeFileIndex::find_by_key` -/
def findByKey (K : Nat) (x : BIdx) (k : Nat) : Option (Option (List RecHeader)) :=
  match findLeafNode K x k with
  | none => none
  | some leafOff => x.readHeaders leafOff k

/-- the `try_fold` of `get_records_headers`: `deserialize(&records_buf[i * rhs ..])` for `i` in `from .. from + n` -/
def loadHeaders (x : BIdx) (recordsBuf : List Nat) : Nat → Nat → Option (List RecHeader)
  | 0, _ => some []
  | n + 1, i =>
    if recordsBuf.length < i * x.rhs then none
    else
      match deserHdr (recordsBuf.drop (i * x.rhs)) with
      | none => none
      | some h =>
        match loadHeaders x recordsBuf n (i + 1) with
        | none => none
        | some hs => some (h :: hs)

/-- `get_records_headers(blob_size)`: `validate` (the hash check is not modelled), `records_buf =
    buf[leaves_offset .. file_size]`, the headers grouped by key, each vector reversed -/
def load (K blobSize : Nat) (x : BIdx) : Option (InMem RecHeader) :=
  if !validateHeader K blobSize x.header then none
  else if x.file.length < x.metadata.leavesOffset then none
  else
    match x.loadHeaders (x.file.drop x.metadata.leavesOffset) x.header.recordsCount 0 with
    | none => none
    | some hs =>
      let m := hs.foldl (fun acc h => IndexFile.mapPush h acc) []
      some (m.map fun kv => (kv.1, if kv.2.length > 1 then kv.2.reverse else kv.2))

/-- `read_meta`: `meta_size` bytes at `header.serialized_size()` -/
def readMeta (x : BIdx) : Option (List Nat) :=
  BPTree.readExactAt x.file x.header.serializedSize x.header.metaSize

/-- `read_meta_at(i)` -/
def readMetaAt (x : BIdx) (i : Nat) : Option Nat :=
  if x.header.metaSize ≤ i then none
  else (BPTree.readExactAt x.file (x.header.serializedSize + i) 1).bind (fun b => b[0]?)

end BIdx

/-! ## the byte image a dump writes -/

/-- `record::Header` as the byte serializer of `Pearl/Model/BPTreeBytes.lean` takes it -/
def toRaw (h : RecHeader) : RawHeader :=
  { key := hdrKey h, metaSize := h.metaSize, dataSize := h.dataSize, flags := h.flags.toNat,
    blobOffset := h.blobOffset, timestamp := h.timestamp, dataChecksum := h.dataChecksum.toNat,
    headerChecksum := h.headerChecksum.toNat }

/-- the structured file with its record headers in the form the byte serializer takes -/
def rawFile (f : IndexFile RecHeader) : IndexFile RawHeader :=
  { p := f.p, recordsCount := f.recordsCount, metaLen := f.metaLen, treeOffset := f.treeOffset,
    leavesOffset := f.leavesOffset, nodes := f.nodes, leaves := f.leaves.map toRaw }

/-- the bytes `from_records` leaves on disk for the structured file `f` with filter section `metaBuf`, for a blob of
    `blobSize` bytes.  `sha` stands for SHA-256 (`IndexHashCalculator::get_hash` of the buffer serialized with a
    zeroed hash and the `written` bit clear). -/
def imageOf (sha : List Nat → List Nat) (f : IndexFile RecHeader) (metaBuf : List Nat) (blobSize : Nat) : List Nat :=
  indexFileBytes (rawFile f) metaBuf
    (sha (indexFileBytesUnwritten (rawFile f) metaBuf (List.replicate 32 0) blobSize)) blobSize

/-! ## the storage with every dumped index held as its byte image

The same storage as `CState` (`Pearl/Model/EndToEnd.lean` and the first half of this file), operation by operation;
the only difference is the `OnDisk` arm of the index: it holds the bytes of the index file, and every access goes
through `BIdx` (`from_file` first: the header, the tree meta and the root node the Rust struct caches are what
`from_file` reads from the file).  There is no history variable.  `sha` stands for SHA-256.
-/

/-- `State<FileIndex, K>` with the file index as bytes -/
inductive BIndex where
  | mem (m : InMem RecHeader)
  /-- `OnDisk`: the bytes of the index file, and `bloom_offset` -/
  | disk (img : List Nat) (bloomOffset : Nat)

namespace BIndex

def onDisk : BIndex → Bool
  | mem _ => false
  | disk .. => true

/-- `get_latest` before classification -/
def getLatest (K : Nat) : BIndex → Nat → Option (Option RecHeader)
  | mem m, k => some (memLatest m k)
  | disk img _, k => (BIdx.fromFile img).bind (fun x => BIdx.getLatest K x k)

/-- `get_all_with_deletion_marker` -/
def getAllMarked (K : Nat) : BIndex → Nat → Option (List RecHeader)
  | mem m, k => some (cutDel ((memAll m k).getD []))
  | disk img _, k => (BIdx.fromFile img).bind (fun x => (BIdx.findByKey K x k).map (fun o => cutDel (o.getD [])))

end BIndex

/-- `Blob<K>`: id, file, index with its filter -/
structure BBlob where
  id : Nat
  file : List UInt8
  index : BIndex
  filter : Combined

namespace BBlob

def openNew (cfg : Cfg) (id : Nat) : BBlob :=
  { id := id, file := serBlobHeader, index := .mem [], filter := newFilter cfg }

def indexPush (cfg : Cfg) (b : BBlob) (k : Key) (h : RecHeader) : Option BBlob :=
  match b.index with
  | .mem m => some { b with index := .mem (memPush k h m), filter := b.filter.add cfg.h k }
  | .disk .. => none

/-- `Blob::write` / `write_mut` -/
def writeRec (cfg : Cfg) (b : BBlob) (r : Rec) : BBlob :=
  let R := recordOf cfg.klen r (dataOf r.data)
  let file' := appendRecord b.file R
  let hdr := writtenHeader R b.file.length
  match ({ b with file := file' } : BBlob).indexPush cfg r.key hdr with
  | some b' => b'
  | none => { b with file := file' }

/-- `Blob::load_index` → `load_in_memory`: `get_records_headers(blob_size)`, `read_meta`, `deserialize_filters` -/
def loadIndex (cfg : Cfg) (b : BBlob) : BBlob :=
  match b.index with
  | .mem _ => b
  | .disk img _ =>
    match BIdx.fromFile img with
    | none => b
    | some x =>
      match x.load cfg.klen b.file.length, x.readMeta.bind (combinedOfFile cfg.bloomIsOn) with
      | some m, some (flt, _) => { b with index := .mem m, filter := flt }
      | _, _ => b

/-- `Blob::dump` → `dump_in_memory`: `serialize_filters`, `FileIndex::from_records`: the B+tree serializer with
    the real parameters and the byte image of its result -/
def dump (cfg : Cfg) (sha : List Nat → List Nat) (b : BBlob) : BBlob :=
  match b.index with
  | .disk .. => b
  | .mem m =>
    if m.isEmpty then b
    else
      match serializeFilters cfg.klen b.filter with
      | none => b
      | some (metaBuf, off) =>
        { b with index := .disk (imageOf sha (build (Params.real cfg.klen) metaBuf.length m) metaBuf b.file.length) off }

/-- `Blob::check_filter`: an off-loaded bloom filter reads its bits with `read_meta_at` -/
def checkFilter (cfg : Cfg) (b : BBlob) (k : Key) : FilterResult :=
  match b.index with
  | .mem m => if (m.lookup k).isSome then .needAdditionalCheck else .notContains
  | .disk img off =>
    b.filter.contains cfg.h (fun i => (BIdx.fromFile img).bind (fun x => x.readMetaAt (i + off))) k

def indexLatest (cfg : Cfg) (b : BBlob) (k : Key) : Except CErr (ReadResult CEntry) :=
  match b.index.getLatest cfg.klen k with
  | none => .error .index
  | some none => .ok .notFound
  | some (some h) => if h.isDeleted then .ok (.deleted h.timestamp) else .ok (.found ⟨h, b.file⟩)

def readAllEntriesMarked (cfg : Cfg) (b : BBlob) (k : Key) : Except CErr (List CEntry) :=
  match b.index.getAllMarked cfg.klen k with
  | none => .error .index
  | some hs => .ok (hs.map (fun h => ⟨h, b.file⟩))

def getEntryWithMeta (cfg : Cfg) (b : BBlob) (k : Key) (m : Meta) : Except CErr (ReadResult CEntry) :=
  match b.index.getAllMarked cfg.klen k with
  | none => .error .index
  | some hs =>
    let deletedTs : Option Nat := (hs.getLast?.filter (fun h => h.isDeleted)).map (fun h => h.timestamp)
    let hs' := if deletedTs.isSome then hs.take (hs.length - 1) else hs
    match CBlob.filterEntries m (hs'.map (fun h => ⟨h, b.file⟩)) with
    | .error e => .error e
    | .ok (some e) => .ok (.found e)
    | .ok none =>
      match deletedTs with
      | some ts => .ok (.deleted ts)
      | none => .ok .notFound

def getLatestEntryM (cfg : Cfg) (b : BBlob) (k : Key) (m : Option Meta) : Except CErr (ReadResult CEntry) :=
  if b.checkFilter cfg k == .notContains then .ok .notFound
  else
    match m with
    | some m => b.getEntryWithMeta cfg k m
    | none => b.indexLatest cfg k

def deleteM (cfg : Cfg) (b : BBlob) (k : Key) (ts : Nat) (m : Option Meta) (oip : Bool) : BBlob × Bool :=
  let present : Bool :=
    match b.indexLatest cfg k with
    | .ok r => r.isFound
    | .error _ => false
  if !oip || present then
    ((b.loadIndex cfg).writeRec cfg { key := k, ts := ts, del := true, mt := m.getD none, data := ⟨0, 0⟩ }, true)
  else (b, false)

def offloadFilter (b : BBlob) : BBlob × Nat :=
  match b.index with
  | .disk .. => let (f, n) := b.filter.offload; ({ b with filter := f }, n)
  | .mem _ => (b, 0)

end BBlob

def childOpsB (cfg : Cfg) : ChildOps Combined BBlob :=
  { filterOf := fun b => some b.filter
    checkFilter := BBlob.checkFilter cfg
    offload := fun b _ _ => b.offloadFilter }

structure BState where
  active : Option BBlob
  cont : Container Combined BBlob
  nextId : Nat

def mapChildrenB (c : Container Combined BBlob) (f : BBlob → BBlob) : Container Combined BBlob :=
  { c with children := c.children.map (fun o => o.map (fun lf => { lf with data := f lf.data })) }

def modifyChildB (c : Container Combined BBlob) (i : Nat) (f : BBlob → BBlob) : Container Combined BBlob :=
  { c with children := c.children.modify i (fun o => o.map (fun lf => { lf with data := f lf.data })) }

def closedBlobsB (c : Container Combined BBlob) : List BBlob := c.children.filterMap (fun o => o.map (·.data))

def foldEntriesB (f : BBlob → Except CErr (ReadResult CEntry)) :
    List BBlob → ReadResult CEntry → Except CErr (ReadResult CEntry)
  | [], acc => .ok acc
  | b :: bs, acc =>
    match f b with
    | .error e => .error e
    | .ok r => foldEntriesB f bs (entryLatest acc r)

def collectEntriesB (f : BBlob → Except CErr (List CEntry)) : List BBlob → Except CErr (List (List CEntry))
  | [] => .ok []
  | b :: bs =>
    match f b with
    | .error e => .error e
    | .ok es =>
      match collectEntriesB f bs with
      | .error e => .error e
      | .ok r => .ok (es :: r)

def insertByIdB (b : BBlob) : List BBlob → List BBlob
  | [] => [b]
  | c :: cs => if b.id < c.id then b :: c :: cs else c :: insertByIdB b cs

def sortByIdB (l : List BBlob) : List BBlob := l.foldr insertByIdB []

/-- `Blob::from_file` when there is no index file -/
def regenB (cfg : Cfg) (old : BBlob) : Option BBlob :=
  match blobHeaderFromFile old.file with
  | .error _ => none
  | .ok _ =>
    let b0 : BBlob := { old with index := .mem [], filter := newFilter cfg }
    if old.file.length > blobHeaderSize then
      match rawRecordsLoad cfg.klen cfg.validateData old.file with
      | .error _ => none
      | .ok hs => some (hs.foldl (fun b h => (b.indexPush cfg (hdrKey h) h).getD b) b0)
    else some b0

def regenAllB (cfg : Cfg) : List BBlob → Option (List BBlob)
  | [] => some []
  | b :: bs =>
    match regenB cfg b, regenAllB cfg bs with
    | some b', some bs' => some (b' :: bs')
    | _, _ => none

namespace BState

def emptyCont (cfg : Cfg) : Container Combined BBlob := Container.new cfg.group 1

def createActive (cfg : Cfg) (c : BState) : BState :=
  { c with active := some (BBlob.openNew cfg c.nextId), nextId := c.nextId + 1 }

def ensureActive (cfg : Cfg) (c : BState) : BState :=
  match c.active with
  | some _ => c
  | none => c.createActive cfg

def init (cfg : Cfg) : BState :=
  ({ active := none, cont := emptyCont cfg, nextId := 0 } : BState).createActive cfg

def consulted (cfg : Cfg) (c : BState) (k : Key) : List BBlob :=
  c.active.toList ++
    (Container.iterPossibleStack (fops cfg) c.cont true k).filterMap (fun j => (c.cont.getChild j).map (·.data))

def getLatestEntryM (cfg : Cfg) (c : BState) (k : Key) (m : Option Meta) : Except CErr (ReadResult CEntry) :=
  foldEntriesB (fun b => b.getLatestEntryM cfg k m) (c.consulted cfg k) .notFound

def containsWith (cfg : Cfg) (c : BState) (k : Key) (m : Option Meta) : Except CErr (ReadResult Nat) :=
  match c.getLatestEntryM cfg k m with
  | .error e => .error e
  | .ok r => .ok (r.map (·.hdr.timestamp))

/-- `read` (`m = none`) / `read_with` -/
def readWithOpt (cfg : Cfg) (c : BState) (k : Key) (m : Option Meta) : Except CErr (ReadResult (List UInt8)) :=
  match c.getLatestEntryM cfg k m with
  | .error e => .error e
  | .ok (.found e) =>
    match entryLoad e.file e.hdr with
    | .error le => .error (.load le)
    | .ok (_, data) => .ok (.found data)
  | .ok (.deleted ts) => .ok (.deleted ts)
  | .ok .notFound => .ok .notFound

def readAllMarked (cfg : Cfg) (c : BState) (k : Key) : Except CErr (List CEntry) :=
  match collectEntriesB (fun b => b.readAllEntriesMarked cfg k) (c.consulted cfg k) with
  | .error e => .error e
  | .ok per => .ok (mergeEntries per)

def readAll (cfg : Cfg) (c : BState) (k : Key) : Except CErr (List CEntry) :=
  match c.readAllMarked cfg k with
  | .error e => .error e
  | .ok es =>
    match es.getLast? with
    | some e => if e.hdr.isDeleted then .ok (es.take (es.length - 1)) else .ok es
    | none => .ok es

def writeWithOpt (cfg : Cfg) (c : BState) (k : Key) (ts : Nat) (m : Option Meta) (d : Data) : BState :=
  let c := c.ensureActive cfg
  let dup : Except CErr Bool :=
    if cfg.allowDup then .ok false
    else
      match c.containsWith cfg k m with
      | .error e => .error e
      | .ok r => .ok r.isFound
  match dup with
  | .error _ => c
  | .ok true => c
  | .ok false =>
    match c.active with
    | none => c
    | some a =>
      { c with active := some (a.writeRec cfg { key := k, ts := ts, del := false, mt := m.getD none, data := d }) }

def deleteWithOpt (cfg : Cfg) (c : BState) (k : Key) (ts : Nat) (m : Option Meta) (oip : Bool) : BState × Nat :=
  let c := if oip then c else c.ensureActive cfg
  let act := c.active.map (fun a => (a.deleteM cfg k ts m oip).1)
  let nAct := match c.active with
    | some a => if (a.deleteM cfg k ts m oip).2 then 1 else 0
    | none => 0
  let nClosed := ((closedBlobsB c.cont).filter (fun b => (b.deleteM cfg k ts m true).2)).length
  ({ c with active := act, cont := mapChildrenB c.cont (fun b => (b.deleteM cfg k ts m true).1) }, nAct + nClosed)

def closeActive (cfg : Cfg) (c : BState) : Except ErrKind BState :=
  match c.active with
  | none => .error .activeBlobDoesntExist
  | some a => .ok { c with active := none, cont := (c.cont.push (fops cfg) (childOpsB cfg) a).1 }

def tryCreateActive (cfg : Cfg) (c : BState) : Except ErrKind BState :=
  match c.active with
  | some _ => .error .activeBlobExists
  | none => .ok (c.createActive cfg)

def restoreActive (cfg : Cfg) (c : BState) : Except ErrKind BState :=
  match c.active with
  | some _ => .error .activeBlobExists
  | none =>
    match c.cont.lastId with
    | none => .error .uninitialized
    | some i =>
      match (modifyChildB c.cont i (BBlob.loadIndex cfg)).pop with
      | (cont', some b) => .ok { c with active := some b, cont := cont' }
      | (_, none) => .error .uninitialized

def replaceActive (cfg : Cfg) (c : BState) : BState :=
  let old := c.active
  let c := c.createActive cfg
  match old with
  | none => c
  | some a => { c with cont := (c.cont.push (fops cfg) (childOpsB cfg) a).1 }

def settle (cfg : Cfg) (sha : List Nat → List Nat) (c : BState) : BState :=
  { c with cont := mapChildrenB c.cont (BBlob.dump cfg sha) }

def blobs (c : BState) : List BBlob := closedBlobsB c.cont ++ c.active.toList

def restart (cfg : Cfg) (sha : List Nat → List Nat) (c : BState) (lazy : Bool) : BState :=
  match regenAllB cfg (sortByIdB c.blobs) with
  | none => c
  | some bs =>
    let maxNext := bs.foldl (fun m b => max m (b.id + 1)) 0
    if lazy then
      { active := none
        cont := Container.extend (fops cfg) (childOpsB cfg) (emptyCont cfg) (bs.map (BBlob.dump cfg sha))
        nextId := maxNext }
    else
      match bs.getLast? with
      | none => ({ active := none, cont := emptyCont cfg, nextId := 0 } : BState).createActive cfg
      | some a =>
        { active := some a
          cont := Container.extend (fops cfg) (childOpsB cfg) (emptyCont cfg) (bs.dropLast.map (BBlob.dump cfg sha))
          nextId := maxNext }

def stepB (cfg : Cfg) (sha : List Nat → List Nat) (c : BState) : MOp → BState
  | .write k ts m d => c.writeWithOpt cfg k ts m d
  | .delete k ts m oip => (c.deleteWithOpt cfg k ts m oip).1
  | .closeActive => match c.closeActive cfg with | .ok c' => c' | .error _ => c
  | .createActive => match c.tryCreateActive cfg with | .ok c' => c' | .error _ => c
  | .restoreActive => match c.restoreActive cfg with | .ok c' => c' | .error _ => c
  | .replaceActive => c.replaceActive cfg
  | .settle => c.settle cfg sha
  | .restart lazy => c.restart cfg sha lazy

def runB (cfg : Cfg) (sha : List Nat → List Nat) (c : BState) (ops : List MOp) : BState :=
  ops.foldl (stepB cfg sha) c

end BState

/-! ## from the structured storage to the byte-level storage -/

/-- the index with the structured file replaced by its byte image, for a blob file of `blobSize` bytes -/
def CIndex.toB (sha : List Nat → List Nat) (blobSize : Nat) : CIndex → BIndex
  | .mem m => .mem m
  | .disk f metaBuf off => .disk (imageOf sha f metaBuf blobSize) off

/-- the physical part of a blob, with its dumped index as bytes -/
def CBlob.toB (sha : List Nat → List Nat) (b : CBlob) : BBlob :=
  { id := b.id, file := b.file, index := b.index.toB sha b.file.length, filter := b.filter }

/-- the container with other data in its children -/
def mapData {C C' : Type} (g : C → C') (c : Container Combined C) : Container Combined C' :=
  { inner := c.inner, children := c.children.map (fun o => o.map (fun lf => { parent := lf.parent, data := g lf.data })),
    root := c.root, groupSize := c.groupSize, level := c.level }

def CState.toB (sha : List Nat → List Nat) (c : CState) : BState :=
  { active := c.active.map (CBlob.toB sha), cont := mapData (CBlob.toB sha) c.cont, nextId := c.nextId }

end Pearl.E2E
