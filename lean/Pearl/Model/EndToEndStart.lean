import Pearl.Model.EndToEndMeta
/-
End-to-end composition, the two remaining start-up / filter paths (nothing of `Pearl/Model/EndToEnd.lean`,
`EndToEndMeta.lean` is changed; everything here is on the byte-level storage `BState`, whose on-disk indexes are
the bytes of the index files):

  (a) START-UP WITH INDEX FILES.  `restartWithIndexes`: close + `init` on a directory in which every blob file may
      have an index file next to it — ANY byte string.  Per blob `Blob::from_file`:
        header check of the blob file;
        if `index_name.exists()`: `Index::from_file(name, cfg, io, blob_file.size())` =
            `BPTreeFileIndex::from_file` (`read_index_header`, `read_tree_meta`, `check_file_size`, `read_root`:
            `BIdx.fromFile`), `validate(blob_size)` (`written` bit, version, key size, `blob_size`, magic:
            `validateHeader`), `read_meta`, `deserialize_filters`;
          `Ok`  → the index is used as it is (`State::OnDisk`), with the filters and the `bloom_offset` that
                  `deserialize_filters` returned;
          `Err` → `is_index_corrupted = true`, `Index::new` (no I/O errors other than reading past the end of the
                  file exist in the model, so every `Err` takes this arm);
          a panic (`split_at` beyond the end of the filter section in `deserialize_filters`) ends `init`;
        then `if is_index_corrupted || size > header_size { try_regenerate_index() }` (which returns at once when the
        index is on disk, else scans the blob with `RawRecords`).
      Storage level (`init_from_existing`): blobs sorted by id; with `lazy = false` the last one is popped and
      `load_index()` is called on it (`Blob::load_index`: `index.load(file_size)`, on `Err` `index.clear()` +
      `try_regenerate_index()`); every other blob is `dump()`ed (nothing for an on-disk index) and pushed into a
      fresh container.
      Sources: `src/blob/core.rs` (`from_file`, `try_regenerate_index`, `load_index`, `dump`),
      `src/blob/index/core.rs` (`IndexStruct::from_file`, `deserialize_filters`, `load`, `load_in_memory`, `clear`),
      `src/blob/index/bptree/core.rs` (`from_file`, `validate`, `check_file_size`, `read_meta`),
      `src/storage/core.rs` (`init_from_existing`, `pop_active`, `read_blobs`).
      A failing `Blob::from_file` makes `restartWithIndexes` return `none` (`init` fails; the quarantine of
      unreadable blobs — `should_save_corrupted_blob`, `ignore_corrupted` — is the subject of C15/C16 and is not
      repeated here, exactly as in `BState.restart`).

  (b) BLOOM OFF-LOADING as an operation (second half of the file).
-/
namespace Pearl.E2E
open Pearl Pearl.BPTree

/-! # (a) start-up with index files -/

/-- the two `split_at` calls of `deserialize_filters` (`buf.split_at(size_of::<u64>())`,
    `rest_buf.split_at(range_size)`) panic when the buffer is shorter than the split point -/
def deserializeFiltersPanics (buf : List Nat) : Bool :=
  decide (buf.length < 8) || decide ((buf.drop 8).length < unle (buf.take 8))

/-- the outcome of `IndexStruct::from_file(name, config, iodriver, blob_size)` on the bytes of an index file -/
inductive IdxOpen where
  /-- `Ok(index)`: `State::OnDisk`, with the deserialized filters and `bloom_offset` -/
  | accepted (flt : Combined) (bloomOffset : Nat)
  /-- `Err(_)`: the caller sets `is_index_corrupted` and starts from `Index::new` -/
  | rejected
  /-- a panic inside `deserialize_filters` -/
  | panic
deriving DecidableEq, Repr

/-- `IndexStruct::from_file(name, config, iodriver, blob_size)` -/
def openIndex (cfg : Cfg) (blobSize : Nat) (img : List Nat) : IdxOpen :=
  match BIdx.fromFile img with
  | none => .rejected
  | some x =>
    if !validateHeader cfg.klen blobSize x.header then .rejected
    else
      match x.readMeta with
      | none => .rejected
      | some metaBuf =>
        if deserializeFiltersPanics metaBuf then .panic
        else
          match combinedOfFile cfg.bloomIsOn metaBuf with
          | none => .rejected
          | some (flt, off) => .accepted flt off

/-- `Blob::try_regenerate_index`: nothing for an on-disk index; else `RawRecords::start / load` over the blob file
    and `index.push(header.key().into(), header)` for every header; `none` = `Err` -/
def tryRegenerateB (cfg : Cfg) (b : BBlob) : Option BBlob :=
  match b.index with
  | .disk .. => some b
  | .mem _ =>
    match rawRecordsLoad cfg.klen cfg.validateData b.file with
    | .error _ => none
    | .ok hs => some (hs.foldl (fun b h => (b.indexPush cfg (hdrKey h) h).getD b) b)

/-- `Blob::from_file(path, iodriver, config)` for the blob file `old.file`, with the bytes of the index file next to
    it (`idx = none`: `index_name.exists()` is false).  `none` = `Err` or a panic. -/
def fromFileB (cfg : Cfg) (old : BBlob) (idx : Option (List Nat)) : Option BBlob :=
  match blobHeaderFromFile old.file with
  | .error _ => none
  | .ok _ =>
    /- `Index::new` -/
    let fresh : BBlob := { old with index := .mem [], filter := newFilter cfg }
    /- the index the blob starts with, and `is_index_corrupted` -/
    let opened : Option (BBlob × Bool) :=
      match idx with
      | none => some (fresh, false)
      | some img =>
        match openIndex cfg old.file.length img with
        | .accepted flt off => some ({ old with index := .disk img off, filter := flt }, false)
        | .rejected => some (fresh, true)
        | .panic => none
    match opened with
    | none => none
    | some (b, corrupted) =>
      if corrupted || decide (old.file.length > blobHeaderSize) then tryRegenerateB cfg b else some b

/-- `Blob::load_index`: `index.load(file_size)` — `get_records_headers(blob_size)`, `read_meta`,
    `deserialize_filters` on the opened file index —, and when that fails `index.clear()` (empty in-memory map,
    `filter.clear_filter()`) followed by `try_regenerate_index()` -/
def loadIndexOrRegenB (cfg : Cfg) (b : BBlob) : Option BBlob :=
  match b.index with
  | .mem _ => some b
  | .disk img _ =>
    let loaded : Option (InMem RecHeader × Combined) :=
      (BIdx.fromFile img).bind fun x =>
        match x.load cfg.klen b.file.length, x.readMeta.bind (combinedOfFile cfg.bloomIsOn) with
        | some m, some (flt, _) => some (m, flt)
        | _, _ => none
    match loaded with
    | some (m, flt) => some { b with index := .mem m, filter := flt }
    | none => tryRegenerateB cfg { b with index := .mem [], filter := b.filter.clear }

/-- `read_blobs`: `Blob::from_file` for every blob file, each with the index file the directory holds for its id -/
def startAllB (cfg : Cfg) (dir : Nat → Option (List Nat)) : List BBlob → Option (List BBlob)
  | [] => some []
  | b :: bs =>
    match fromFileB cfg b (dir b.id), startAllB cfg dir bs with
    | some b', some bs' => some (b' :: bs')
    | _, _ => none

namespace BState

/-- close + `init` on the same directory WITH index files: `dir id` is the content of the index file of blob `id`,
    if there is one — any byte string.  `none` = `init` fails. -/
def restartWithIndexes (cfg : Cfg) (sha : List Nat → List Nat) (c : BState) (dir : Nat → Option (List Nat))
    (lazy : Bool) : Option BState :=
  match startAllB cfg dir (sortByIdB c.blobs) with
  | none => none
  | some bs =>
    let maxNext := bs.foldl (fun m b => max m (b.id + 1)) 0
    if lazy then
      some
        { active := none
          cont := Container.extend (fops cfg) (childOpsB cfg) (emptyCont cfg) (bs.map (BBlob.dump cfg sha))
          nextId := maxNext }
    else
      match bs.getLast? with
      | none => some (({ active := none, cont := emptyCont cfg, nextId := 0 } : BState).createActive cfg)
      | some a =>
        match loadIndexOrRegenB cfg a with
        | none => none
        | some a' =>
          some
            { active := some a'
              cont := Container.extend (fops cfg) (childOpsB cfg) (emptyCont cfg)
                (bs.dropLast.map (BBlob.dump cfg sha))
              nextId := maxNext }

end BState

/-- the index file the storage itself leaves on disk for a blob that holds exactly the records `recs`: the records
    are written one by one into a new blob (`Blob::write`) and the blob is dumped (`Blob::dump`); `none` when
    nothing is dumped (no records) -/
def dumpedImage (cfg : Cfg) (sha : List Nat → List Nat) (recs : List Rec) : Option (List Nat) :=
  match ((recs.foldl (fun b r => b.writeRec cfg r) (BBlob.openNew cfg 0)).dump cfg sha).index with
  | .disk img _ => some img
  | .mem _ => none

/-- the length of the blob file that holds exactly the records `recs` -/
def blobFileLen (cfg : Cfg) (recs : List Rec) : Nat :=
  (recs.foldl (fun b r => b.writeRec cfg r) (BBlob.openNew cfg 0)).file.length

/-- what may lie next to a blob file that holds the records `recs` (the cases of the start-up theorem) -/
inductive IdxChoice (cfg : Cfg) (sha : List Nat → List Nat) (recs : List Rec) : Option (List Nat) → Prop where
  /-- no index file -/
  | absent : IdxChoice cfg sha recs none
  /-- (i) the image the storage dumped for the current records -/
  | current (img : List Nat) (h : dumpedImage cfg sha recs = some img) : IdxChoice cfg sha recs (some img)
  /-- (ii) stale: the image the storage dumped when the blob held a strict prefix of the records -/
  | stale (n : Nat) (img : List Nat) (hn : n < recs.length) (h : dumpedImage cfg sha (recs.take n) = some img) :
      IdxChoice cfg sha recs (some img)
  /-- (iii) any byte string the validation rejects -/
  | rejected (img : List Nat) (h : openIndex cfg (blobFileLen cfg recs) img = .rejected) :
      IdxChoice cfg sha recs (some img)

/-! # (b) bloom off-loading as an operation

`Blob::offload_buffer(_, _)` = `index.offload_filter()`: for an on-disk index `CombinedFilter::offload_filter` drops
the bit vector of the bloom filter (`Bloom::offload_from_memory`, `inner = None`); afterwards `Bloom::contains` falls
through to `contains_in_file`, which reads single bytes of the filter section of the index file with
`read_meta_at(index + bloom_offset)` (`BloomDataProvider::read_byte`) — `CBlob.checkFilter` / `BBlob.checkFilter`
already go this way (`metaReadByte`, `BIdx.readMetaAt`).  An in-memory index is not touched.
`Storage::offload_buffer(needed_memory, level)` = `HierarchicalFilters::offload_buffer` on the container of the closed
blobs (`Container.offload`: children in order until enough was freed, then — for `level ≥` the level of the
container — the filters of the inner nodes, bottom up); the active blob is not visited.
Sources: `src/blob/core.rs` (`impl BloomProvider for Blob`), `src/blob/index/core.rs` (`offload_filter`, `read_byte`),
`src/filter/{bloom,combined,hierarchical}.rs`, `src/storage/core.rs` (`offload_buffer`).
-/

/-- operations, with bloom off-loading -/
inductive OOp where
  /-- an operation of `MOp` -/
  | op (o : MOp)
  /-- `Blob::offload_buffer` of the closed blob in slot `j` -/
  | offloadBlob (j : Nat)
  /-- `Storage::offload_buffer(needed_memory, level)` -/
  | offloadBuffer (needed level : Nat)
deriving Repr, Inhabited

/-- the history without the off-loading calls -/
def OOp.erase : List OOp → List MOp
  | [] => []
  | .op o :: rest => o :: OOp.erase rest
  | _ :: rest => OOp.erase rest

namespace CState

/-- `get_child_mut(j)` + `offload_buffer` of the blob -/
def offloadBlob (c : CState) (j : Nat) : CState :=
  { c with cont := modifyChild c.cont j (fun b => b.offloadFilter.1) }

/-- `Storage::offload_buffer(needed_memory, level)`: `(state afterwards, freed bytes)` -/
def offloadBuffer (cfg : Cfg) (c : CState) (needed level : Nat) : CState × Nat :=
  let r := Container.offload (fops cfg) (childOps cfg) c.cont needed level
  ({ c with cont := r.1 }, r.2)

def stepO (cfg : Cfg) (c : CState) : OOp → CState
  | .op o => c.stepM cfg o
  | .offloadBlob j => c.offloadBlob j
  | .offloadBuffer needed level => (c.offloadBuffer cfg needed level).1

def runO (cfg : Cfg) (c : CState) (ops : List OOp) : CState := ops.foldl (stepO cfg) c

end CState

namespace BState

def offloadBlob (c : BState) (j : Nat) : BState :=
  { c with cont := modifyChildB c.cont j (fun b => b.offloadFilter.1) }

def offloadBuffer (cfg : Cfg) (c : BState) (needed level : Nat) : BState × Nat :=
  let r := Container.offload (fops cfg) (childOpsB cfg) c.cont needed level
  ({ c with cont := r.1 }, r.2)

def stepBO (cfg : Cfg) (sha : List Nat → List Nat) (c : BState) : OOp → BState
  | .op o => c.stepB cfg sha o
  | .offloadBlob j => c.offloadBlob j
  | .offloadBuffer needed level => (c.offloadBuffer cfg needed level).1

def runBO (cfg : Cfg) (sha : List Nat → List Nat) (c : BState) (ops : List OOp) : BState :=
  ops.foldl (stepBO cfg sha) c

end BState

/-! # (a'), (b) together: the storage WITH its directory of index files

The index files a history leaves on disk: `Blob::dump` writes the file of the blob (`FileIndex::from_records`, after
`clean_file`), `Blob::load_index` reads it and leaves it where it is, nothing ever removes one.  So after an operation
the file of every blob whose index is on disk is the image that blob holds, and every other file is what it was.
`stepD` is `stepBO` on the storage together with this book-keeping, except that a `restart` is the REAL start-up: it
reads the index files that are there (`restartWithIndexes`). -/

/-- the index files after an operation that left the storage `b` -/
def dirAfter (dir : Nat → Option (List Nat)) (b : BState) : Nat → Option (List Nat) := fun id =>
  match b.blobs.find? (fun x => x.id == id) with
  | some x =>
    match x.index with
    | .disk img _ => some img
    | .mem _ => dir id
  | none => dir id

/-- one operation on the storage with its directory; `restart` starts from the files that are there (a failing `init`
    leaves everything as it is) -/
def stepD (cfg : Cfg) (sha : List Nat → List Nat) (st : BState × (Nat → Option (List Nat))) :
    OOp → BState × (Nat → Option (List Nat))
  | .op (.restart lazy) =>
    match st.1.restartWithIndexes cfg sha st.2 lazy with
    | some b' => (b', dirAfter st.2 b')
    | none => st
  | op => (st.1.stepBO cfg sha op, dirAfter st.2 (st.1.stepBO cfg sha op))

def runD (cfg : Cfg) (sha : List Nat → List Nat) (st : BState × (Nat → Option (List Nat))) (ops : List OOp) :
    BState × (Nat → Option (List Nat)) :=
  ops.foldl (stepD cfg sha) st

end Pearl.E2E
