import Pearl.Model.Record
import Pearl.Model.Crash
/-
L5/L6 fault layer (C11 "I/O fault containment"): ONE blob, its file, its in-memory index, and write
steps whose positional writes may fail.

Sources (as repaired):
* src/io/unix/sync.rs `write_append_writable_data`: `offset = size.fetch_add(len)` happens BEFORE the
  pwrite(s); on an error the counter stays advanced. Blob files are opened for positional writes (no
  `O_APPEND`), so every pwrite lands at `offset`. `write_data`: `Single` = one `write_all_at`,
  `Double` = `write_all_at(b1, off)` and then `write_all_at(b2, off + b1.len())`.
  `write_all_at` loops over `pwrite`; an error after `n` bytes leaves those `n` bytes in the file.
* src/blob/core.rs `Blob::write`: `write_to_file(..).await?` then `index.push(..)?` — the index is
  touched only after the write succeeded; `push` fails on an index that is on disk.
* src/blob/core.rs `Blob::dump`: nothing when the index is on disk, else `fsyncdata()?` and
  `index.dump(file_size())`; src/blob/index/core.rs `dump_in_memory`: `mem::take` of the headers,
  `Ok(0)` when there are none, `FileIndex::from_records(.., blob_size)`; on any error the headers are
  put back.
* src/blob/index/simple.rs / bptree `validate(blob_size)`: an index file is accepted at start-up only if
  its `blob_size` field equals the length of the blob file.

The file is its bytes plus the reservation counter `size` (`FileInner::size`); `size` can exceed
`bytes.length` after a failed write. A positional write beyond the end zero-fills the hole (`pwrite` of
Pearl/Model/Record.lean), as a sparse file reads.
Core-only imports.
-/
namespace Pearl.Fault
open Pearl

/-- a blob file: content and the reservation counter `FileInner::size` -/
structure FFile where
  bytes : List UInt8
  size : Nat
deriving DecidableEq, Repr, Inhabited

/-- what happens to the positional write(s) of one record -/
inductive Outcome where
  /-- every `write_all_at` succeeds -/
  | ok
  /-- the first `pwrite` fails: nothing reaches the file -/
  | failBefore
  /-- the first `n` bytes of the record image reach the file, then an error -/
  | short (n : Nat)
  /-- two-buffer record: the first buffer (header + meta) is written, the second `write_all_at` fails
      at once. (For a one-buffer record there is no second write: nothing is written.) -/
  | failSecond
deriving DecidableEq, Repr, Inhabited

/-- `write_all_at(b, off)` that fails after `n` bytes; no `pwrite` succeeded when `n = 0`, so the file
    is not even extended -/
def pwritePart (file : List UInt8) (off : Nat) (b : List UInt8) (n : Nat) : List UInt8 :=
  if n = 0 then file else pwrite file off (b.take n)

/-- `File::write_data` under an outcome: the new content and whether `Ok` is returned -/
def writeDataO (file : List UInt8) (off : Nat) : Writable → Outcome → List UInt8 × Bool
  | w, .ok => (writeData file off w, true)
  | _, .failBefore => (file, false)
  | .single b, .short n => (pwritePart file off b n, false)
  | .double b1 b2, .short n =>
    if n ≤ b1.length then (pwritePart file off b1 n, false)
    else (pwritePart (pwrite file off b1) (off + b1.length) b2 (n - b1.length), false)
  | .single _, .failSecond => (file, false)
  | .double b1 _, .failSecond => (pwrite file off b1, false)

/-- the first buffer handed to `write_all_at` -/
def firstBuf : Writable → List UInt8
  | .single b => b
  | .double b1 _ => b1

/-- how many bytes of the image (`w.bytes`) reach the file -/
def cutOf (w : Writable) : Outcome → Nat
  | .ok => w.bytes.length
  | .failBefore => 0
  | .short n => n
  | .failSecond => match w with
    | .single _ => 0
    | .double b1 _ => b1.length

/-- one blob: file, in-memory index (header and the offset it was pushed with, in push order),
    residence of the index, and the index file (entries and the `blob_size` field of its header) -/
structure BlobSt where
  file : FFile
  index : List (RecHeader × Nat) := []
  onDisk : Bool := false
  idxFile : Option (List (RecHeader × Nat) × Nat) := none
deriving DecidableEq, Repr, Inhabited

/-- the entries a lookup sees: the in-memory vector, or the index file when the index is on disk
    (by the C09 theorems the file answers like the vector it was built from) -/
def BlobSt.entries (st : BlobSt) : List (RecHeader × Nat) :=
  if st.onDisk then (st.idxFile.map (·.1)).getD [] else st.index

/-- a new blob after `Blob::open_new` -/
def fresh : BlobSt := { file := { bytes := serBlobHeader, size := blobHeaderSize } }

/-- `Blob::write` under an outcome of its positional writes, in the order of effects of the code:
    (1) `size.fetch_add(len)` — the reservation, never undone; (2) `create(offset)` and `write_data`;
    (3) on `Ok` only: `set_offset_checksum`, `index.push` (which fails when the index is on disk).
    Returns the new state and whether the write was acknowledged. -/
def writeStep (maxSP : Nat) (st : BlobSt) (r : Record) (o : Outcome) : BlobSt × Bool :=
  let p := toPartial r maxSP
  let off := st.file.size
  let res := writeDataO st.file.bytes off (writableOf p off).1 o
  let file' : FFile := { bytes := res.1, size := st.file.size + p.len }
  if res.2 && !st.onDisk then
    ({ st with file := file', index := st.index ++ [(writtenHeader r off maxSP, off)] }, true)
  else ({ st with file := file' }, false)

/-- a sequence of write steps -/
def run (maxSP : Nat) : BlobSt → List (Record × Outcome) → BlobSt
  | st, [] => st
  | st, (r, o) :: rest => run maxSP (writeStep maxSP st r o).1 rest

/-- the acknowledgements of the steps, in order -/
def acks (maxSP : Nat) : BlobSt → List (Record × Outcome) → List Bool
  | _, [] => []
  | st, (r, o) :: rest => (writeStep maxSP st r o).2 :: acks maxSP (writeStep maxSP st r o).1 rest

/-- the acknowledged records with the offset they were given, in order -/
def acked (maxSP : Nat) : BlobSt → List (Record × Outcome) → List (Record × Nat)
  | _, [] => []
  | st, (r, o) :: rest =>
    (if (writeStep maxSP st r o).2 then [(r, st.file.size)] else []) ++
      acked maxSP (writeStep maxSP st r o).1 rest

/-- the index entry `Blob::write` pushes for a record written at `off` -/
def entryOf (maxSP : Nat) (x : Record × Nat) : RecHeader × Nat := (writtenHeader x.1 x.2 maxSP, x.2)

/-- the headers of the acknowledged records, as pushed into the index -/
def ackedHeaders (maxSP : Nat) (st : BlobSt) (steps : List (Record × Outcome)) : List RecHeader :=
  (acked maxSP st steps).map (fun x => writtenHeader x.1 x.2 maxSP)

/-! ### index dump -/

inductive DumpOutcome where
  | ok
  /-- `fsyncdata` of the blob file fails -/
  | syncFail
  /-- `serialize_filters` / `FileIndex::from_records` fails -/
  | buildFail
deriving DecidableEq, Repr, Inhabited

/-- `Blob::dump` + `dump_in_memory` (repaired): returns the new state and whether `Ok` was returned -/
def dumpStep (st : BlobSt) (o : DumpOutcome) : BlobSt × Bool :=
  if st.onDisk then (st, true)
  else match o with
    | .syncFail => (st, false)
    | o =>
      -- `mem::take`
      let data := st.index
      let st1 := { st with index := [] }
      if data.isEmpty then (st1, true)
      else match o with
        | .ok => ({ st1 with onDisk := true, idxFile := some (data, st.file.size) }, true)
        | _ => ({ st1 with index := data }, false)

/-- `dump_in_memory` as it was before the repair: the taken headers are dropped on an error -/
def dumpStepUnrepaired (st : BlobSt) (o : DumpOutcome) : BlobSt × Bool :=
  if st.onDisk then (st, true)
  else match o with
    | .syncFail => (st, false)
    | o =>
      let data := st.index
      let st1 := { st with index := [] }
      if data.isEmpty then (st1, true)
      else match o with
        | .ok => ({ st1 with onDisk := true, idxFile := some (data, st.file.size) }, true)
        | _ => (st1, false)

/-- does start-up accept the index file? (`validate(blob_size)`: the field must equal the length of
    the blob file, which is what `File::size()` is after `open`) -/
def indexFileAccepted (st : BlobSt) : Bool :=
  match st.idxFile with
  | some (_, bs) => bs == st.file.bytes.length
  | none => false

/-- the headers of the index after a restart (`Blob::from_file`): the index file if it is accepted,
    otherwise the scan of the blob file -/
def restartIndex (klen : Nat) (validateData : Bool) (st : BlobSt) : InitOutcome :=
  match st.idxFile with
  | some (es, bs) =>
    if bs == st.file.bytes.length then .ok (es.map (·.1)) else openBlob klen validateData st.file.bytes
  | none => openBlob klen validateData st.file.bytes

end Pearl.Fault
