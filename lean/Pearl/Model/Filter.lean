import Pearl.Model.Basic
/-
L3: the filters (`src/filter/{atomic_bitvec,bloom,range,combined,traits,mod}.rs`) and the way they are
written into / probed in the index file (`src/blob/index/core.rs`).

Conventions
* machine words and bytes are `Nat`s (a `u64` word is a `Nat < 2^64`, a byte a `Nat < 256`); every
  operation below that produces a word/byte keeps it in range (`… ||| 1 <<< (i % 64)`, `… % 256`), the
  range facts are the `WF` predicates of `Pearl/Proofs/FilterLemmas.lean`.
* the hash family is a PARAMETER `h : Nat → Key → Nat` (hasher index → key → 64-bit hash).  The real family
  is `AHash.family keyLen` of `Pearl/Model/AHash.lean` (hasher `i` is `AHasher::new_with_keys(i+1, i+2)`).
* `bits_count` is an INPUT of `Bloom.new` (the code derives it from the config with an `f64` formula,
  `bits_count_from_formula`; only its two integer special cases are modelled, see `bitsCountSpecial`).
* Rust panics that cannot happen for a well-formed value (index out of range in `AtomicBitVec::get/set`,
  `or_with` over vectors of different word counts) are totalised the obvious way (`getD … 0`, no-op,
  `zipWith`); the well-formedness invariant `ABV.WF` excludes them.
-/
namespace Pearl

/-- `FilterResult` (`src/filter/mod.rs`); `Default` is `NeedAdditionalCheck` -/
inductive FilterResult where
  | needAdditionalCheck
  | notContains
deriving DecidableEq, Repr

instance : Inhabited FilterResult := ⟨.needAdditionalCheck⟩

/-- `impl Add for FilterResult` -/
instance : Add FilterResult where
  add a b :=
    match a, b with
    | .notContains, .notContains => .notContains
    | _, _ => .needAdditionalCheck

/-! ## little-endian images (bincode 1.3 default options: fixed-width little-endian integers) -/

/-- the 8 bytes of a `u64`, least significant first -/
def fle64 (n : Nat) : List Nat := (List.range 8).map (fun j => (n >>> (8 * j)) % 256)

/-- value of a little-endian byte string -/
def unle : List Nat → Nat
  | [] => 0
  | b :: bs => b + 256 * unle bs

/-- bincode image of the elements of a `Vec<u64>` (without the length prefix) -/
def wordsBytes (ws : List Nat) : List Nat := ws.flatMap fle64

/-- `n` little-endian `u64`s from the front of `bs` (`none` = unexpected end of input) -/
def readWords : Nat → List Nat → Option (List Nat × List Nat)
  | 0, bs => some ([], bs)
  | n + 1, bs =>
    if bs.length < 8 then none
    else
      match readWords n (bs.drop 8) with
      | none => none
      | some (ws, rest) => some (unle (bs.take 8) :: ws, rest)

/-! ## `AtomicBitVec` -/

/-- `AtomicBitVec { data: Box<[AtomicU64]>, bits_count }` -/
structure ABV where
  data : List Nat
  bits : Nat
deriving DecidableEq, Repr, Inhabited

namespace ABV

/-- `items_count` -/
def itemsCount (bits : Nat) : Nat := if bits > 0 then (bits - 1) / 64 + 1 else 0

/-- `AtomicBitVec::new` -/
def new (bits : Nat) : ABV := { data := List.replicate (itemsCount bits) 0, bits := bits }

/-- `offset_and_mask`: word index and `1u64 << (bit_index % 64)` -/
def offsetAndMask (i : Nat) : Nat × Nat := (i / 64, 1 <<< (i % 64))

/-- `get` (`debug_assert!(index < bits_count)`; out of range would panic on the slice index) -/
def get (v : ABV) (i : Nat) : Bool :=
  let (off, mask) := offsetAndMask i
  (v.data.getD off 0) &&& mask != 0

/-- `set(index, true)`: `fetch_or(mask)` on word `offset` -/
def set (v : ABV) (i : Nat) : ABV :=
  let (off, mask) := offsetAndMask i
  { v with data := v.data.modify off (· ||| mask) }

/-- `or_with`: `Err(BitsCountMismatch)` when the bit counts differ, else word-wise or -/
def orWith (v o : ABV) : Option ABV :=
  if v.bits != o.bits then none
  else some { v with data := List.zipWith (· ||| ·) v.data o.data }

/-- `to_raw_vec` -/
def toRawVec (v : ABV) : List Nat := if v.bits == 0 then [] else v.data

/-- `from_raw_slice`: `Err(DataLengthLessThanRequired)` when the slice is too short; extra words are dropped -/
def fromRawSlice (raw : List Nat) (bits : Nat) : Option ABV :=
  let ic := itemsCount bits
  if ic > raw.length then none else some { data := raw.take ic, bits := bits }

/-- `size_in_mem` -/
def sizeInMem (v : ABV) : Nat := v.data.length * 8

end ABV

/-- `OffsetAndMaskCalculator::offset_and_mask_u8`: byte offset `bit_index >> 3`, mask `1u8 << (bit_index % 8)` -/
def offsetAndMaskU8 (i : Nat) : Nat × Nat := (i >>> 3, 1 <<< (i % 8))

/-- `OffsetAndMaskCalculator::get_bit_u8` -/
def getBitU8 (byte mask : Nat) : Bool := byte &&& mask != 0

/-! ## Bloom -/

/-- `bloom::Config`, in declaration (= serialisation) order; the `f64` is carried as its 8-byte image -/
structure BloomConfig where
  elements : Nat
  hashersCount : Nat
  maxBufBitsCount : Nat
  bufIncreaseStep : Nat
  fprBits : Nat            -- `preferred_false_positive_rate.to_bits()`
deriving DecidableEq, Repr, Inhabited

namespace BloomConfig

/-- `Config::empty()` -/
def empty : BloomConfig := ⟨0, 0, 0, 0, 0⟩

/-- `bincode::serialize(&config)`: five 8-byte little-endian fields -/
def encode (c : BloomConfig) : List Nat :=
  fle64 c.elements ++ fle64 c.hashersCount ++ fle64 c.maxBufBitsCount ++ fle64 c.bufIncreaseStep ++ fle64 c.fprBits

/-- `bincode::serialized_size(config)` -/
def serializedSize (_ : BloomConfig) : Nat := 40

/-- the two integer branches of `bits_count_from_formula`; `none` = the `f64` formula decides -/
def bitsCountSpecial (c : BloomConfig) : Option Nat :=
  if c.hashersCount == 0 then some 0
  else if c.maxBufBitsCount == 0 then some 64
  else none

end BloomConfig

/-- `bloom::Save { config, buf, bits_count }` in declaration order -/
structure Save where
  config : BloomConfig
  buf : List Nat
  bitsCount : Nat
deriving DecidableEq, Repr, Inhabited

namespace Save

/-- `bincode::serialize(&save)`: config | u64 len | len × u64 | u64 bits_count -/
def encode (s : Save) : List Nat :=
  s.config.encode ++ fle64 s.buf.length ++ wordsBytes s.buf ++ fle64 s.bitsCount

/-- `bincode::deserialize::<Save>` (trailing bytes are not rejected by `bincode::deserialize`) -/
def decode (bs : List Nat) : Option Save :=
  match readWords 6 bs with
  | some ([e, h, m, st, f, len], rest) =>
    match readWords len rest with
    | some (buf, rest') =>
      match readWords 1 rest' with
      | some ([bc], _) => some { config := ⟨e, h, m, st, f⟩, buf := buf, bitsCount := bc }
      | _ => none
    | none => none
  | _ => none

end Save

/-- `Bloom { inner, bits_count, hashers, config }`: `inner = none` is the off-loaded state;
    `k = hashers.len()`, hasher `j` (`0 ≤ j < k`) is `AHasher::new_with_keys(j+1, j+2)` -/
structure Bloom where
  inner : Option ABV
  bits : Nat
  k : Nat
  cfg : BloomConfig
deriving DecidableEq, Repr, Inhabited

namespace Bloom

/-- `Bloom::new` with the bit count the formula produced -/
def new (cfg : BloomConfig) (bits : Nat) : Bloom :=
  { inner := some (ABV.new bits), bits := bits, k := cfg.hashersCount, cfg := cfg }

/-- `Bloom::empty()` -/
def empty : Bloom := { inner := some (ABV.new 0), bits := 0, k := 0, cfg := BloomConfig.empty }

/-- bit positions of a key in a vector of `len` bits: `hasher.finish() % len` for each hasher in order -/
def positions (h : Nat → Key → Nat) (k len : Nat) (key : Key) : List Nat :=
  (List.range k).map (fun j => h j key % len)

/-- `Bloom::add`: `Err` (ignored by `FilterTrait::add`) when off-loaded, no-op on a zero-length vector -/
def add (h : Nat → Key → Nat) (b : Bloom) (key : Key) : Bloom :=
  match b.inner with
  | none => b
  | some v =>
    if v.bits == 0 then b
    else { b with inner := some ((positions h b.k v.bits key).foldl ABV.set v) }

/-- `Bloom::contains_in_memory` -/
def containsMem (h : Nat → Key → Nat) (b : Bloom) (key : Key) : Option FilterResult :=
  match b.inner with
  | none => none
  | some v =>
    if v.bits == 0 then none
    else if (positions h b.k v.bits key).all v.get then some .needAdditionalCheck
    else some .notContains

/-- `FilterTrait::contains_fast` for `Bloom`: `contains_in_memory(key).unwrap_or_default()` -/
def containsFast (h : Nat → Key → Nat) (b : Bloom) (key : Key) : FilterResult :=
  (b.containsMem h key).getD default

/-- `buffer_start_position`: `serialized_size(config) + size_of::<u64>()` -/
def bufferStartPosition (b : Bloom) : Nat := b.cfg.serializedSize + 8

/-- the probing loop of `contains_in_file`: a failed read is `Err`, which `FilterTrait::contains` turns into
    the default answer -/
def probeFile (readByte : Nat → Option Nat) (start : Nat) : List Nat → FilterResult
  | [] => .needAdditionalCheck
  | i :: rest =>
    let (off, mask) := offsetAndMaskU8 i
    match readByte (start + off) with
    | none => .needAdditionalCheck
    | some byte => if getBitU8 byte mask then probeFile readByte start rest else .notContains

/-- `Bloom::contains_in_file` composed with the `unwrap_or_default` of its caller -/
def containsFile (h : Nat → Key → Nat) (b : Bloom) (readByte : Nat → Option Nat) (key : Key) : FilterResult :=
  if b.bits == 0 then .needAdditionalCheck
  else probeFile readByte b.bufferStartPosition (positions h b.k b.bits key)

/-- `FilterTrait::contains` for `Bloom` -/
def contains (h : Nat → Key → Nat) (b : Bloom) (readByte : Nat → Option Nat) (key : Key) : FilterResult :=
  match b.containsMem h key with
  | some r => r
  | none => b.containsFile h readByte key

/-- `Bloom::checked_add_assign`: `(self afterwards, returned flag)`.
    Only the hasher counts and the bit lengths are compared (not the configs). -/
def merge (b o : Bloom) : Bloom × Bool :=
  if b.k != o.k then (b, false)
  else
    match b.inner, o.inner with
    | some v, some w =>
      if v.bits == w.bits then
        match v.orWith w with
        | some r => ({ b with inner := some r }, true)
        | none => (b, false)      -- `expect` (cannot fail after the length test)
      else (b, false)
    | _, _ => (b, false)

/-- `Bloom::clear` -/
def clear (b : Bloom) : Bloom := { b with inner := some (ABV.new b.bits) }

/-- `Bloom::is_offloaded` -/
def isOffloaded (b : Bloom) : Bool := b.inner.isNone

/-- `Bloom::offload_from_memory`: `(self afterwards, freed bytes)` -/
def offload (b : Bloom) : Bloom × Nat :=
  ({ b with inner := none }, (b.inner.map ABV.sizeInMem).getD 0)

/-- `Bloom::memory_allocated` -/
def memoryAllocated (b : Bloom) : Nat := (b.inner.map ABV.sizeInMem).getD 0

/-- `Bloom::save` -/
def save (b : Bloom) : Option Save :=
  b.inner.map (fun v => { config := b.cfg, buf := v.toRawVec, bitsCount := v.bits })

/-- `Bloom::from(save)` -/
def fromSave (s : Save) : Option Bloom :=
  (ABV.fromRawSlice s.buf s.bitsCount).map
    (fun v => { inner := some v, bits := s.bitsCount, k := s.config.hashersCount, cfg := s.config })

/-- `Bloom::to_raw` (`none` = "Filter buffer offloaded, can't serialize") -/
def toRaw (b : Bloom) : Option (List Nat) := b.save.map Save.encode

/-- `Bloom::from_raw` -/
def fromRaw (bs : List Nat) : Option Bloom := (Save.decode bs).bind fromSave

end Bloom

/-! ## Range -/

/-- `RangeFilterInner { min, max, initialized }` -/
structure Range where
  min : Key := 0
  max : Key := 0
  init : Bool := false
deriving DecidableEq, Repr, Inhabited

namespace Range

/-- `RangeFilter::new` -/
def new : Range := {}

/-- `RangeFilterInner::add` -/
def add (r : Range) (k : Key) : Range :=
  if !r.init then { min := k, max := k, init := true }
  else if k < r.min then { r with min := k }
  else if k > r.max then { r with max := k }
  else r

/-- `RangeFilterInner::merge_with` -/
def mergeWith (r o : Range) : Range :=
  if o.init then
    if !r.init then { min := o.min, max := o.max, init := true }
    else
      let r1 := if o.min < r.min then { r with min := o.min } else r
      if o.max > r1.max then { r1 with max := o.max } else r1
  else r

/-- `RangeFilterInner::contains` -/
def contains (r : Range) (k : Key) : Bool := r.init && decide (r.min ≤ k) && decide (k ≤ r.max)

/-- `FilterTrait::contains_fast` for `RangeFilter` -/
def containsFast (r : Range) (k : Key) : FilterResult :=
  if r.contains k then .needAdditionalCheck else .notContains

/-- `FilterTrait::checked_add_assign` for `RangeFilter` (always `true`) -/
def merge (r o : Range) : Range × Bool := (r.mergeWith o, true)

/-- `RangeFilterInner::clear` -/
def clear (r : Range) : Range := { r with init := false }

/-- the `n` big-endian bytes of a key -/
def keyBytes : Nat → Key → List Nat
  | 0, _ => []
  | n + 1, k => keyBytes n (k / 256) ++ [k % 256]

/-- big-endian value of a byte string -/
def keyOfBytes (bs : List Nat) : Key := bs.foldl (fun acc b => acc * 256 + b) 0

/-- `bincode::serialize(&RangeFilterInner)`: each key goes through `serialize_bytes` (u64 length + bytes),
    the flag is one byte -/
def toRaw (keyLen : Nat) (r : Range) : List Nat :=
  fle64 keyLen ++ keyBytes keyLen r.min ++ fle64 keyLen ++ keyBytes keyLen r.max ++ [if r.init then 1 else 0]

/-- `bincode::deserialize::<RangeFilterInner>` (a flag byte other than 0/1 is an error) -/
def fromRaw (bs : List Nat) : Option Range :=
  match readWords 1 bs with
  | some ([n1], r1) =>
    if r1.length < n1 then none
    else
      match readWords 1 (r1.drop n1) with
      | some ([n2], r2) =>
        if r2.length < n2 then none
        else
          match r2.drop n2 with
          | f :: _ =>
            if f == 0 then some { min := keyOfBytes (r1.take n1), max := keyOfBytes (r2.take n2), init := false }
            else if f == 1 then some { min := keyOfBytes (r1.take n1), max := keyOfBytes (r2.take n2), init := true }
            else none
          | [] => none
      | _ => none
  | _ => none

end Range

/-! ## Combined -/

/-- `CombinedFilter { bloom: Option<Bloom>, range }` -/
structure Combined where
  bloom : Option Bloom
  range : Range
deriving DecidableEq, Repr, Inhabited

namespace Combined

/-- `FilterTrait::add`: range, then bloom (`Option<T>::add` does nothing for `None`) -/
def add (h : Nat → Key → Nat) (c : Combined) (k : Key) : Combined :=
  { bloom := c.bloom.map (fun b => b.add h k), range := c.range.add k }

/-- `Option<Bloom>::contains_fast` -/
def bloomFast (h : Nat → Key → Nat) (ob : Option Bloom) (k : Key) : FilterResult :=
  match ob with
  | some b => b.containsFast h k
  | none => .needAdditionalCheck

/-- `Option<Bloom>::contains` -/
def bloomFull (h : Nat → Key → Nat) (ob : Option Bloom) (readByte : Nat → Option Nat) (k : Key) : FilterResult :=
  match ob with
  | some b => b.contains h readByte k
  | none => .needAdditionalCheck

/-- `CombinedFilter::contains_fast` -/
def containsFast (h : Nat → Key → Nat) (c : Combined) (k : Key) : FilterResult :=
  match c.range.containsFast k with
  | .needAdditionalCheck => bloomFast h c.bloom k
  | r => r

/-- `CombinedFilter::contains` -/
def contains (h : Nat → Key → Nat) (c : Combined) (readByte : Nat → Option Nat) (k : Key) : FilterResult :=
  match c.range.containsFast k with
  | .needAdditionalCheck => bloomFull h c.bloom readByte k
  | r => r

/-- `Option<Bloom>::checked_add_assign` -/
def bloomMerge (a o : Option Bloom) : Option Bloom × Bool :=
  match a, o with
  | some x, some y => let (x', ok) := x.merge y; (some x', ok)
  | none, none => (none, true)
  | _, _ => (a, false)

/-- `CombinedFilter::checked_add_assign`: `range && bloom`; the range part is always performed (and stays
    performed when the bloom part refuses) -/
def merge (c o : Combined) : Combined × Bool :=
  let (r, okr) := c.range.merge o.range
  if okr then
    let (b, okb) := bloomMerge c.bloom o.bloom
    ({ bloom := b, range := r }, okb)
  else ({ c with range := r }, false)

/-- `CombinedFilter::offload_filter`: `(self afterwards, freed)` -/
def offload (c : Combined) : Combined × Nat :=
  match c.bloom with
  | some b => let (b', n) := b.offload; ({ c with bloom := some b' }, n)
  | none => (c, 0)

/-- `CombinedFilter::clear_filter` -/
def clear (c : Combined) : Combined := { bloom := c.bloom.map Bloom.clear, range := c.range.clear }

/-- `CombinedFilter::is_filter_offloaded` -/
def isOffloaded (c : Combined) : Bool :=
  match c.bloom with
  | some b => b.isOffloaded
  | none => false

/-- `CombinedFilter::memory_allocated` (the range filter reports 0) -/
def memoryAllocated (c : Combined) : Nat :=
  match c.bloom with
  | some b => b.memoryAllocated
  | none => 0

end Combined

/-! ## filters inside the index file (`IndexStruct::{serialize_filters, deserialize_filters}`) -/

/-- `serialize_filters`: `(meta buffer, bloom_offset)`; `none` when the bloom buffer is off-loaded
    (`to_raw` fails).  A disabled bloom (`None`) is written as `Bloom::empty()`. -/
def serializeFilters (keyLen : Nat) (c : Combined) : Option (List Nat × Nat) :=
  let rangeBuf := c.range.toRaw keyLen
  match (c.bloom.getD Bloom.empty).toRaw with
  | none => none
  | some bloomBuf => some (fle64 rangeBuf.length ++ rangeBuf ++ bloomBuf, 8 + rangeBuf.length)

/-- `deserialize_filters`: `(bloom, range, bloom_offset)` (`split_at` panics on a short buffer: `none`) -/
def deserializeFilters (buf : List Nat) : Option (Bloom × Range × Nat) :=
  if buf.length < 8 then none
  else
    let rangeSize := unle (buf.take 8)
    let rest := buf.drop 8
    if rest.length < rangeSize then none
    else
      match Bloom.fromRaw (rest.drop rangeSize), Range.fromRaw (rest.take rangeSize) with
      | some b, some r => some (b, r, rangeSize + 8)
      | _, _ => none

/-- `IndexStruct::from_file` / `load_in_memory`: the bloom is kept only when `bloom_is_on` -/
def combinedOfFile (bloomIsOn : Bool) (buf : List Nat) : Option (Combined × Nat) :=
  (deserializeFilters buf).map (fun (b, r, off) => ({ bloom := if bloomIsOn then some b else none, range := r }, off))

/-- `BloomDataProvider::read_byte` of an on-disk index: `read_meta_at(index + bloom_offset)` -/
def metaReadByte (metaBuf : List Nat) (bloomOffset : Nat) (index : Nat) : Option Nat := metaBuf[index + bloomOffset]?

end Pearl
