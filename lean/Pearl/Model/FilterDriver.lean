import Pearl.Model.Container
import Pearl.Model.AHash
import Pearl.Model.BloomProto
import Pearl.Model.Script
/-
L3 at the storage level: the filter state of a `Storage` (`src/storage/core.rs`) next to the L2 store.

* every blob has an `FBlob` (keys of its index, its `CombinedFilter`, and - when the index is `State::OnDisk` -
  the meta buffer of the index file with the `bloom_offset`);
* the closed blobs sit in the arena container `Container Combined FBlob` (`HierarchicalFilters<K, CombinedFilter<K>,
  Blob<K>>`, level 1); its `children` vector mirrors `Store.slots` position by position (a slot emptied by `pop` is a
  hole in both), so the blob *id* of child `i` is the id of `Store.slots[i]`;
* the index files that lie in the directory (`t.<id>.index`) are kept separately from the residence of the index: a
  loaded index leaves its file behind, and a file written for a shorter blob is stale (`validate(blob_size)` fails);
* hash family = `AHash.family keyLen`; `bits_count` of the configured bloom comes in as the `@bits=` annotation of the
  `cfg` line (the `f64` formula), except for its two integer branches.

Only functions of `Filter.lean` / `Container.lean` are executed on filters and on the arena.  What is added here is
what `Storage` does around them: which blob is pushed/popped/dumped/loaded when, `get_child_mut`/`iter_mut` (a child
is modified in place, the arena is not touched), and the three queries.

Background dumps: `TryDumpBlobIndexes` spawns a task that dumps every closed blob while holding the write lock of the
container.  When it runs is not determined by the script; the driver keeps `dumpPending` and completes the dump at the
next `quiesce` / `settle` / `restart` / `close` (the comparison script puts a `quiesce` after every command that sends
the request).  A *deferred* dump (`DeferredDumpBlobIndexes`, after a delete in a closed blob) does not fire within a
scenario (the harness default is one hour).
-/
namespace Pearl.FilterDriver
open Pearl Pearl.Script

/-- the part of the storage configuration the filters depend on -/
structure FCfg where
  /-- `bloom_filter_group_size` -/
  group : Nat := 8
  /-- `K::LEN` -/
  klen : Nat := 4
  /-- `IndexConfig::bloom_config` with the `bits_count` that `Bloom::new` derives from it -/
  bloom : Option (BloomConfig × Nat) := none
  /-- `false`: the bit count is decided by the `f64` formula and the `cfg` line carried no `@bits=` -/
  bitsKnown : Bool := true
deriving Repr

/-- an index file in the working directory: the filter section of `t.<id>.index` and the number of records of the
    blob it was written for (stands for `IndexHeader::blob_size`) -/
structure IndexFile where
  id : Nat
  metaBuf : List Nat
  bloomOffset : Nat
  nrecs : Nat
deriving Repr

structure FState where
  cfg : FCfg := {}
  /-- filter state of `Safe::active_blob` -/
  active : Option FBlob := none
  /-- `Safe::blobs` -/
  cont : Container Combined FBlob := Container.new 8 1
  /-- index files on disk -/
  files : List IndexFile := []
  /-- a `TryDumpBlobIndexes` request has been sent and its task has not been waited for -/
  dumpPending : Bool := false
  /-- `deferred_index_dump_info.is_some()` -/
  deferred : Bool := false

instance : Inhabited FState := ⟨{}⟩

namespace FState

def h (fs : FState) : Nat → Key → Nat := AHash.family fs.cfg.klen
def fops (fs : FState) : FilterOps Combined := combinedOps fs.h
def bops (fs : FState) : ChildOps Combined FBlob := blobOps fs.h
def bloomIsOn (fs : FState) : Bool := fs.cfg.bloom.isSome

end FState

/-! ## blobs -/

/-- `IndexStruct::new`: bloom from the config (if any), empty range filter, in memory -/
def newBlob (c : FCfg) : FBlob :=
  { keys := []
    filter := { bloom := c.bloom.map (fun p => Bloom.new p.1 p.2), range := Range.new }
    file := none }

/-- `index.push` for every key in order (an in-memory index never refuses) -/
def pushAll (fs : FState) (b : FBlob) (keys : List Key) : FBlob :=
  keys.foldl (fun x k => (x.push fs.h k).getD x) b

/-- `Blob::from_file` without a usable index file: `Index::new` + `try_regenerate_index` -/
def regenNew (fs : FState) (keys : List Key) : FBlob := pushAll fs (newBlob fs.cfg) keys

/-- `Blob::load_index`: `index.load`, and when that fails `index.clear()` + `try_regenerate_index` -/
def loadIndex (fs : FState) (b : FBlob) : FBlob :=
  match b.load fs.bloomIsOn with
  | some b' => b'
  | none => pushAll fs { keys := [], filter := b.filter.clear, file := none } b.keys

def putFile (fs : FState) (f : IndexFile) : FState :=
  { fs with files := fs.files.filter (·.id != f.id) ++ [f] }

/-- `Blob::dump`: nothing when the index is on disk or empty; else the filters are serialized into a new index
    file (`recreate_index_file = true`) -/
def dumpBlob (fs : FState) (id : Nat) (b : FBlob) : FBlob × Option IndexFile :=
  match b.file with
  | some _ => (b, none)
  | none =>
    if b.keys.isEmpty then (b, none)
    else
      match b.dump fs.cfg.klen with
      | some b' => (b', b'.file.map fun mo => { id := id, metaBuf := mo.1, bloomOffset := mo.2, nrecs := b.keys.length })
      | none => (b, none)        -- `serialize_filters` failed: the headers are put back, the index stays in memory

/-! ## the container: in-place access to a child (`get_child_mut`, `iter_mut`): the arena is not touched -/

def modifyChild (c : Container Combined FBlob) (i : Nat) (f : FBlob → FBlob) : Container Combined FBlob :=
  { c with children := c.children.modify i (fun o => o.map (fun lf => { lf with data := f lf.data })) }

/-- id of the blob in slot `i` -/
def slotId (s : Store) (i : Nat) : Nat :=
  match s.slots[i]? with
  | some (some b) => b.id
  | _ => 0

def slotCount (s : Store) (i : Nat) : Nat :=
  match s.slots[i]? with
  | some (some b) => b.recs.length
  | _ => 0

/-- `Safe::try_dump_old_blob_indexes`: `blob.dump()` for every closed blob in container order -/
def dumpClosed (fs : FState) (s : Store) : FState :=
  (List.range fs.cont.children.length).foldl (fun fs i =>
    match fs.cont.getChild i with
    | none => fs
    | some lf =>
      let (b', f) := dumpBlob fs (slotId s i) lf.data
      let fs := { fs with cont := modifyChild fs.cont i (fun _ => b') }
      match f with
      | some f => putFile fs f
      | none => fs) { fs with dumpPending := false }

def completePending (fs : FState) (s : Store) : FState :=
  if fs.dumpPending then dumpClosed fs s else fs

/-- `blobs.push(active.into_inner())` (`close_active_blob`, `replace_active_blob`) -/
def pushActive (fs : FState) : FState :=
  match fs.active with
  | none => fs
  | some a => { fs with active := none, cont := (Container.push fs.fops fs.bops fs.cont a).1 }

def createActive (fs : FState) : FState := { fs with active := some (newBlob fs.cfg) }

/-- `Storage::close`: the active blob is dumped; the worker is awaited (a requested dump completes) -/
def closeStorage (fs : FState) (s : Store) : FState :=
  let fs :=
    match fs.active, s.active with
    | some a, some sa =>
      let (a', f) := dumpBlob fs sa.id a
      let fs := { fs with active := some a' }
      match f with
      | some f => putFile fs f
      | none => fs
    | _, _ => fs
  completePending fs s

/-- `init_from_existing` / `init_new` on the directory as it is: every blob is read (`Blob::from_file`: filters from
    the index file when it is valid for the blob, else regenerated from the records), the last one by id becomes
    active (`load_index`) unless lazy, the others are dumped and pushed into a new container in id order -/
def reopen (fs : FState) (after : Store) : FState :=
  let build (b : Blob) : FBlob :=
    let keys := b.recs.map (·.key)
    match fs.files.find? (fun f => f.id == b.id && f.nrecs == keys.length) with
    | some f =>
      match combinedOfFile fs.bloomIsOn f.metaBuf with
      | some (c, off) => { keys := keys, filter := c, file := some (f.metaBuf, off) }
      | none => regenNew fs keys
    | none => regenNew fs keys
  let fs0 : FState :=
    { fs with active := after.active.map (fun a => loadIndex fs (build a))
              cont := Container.new fs.cfg.group 1, dumpPending := false, deferred := false }
  let r := (after.slots.filterMap id).foldl (fun (acc : List FBlob × FState) b =>
    let (b', f) := dumpBlob acc.2 b.id (build b)
    (acc.1 ++ [b'], match f with | some f => putFile acc.2 f | none => acc.2)) ([], fs0)
  { r.2 with cont := Container.extend r.2.fops r.2.bops (Container.new fs.cfg.group 1) r.1 }

/-! ## configuration -/

def annot (toks : List String) (key : String) : Option Nat :=
  toks.findSome? fun t => if t.startsWith ("@" ++ key ++ "=") then (t.drop (key.length + 2)).toString.toNat? else none

def cfgVal (toks : List String) (key : String) : Option String :=
  toks.findSome? fun t => match kv t with | some (k, v) => if k == key then some v else none | none => none

/-- the harness builds `BloomConfig { elements, hashers_count, max_buf_bits_count, buf_increase_step: 8,
    preferred_false_positive_rate: 0.001 }` from `bloom=<elements>,<hashers>,<max bits>` -/
def parseCfg (toks : List String) : FCfg :=
  let nat (k : String) (d : Nat) := ((cfgVal toks k).bind (·.toNat?)).getD d
  let bloom : Option (BloomConfig × Nat) :=
    match cfgVal toks "bloom" with
    | none => none
    | some v =>
      match (v.splitOn ",").filterMap (·.toNat?) with
      | [e, k, m] =>
        if (v.splitOn ",").length != 3 then none
        else
          let c : BloomConfig := ⟨e, k, m, 8, BloomProto.fprBits⟩
          some (c, match c.bitsCountSpecial with | some b => b | none => (annot toks "bits").getD 0)
      | _ => none
  let known := match bloom with
    | some (c, _) => c.bitsCountSpecial.isSome || (annot toks "bits").isSome
    | none => true
  { group := nat "group" 8, klen := nat "key" 4, bloom := bloom, bitsKnown := known }

/-! ## commands -/

def recsOf (s : Store) (id : Nat) : List Rec :=
  match s.blobs.find? (·.id == id) with
  | some b => b.recs
  | none => []

/-- keys of the records blob `id` received during the step -/
def newKeys (before after : Store) (id : Nat) : List Key :=
  ((recsOf after id).drop (recsOf before id).length).map (·.key)

/-- the filter state after one script line; `before`/`after` are the L2 stores around the step (they tell which blob
    received which record and whether the active blob was switched), `toks` the words of the line (annotations
    included).  Lines that do not reach the storage (`err NoStorage`, `err AlreadyOpen`) must not be passed. -/
def apply (fs : FState) (before after : Store) (toks0 : List String) : FState :=
  let toks := toks0.filter (fun t => !t.startsWith "@" && t ≠ "")
  let restartLike (lazyOrNot : List String) : FState :=
    let fs1 := closeStorage fs before
    let fs2 := if lazyOrNot.contains "noidx" then { fs1 with files := [] } else fs1
    reopen fs2 after
  match toks with
  | "cfg" :: rest =>
    let c := parseCfg (rest ++ toks0.filter (·.startsWith "@"))
    let fs0 : FState := { cfg := c, cont := Container.new c.group 1 }
    reopen fs0 after     -- `init_new` (with `from=`: an existing directory whose index files are not known here)
  | ["w", _, _, _, _, _] =>
    -- `try_create_active_blob`, then (unless a duplicate is refused) `Blob::write` -> `index.push`
    let fs1 := if fs.active.isNone && after.active.isSome then createActive fs else fs
    let aid := match before.active with | some a => a.id | none => before.nextId
    let fs2 := { fs1 with active := fs1.active.map (fun a => pushAll fs1 a (newKeys before after aid)) }
    -- `TryUpdateActiveBlob` took effect: `replace_active_blob`; the dump is started unless a deferred one is registered
    if (after.active.map (·.id)) != some aid then
      let fs3 := createActive (pushActive fs2)
      if fs3.deferred then fs3 else { fs3 with dumpPending := true }
    else fs2
  | ["d", _, _, _, _] =>
    -- `ensure_active_blob_exists` (only without `only_if_presented`), `delete_in_active`, `delete_in_closed`
    let fs1 := if fs.active.isNone && after.active.isSome then createActive fs else fs
    let fs2 :=
      match after.active with
      | some a => { fs1 with active := fs1.active.map (fun x => pushAll fs1 x (newKeys before after a.id)) }
      | none => fs1
    -- `Blob::delete` on a closed blob that holds the key: `push_deletion_record` loads the index when it is on
    -- disk, then `index.push` adds the key to the filter of the BLOB (the nodes above it are not told)
    let fs3 := (List.range fs2.cont.children.length).foldl (fun (fs : FState) i =>
      let recs : List Rec := match after.slots[i]? with | some (some b) => b.recs | _ => []
      let ks := (recs.drop (slotCount before i)).map (·.key)
      if ks.isEmpty then fs
      else { fs with cont := modifyChild fs.cont i (fun b => pushAll fs (if b.file.isSome then loadIndex fs b else b) ks)
                     deferred := true }) fs2
    fs3
  | ["close_active"] | ["close_active_bg"] =>
    -- `try_close_active_blob` sends `TryDumpBlobIndexes` whatever `close_active_blob` answered
    { pushActive fs with dumpPending := true }
  | ["create_active"] | ["create_active_bg"] =>
    if fs.active.isNone then createActive fs else fs
  | ["restore_active"] | ["restore_active_bg"] =>
    if fs.active.isSome then fs
    else
      match fs.cont.lastId with
      | none => fs
      | some i =>
        -- the index is loaded IN PLACE (`get_child_mut(last_id)`), then the blob is popped
        let c1 := modifyChild fs.cont i (loadIndex fs)
        let (c2, b) := c1.pop
        { fs with cont := c2, active := b }
  | "force" :: _ =>
    -- `ForceUpdateActiveBlob` (when the predicate holds: `replace_active_blob` with a new blob), then `TryDumpBlobIndexes`
    let replaced := after.nextId > before.nextId
    let fs1 := if replaced then createActive (pushActive fs) else fs
    { fs1 with dumpPending := true }
  | ["free"] => { fs with dumpPending := true }
  | ["settle"] => dumpClosed fs after
  | ["quiesce"] => completePending fs after
  | ["offload", n, l] =>
    match n.toNat?, l.toNat? with
    | some n, some l => { fs with cont := (Container.offload fs.fops fs.bops fs.cont n l).1 }
    | _, _ => fs
  | "restart" :: rest => restartLike rest
  | "replayfrom" :: rest => restartLike rest
  | "toolsweep" :: rest => restartLike rest
  | "flipsweep" :: rest => restartLike rest
  | "dmgsweep" :: rest => restartLike rest
  | ["close"] => closeStorage fs before
  | "open" :: _ => reopen fs after
  | _ => fs

/-! ## queries -/

/-- `Storage::check_filters` -/
def checkFilters (fs : FState) (k : Key) : Option Bool :=
  let inActive :=
    match fs.active with
    | some a => a.checkFilter fs.h k
    | none => .notContains
  if inActive == .needAdditionalCheck then some true
  else
    let blobs := fs.cont.children.filterMap (fun o => o.map (·.data))
    let (offloaded, inMemory) := blobs.partition (fun b => b.filter.isOffloaded)
    if inMemory.any (fun b => b.checkFilterFast fs.h k == .needAdditionalCheck) then some true
    else some (offloaded.any (fun b => b.checkFilter fs.h k == .needAdditionalCheck))

/-- `<Storage as BloomProvider>::check_filter` -/
def checkFilterStorage (fs : FState) (k : Key) : FilterResult :=
  let active :=
    match fs.active with
    | some a => a.checkFilterFast fs.h k
    | none => default
  Container.checkFilter fs.fops fs.bops fs.cont k + active

/-- `<Storage as BloomProvider>::get_filter` -/
def getFilter (fs : FState) : Option Combined :=
  match fs.cont.getFilter with
  | none => none
  | some f =>
    match fs.active with
    | none => some f
    | some a =>
      let (f', ok) := Combined.merge f a.filter
      if ok then some f' else none

/-- the filter state talks about the same blobs as the L2 store -/
def mirrors (fs : FState) (s : Store) : Bool :=
  (fs.active.map (·.keys)) == (s.active.map (fun a => a.recs.map (·.key))) &&
  (fs.cont.children.map (fun o => o.map (·.data.keys))) == (s.slots.map (fun o => o.map (fun b => b.recs.map (·.key))))

def showFR : FilterResult → String
  | .needAdditionalCheck => "maybe"
  | .notContains => "no"

/-- the harness answer to `cf` / `cfs` / `gfc` -/
def query (fs : FState) (s : Store) (cmd : String) (key : Key) : String :=
  if !mirrors fs s then "model-desync"
  else if !fs.cfg.bitsKnown then "model-needs-@bits"
  else
    match cmd with
    | "cf" =>
      match checkFilters fs key with
      | some true => "some true"
      | some false => "some false"
      | none => "none"
    | "cfs" => showFR (checkFilterStorage fs key)
    | "gfc" =>
      match getFilter fs with
      | none => "none"
      | some f => showFR (f.containsFast fs.h key)
    | _ => "bad-op"

/-- key argument of a query: `2 * keyLen` hex digits -/
def parseKey (fs : FState) (k : String) : Option Key :=
  if k.length != 2 * fs.cfg.klen then none else hexNat k

end Pearl.FilterDriver
