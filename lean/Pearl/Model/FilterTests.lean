import Pearl.Model.AHash
import Pearl.Model.Container
/-
Executable checks of the filter model against the vectors pinned in the Rust test-suite
(`src/filter/bloom.rs`, `src/filter/atomic_bitvec.rs`) and a few container scenarios.
-/
namespace Pearl.FilterTests
open Pearl

/-- `Config { elements: 1000, hashers_count: 2, max_buf_bits_count: 1000, buf_increase_step: 1, fpr: 0.01 }` -/
def cfg : BloomConfig :=
  { elements := 1000, hashersCount := 2, maxBufBitsCount := 1000, bufIncreaseStep := 1,
    fprBits := unle [123, 20, 174, 71, 225, 122, 132, 63] }

def h1 := AHash.family 1

/-- `raw_buf` of `bloom::tests::test_backward_compat` -/
def rawBuf : List Nat :=
  [0, 0, 0, 0, 0, 0, 0, 0, 0, 0, 0, 16384, 0, 0, 0, 0, 0, 0, 524288, 0, 0, 0, 0, 0, 0, 0, 0, 0, 0, 0, 0, 0, 0, 0,
   0, 0, 0, 4398046511104, 0, 0, 0, 0, 0, 0, 1073741824, 0]

/-- `serialized` of `bloom::tests::test_backward_compat_serialization` -/
def serialized : List Nat :=
  [232, 3, 0, 0, 0, 0, 0, 0, 2, 0, 0, 0, 0, 0, 0, 0, 232, 3, 0, 0, 0, 0, 0, 0, 1, 0, 0, 0, 0, 0, 0, 0,
   123, 20, 174, 71, 225, 122, 132, 63, 46, 0, 0, 0, 0, 0, 0, 0] ++ wordsBytes rawBuf ++ [69, 11, 0, 0, 0, 0, 0, 0]

def b0 : Bloom := Bloom.new cfg 2885
def b12 : Bloom := (b0.add h1 1).add h1 50

-- test_backward_compat: keys [1] and [50] set exactly the four bits of `raw_buf`; [255] is absent
#guard (b12.save.map (·.buf)) == some rawBuf
#guard b12.containsFast h1 1 == .needAdditionalCheck
#guard b12.containsFast h1 50 == .needAdditionalCheck
#guard b12.containsFast h1 255 == .notContains
#guard (Bloom.fromSave { config := cfg, buf := rawBuf, bitsCount := 2885 }) == some b12
-- test_backward_compat_serialization: byte image, both directions
#guard b12.toRaw == some serialized
#guard Bloom.fromRaw serialized == some b12
-- test_simple_operations / test_merge / test_empty_not_fails
#guard ((b0.add h1 1).merge (b0.add h1 50)) == (b12, true)
#guard (b0.merge (Bloom.new cfg 2886)).2 == false
#guard (Bloom.empty.add h1 1).containsFast h1 255 == .needAdditionalCheck
#guard (Bloom.empty.add h1 1).contains h1 (fun _ => none) 255 == .needAdditionalCheck
-- off-loaded probe in the index file image (`read_byte(i) = meta[i + bloom_offset]`)
def comb : Combined := ({ bloom := some b0, range := Range.new } : Combined).add h1 1 |>.add h1 50
def dumped : List Nat × Nat := (serializeFilters 1 comb).getD ([], 0)
#guard dumped.2 == 8 + 19
#guard (comb.offload.1.contains h1 (metaReadByte dumped.1 dumped.2) 1) == .needAdditionalCheck
#guard (comb.offload.1.contains h1 (metaReadByte dumped.1 dumped.2) 50) == .needAdditionalCheck
#guard (comb.offload.1.contains h1 (metaReadByte dumped.1 dumped.2) 255) == .notContains
#guard (comb.offload.1.contains h1 (metaReadByte dumped.1 dumped.2) 60) == .notContains   -- range says no
#guard (comb.offload.1.containsFast h1 60) == .notContains
#guard (comb.offload.1.contains h1 (metaReadByte dumped.1 dumped.2) 30) == .notContains   -- bits read from the file
#guard (comb.containsFast h1 30) == .notContains
#guard (comb.offload.1.containsFast h1 30) == .needAdditionalCheck                      -- bloom off-loaded: maybe
#guard (deserializeFilters dumped.1) == some (b12, comb.range, dumped.2)

/-- `raw_vec` of `atomic_bitvec::tests::test_backward_compat` (bitvec crate, `Lsb0`) -/
def rawVec : List Nat :=
  [1190112520884487201, 2380365779257329730, 4760450083537948804, 9520900168149639432, 595056260442243600,
   1190112520884495393, 3533146546375821378, 4760450083537948804, 9520900167075897608, 595056260442243600,
   1190112520951596065, 2380225041768974402, 4760450083537949316, 9592957761113825544, 595056260442243600,
   1190113070640301089, 2380225041768974402, 4329604]

#guard (ABV.fromRawSlice rawVec 1111).map (fun v => (List.range 1111).all (fun i => v.get i == (i % 5 == 0 || i % 111 == 0)))
  == some true
#guard (((List.range 1111).filter (fun i => i % 5 == 0 || i % 111 == 0)).foldl ABV.set (ABV.new 1111)).toRawVec == rawVec
#guard (ABV.new 0).sizeInMem == 0 && (ABV.new 16).sizeInMem == 8 && (ABV.new 64).sizeInMem == 8 && (ABV.new 65).sizeInMem == 16
-- file probe = memory probe on a length that is not a multiple of 64
#guard (ABV.fromRawSlice rawVec 1111).map (fun v => (List.range 1111).all (fun i =>
    getBitU8 ((wordsBytes v.toRawVec).getD (offsetAndMaskU8 i).1 0) (offsetAndMaskU8 i).2 == v.get i)) == some true

/-! container scenarios with blobs as children -/

def ops := combinedOps h1
def cops := blobOps h1

def mkBlob (ks : List Key) : FBlob :=
  ks.foldl (fun b k => (b.push h1 k).getD b) { keys := [], filter := { bloom := some b0, range := Range.new } }

def cont (g : Nat) (bs : List (List Key)) : Container Combined FBlob :=
  Container.extend ops cops (Container.new g 1) (bs.map mkBlob)

-- group fill, root promotion at `group_size`, new group; the root's own filter is not consulted
#guard (cont 2 [[1], [2], [3], [4], [5], [1]]).root == 3
#guard Container.iterPossible ops (cont 2 [[1], [2], [3], [4], [5], [1]]) true 1 == [5, 4, 1, 0]
#guard Container.iterPossible ops (cont 2 [[1], [2], [3], [4], [5], [1]]) false 1 == [0, 1, 4, 5]
#guard Container.iterPossible ops (cont 8 [[1], [2], [3]]) false 77 == [0, 1, 2]
#guard Container.iterPossible ops (cont 2 [[1], [2], [3], [4]]) false 77 == []
-- `pop` only empties the slot; a later `push` opens slot 6 (holes are counted by `children.len()`)
#guard Container.iterPossible ops (cont 2 [[1], [2], [3], [4], [5], [1]]).pop.1 true 1 == [4, 1, 0]
#guard (Container.push ops cops (cont 2 [[1], [2], [3], [4], [5], [1]]).pop.1 (mkBlob [1])).2 == 6
#guard (cont 2 [[1], [2], [3], [4], [5], [1]]).pop.1.len == 5
-- mismatching bloom sizes: `merge_filters` drops the node filter to `None`, nothing is pruned any more
def oddBlob : FBlob := { keys := [9], filter := ({ bloom := some (Bloom.new cfg 64), range := Range.new } : Combined).add h1 9 }
#guard ((Container.push ops cops (cont 2 [[1], [2], [3]]) oddBlob).1.getNode 4).map (·.filter.isNone) == some true
#guard Container.iterPossible ops (Container.push ops cops (cont 2 [[1], [2], [3]]) oddBlob).1 false 9 == [2, 3]
-- offload at level 1 frees the node filters too; afterwards only the ranges prune
#guard (Container.offload ops cops (cont 2 [[1], [2], [3], [4]]) 1000000 0).2 == 0     -- level below the container's: blobs only (in-memory indexes free nothing)
#guard (Container.offload ops cops (cont 2 [[1], [2], [3], [4]]) 1000000 1).2 == 3 * 46 * 8   -- two groups and the root
#guard Container.iterPossible ops (Container.offload ops cops (cont 2 [[1], [2], [3], [4]]) 1000000 1).1 false 3 == [2, 3]
#guard Container.iterPossible ops (Container.offload ops cops (cont 2 [[1], [2], [3], [4]]) 400 1).1 false 77 == []
#guard Container.pushPanics (Container.new 0 1 : Container Combined FBlob)

-- the explicit-stack iterator (`PossibleRevIter::next`) and its recursive reading agree
def scenarios : List (Container Combined FBlob) :=
  [cont 2 [[1], [2], [3], [4], [5], [1]], (cont 2 [[1], [2], [3], [4], [5], [1]]).pop.1, cont 8 [[1], [2], [3]],
   cont 1 [[1], [2], [3]], cont 3 [[1, 2], [2, 3], [3, 4], [4, 5], [5, 6], [6, 7], [7, 8]],
   ((cont 3 [[1, 2], [2, 3], [3, 4], [4, 5], [5, 6], [6, 7], [7, 8]]).remove 1).1,
   ((cont 3 [[1, 2], [2, 3], [3, 4], [4, 5], [5, 6], [6, 7], [7, 8]]).remove 6).1.pop.1,
   (Container.push ops cops (cont 2 [[1], [2], [3]]) oddBlob).1, Container.new 4 1,
   (Container.offload ops cops (cont 2 [[1], [2], [3], [4]]) 400 1).1]
#guard scenarios.all (fun c => (List.range 10).all (fun k => [true, false].all (fun rev =>
    Container.iterPossibleStack ops c rev k == Container.iterPossible ops c rev k)))

end Pearl.FilterTests
