import Pearl.Model.Ops
import Pearl.Model.Worker
import Pearl.Model.Record
/-
L6: the file / trace layer.  Every driver-level operation is given an *event-emitting* semantics:
`emit : FsState → FsOp → FsState × List Event`, where the events are the file operations the
implementation issues through `src/io/unix/sync.rs` (`IoDriver::create` / `IoDriver::open`,
the positional writes of `write_append_writable_data` / `write_append_all` / `write_all_at`, and
`sync_all` inside `File::fsyncdata`), in the order the `pearl_verif` tap records them at quiescence
(worker queue drained, background tasks finished).

Sources, function by function:
* `File` (`sync.rs`): `size` is advanced by `fetch_add` *before* the pwrite, so the offset of a write is
  the size before it; `fsyncdata` captures `size` before `sync_all` and publishes it with `fetch_max`;
  `open` = append mode with `size = synced_size = file length`, `create` = positional, both counters 0.
* `Blob::open_new` = create, `write_header` (20 bytes at 0), `fsyncdata`.
* `Blob::write` / `write_mut`: one pwrite when header+meta+data ≤ `MAX_SINGLE_PASS_DATA_SIZE`, else two.
* `Blob::dump` = nothing when the index is on disk, else `fsyncdata` of the blob file and
  `index.dump(file_size)`; `dump_in_memory` does nothing without headers; `BPTreeFileIndex::from_records` =
  create, `write_append_all(buffer)`, `write_all_at(0, header with the written bit)`, `fsyncdata`.
* `Storage::write_with_optional_meta`, `delete_core`, `Inner::fsyncdata`, `close_active_blob`,
  `try_close_active_blob` (which *always* sends `TryDumpBlobIndexes`), `force_update_active_blob`,
  `free_excess_resources`, `Storage::close`, `init_from_existing`.
* `ObserverWorker::process_msg` at quiescence: no dump task and no fsync task is running when a
  message arrives, so `TryDumpBlobIndexes` always starts a pass over the closed blobs and `TryFsyncData`
  always runs `Inner::fsyncdata`.

Index files are traced without lengths: `write (index i) off 0` is the buffer written by
`write_append_all`, `sync (index i) 0` its `fsyncdata`, and `idxHeader i bs w` the header rewrite
at offset 0 carrying the `blob_size` field `bs` and the `written` bit `w`.
-/
namespace Pearl

inductive FileId where
  | blob (id : Nat)
  | index (id : Nat)
deriving DecidableEq, Repr, Inhabited

inductive Event where
  /-- `IoDriver::create` (positional writes, counters start at 0) -/
  | create (f : FileId)
  /-- `IoDriver::open` (append mode, counters start at the file length) -/
  | open (f : FileId)
  /-- one positional write -/
  | write (f : FileId) (off len : Nat)
  /-- `sync_all`; `size` is what gets published as synced (captured before the call) -/
  | sync (f : FileId) (size : Nat)
  /-- the index header rewritten at offset 0: `blob_size` field and `written` bit -/
  | idxHeader (id : Nat) (blobSize : Nat) (written : Bool)
deriving DecidableEq, Repr, Inhabited

/-- the file an event touches -/
def Event.file : Event → FileId
  | .create f => f
  | .open f => f
  | .write f _ _ => f
  | .sync f _ => f
  | .idxHeader id _ _ => .index id

/-- `FileInner` counters of a blob file -/
structure FileS where
  size : Nat
  synced : Nat
  appendMode : Bool
deriving DecidableEq, Repr, Inhabited

/-- `File::dirty_bytes` -/
def FileS.dirty (f : FileS) : Nat := f.size - f.synced

namespace Fs

/-- header + meta of a record: the first buffer of a two-pass write -/
def recHead (klen : Nat) (r : Rec) : Nat := headerSize klen + (serMeta r.mt).length

/-- payload length: a deletion marker carries no data -/
def recData (r : Rec) : Nat := if r.del then 0 else r.data.len

/-- bytes a record occupies in the blob file (`57 + klen + |meta| + data`) -/
def recLen (klen : Nat) (r : Rec) : Nat := recHead klen r + recData r

/-- lengths of the pwrites of one record (`to_partially_serialized_and_header` + `write_data`) -/
def recWrites (klen : Nat) (r : Rec) : List Nat :=
  if recLen klen r ≤ MAX_SINGLE_PASS_DATA_SIZE then [recLen klen r] else [recHead klen r, recData r]

/-- length of a blob file holding these records -/
def contentLen (klen : Nat) (recs : List Rec) : Nat := blobHeaderSize + (recs.map (recLen klen)).sum

/-- consecutive writes starting at `off` -/
def writesAt (f : FileId) : Nat → List Nat → List Event
  | _, [] => []
  | off, n :: ns => .write f off n :: writesAt f (off + n) ns

/-! ### the disk: file counters and index files -/

/-- blob-file counters by blob id; index files by blob id with the `blob_size` field of their header -/
structure Disk where
  files : Nat → Option FileS := fun _ => none
  idx : Nat → Option Nat := fun _ => none

def Disk.setFile (d : Disk) (id : Nat) (f : FileS) : Disk :=
  { d with files := fun j => if j = id then some f else d.files j }

def Disk.setIdx (d : Disk) (id : Nat) (bs : Nat) : Disk :=
  { d with idx := fun j => if j = id then some bs else d.idx j }

/-- primitive file-level actions -/
inductive Act where
  /-- `Blob::open_new`: create, header, fsync -/
  | createBlob (id : Nat)
  /-- one record appended with the given pwrite lengths -/
  | append (id : Nat) (lens : List Nat)
  /-- `File::fsyncdata` on the blob file -/
  | syncBlob (id : Nat)
  /-- `Blob::dump` of a blob whose index is in memory: fsync of the blob file, then (if the index
      holds headers) the index file -/
  | dump (id : Nat) (withIndex : Bool)
  /-- `IoDriver::open` of the blob file -/
  | openBlob (id : Nat)
  /-- `IoDriver::open` of the index file -/
  | openIdx (id : Nat)
deriving DecidableEq, Repr, Inhabited

/-- an action is *enabled* when the file it needs exists (resp. does not exist yet);
    `Disk.exec` ignores a disabled action, `Pearl.Fs.run_enabled` (FsLemmas) shows that none is ever issued -/
def Act.enabled (d : Disk) : Act → Bool
  | .createBlob id => (d.files id).isNone
  | .append id _ => (d.files id).isSome
  | .syncBlob id => (d.files id).isSome
  | .dump id _ => (d.files id).isSome
  | .openBlob id => (d.files id).isSome
  | .openIdx id => (d.idx id).isSome

def Disk.exec (d : Disk) : Act → Disk × List Event
  | .createBlob id =>
    match d.files id with
    | some _ => (d, [])
    | none =>
      (d.setFile id { size := blobHeaderSize, synced := blobHeaderSize, appendMode := false },
        [.create (.blob id), .write (.blob id) 0 blobHeaderSize, .sync (.blob id) blobHeaderSize])
  | .append id lens =>
    match d.files id with
    | none => (d, [])
    | some f => (d.setFile id { f with size := f.size + lens.sum }, writesAt (.blob id) f.size lens)
  | .syncBlob id =>
    match d.files id with
    | none => (d, [])
    | some f => (d.setFile id { f with synced := max f.synced f.size }, [.sync (.blob id) f.size])
  | .dump id withIndex =>
    match d.files id with
    | none => (d, [])
    | some f =>
      let d1 := d.setFile id { f with synced := max f.synced f.size }
      if withIndex then
        (d1.setIdx id f.size,
          [.sync (.blob id) f.size, .create (.index id), .write (.index id) 0 0,
           .idxHeader id f.size true, .sync (.index id) 0])
      else (d1, [.sync (.blob id) f.size])
  | .openBlob id =>
    match d.files id with
    | none => (d, [])
    | some f => (d.setFile id { size := f.size, synced := f.size, appendMode := true }, [.open (.blob id)])
  | .openIdx id =>
    match d.idx id with
    | none => (d, [])
    | some _ => (d, [.open (.index id)])

def Disk.runActs (d : Disk) : List Act → Disk × List Event
  | [] => (d, [])
  | a :: as =>
    let (d1, e1) := d.exec a
    let (d2, e2) := d1.runActs as
    (d2, e1 ++ e2)

/-! ### the state -/

structure FsState where
  store : Store := {}
  disk : Disk := {}
  /-- `max_dirty_bytes_before_sync` -/
  limit : Nat := 33554432
  klen : Nat := 4
  /-- `deferred_index_dump_info.is_some()` in the worker -/
  deferred : Bool := false
  isOpen : Bool := true
  /-- `false` = /repo up to 62e8e7f: the explicit `Storage::fsyncdata` goes through `Inner::fsyncdata`,
      which returns without syncing while the dirty bytes are within the limit (defect E13);
      `true` = /repo since 2b9bef3 ("explicit Storage::fsyncdata always syncs the active blob") -/
  explicitFsyncUnconditional : Bool := false
  /-- `false` = /repo before 0ede233: `restore_active_blob` makes the last closed blob active as it is,
      with whatever un-synced bytes it collected while closed (deletion markers);
      `true` = /repo since 0ede233 ("a restored active blob respects the dirty bytes limit at once"):
      after `load_index`, `if too_many_dirty_bytes(blob.file_dirty_bytes()) { blob.fsyncdata() }` -/
  restoreSyncsOverLimit : Bool := true

/-- un-synced bytes of a blob file -/
def FsState.dirtyOf (s : FsState) (id : Nat) : Nat :=
  match s.disk.files id with
  | some f => f.dirty
  | none => 0

/-- what the `dirty` probe shows -/
def FsState.activeDirty (s : FsState) : Option Nat := s.store.active.map (fun a => s.dirtyOf a.id)

/-! ### programs: sequences of action batches and state updates -/

abbrev Prog := FsState → FsState × List Event

def skip : Prog := fun s => (s, [])

/-- run a batch of actions computed from the current state -/
def acts (f : FsState → List Act) : Prog := fun s =>
  let r := s.disk.runActs (f s)
  ({ s with disk := r.1 }, r.2)

/-- update everything but the disk -/
def modify (g : FsState → FsState) : Prog := fun s => ({ g s with disk := s.disk }, [])

def seq (p q : Prog) : Prog := fun s =>
  let r1 := p s
  let r2 := q r1.1
  (r2.1, r1.2 ++ r2.2)

def cond (c : FsState → Bool) (p q : Prog) : Prog := fun s => if c s then p s else q s

infixl:60 " ⨾ " => seq

def modStore (g : Store → Store) : Prog := modify fun s => { s with store := g s.store }

/-! ### building blocks -/

/-- every change of the L2 state is an `Op` of `Pearl.Store.apply` -/
def applyP (op : Op) : Prog := modStore fun st => st.apply op

/-- `Blob::open_new` with the next id, then the L2 operation that installs the new blob
    (`createActive` without an active blob, or `replaceActive`) -/
def newBlobP (op : Op) : Prog :=
  acts (fun s => [.createBlob s.store.nextId]) ⨾ applyP op

/-- `ensure_active_blob_exists` / `create_active_blob` -/
def ensureActiveP : Prog :=
  cond (fun s => s.store.active.isNone) (newBlobP .createActive) skip

/-- one pass of `Safe::try_dump_old_blob_indexes`: every closed blob whose index is in memory, in
    container order -/
def dumpActs (st : Store) : List Act :=
  (st.closed.filter (fun b => !b.onDisk)).map (fun b => Act.dump b.id (!b.recs.isEmpty))

def dumpPassP : Prog := acts (fun s => dumpActs s.store) ⨾ applyP .settle

/-- `should_try_fsync` → `TryFsyncData` → `Inner::fsyncdata` (re-checks `too_many_dirty_bytes`) -/
def fsyncCheckP : Prog :=
  acts fun s =>
    match s.store.active with
    | some a => if s.dirtyOf a.id > s.limit then [.syncBlob a.id] else []
    | none => []

/-- `TryUpdateActiveBlob` taking effect: new active blob, the old one becomes closed *without* fsync;
    the dump pass runs unless a deferred dump is registered -/
def rotateP : Prog :=
  newBlobP .replaceActive ⨾ cond (fun s => s.deferred) skip dumpPassP

def writeRec (k : Key) (ts : Nat) (m : Option Meta) (d : Data) : Rec :=
  { key := k, ts := ts, del := false, mt := m.getD none, data := d }

def markerRec (k : Key) (ts : Nat) (m : Option Meta) : Rec :=
  { key := k, ts := ts, del := true, mt := m.getD none, data := ⟨0, 0⟩ }

/-- `Storage::write_with_optional_meta`; `rot` = the `TryUpdateActiveBlob` it sent replaced the blob.
    A write rejected as a duplicate returns before the rotation and fsync checks. -/
def writeP (k : Key) (ts : Nat) (m : Option Meta) (d : Data) (rot : Bool) : Prog :=
  ensureActiveP ⨾
  cond (fun s => !s.store.allowDup && (s.store.getLatestEntry k m).isFound) skip
    (acts (fun s => match s.store.active with
        | some a => [.append a.id (recWrites s.klen (writeRec k ts m d))]
        | none => []) ⨾
     applyP (.write k ts m d) ⨾
     (if rot then rotateP else fsyncCheckP))

/-- pwrites of `delete_in_active` then `delete_in_closed` (container order) -/
def deleteActs (klen : Nat) (st : Store) (k : Key) (ts : Nat) (m : Option Meta) (oip : Bool) : List Act :=
  let w := recWrites klen (markerRec k ts m)
  (match st.active with
    | some a => if !oip || (a.getLatest k).isFound then [Act.append a.id w] else []
    | none => []) ++
  (st.closed.filter (fun b => (b.getLatest k).isFound)).map (fun b => Act.append b.id w)

/-- `deleted_in_closed > 0` → `DeferredDumpBlobIndexes` -/
def noteDeferredP (k : Key) : Prog :=
  modify fun s => { s with deferred := s.deferred || (s.store.closed.any fun b => (b.getLatest k).isFound) }

/-- `Storage::delete_with_optional_meta` -/
def deleteP (k : Key) (ts : Nat) (m : Option Meta) (oip : Bool) : Prog :=
  (if oip then skip else ensureActiveP) ⨾
  acts (fun s => deleteActs s.klen s.store k ts m oip) ⨾
  noteDeferredP k ⨾
  applyP (.delete k ts m oip) ⨾
  fsyncCheckP

/-- `try_close_active_blob` / `close_active_blob_in_background`: `Inner::close_active_blob`
    (fsync, push), then `TryDumpBlobIndexes` whatever the outcome -/
def closeActiveP : Prog :=
  acts (fun s => match s.store.active with | some a => [.syncBlob a.id] | none => []) ⨾
  applyP .closeActive ⨾
  dumpPassP

def createActiveP : Prog := ensureActiveP

/-- does `restore_active_blob` succeed (no active blob, some closed blob) -/
def restoreOk (st : Store) : Bool :=
  match st.restoreActive with
  | .ok _ => true
  | .error _ => false

/-- `restore_active_blob`: `load_index` only reads; since /repo 0ede233 the restored blob is fsynced when
    its un-synced bytes are strictly above the limit (one `sync` publishing the current file size).
    A failing call (`ActiveBlobExists`, `Uninitialized`) returns before any of this. -/
def restoreActiveP : Prog :=
  cond (fun s => restoreOk s.store)
    (applyP .restoreActive ⨾ cond (fun s => s.restoreSyncsOverLimit) fsyncCheckP skip)
    skip

/-- `force_update_active_blob(pred)` -/
def forceP (pred : BlobPred) : Prog :=
  cond (fun s => pred s.store.activeStat) (newBlobP .replaceActive) skip ⨾ dumpPassP

/-- closed non-empty blobs whose index is still in memory (what the `settle` command waits for) -/
def pending (st : Store) : Bool := st.closed.any fun b => !b.recs.isEmpty && !b.onDisk

def settleP : Prog := cond (fun s => pending s.store) dumpPassP skip

/-- `Storage::fsyncdata` -/
def fsyncP : Prog :=
  acts fun s =>
    match s.store.active with
    | some a =>
      if s.explicitFsyncUnconditional || decide (s.dirtyOf a.id > s.limit) then [.syncBlob a.id] else []
    | none => []

/-- `Storage::close`: dump of the active blob only -/
def closeP : Prog :=
  acts (fun s => match s.store.active with
    | some a => [.dump a.id (!a.recs.isEmpty)]
    | none => []) ⨾
  modify (fun s => { s with isOpen := false })

/-- is the index file of this blob usable on open (`validate`: `blob_size` field = file length) -/
def idxValid (d : Disk) (id : Nat) : Bool :=
  match d.idx id, d.files id with
  | some bs, some f => bs == f.size
  | _, _ => false

/-- `init_from_existing`: every blob and index file is opened (canonical order: by id), the last blob
    becomes active unless `lazy`, every other blob whose index could not be used is dumped -/
def openActs (d : Disk) (st : Store) (lazy : Bool) : List Act :=
  let bs := Store.sortById st.blobs
  let rest := if lazy then bs else bs.dropLast
  bs.flatMap (fun b => if (d.idx b.id).isSome then [Act.openBlob b.id, Act.openIdx b.id] else [Act.openBlob b.id]) ++
  (rest.filter (fun b => !idxValid d b.id)).map (fun b => Act.dump b.id (!b.recs.isEmpty))

def openP (lazy : Bool) : Prog :=
  acts (fun s => openActs s.disk s.store lazy) ⨾
  applyP (.restart lazy) ⨾
  modify (fun s => { s with deferred := false, isOpen := true })

/-! ### operations -/

inductive FsOp where
  | write (k : Key) (ts : Nat) (m : Option Meta) (d : Data) (rot : Bool)
  | delete (k : Key) (ts : Nat) (m : Option Meta) (oip : Bool)
  /-- also `close_active_blob_in_background` -/
  | closeActive
  | createActive
  | restoreActive
  | force (pred : BlobPred)
  /-- `free_excess_resources` -/
  | free
  | settle
  | fsync
  | restart (lazy : Bool)
  | close
  | open (lazy : Bool)
  /-- `read`, `read_with`, `contains`, `read_all`, `read_all_with_deletion_marker` and the counters -/
  | query

def prog : FsOp → Prog
  | .write k ts m d rot => writeP k ts m d rot
  | .delete k ts m oip => deleteP k ts m oip
  | .closeActive => closeActiveP
  | .createActive => createActiveP
  | .restoreActive => restoreActiveP
  | .force pred => forceP pred
  | .free => dumpPassP
  | .settle => settleP
  | .fsync => fsyncP
  | .restart lazy => closeP ⨾ openP lazy
  | .close => closeP
  | .open _ => skip
  | .query => skip

/-- one driver-level step, run to quiescence -/
def emit (s : FsState) (op : FsOp) : FsState × List Event :=
  if s.isOpen then prog op s
  else
    match op with
    | .open lazy => openP lazy s
    | _ => (s, [])

/-- `Builder::build` + `init` on an empty directory (`init_new`) -/
def init (allowDup : Bool) (limit klen : Nat) (unconditional restoreSyncs : Bool) : FsState × List Event :=
  newBlobP .createActive
    { store := { allowDup := allowDup }, limit := limit, klen := klen,
      explicitFsyncUnconditional := unconditional, restoreSyncsOverLimit := restoreSyncs }

/-- run a list of operations, collecting the trace -/
def runFrom (st : FsState × List Event) (ops : List FsOp) : FsState × List Event :=
  ops.foldl (fun acc op => let r := emit acc.1 op; (r.1, acc.2 ++ r.2)) st

def run (allowDup : Bool) (limit klen : Nat) (unconditional restoreSyncs : Bool) (ops : List FsOp) :
    FsState × List Event :=
  runFrom (init allowDup limit klen unconditional restoreSyncs) ops

/-! ### printing (the `trace` and `dirty` lines of the harness) -/

def showFile : FileId → String
  | .blob id => s!"b{id}"
  | .index id => s!"i{id}"

def showEvent : Event → String
  | .create f => "C" ++ showFile f
  | .open f => "O" ++ showFile f
  | .write (.blob id) off len => s!"Wb{id}:{off}:{len}"
  | .write (.index id) off _ => s!"Wi{id}:{off}:*"
  | .sync (.blob id) n => s!"Sb{id}:{n}"
  | .sync (.index id) _ => s!"Si{id}"
  | .idxHeader id bs w => s!"Wi{id}:hdr:bs={bs}:w={if w then 1 else 0}"

def showTrace (evs : List Event) : String := "#trace " ++ " ".intercalate (evs.map showEvent)

def showDirty (s : FsState) : String :=
  match s.activeDirty with
  | some n => s!"dirty {n}"
  | none => "dirty -"

end Fs
end Pearl
