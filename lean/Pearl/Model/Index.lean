import Pearl.Model.Basic
/-
L1: the in-memory index (`IndexStruct::push`, `get_latest`, `get_all_with_deletion_marker`,
`src/blob/index/core.rs`).  A per-key vector of headers kept ascending by timestamp, ties in
insertion order.
-/
namespace Pearl

/-- `while pos < v.len() && v[pos].timestamp() <= h.timestamp() { pos += 1 }`, on the suffix from `pos` -/
def skipLEAux (ts : Nat) : List Rec → Nat → Nat
  | [], pos => pos
  | r :: rs, pos => if r.ts ≤ ts then skipLEAux ts rs (pos + 1) else pos

def skipLE (v : List Rec) (ts : Nat) (pos : Nat) : Nat := skipLEAux ts (v.drop pos) pos

/-- insertion starting the linear scan at `start` (whatever the binary search returned) -/
def pushAt (v : List Rec) (h : Rec) (start : Nat) : List Rec :=
  v.insertIdx (skipLE v h.ts start) h

/-- A start position is *admissible* if everything before it has a timestamp `≤` the new one.
    `binary_search_by(|item| item.ts.cmp(&h.ts))` on an ascending vector returns such a position,
    for `Ok(i)` (an element equal to `h.ts`, everything before is `≤`) and for `Err(i)`
    (the insertion point, everything before is `<`), in every version of the standard library. -/
def Admissible (v : List Rec) (ts : Nat) (start : Nat) : Prop :=
  start ≤ v.length ∧ ∀ r ∈ v.take start, r.ts ≤ ts

/-- the start position used by the executable model: `0` for short vectors, the lower bound otherwise -/
def searchStart (v : List Rec) (ts : Nat) : Nat :=
  if v.length > 4 then (v.takeWhile (fun r => r.ts < ts)).length else 0

def push (v : List Rec) (h : Rec) : List Rec := pushAt v h (searchStart v h.ts)

/-- the vector the index holds for key `k` after the records `recs` were pushed in this order -/
def vecOf (recs : List Rec) (k : Key) : List Rec :=
  (recs.filter (fun r => r.key == k)).foldl push []

/-- through the first deletion marker (`position(is_deleted)` + `truncate(first_del + 1)`) -/
def cutHdrs : List Rec → List Rec
  | [] => []
  | r :: rs => if r.del then [r] else r :: cutHdrs rs

/-- `get_latest`: last element of the vector -/
def latestOfVec (v : List Rec) : ReadResult Rec :=
  match v.getLast? with
  | none => .notFound
  | some r => if r.del then .deleted r.ts else .found r

/-- `get_all_with_deletion_marker`: reversed vector, cut after the first marker -/
def allCutOfVec (v : List Rec) : List Rec := cutHdrs v.reverse

end Pearl
