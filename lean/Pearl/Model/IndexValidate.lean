import Pearl.Model.BPTreeBytes
/-
L4 bytes: the START-UP ACCEPTANCE TEST of an index file, on the bytes of the file.

Rust (current tree, with `check_file_size`, commit "reject an index file whose length does not match
its header"):

  Blob::from_file                     src/blob/core.rs
    if index file exists:
      Index::from_file(name, cfg, io, blob_file.size())       src/blob/index/core.rs
        FileIndex::from_file(name, io)                        src/blob/index/bptree/core.rs
          read_index_header   read_exact_at_allocate(83, 0)   (EOF -> bincode error), bincode::deserialize
          read_tree_meta      read_exact_at_allocate(16, header.serialized_size() + meta_size), deserialize
          check_file_size     tree_offset <= leaves_offset  &&
                              checked(records_count * record_header_size + leaves_offset) == Some(file.size())
          read_root           read_exact_at(min(file.size() - tree_offset, 4096) bytes, tree_offset)
        findex.validate(blob_size)    written bit; version == HEADER_VERSION; key_size == K::LEN;
                                      header.blob_size == blob_size; magic
        findex.read_meta()            read_exact_at_allocate(meta_size, header.serialized_size())
        deserialize_filters           (not modelled: only "the filter section is readable")
      .or_else(|e| if e is io::Error of kind PermissionDenied | Other { return Err } else
                   { is_index_corrupted = true; Index::new(..) /* regenerated from the blob */ })
    else Index::new(..)               regenerated from the blob

A file is a `List Nat` of bytes.  There are no I/O errors other than reading past the end of the file
(`UnexpectedEof`, which the code turns into a bincode error, i.e. "regenerate").

`bincode::deserialize` (1.3, fixed-width little-endian integers) accepts trailing bytes and fails when
the input ends early.  The `hash: Vec<u8>` field is `u64` length + that many bytes, so the position of
the last three fields and `header.serialized_size()` (= 51 + hash length) depend on the length word
read from the file; the model keeps this.

Arithmetic: `hs + meta_size` in `read_tree_meta` is a plain `u64` addition; an overflow is a panic of
a debug build (start-up does not use the index) — the model rejects, as `Pearl/Model/BPTree.lean`
does for every overflow.  `check_file_size` uses checked arithmetic, modelled exactly.
`file.size() - tree_offset` in `read_root` cannot underflow after `check_file_size`; in
`acceptIndexNoSizeCheck` (the code before the repair) an underflow is rejection too (debug: panic;
release: wraps, `min` gives 4096, and the read fails with EOF).
-/
namespace Pearl.BPTree

/-- value of little-endian bytes -/
def leNat (bs : List Nat) : Nat := bs.foldr (fun b acc => b + 256 * acc) 0

def u64Bound : Nat := 2 ^ 64

/-- `read_exact_at(buf of len bytes, off)`: the bytes, or `UnexpectedEof` -/
def readExactAt (file : List Nat) (off len : Nat) : Option (List Nat) :=
  if off + len ≤ file.length then some ((file.drop off).take len) else none

/-- the fields of `IndexHeader` as read from a file -/
structure IndexHeaderV where
  magic : Nat
  recordsCount : Nat
  recordHeaderSize : Nat
  metaSize : Nat
  hash : List Nat
  /-- the raw `version` byte: `version << 1 | written` -/
  versionByte : Nat
  keySize : Nat
  blobSize : Nat
deriving Repr, DecidableEq

namespace IndexHeaderV
/-- `is_written`: `version & 1 == 1` -/
def isWritten (h : IndexHeaderV) : Bool := h.versionByte % 2 == 1
/-- `version()`: `version >> 1` -/
def version (h : IndexHeaderV) : Nat := h.versionByte / 2
/-- `serialized_size()`: 4 × u64, u64 length + hash bytes, u8, u16, u64 -/
def serializedSize (h : IndexHeaderV) : Nat := 51 + h.hash.length
end IndexHeaderV

/-- bincode: a fixed-width little-endian integer of `w` bytes; `(value, rest of input)` or EOF -/
def readLE (w : Nat) (buf : List Nat) : Option (Nat × List Nat) :=
  if buf.length < w then none else some (leNat (buf.take w), buf.drop w)

/-- bincode: `n` raw bytes (the elements of a `Vec<u8>` after its length word) -/
def readBytes (n : Nat) (buf : List Nat) : Option (List Nat × List Nat) :=
  if buf.length < n then none else some (buf.take n, buf.drop n)

/-- `IndexHeader::from_raw` = `bincode::deserialize`: inverse of `indexHeaderBytes`; the fields are read
    one after another; trailing bytes are allowed, a short input is an error -/
def parseIndexHeader (buf : List Nat) : Option IndexHeaderV :=
  (readLE 8 buf).bind fun magic =>
  (readLE 8 magic.2).bind fun rc =>
  (readLE 8 rc.2).bind fun rhs =>
  (readLE 8 rhs.2).bind fun ms =>
  (readLE 8 ms.2).bind fun hl =>
  (readBytes hl.1 hl.2).bind fun hash =>
  (readLE 1 hash.2).bind fun vb =>
  (readLE 2 vb.2).bind fun ks =>
  (readLE 8 ks.2).bind fun bs =>
  some
    { magic := magic.1, recordsCount := rc.1, recordHeaderSize := rhs.1, metaSize := ms.1, hash := hash.1,
      versionByte := vb.1, keySize := ks.1, blobSize := bs.1 }

/-- `TreeMeta { leaves_offset, tree_offset }` as read from a file -/
structure TreeMetaV where
  leavesOffset : Nat
  treeOffset : Nat
deriving Repr, DecidableEq

/-- `TreeMeta::from_raw` -/
def parseTreeMeta (buf : List Nat) : Option TreeMetaV :=
  (readLE 8 buf).bind fun lo =>
  (readLE 8 lo.2).bind fun to =>
  some { leavesOffset := lo.1, treeOffset := to.1 }

/-- `read_index_header`: `IndexHeader::serialized_size_default()` = 83 bytes from offset 0 -/
def readIndexHeader (file : List Nat) : Option IndexHeaderV :=
  (readExactAt file 0 indexHeaderSize).bind parseIndexHeader

/-- `read_tree_meta`: 16 bytes at `header.serialized_size() + meta_size` -/
def readTreeMeta (file : List Nat) (h : IndexHeaderV) : Option TreeMetaV :=
  if u64Bound ≤ h.serializedSize + h.metaSize then none
  else (readExactAt file (h.serializedSize + h.metaSize) treeMetaSize).bind parseTreeMeta

/-- `check_file_size` -/
def checkFileSize (h : IndexHeaderV) (tm : TreeMetaV) (size : Nat) : Bool :=
  tm.treeOffset ≤ tm.leavesOffset
    && h.recordsCount * h.recordHeaderSize < u64Bound
    && h.recordsCount * h.recordHeaderSize + tm.leavesOffset < u64Bound
    && h.recordsCount * h.recordHeaderSize + tm.leavesOffset == size

/-- `read_root` succeeds: `min(size - tree_offset, BLOCK_SIZE)` bytes at `tree_offset` -/
def readRootOk (tm : TreeMetaV) (file : List Nat) : Bool :=
  tm.treeOffset ≤ file.length
    && (readExactAt file tm.treeOffset (min (file.length - tm.treeOffset) 4096)).isSome

/-- `validate(blob_size)` with `K::LEN = K` -/
def validateHeader (K blobSize : Nat) (h : IndexHeaderV) : Bool :=
  h.isWritten && h.version == indexHeaderVersion && h.keySize == K && h.blobSize == blobSize
    && h.magic == magicByte

/-- `read_meta` succeeds (the filter section; `deserialize_filters` itself is not modelled) -/
def readMetaOk (file : List Nat) (h : IndexHeaderV) : Bool :=
  (readExactAt file h.serializedSize h.metaSize).isSome

/-- `IndexStruct::from_file(.., blob_size)` returns `Ok`: start-up USES this index file (`State::OnDisk`)
    instead of regenerating the index from the blob -/
def acceptIndex (K : Nat) (blobSize : Nat) (file : List Nat) : Bool :=
  match readIndexHeader file with
  | none => false
  | some h =>
    match readTreeMeta file h with
    | none => false
    | some tm =>
      checkFileSize h tm file.length && readRootOk tm file && validateHeader K blobSize h
        && readMetaOk file h

/-- the same before the repair (no `check_file_size`) -/
def acceptIndexNoSizeCheck (K : Nat) (blobSize : Nat) (file : List Nat) : Bool :=
  match readIndexHeader file with
  | none => false
  | some h =>
    match readTreeMeta file h with
    | none => false
    | some tm => readRootOk tm file && validateHeader K blobSize h && readMetaOk file h

/-- where the index of a blob comes from at start-up -/
inductive IndexSource where
  /-- the index file is used as it is (`State::OnDisk`) -/
  | file
  /-- `Index::new` + `try_regenerate_index`: recomputed from the blob -/
  | regenerated
deriving Repr, DecidableEq

/-- `Blob::from_file`: `indexFile = none` when `index_name.exists()` is false -/
def indexSource (K blobSize : Nat) (indexFile : Option (List Nat)) : IndexSource :=
  match indexFile with
  | none => .regenerated
  | some file => if acceptIndex K blobSize file then .file else .regenerated

/-! ### the images `from_records` leaves on disk -/

/-- `indexHeaderBytes` with an arbitrary `version` byte -/
def indexHeaderBytesV (f : IndexFile RawHeader) (hash : List Nat) (versionByte : Nat) (blobSize : Nat) :
    List Nat :=
  leBytes 8 magicByte ++ leBytes 8 f.recordsCount ++ leBytes 8 f.p.rhs ++ leBytes 8 f.metaLen
    ++ (leBytes 8 hash.length ++ hash) ++ [versionByte] ++ leBytes 2 f.p.K ++ leBytes 8 blobSize

/-- everything after the header -/
def indexBodyBytes (f : IndexFile RawHeader) (metaBuf : List Nat) : List Nat :=
  metaBuf ++ treeMetaBytes f ++ f.nodes.flatMap (Node.bytes f.p.K) ++ f.leaves.flatMap (RawHeader.bytes f.p.K)

/-- the buffer `from_records` writes first (`write_append_all(buf)`): the header still has the `written`
    bit clear; the header is rewritten with the bit set afterwards -/
def indexFileBytesUnwritten (f : IndexFile RawHeader) (metaBuf hash : List Nat) (blobSize : Nat) : List Nat :=
  indexHeaderBytes f hash false blobSize ++ indexBodyBytes f metaBuf

end Pearl.BPTree
