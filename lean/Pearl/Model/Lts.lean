/-
L3 (concurrency): two small labelled transition systems.

1. `Pearl.Lts` — writers, the bounded observer channel and the storage lock
   (`Storage::write_with_optional_meta` + `Storage::try_update_active_blob` in `src/storage/core.rs`,
   `Observer::send_msg` in `src/storage/observer.rs`, `ObserverWorker::try_update_active_blob` in
   `src/storage/observer_worker.rs`).

   A client task does one write into a FULL active blob.  Two protocols (`Proto`):

   `sendUnderLock` — /repo up to eb0e048 (the pinned code):

       let safe = self.inner.safe.read().await;          -- `cAcquire`: shared lock on `Inner::safe`
       Blob::write(blob, key, record).await?;            -- `cAppend` : atomic (see `Pearl.Append` below)
       self.try_update_active_blob(blob).await?;         -- `cSend`   : `sender.send(msg).await` on the bounded
                                                         --             channel, `safe` STILL HELD
       (guard dropped at the end of the function)        -- `cRelease`

   `sendAfterRelease` — /repo since fe5e781 (the code as it is now):

       let safe = self.inner.safe.read().await;          -- `cAcquire`
       Blob::write(blob, key, record).await?;            -- `cAppend` : … and `need_update` is decided here,
       let need_update = self.should_update_active_blob(blob).await?;     under the lock (`relSend` / `release`)
       drop(safe);                                       -- `cRelease`
       if need_update { self.observer.try_update_active_blob().await }    -- `cSend` (pc `sendFree`): no lock held

   (`delete_with_optional_meta` follows the same two shapes with `DeferredDumpBlobIndexes` / `TryFsyncData`.)

   The worker:

       self.receiver.recv().await                        -- `wRecv`   : takes a message; the blob is full, so it
       self.inner.safe().write().await                   --             asks for the lock exclusively
                                                         -- `wGrant`  : granted when no reader holds it
       write.replace_active_blob(new_active)             -- `wSwitch` : blob switched, lock released

   tokio's `RwLock` is fair (write-preferring): a `read()` issued while a writer waits queues behind it.
   Here that is the guard `writer = idle` of `cAcquire`.  Once the blob is not full any more the worker only
   takes the lock shared for the check and drops the message (`wRecv` with `full = false`); a client that
   appends into a blob that is not full sends nothing.

2. `Pearl.Append` — the per-blob append critical section (`Blob::write` in `src/blob/core.rs`,
   `File::write_append_writable_data` in `src/io/unix/sync.rs`): upgradable lock, `size.fetch_add(len)`
   reservation, `write_all_at(offset)`.
-/
namespace Pearl
namespace Lts

/-- program counter of a client -/
inductive CPc where
  /-- before `safe.read()` -/
  | start
  /-- holds the shared lock, about to append -/
  | append
  /-- holds the shared lock, in `sender.send(..)` -/
  | send
  /-- holds the shared lock, about to drop it; nothing (more) to send -/
  | release
  /-- `sendAfterRelease`: holds the shared lock, about to drop it, has decided to send afterwards -/
  | relSend
  /-- `sendAfterRelease`: holds no lock, in `sender.send(..)` -/
  | sendFree
  | done
deriving DecidableEq, Repr, Inhabited

/-- program counter of the worker -/
inductive WPc where
  /-- in `receiver.recv()` -/
  | recv
  /-- in `safe.write()`, queued -/
  | waitWrite
  /-- holds the lock exclusively -/
  | switching
deriving DecidableEq, Repr, Inhabited

/-- the writer side of the lock -/
inductive Writer where
  | idle
  | waiting
  | holding
deriving DecidableEq, Repr, Inhabited

structure LState where
  clients : List CPc
  /-- messages in the channel -/
  chan : Nat
  wpc : WPc
  /-- shared holders of `Inner::safe` -/
  readers : Nat
  writer : Writer
  /-- the active blob is at its limit -/
  full : Bool
deriving DecidableEq, Repr, Inhabited

inductive Label where
  | cAcquire (i : Nat)
  | cAppend (i : Nat)
  | cSend (i : Nat)
  | cRelease (i : Nat)
  | wRecv
  | wGrant
  | wSwitch
deriving DecidableEq, Repr, Inhabited

/-- when the request to the worker is sent -/
inductive Proto where
  /-- while the shared storage lock is held (/repo up to eb0e048) -/
  | sendUnderLock
  /-- after the shared storage lock is dropped (/repo since fe5e781) -/
  | sendAfterRelease
deriving DecidableEq, Repr, Inhabited

/-- where a client goes after its append: `full` is what it saw under the lock (`need_update`) -/
def appendTarget : Proto → Bool → CPc
  | _, false => .release
  | .sendUnderLock, true => .send
  | .sendAfterRelease, true => .relSend

/-- the transition function: `fire proto cap l s` is the successor of `s` under `l` if `l` is enabled.
    `cap` is the channel capacity (`OBSERVER_CHANNEL_SIZE_LIMIT`).  The protocol only decides where
    `cAppend` leads; every other transition is determined by the program counter. -/
def fire (proto : Proto) (cap : Nat) (l : Label) (s : LState) : Option LState :=
  match l with
  | .cAcquire i =>
    if s.clients[i]? = some .start ∧ s.writer = .idle then
      some { s with clients := s.clients.set i .append, readers := s.readers + 1 }
    else none
  | .cAppend i =>
    if s.clients[i]? = some .append then
      some { s with clients := s.clients.set i (appendTarget proto s.full) }
    else none
  | .cSend i =>
    if s.clients[i]? = some .send ∧ s.chan < cap then
      some { s with clients := s.clients.set i .release, chan := s.chan + 1 }
    else if s.clients[i]? = some .sendFree ∧ s.chan < cap then
      some { s with clients := s.clients.set i .done, chan := s.chan + 1 }
    else none
  | .cRelease i =>
    if s.clients[i]? = some .release then
      some { s with clients := s.clients.set i .done, readers := s.readers - 1 }
    else if s.clients[i]? = some .relSend then
      some { s with clients := s.clients.set i .sendFree, readers := s.readers - 1 }
    else none
  | .wRecv =>
    if s.wpc = .recv ∧ 0 < s.chan then
      if s.full then some { s with chan := s.chan - 1, wpc := .waitWrite, writer := .waiting }
      else some { s with chan := s.chan - 1 }
    else none
  | .wGrant =>
    if s.wpc = .waitWrite ∧ s.readers = 0 then some { s with wpc := .switching, writer := .holding }
    else none
  | .wSwitch =>
    if s.wpc = .switching then some { s with wpc := .recv, writer := .idle, full := false }
    else none

def Step (proto : Proto) (cap : Nat) (s s' : LState) : Prop := ∃ l, fire proto cap l s = some s'

/-- everybody is done: all clients finished, channel drained, worker back in `recv` -/
def final (s : LState) : Prop := (∀ c ∈ s.clients, c = .done) ∧ s.chan = 0 ∧ s.wpc = .recv

instance (s : LState) : Decidable (final s) := by unfold final; infer_instance

def Stuck (proto : Proto) (cap : Nat) (s : LState) : Prop := ¬ final s ∧ ∀ s', ¬ Step proto cap s s'

/-- run a schedule (`none` if some label is not enabled when its turn comes) -/
def runSched (proto : Proto) (cap : Nat) : List Label → LState → Option LState
  | [], s => some s
  | l :: ls, s =>
    match fire proto cap l s with
    | some s' => runSched proto cap ls s'
    | none => none

inductive Reach (proto : Proto) (cap : Nat) (s0 : LState) : LState → Prop where
  | refl : Reach proto cap s0 s0
  | step {s s' : LState} : Reach proto cap s0 s → Step proto cap s s' → Reach proto cap s0 s'

/-- `n` clients that have not yet asked for the lock -/
def init (n : Nat) : LState :=
  { clients := List.replicate n .start, chan := 0, wpc := .recv, readers := 0, writer := .idle, full := true }

/-- `n` clients all already holding the lock shared, the active blob is full -/
def initInside (n : Nat) : LState :=
  { clients := List.replicate n .append, chan := 0, wpc := .recv, readers := n, writer := .idle, full := true }

/-- `sendUnderLock`: the schedule that runs `initInside (cap + 2)` into a deadlock:
    everybody appends; `cap` clients fill the channel; the worker takes one message and queues for the
    exclusive lock; one more client refills the channel; the `cap + 1` clients that have sent leave;
    the last client sits in `send` on a full channel holding the shared lock the worker waits for. -/
def witnessSched (cap : Nat) : List Label :=
  (List.range' 0 (cap + 2)).map .cAppend ++
  (List.range' 0 cap).map .cSend ++
  (match cap with
   | 0 => []
   | c + 1 => [.wRecv, .cSend (c + 1)] ++ (List.range' 0 (c + 2)).map .cRelease)

/-- the state it ends in -/
def witnessState (cap : Nat) : LState :=
  match cap with
  | 0 => { clients := [.send, .send], chan := 0, wpc := .recv, readers := 2, writer := .idle, full := true }
  | c + 1 =>
    { clients := List.replicate (c + 2) .done ++ [.send], chan := c + 1, wpc := .waitWrite, readers := 1,
      writer := .waiting, full := true }

end Lts

/-! ## the append critical section -/
namespace Append

/-- a reserved byte range `[off, off + len)` -/
structure Range where
  off : Nat
  len : Nat
deriving DecidableEq, Repr, Inhabited

def Range.stop (r : Range) : Nat := r.off + r.len

/-- two ranges share no byte -/
def Range.Disjoint (a b : Range) : Prop := a.stop ≤ b.off ∨ b.stop ≤ a.off

/-- `size.fetch_add(len)`: returns the reserved range and the new size -/
def fetchAdd (size len : Nat) : Range × Nat := ({ off := size, len := len }, size + len)

/-- the ranges handed out by successive `fetch_add`s, in the order the atomic operations take effect -/
def reserveAll : Nat → List Nat → List Range
  | _, [] => []
  | size, len :: lens => (fetchAdd size len).1 :: reserveAll (fetchAdd size len).2 lens

/-- program counter of an appender (one `Blob::write` call writing `len` bytes) -/
inductive APc where
  /-- waiting for `blob.upgradable_read()` -/
  | idle (len : Nat)
  /-- holds the upgradable lock, has not yet reserved -/
  | locked (len : Nat)
  /-- has reserved `[off, off+len)`, the bytes are not yet in the file -/
  | reserved (r : Range)
  /-- `write_all_at` done, index not yet pushed, lock still held -/
  | written (r : Range)
  /-- lock released -/
  | done (r : Range)
deriving DecidableEq, Repr, Inhabited

/-- the range a writer owns -/
def APc.range? : APc → Option Range
  | .reserved r => some r
  | .written r => some r
  | .done r => some r
  | _ => none

/-- inside the section guarded by the upgradable lock -/
def APc.inCs : APc → Bool
  | .locked _ => true
  | .reserved _ => true
  | .written _ => true
  | _ => false

structure AState where
  /-- `File::size` (the atomic) -/
  size : Nat
  /-- the upgradable lock of the blob is taken -/
  locked : Bool
  ws : List APc
  /-- `file[o] = some i`: byte `o` was last written by writer `i` -/
  file : Nat → Option Nat

inductive ALabel where
  | lock (i : Nat)
  | reserve (i : Nat)
  | write (i : Nat)
  | unlock (i : Nat)
deriving DecidableEq, Repr

/-- paint `[r.off, r.stop)` with owner `i` -/
def paint (file : Nat → Option Nat) (r : Range) (i : Nat) : Nat → Option Nat :=
  fun o => if r.off ≤ o ∧ o < r.stop then some i else file o

/-- `useLock = false` drops the upgradable lock from the protocol (every writer may enter at once):
    disjointness of the ranges does not depend on it, atomicity of the whole section does. -/
def afire (useLock : Bool) (l : ALabel) (s : AState) : Option AState :=
  match l with
  | .lock i =>
    match s.ws[i]? with
    | some (.idle len) =>
      if useLock && s.locked then none
      else some { s with locked := true, ws := s.ws.set i (.locked len) }
    | _ => none
  | .reserve i =>
    match s.ws[i]? with
    | some (.locked len) =>
      some { s with size := (fetchAdd s.size len).2, ws := s.ws.set i (.reserved (fetchAdd s.size len).1) }
    | _ => none
  | .write i =>
    match s.ws[i]? with
    | some (.reserved r) => some { s with ws := s.ws.set i (.written r), file := paint s.file r i }
    | _ => none
  | .unlock i =>
    match s.ws[i]? with
    | some (.written r) => some { s with locked := false, ws := s.ws.set i (.done r) }
    | _ => none

def AStep (useLock : Bool) (s s' : AState) : Prop := ∃ l, afire useLock l s = some s'

inductive AReach (useLock : Bool) (s0 : AState) : AState → Prop where
  | refl : AReach useLock s0 s0
  | step {s s' : AState} : AReach useLock s0 s → AStep useLock s s' → AReach useLock s0 s'

/-- a blob file of `size` bytes and writers that want to append `lens` -/
def ainit (size : Nat) (lens : List Nat) : AState :=
  { size := size, locked := false, ws := lens.map .idle, file := fun _ => none }

end Append
end Pearl
