import Pearl.Model.Store
/-
Operations as data, so that "for every history" is a quantifier over `List Op`.
-/
namespace Pearl

inductive Op where
  | write (k : Key) (ts : Nat) (m : Option Meta) (d : Data)
  | delete (k : Key) (ts : Nat) (m : Option Meta) (oip : Bool)
  | closeActive
  | createActive
  | restoreActive
  /-- `ForceUpdateActiveBlob` / `TryUpdateActiveBlob` taking effect: fresh active blob, old one closed -/
  | replaceActive
  /-- background index dumps complete -/
  | settle
  | restart (lazy : Bool)
deriving Repr, Inhabited

namespace Store

/-- state transition of one operation; a lifecycle call whose precondition fails leaves the state unchanged
    (its error is an output, see `Script.step`) -/
def apply (s : Store) : Op → Store
  | .write k ts m d => s.write k ts m d
  | .delete k ts m oip => (s.delete k ts m oip).1
  | .closeActive => match s.closeActive with | .ok s' => s' | .error _ => s
  | .createActive => match s.tryCreateActive with | .ok s' => s' | .error _ => s
  | .restoreActive => match s.restoreActive with | .ok s' => s' | .error _ => s
  | .replaceActive => s.replaceActive
  | .settle => s.settle
  | .restart lazy => s.restart lazy

/-- the storage right after `init` on an empty directory -/
def init (allowDup : Bool) : Store := ({ allowDup := allowDup } : Store).createActive

def run (s : Store) (ops : List Op) : Store := ops.foldl apply s

/-- well-formedness: blob ids strictly increase along closed blobs (container order) then the active
    blob, and every id is below `nextId` -/
def WF (s : Store) : Prop :=
  (s.blobs.map (·.id)).Pairwise (· < ·) ∧ ∀ b ∈ s.blobs, b.id < s.nextId

end Store
end Pearl
