/- Snapshot taken by tools/rs2lean.py from the PINNED tree (commit 8fcb7aa) and committed: the on-disk format of the
   pinned release (C17).  Never regenerated at run time. -/
namespace Pearl.Pinned

def AHASH_MULTIPLE : Nat := 6364136223846793005
def AHASH_PI : List Nat := [2611923443488327891, 1376283091369227076, 11820040416388919760, 589684135938649225]
def AHASH_ROT : Nat := 23
def BLOB_MAGIC_BYTE : Nat := 3736054733
def BLOB_OFFSET_PATCH : Nat := 24
def BLOB_VERSION : Nat := 1
def BLOCK_SIZE : Nat := 4096
def BLOOM_HASHER_KEY1_OFFSET : Nat := 1
def BLOOM_HASHER_KEY2_OFFSET : Nat := 2
def CHECKSUM_PATCH : Nat := 4
def DEFAULT_ALLOW_DUPLICATES : Bool := false
def DEFAULT_DEBOUNCE_MS : Nat := 200
def DEFAULT_DEFERRED_MAX_S : Nat := 180
def DEFAULT_DEFERRED_MIN_S : Nat := 60
def DEFAULT_GROUP_SIZE : Nat := 8
def DEFAULT_IGNORE_CORRUPTED : Bool := false
def DEFAULT_MAX_DIRTY_BYTES : Nat := 33554432
def DELETE_FLAG : Nat := 1
def FILTER_ADD_NO_NO : String := "NotContains"
def FILTER_ADD_OTHER : String := "NeedAdditionalCheck"
def HASH_LENGTH : Nat := 32
def HEADER_VERSION : Nat := 6
def INDEX_HEADER_MAGIC_BYTE : Nat := 2900147422
def LATEST_OTHER_WINS_IF : String := ">"
def MAX_SINGLE_PASS_DATA_SIZE : Nat := 4096
def MAX_SYNC_OPERATION_SIZE : Nat := 81920
def OBSERVER_CHANNEL_SIZE_LIMIT : Nat := 1024
def RECORD_MAGIC_BYTE : Nat := 2900147422
def SAVE_CORRUPTED_BINCODE : Bool := true
def SAVE_CORRUPTED_NOT_PEARL_ERROR : Bool := true
def SAVE_CORRUPTED_OTHER : Bool := false
def SAVE_CORRUPTED_VALIDATION_EXCEPT : String := "BlobVersion"
def layout_IndexHeader : List (String × String) := [("magic_byte", "u64"), ("records_count", "usize"), ("record_header_size", "usize"), ("meta_size", "usize"), ("hash", "Vec<u8>"), ("version", "u8"), ("key_size", "u16"), ("blob_size", "u64")]
def layout_NodeMeta : List (String × String) := [("size", "u64")]
def layout_RangeFilterInner : List (String × String) := [("min", "K"), ("max", "K"), ("initialized", "bool")]
def layout_TreeMeta : List (String × String) := [("leaves_offset", "u64"), ("tree_offset", "u64")]
def layout_blob_Header : List (String × String) := [("magic_byte", "u64"), ("version", "u32"), ("flags", "u64")]
def layout_bloom_Config : List (String × String) := [("elements", "usize"), ("hashers_count", "usize"), ("max_buf_bits_count", "usize"), ("buf_increase_step", "usize"), ("preferred_false_positive_rate", "f64")]
def layout_bloom_Save : List (String × String) := [("config", "Config"), ("buf", "Vec<u64>"), ("bits_count", "usize")]
def layout_record_Header : List (String × String) := [("magic_byte", "u64"), ("key", "Vec<u8>"), ("meta_size", "u64"), ("data_size", "u64"), ("flags", "u8"), ("blob_offset", "u64"), ("timestamp", "u64"), ("data_checksum", "u32"), ("header_checksum", "u32")]

end Pearl.Pinned
