import Pearl.Model.Basic
import Pearl.Model.Bytes
import Pearl.Model.Crc
/-
L5 byte layer, part 3: record and blob byte formats, the write path (partial serialisation +
in-place patch), the read path (`Entry::load`, `load_data`, `load_meta`) and the scan that regenerates
an index (`RawRecords::start / load / read_current_record`).

Sources: src/record/record.rs, src/record/partially_serialized.rs, src/blob/header.rs,
src/blob/entry.rs, src/blob/core.rs, src/io/unix/sync.rs.

Integers: `u64` fields are `Nat` (serialisation takes them mod 2^64; `RecHeader.InRange` states the
range), `u8` / `u32` fields are `UInt8` / `UInt32`. Offsets computed while reading are `Nat`
(the Rust `u64` additions cannot wrap for in-range files; wrap-around is outside the model).
A file is the list of its bytes; `file.size()` is its length.
Core-only imports.
-/
namespace Pearl

instance instDecidableEqExcept {ε α} [DecidableEq ε] [DecidableEq α] : DecidableEq (Except ε α)
  | .ok a, .ok b => if h : a = b then isTrue (by rw [h]) else isFalse (by intro h'; cases h'; exact h rfl)
  | .error a, .error b => if h : a = b then isTrue (by rw [h]) else isFalse (by intro h'; cases h'; exact h rfl)
  | .ok _, .error _ => isFalse (by intro h; cases h)
  | .error _, .ok _ => isFalse (by intro h; cases h)

def RECORD_MAGIC_BYTE : Nat := 0xacdcbcde
def DELETE_FLAG : UInt8 := 0x01
def MAX_SINGLE_PASS_DATA_SIZE : Nat := 4 * 1024
def BLOB_MAGIC_BYTE : Nat := 0xdeafabcd
def BLOB_VERSION : Nat := 1

/-! ### record header -/

/-- `record::Header`, fields in declaration (= serialisation) order -/
structure RecHeader where
  magicByte : Nat
  key : List UInt8
  metaSize : Nat
  dataSize : Nat
  flags : UInt8
  blobOffset : Nat
  timestamp : Nat
  dataChecksum : UInt32
  headerChecksum : UInt32
deriving DecidableEq, Repr, Inhabited

namespace RecHeader

/-- every `u64` field is a `u64` -/
def InRange (h : RecHeader) : Prop :=
  h.magicByte < 2^64 ∧ h.key.length < 2^64 ∧ h.metaSize < 2^64 ∧ h.dataSize < 2^64 ∧
  h.blobOffset < 2^64 ∧ h.timestamp < 2^64

instance (h : RecHeader) : Decidable h.InRange := by unfold InRange; infer_instance

/-- `Header::new` -/
def new (key : List UInt8) (ts metaSize dataSize : Nat) (dataChecksum : UInt32) : RecHeader :=
  { magicByte := RECORD_MAGIC_BYTE, key, metaSize, dataSize, flags := 0, blobOffset := 0,
    timestamp := ts, dataChecksum, headerChecksum := 0 }

/-- `bincode::serialized_size(&header)` -/
def serializedSize (h : RecHeader) : Nat := 57 + h.key.length

/-- `meta_offset()` -/
def metaOffset (h : RecHeader) : Nat := h.blobOffset + h.serializedSize
/-- `data_offset()` -/
def dataOffset (h : RecHeader) : Nat := h.metaOffset + h.metaSize

def isDeleted (h : RecHeader) : Bool := h.flags &&& DELETE_FLAG == DELETE_FLAG

end RecHeader

/-- serialised size of a record header for keys of `klen` bytes -/
def headerSize (klen : Nat) : Nat := 57 + klen

/-- the part of a serialised header before `blob_offset` -/
def serHeaderPre (h : RecHeader) : List UInt8 :=
  le64 h.magicByte ++ serVec h.key ++ le64 h.metaSize ++ le64 h.dataSize ++ [h.flags]

/-- bincode of `record::Header` (`to_raw`) -/
def serHeader (h : RecHeader) : List UInt8 :=
  serHeaderPre h ++ (le64 h.blobOffset ++ (le64 h.timestamp ++ le32 h.dataChecksum.toNat ++
    le32 h.headerChecksum.toNat))

/-- split off exactly `n` bytes; `none` = unexpected end of input -/
def takeN (n : Nat) (l : List UInt8) : Option (List UInt8 × List UInt8) :=
  if l.length < n then none else some (l.take n, l.drop n)

/-- bincode `Vec<u8>`: length prefix, then that many bytes -/
def deserVec (l : List UInt8) : Option (List UInt8 × List UInt8) :=
  match takeN 8 l with
  | none => none
  | some (n, r) => takeN (fromLe n) r

/-- `bincode::deserialize::<record::Header>` (`from_raw`; trailing bytes are allowed) -/
def deserHeader (buf : List UInt8) : Option RecHeader :=
  match takeN 8 buf with
  | none => none
  | some (magic, r) =>
  match deserVec r with
  | none => none
  | some (key, r) =>
  match takeN 8 r with
  | none => none
  | some (ms, r) =>
  match takeN 8 r with
  | none => none
  | some (ds, r) =>
  match takeN 1 r with
  | none => none
  | some (fl, r) =>
  match takeN 8 r with
  | none => none
  | some (bo, r) =>
  match takeN 8 r with
  | none => none
  | some (ts, r) =>
  match takeN 4 r with
  | none => none
  | some (dc, r) =>
  match takeN 4 r with
  | none => none
  | some (hc, _) =>
    some { magicByte := fromLe magic, key, metaSize := fromLe ms, dataSize := fromLe ds,
           flags := UInt8.ofNat (fromLe fl), blobOffset := fromLe bo, timestamp := fromLe ts,
           dataChecksum := UInt32.ofNat (fromLe dc), headerChecksum := UInt32.ofNat (fromLe hc) }

/-- read exactly `headerSize klen` bytes and deserialise them (what the scan does per record);
    `none` on short input or failed deserialisation -/
def parseHeader (klen : Nat) (buf : List UInt8) : Option RecHeader :=
  if buf.length < headerSize klen then none else deserHeader (buf.take (headerSize klen))

/-- validation / load errors that matter at this layer (`ErrorKind::Bincode`, `ValidationErrorKind::*`) -/
inductive LoadErr where
  | bincode
  | recordMagicByte
  | recordHeaderChecksum
  | recordDataChecksum
deriving DecidableEq, Repr, Inhabited

/-- `Header::crc32` with the checksum field zeroed, for an arbitrary checksum function -/
def headerCrcWith (crc : List UInt8 → UInt32) (h : RecHeader) : UInt32 :=
  crc (serHeader { h with headerChecksum := 0 })

def headerCrc (h : RecHeader) : UInt32 := headerCrcWith crc32c h

/-- `Header::validate`: magic byte, then header checksum -/
def headerValidate (h : RecHeader) : Except LoadErr Unit :=
  if h.magicByte ≠ RECORD_MAGIC_BYTE then .error .recordMagicByte
  else if headerCrc h ≠ h.headerChecksum then .error .recordHeaderChecksum
  else .ok ()

/-- `Header::data_checksum_audit` -/
def dataChecksumAudit (h : RecHeader) (data : List UInt8) : Except LoadErr Unit :=
  if crc32c data = h.dataChecksum then .ok () else .error .recordDataChecksum

/-- `update_checksum` -/
def RecHeader.updateChecksum (h : RecHeader) : RecHeader :=
  { h with headerChecksum := headerCrc h }

/-- `mark_as_deleted` -/
def markDeleted (h : RecHeader) : RecHeader :=
  RecHeader.updateChecksum { h with flags := h.flags ||| DELETE_FLAG }

/-- `set_offset_checksum` (what `Blob::write` pushes into the index) -/
def RecHeader.setOffsetChecksum (h : RecHeader) (off : Nat) (c : UInt32) : RecHeader :=
  { h with blobOffset := off, headerChecksum := c }

/-- the header as it must read back: offset set, checksum computed over the header with a zero checksum -/
def RecHeader.finalWith (crc : List UInt8 → UInt32) (h : RecHeader) (off : Nat) : RecHeader :=
  { h with blobOffset := off,
           headerChecksum := crc (serHeader { h with blobOffset := off, headerChecksum := 0 }) }

def RecHeader.final (h : RecHeader) (off : Nat) : RecHeader := h.finalWith crc32c off

/-! ### metadata -/

def metaVal (v : List Nat) : List UInt8 := v.map UInt8.ofNat

/-- bincode of `Meta(HashMap<String, Vec<u8>>)`: `none` = empty map, `some v` = {"m": v} -/
def serMeta : Meta → List UInt8
  | none => le64 0
  | some v => le64 1 ++ (serString "m" ++ serVec (metaVal v))

/-- the map as a list of entries -/
def metaEntries : Meta → List (String × List UInt8)
  | none => []
  | some v => [("m", metaVal v)]

/-- bincode `String`: bytes must be valid UTF-8 (`String::from_utf8`) -/
def deserString (l : List UInt8) : Option (String × List UInt8) :=
  match deserVec l with
  | none => none
  | some (b, r) =>
    match String.fromUTF8? ⟨b.toArray⟩ with
    | none => none
    | some s => some (s, r)

/-- `count` map entries in stream order -/
def deserEntries : Nat → List UInt8 → Option (List (String × List UInt8))
  | 0, _ => some []
  | n+1, l =>
    match deserString l with
    | none => none
    | some (k, r) =>
      match deserVec r with
      | none => none
      | some (v, r) =>
        match deserEntries n r with
        | none => none
        | some es => some ((k, v) :: es)

/-- `Meta::from_raw` (entries in stream order; trailing bytes allowed) -/
def deserMeta (l : List UInt8) : Option (List (String × List UInt8)) :=
  match takeN 8 l with
  | none => none
  | some (n, r) => deserEntries (fromLe n) r

/-! ### records and the write path -/

/-- `record::Record` -/
structure Record where
  header : RecHeader
  mt : Meta
  data : List UInt8
deriving DecidableEq, Repr, Inhabited

/-- `Record::create` for a `klen`-byte key -/
def Record.create (klen : Nat) (key : Key) (ts : Nat) (m : Meta) (data : List UInt8) : Record :=
  { header := RecHeader.new (keyBytes klen key) ts (serMeta m).length data.length (crc32c data),
    mt := m, data }

/-- `Record::deleted` -/
def Record.deleted (klen : Nat) (key : Key) (ts : Nat) (m : Meta) : Record :=
  let r := Record.create klen key ts m []
  { r with header := markDeleted r.header }

/-- `PartiallySerializedRecord` -/
structure Partial where
  buf : List UInt8
  headerLen : Nat
  data : Option (List UInt8)
deriving DecidableEq, Repr

/-- `to_partially_serialized_and_header` -/
def toPartial (r : Record) (maxSinglePass : Nat := MAX_SINGLE_PASS_DATA_SIZE) : Partial :=
  let headSize := (serHeader r.header).length + (serMeta r.mt).length
  let includeData := headSize + r.data.length ≤ maxSinglePass
  let hb := serHeader r.header
  let buf := hb ++ serMeta r.mt
  if includeData then { buf := buf ++ r.data, headerLen := hb.length, data := none }
  else { buf := buf, headerLen := hb.length, data := some r.data }

/-- `WritableDataCreator::len` (the reservation made in the file) -/
def Partial.len (p : Partial) : Nat :=
  p.buf.length + (match p.data with | some d => d.length | none => 0)

/-- `finalize_with_checksum` for an arbitrary checksum function;
    `offPatch` = `len - blob_offset_offset(len)`, `crcPatch` = `len - checksum_offset(len)` -/
def finalizeWith (crc : List UInt8 → UInt32) (buf : List UInt8) (headerLen off : Nat)
    (offPatch : Nat := 24) (crcPatch : Nat := 4) : List UInt8 × UInt32 :=
  let offsetPos := headerLen - offPatch
  let checksumPos := headerLen - crcPatch
  let b1 := patchAt buf offsetPos (le64 off)
  let b2 := patchAt b1 checksumPos (le32 0)
  let c := crc (b2.take headerLen)
  (patchAt b2 checksumPos (le32 c.toNat), c)

/-- `finalize_with_checksum` -/
def finalizeWithChecksum (buf : List UInt8) (headerLen off : Nat)
    (offPatch : Nat := 24) (crcPatch : Nat := 4) : List UInt8 × UInt32 :=
  finalizeWith crc32c buf headerLen off offPatch crcPatch

/-- `WritableData` -/
inductive Writable where
  | single (b : List UInt8)
  | double (b1 b2 : List UInt8)
deriving DecidableEq, Repr

/-- the bytes of a `WritableData` in file order -/
def Writable.bytes : Writable → List UInt8
  | .single b => b
  | .double b1 b2 => b1 ++ b2

/-- `WritableDataCreator::create` for an arbitrary checksum function: the data and the header checksum -/
def writableWith (crc : List UInt8 → UInt32) (p : Partial) (off : Nat)
    (offPatch : Nat := 24) (crcPatch : Nat := 4) : Writable × UInt32 :=
  let (head, c) := finalizeWith crc p.buf p.headerLen off offPatch crcPatch
  match p.data with
  | some d => (.double head d, c)
  | none => (.single head, c)

def writableOf (p : Partial) (off : Nat) (offPatch : Nat := 24) (crcPatch : Nat := 4) :
    Writable × UInt32 :=
  writableWith crc32c p off offPatch crcPatch

/-- `pwrite(bytes, off)`: overwrite / extend, zero-filling a hole -/
def pwrite (file : List UInt8) (off : Nat) (b : List UInt8) : List UInt8 :=
  file.take off ++ List.replicate (off - file.length) 0 ++ b ++ file.drop (off + b.length)

/-- `File::write_data`: `Single` = one pwrite, `Double` = two pwrites -/
def writeData (file : List UInt8) (off : Nat) : Writable → List UInt8
  | .single b => pwrite file off b
  | .double b1 b2 => pwrite (pwrite file off b1) (off + b1.length) b2

/-- the bytes of a record that end up in the file when it is written at `off` -/
def recordBytes (r : Record) (off : Nat) (maxSinglePass : Nat := MAX_SINGLE_PASS_DATA_SIZE)
    (offPatch : Nat := 24) (crcPatch : Nat := 4) : List UInt8 :=
  (writableOf (toPartial r maxSinglePass) off offPatch crcPatch).1.bytes

/-- the header `Blob::write` pushes into the index after the write -/
def writtenHeader (r : Record) (off : Nat) (maxSinglePass : Nat := MAX_SINGLE_PASS_DATA_SIZE) : RecHeader :=
  r.header.setOffsetChecksum off (writableOf (toPartial r maxSinglePass) off).2

/-- `write_append_writable_data`: reserve `len()` at the end, create, write -/
def appendRecord (file : List UInt8) (r : Record) (maxSinglePass : Nat := MAX_SINGLE_PASS_DATA_SIZE) :
    List UInt8 :=
  writeData file file.length (writableOf (toPartial r maxSinglePass) file.length).1

/-! ### read path -/

/-- `Entry::load`: meta and data in one read at `meta_offset`, meta deserialisation, `Record::validate`
    (header magic, header checksum, data checksum). Returns the raw meta bytes and the data. -/
def entryLoad (file : List UInt8) (h : RecHeader) : Except LoadErr (List UInt8 × List UInt8) :=
  match readExactAt file (h.dataSize + h.metaSize) h.metaOffset with
  | none => .error .bincode
  | some buf =>
    let mb := buf.take h.metaSize
    let d := buf.drop h.metaSize
    match deserMeta mb with
    | none => .error .bincode
    | some _ =>
      match headerValidate h with
      | .error e => .error e
      | .ok _ =>
        match dataChecksumAudit h d with
        | .error e => .error e
        | .ok _ => .ok (mb, d)

/-- `Entry::load_data` -/
def loadData (file : List UInt8) (h : RecHeader) : Except LoadErr (List UInt8) :=
  match readExactAt file h.dataSize h.dataOffset with
  | none => .error .bincode
  | some d =>
    match dataChecksumAudit h d with
    | .error e => .error e
    | .ok _ => .ok d

/-- `Entry::load_meta` -/
def loadMeta (file : List UInt8) (h : RecHeader) : Except LoadErr (List (String × List UInt8)) :=
  match readExactAt file h.metaSize h.metaOffset with
  | none => .error .bincode
  | some mb =>
    match deserMeta mb with
    | none => .error .bincode
    | some es => .ok es

/-! ### blob header -/

/-- `blob::header::Header` -/
structure BlobHeader where
  magicByte : Nat
  version : Nat
  flags : Nat
deriving DecidableEq, Repr, Inhabited

def BlobHeader.new : BlobHeader := { magicByte := BLOB_MAGIC_BYTE, version := BLOB_VERSION, flags := 0 }

def BlobHeader.InRange (b : BlobHeader) : Prop := b.magicByte < 2^64 ∧ b.version < 2^32 ∧ b.flags < 2^64

instance (b : BlobHeader) : Decidable b.InRange := by unfold BlobHeader.InRange; infer_instance

def blobHeaderSize : Nat := 20

def serBlobHeader (b : BlobHeader := BlobHeader.new) : List UInt8 :=
  le64 b.magicByte ++ (le32 b.version ++ le64 b.flags)

def parseBlobHeader (buf : List UInt8) : Option BlobHeader :=
  match takeN 8 buf with
  | none => none
  | some (m, r) =>
  match takeN 4 r with
  | none => none
  | some (v, r) =>
  match takeN 8 r with
  | none => none
  | some (f, _) => some { magicByte := fromLe m, version := fromLe v, flags := fromLe f }

inductive BlobHeaderErr where
  | bincode
  | blobMagicByte
  | blobVersion
deriving DecidableEq, Repr, Inhabited

/-- `Header::validate` of the blob header -/
def validateBlobHeader (b : BlobHeader) : Except BlobHeaderErr Unit :=
  if b.magicByte ≠ BLOB_MAGIC_BYTE then .error .blobMagicByte
  else if b.version ≠ BLOB_VERSION then .error .blobVersion
  else .ok ()

/-- `Header::from_file` -/
def blobHeaderFromFile (file : List UInt8) : Except BlobHeaderErr BlobHeader :=
  match readExactAt file blobHeaderSize 0 with
  | none => .error .bincode
  | some buf =>
    match parseBlobHeader buf with
    | none => .error .bincode
    | some b =>
      match validateBlobHeader b with
      | .error e => .error e
      | .ok _ => .ok b

/-! ### the scan that regenerates an index -/

inductive ScanErr where
  | load (e : LoadErr)
  /-- `ValidationErrorKind::BlobKeySize` -/
  | blobKeySize
  /-- model artefact: loop bound exhausted (never returned, see `rawRecordsScan_ne_fuel`) -/
  | fuel
deriving DecidableEq, Repr, Inhabited

/-- `RawRecords::start`: check the first record's magic byte and key length; returns `record_header_size` -/
def rawStart (klen : Nat) (file : List UInt8) : Except ScanErr Nat :=
  match readExactAt file (8 + 8) blobHeaderSize with
  | none => .error (.load .bincode)
  | some buf =>
    let magic := fromLe (buf.take 8)
    let keyLen := fromLe (buf.drop 8)
    if magic ≠ RECORD_MAGIC_BYTE then .error (.load .recordMagicByte)
    else if keyLen ≠ klen then .error .blobKeySize
    else .ok (57 + keyLen)

/-- `read_current_record`: header, optional data, next offset -/
def readCurrentRecord (readData : Bool) (file : List UInt8) (hsz off : Nat) :
    Except ScanErr (RecHeader × Option (List UInt8) × Nat) :=
  match readExactAt file hsz off with
  | none => .error (.load .bincode)
  | some buf =>
    match deserHeader buf with
    | none => .error (.load .bincode)
    | some h =>
      match headerValidate h with
      | .error e => .error (.load e)
      | .ok _ =>
        let off1 := off + hsz + h.metaSize
        if readData then
          match readExactAt file h.dataSize off1 with
          | none => .error (.load .bincode)
          | some d => .ok (h, some d, off1 + h.dataSize)
        else .ok (h, none, off1 + h.dataSize)

/-- the loop of `RawRecords::load`; the result pairs each header with the offset it was read at.
    The first argument bounds the number of iterations (each consumes at least 57 bytes). -/
def rawLoop (validateData : Bool) (file : List UInt8) (hsz : Nat) :
    Nat → Nat → Except ScanErr (List (Nat × RecHeader))
  | 0, off => if off < file.length then .error .fuel else .ok []
  | fuel+1, off =>
    if off < file.length then
      match readCurrentRecord validateData file hsz off with
      | .error e => .error e
      | .ok (h, data, off') =>
        match (match data with
               | some d => dataChecksumAudit h d
               | none => .ok ()) with
        | .error e => .error (.load e)
        | .ok _ =>
          match rawLoop validateData file hsz fuel off' with
          | .error e => .error e
          | .ok hs => .ok ((off, h) :: hs)
    else .ok []

/-- `RawRecords::start` + `load`, with the offset every header was read at -/
def rawRecordsScan (klen : Nat) (validateData : Bool) (file : List UInt8) :
    Except ScanErr (List (Nat × RecHeader)) :=
  match rawStart klen file with
  | .error e => .error e
  | .ok hsz => rawLoop validateData file hsz file.length blobHeaderSize

/-- `RawRecords::start` + `load` (`Ok(None)` is the empty list) -/
def rawRecordsLoad (klen : Nat) (validateData : Bool) (file : List UInt8) :
    Except ScanErr (List RecHeader) :=
  match rawRecordsScan klen validateData file with
  | .error e => .error e
  | .ok l => .ok (l.map (·.2))

/-! ### whole blobs -/

/-- the record `Storage::write` / `Storage::delete` builds for a model record -/
def recordOf (klen : Nat) (r : Rec) (d : List UInt8) : Record :=
  if r.del then Record.deleted klen r.key r.ts r.mt else Record.create klen r.key r.ts r.mt d

/-- append the records one after the other, each at the current end of the file -/
def appendRecords : List UInt8 → List Record → List UInt8
  | file, [] => file
  | file, r :: rest => appendRecords (appendRecord file r) rest

/-- the headers `Blob::write` pushed into the index while `appendRecords` wrote the records -/
def writtenHeaders : List UInt8 → List Record → List RecHeader
  | _, [] => []
  | file, r :: rest => writtenHeader r file.length :: writtenHeaders (appendRecord file r) rest

/-- the byte-level records of a list of model records with their data bytes -/
def recordsOf (klen : Nat) (recs : List (Rec × List UInt8)) : List Record :=
  recs.map fun x => recordOf klen x.1 x.2

/-- a blob file: blob header, then the records -/
def blobBytes (klen : Nat) (recs : List (Rec × List UInt8)) : List UInt8 :=
  appendRecords serBlobHeader (recordsOf klen recs)

/-- the headers in the in-memory index of that blob -/
def blobHeaders (klen : Nat) (recs : List (Rec × List UInt8)) : List RecHeader :=
  writtenHeaders serBlobHeader (recordsOf klen recs)

end Pearl
