import Pearl.Model.Ops
/-
Line protocol shared by the Rust harness and the model driver (DESIGN Appendix B).
One script line in, one observation line out.
-/
namespace Pearl.Script

def hexVal (c : Char) : Option Nat :=
  if '0' ≤ c ∧ c ≤ '9' then some (c.toNat - '0'.toNat)
  else if 'a' ≤ c ∧ c ≤ 'f' then some (c.toNat - 'a'.toNat + 10)
  else if 'A' ≤ c ∧ c ≤ 'F' then some (c.toNat - 'A'.toNat + 10)
  else none

/-- big-endian value of a hex string -/
def hexNat (s : String) : Option Nat :=
  s.toList.foldl (fun acc c => match acc, hexVal c with
    | some a, some v => some (a * 16 + v)
    | _, _ => none) (some 0)

def hexBytes : List Char → Option (List Nat)
  | [] => some []
  | [_] => none
  | a :: b :: rest =>
    match hexVal a, hexVal b, hexBytes rest with
    | some x, some y, some l => some ((x * 16 + y) :: l)
    | _, _, _ => none

def hexDigit (n : Nat) : Char :=
  if n < 10 then Char.ofNat ('0'.toNat + n) else Char.ofNat ('a'.toNat + n - 10)

def bytesHex (l : List Nat) : String :=
  String.ofList (l.flatMap fun b => [hexDigit (b / 16), hexDigit (b % 16)])

/-- `-` = no meta argument, `e` = explicit empty meta, `m:<hex>` = {"m": bytes} -/
def parseMeta (s : String) : Option (Option Meta) :=
  if s == "-" then some none
  else if s == "e" then some (some none)
  else if s.startsWith "m:" then (hexBytes (s.drop 2).toString.toList).map (fun b => some (some b))
  else none

def showMeta : Meta → String
  | none => "e"
  | some b => "m:" ++ bytesHex b

def showData (d : Data) : String := s!"{d.len}:{d.seed}"

def showRead : ReadResult Rec → String
  | .found r => "found " ++ showData r.data
  | .deleted t => s!"deleted {t}"
  | .notFound => "notfound"

def showContains : ReadResult Nat → String
  | .found t => s!"found {t}"
  | .deleted t => s!"deleted {t}"
  | .notFound => "notfound"

def showEntry (r : Rec) : String :=
  s!"{r.ts},{if r.del then 1 else 0},{showMeta r.mt},{showData r.data}"

def showItems (l : List String) : String :=
  if l.isEmpty then "list" else "list " ++ ";".intercalate l

def showList (l : List Rec) : String := showItems (l.map showEntry)

def showErr : ErrKind → String
  | .activeBlobDoesntExist => "err ActiveBlobDoesntExist"
  | .activeBlobExists => "err ActiveBlobExists"
  | .uninitialized => "err Uninitialized"
  | .activeBlobNotSet => "err ActiveBlobNotSet"
  | .index => "err Index"
  | .other => "err Other"

def showNats (l : List Nat) : String := ",".intercalate (l.map toString)

def showCounts (s : Store) : String :=
  let act := match s.recordsCountInActive with | some n => toString n | none => "-"
  s!"counts rc={s.recordsCount} det={showNats s.recordsCountDetailed} act={act} blobs={s.blobsCount} next={s.nextId}"

def kv (tok : String) : Option (String × String) :=
  match tok.splitOn "=" with
  | [k, v] => some (k, v)
  | _ => none

/-- one step of the model on one script line -/
def step (s : Store) (line : String) : Store × String :=
  match line.trimAscii.toString.splitOn " " with
  | "cfg" :: toks =>
    let dup := toks.any (fun t => t == "dup=1")
    (Store.init dup, "ok")
  | ["w", k, ts, m, len, seed] =>
    match hexNat k, ts.toNat?, parseMeta m, len.toNat?, seed.toNat? with
    | some k, some ts, some m, some len, some seed =>
      (s.apply (.write k ts m ⟨len, if len == 0 then 0 else seed⟩), "ok")
    | _, _, _, _, _ => (s, "bad-op")
  | ["d", k, ts, m, oip] =>
    match hexNat k, ts.toNat?, parseMeta m, oip.toNat? with
    | some k, some ts, some m, some oip =>
      (s.apply (.delete k ts m (oip != 0)), s!"n={(s.delete k ts m (oip != 0)).2}")
    | _, _, _, _ => (s, "bad-op")
  | ["r", k] =>
    match hexNat k with
    | some k => (s, showRead (s.read k none))
    | none => (s, "bad-op")
  | ["rw", k, m] =>
    match hexNat k, parseMeta m with
    | some k, some (some m) => (s, showRead (s.read k (some m)))
    | _, _ => (s, "bad-op")
  | ["c", k] =>
    match hexNat k with
    | some k => (s, showContains (s.contains k))
    | none => (s, "bad-op")
  | ["ram", k] =>
    match hexNat k with
    | some k => (s, showList (s.readAllMarked k))
    | none => (s, "bad-op")
  | ["ra", k] =>
    match hexNat k with
    | some k => (s, showList (s.readAll k))
    | none => (s, "bad-op")
  | ["close_active"] =>
    match s.closeActive with
    | .ok _ => (s.apply .closeActive, "ok")
    | .error e => (s, showErr e)
  | ["create_active"] =>
    match s.tryCreateActive with
    | .ok _ => (s.apply .createActive, "ok")
    | .error e => (s, showErr e)
  | ["restore_active"] =>
    match s.restoreActive with
    | .ok _ => (s.apply .restoreActive, "ok")
    | .error e => (s, showErr e)
  | ["settle"] => (s.apply .settle, "ok")
  | ["counts"] => (s, showCounts s)
  | ["states"] =>
    (s, "#states" ++ String.join (s.blobs.map fun b =>
      s!" {b.id}:{if s.active == some b then "a" else "c"}:{b.count}"))
  | ["res"] =>
    (s, "#res" ++ String.join (s.blobs.map fun b => s!" {b.id}:{if b.onDisk then "d" else "m"}"))
  | ["restart"] => (s.apply (.restart false), "ok")
  | ["restart", "lazy"] => (s.apply (.restart true), "ok")
  | _ => (s, "bad-op")

end Pearl.Script
