import Pearl.Model.Index
/-
L2: blobs and the storage (`src/blob/core.rs`, `src/storage/core.rs`, the children vector of
`src/filter/hierarchical.rs`).  Index residence (memory / disk) is tracked as a flag only: by the
C09 theorems the on-disk B+tree answers exactly like the in-memory vector it was built from, and
loads back into it.  Filter pruning enters through the `prune` parameter (see `getLatestEntryP`):
by the C10 theorems a filter never rejects a key the blob holds.
-/
namespace Pearl

structure Blob where
  id : Nat
  recs : List Rec          -- append order = file order
  onDisk : Bool := false   -- index residence
deriving DecidableEq, Repr, Inhabited

namespace Blob

def vec (b : Blob) (k : Key) : List Rec := vecOf b.recs k

/-- `Index::get_latest` -/
def getLatest (b : Blob) (k : Key) : ReadResult Rec := latestOfVec (b.vec k)

/-- `Index::get_all_with_deletion_marker` -/
def getAllCut (b : Blob) (k : Key) : List Rec := allCutOfVec (b.vec k)

/-- `Blob::get_entry_with_meta`: first entry above the local marker whose meta equals `m` -/
def getWithMeta (b : Blob) (k : Key) (m : Meta) : ReadResult Rec :=
  let hs := b.getAllCut k
  let delTs : Option Nat :=
    match hs.getLast? with
    | some h => if h.del then some h.ts else none
    | none => none
  let hs' := if delTs.isSome then hs.dropLast else hs
  match hs'.find? (fun r => r.mt == m) with
  | some r => .found r
  | none =>
    match delTs with
    | some t => .deleted t
    | none => .notFound

/-- `Blob::get_latest_entry(key, meta, _)` without the filter check -/
def getLatestEntry (b : Blob) (k : Key) (m : Option Meta) : ReadResult Rec :=
  match m with
  | none => b.getLatest k
  | some m => b.getWithMeta k m

def append (b : Blob) (r : Rec) : Blob := { b with recs := b.recs ++ [r] }

def count (b : Blob) : Nat := b.recs.length

end Blob

/-- timestamp carried by a result (`ReadResult::<Entry>::timestamp`) -/
def ReadResult.ts? : ReadResult Rec → Option Nat
  | .found r => some r.ts
  | .deleted t => some t
  | .notFound => none

/-- `Option<u64>` comparison: `None < Some _` -/
def optGt : Option Nat → Option Nat → Bool
  | some a, some b => decide (a > b)
  | some _, none => true
  | none, _ => false

/-- `ReadResult::latest`: `other` wins only with a strictly greater timestamp -/
def ReadResult.latest (self other : ReadResult Rec) : ReadResult Rec :=
  if optGt other.ts? self.ts? then other else self

inductive ErrKind where
  | activeBlobDoesntExist | activeBlobExists | uninitialized | activeBlobNotSet | index | other
deriving DecidableEq, Repr, Inhabited

structure Store where
  active : Option Blob := none
  /-- children vector of the container: push order, `none` = slot emptied by `pop` -/
  slots : List (Option Blob) := []
  nextId : Nat := 0
  allowDup : Bool := false
deriving Repr, Inhabited

namespace Store

def closed (s : Store) : List Blob := s.slots.filterMap id

/-- blobs in the order queries visit them: active first, then closed newest → oldest -/
def visit (s : Store) : List Blob := s.active.toList ++ s.closed.reverse

/-- all blobs, oldest → newest -/
def blobs (s : Store) : List Blob := s.closed ++ s.active.toList

/-- `Storage::get_latest_entry` with a pruning predicate standing for the filters:
    a blob with `prune b k = true` is skipped -/
def getLatestEntryP (prune : Blob → Key → Bool) (s : Store) (k : Key) (m : Option Meta) : ReadResult Rec :=
  (s.visit.filter (fun b => !prune b k)).foldl (fun acc b => acc.latest (b.getLatestEntry k m)) .notFound

def getLatestEntry (s : Store) (k : Key) (m : Option Meta) : ReadResult Rec :=
  s.getLatestEntryP (fun _ _ => false) k m

/-- `Storage::read` / `read_with`: the record whose bytes are returned -/
def read (s : Store) (k : Key) (m : Option Meta) : ReadResult Rec := s.getLatestEntry k m

/-- `Storage::contains` -/
def contains (s : Store) (k : Key) : ReadResult Nat := (s.getLatestEntry k none).map (·.ts)

/-- stable insertion into a list sorted by timestamp descending (what `sort_by(|a,b| b.ts.cmp(&a.ts))`,
    a stable sort, does element by element) -/
def insertDesc (x : Rec) : List Rec → List Rec
  | [] => [x]
  | y :: ys => if x.ts ≥ y.ts then x :: y :: ys else y :: insertDesc x ys

/-- stable sort by timestamp descending -/
def sortDesc (l : List Rec) : List Rec := l.foldr insertDesc []
-- foldr: inserting from the right keeps earlier elements first among equal timestamps

/-- `Storage::read_all_with_deletion_marker` -/
def readAllMarked (s : Store) (k : Key) : List Rec :=
  let per := s.visit.map (fun b => b.getAllCut k)
  let affected := (per.filter (fun l => !l.isEmpty)).length
  let delPresent := per.any (fun l => match l.getLast? with | some h => h.del | none => false)
  let all := per.flatten
  if affected > 1 then
    let sorted := sortDesc all
    if delPresent then cutHdrs sorted else sorted
  else all

/-- `Storage::read_all` -/
def readAll (s : Store) (k : Key) : List Rec :=
  let l := s.readAllMarked k
  match l.getLast? with
  | some h => if h.del then l.dropLast else l
  | none => l

/-- new active blob with the next id (`next_blob_name` + `Blob::open_new`) -/
def createActive (s : Store) : Store :=
  { s with active := some { id := s.nextId, recs := [] }, nextId := s.nextId + 1 }

def ensureActive (s : Store) : Store :=
  match s.active with
  | some _ => s
  | none => s.createActive

/-- `Storage::write_with_optional_meta` -/
def write (s : Store) (k : Key) (ts : Nat) (m : Option Meta) (d : Data) : Store :=
  let s := s.ensureActive
  if !s.allowDup && (s.getLatestEntry k m).isFound then s
  else
    match s.active with
    | none => s   -- unreachable after ensureActive
    | some a =>
      let r : Rec := { key := k, ts := ts, del := false, mt := m.getD none, data := d }
      { s with active := some (a.append r) }

/-- `Blob::delete`: marker appended iff not `only_if_presented` or the key is live in this blob;
    pushing into an on-disk index loads it first -/
def blobDelete (b : Blob) (k : Key) (ts : Nat) (m : Option Meta) (oip : Bool) : Blob × Bool :=
  if !oip || (b.getLatest k).isFound then
    let r : Rec := { key := k, ts := ts, del := true, mt := m.getD none, data := ⟨0, 0⟩ }
    ({ b with recs := b.recs ++ [r], onDisk := false }, true)
  else (b, false)

/-- `Storage::delete_with_optional_meta`; returns the number of blobs marked -/
def delete (s : Store) (k : Key) (ts : Nat) (m : Option Meta) (oip : Bool) : Store × Nat :=
  let s := if oip then s else s.ensureActive
  let (act, nAct) :=
    match s.active with
    | none => (none, 0)
    | some a => let (a', d) := blobDelete a k ts m oip; (some a', if d then 1 else 0)
  let res := s.slots.map (fun o => o.map (fun b => blobDelete b k ts m true))
  let slots := res.map (fun o => o.map (·.1))
  let nClosed := (res.filter (fun o => match o with | some (_, true) => true | _ => false)).length
  ({ s with active := act, slots := slots }, nAct + nClosed)

/-- `Inner::close_active_blob` -/
def closeActive (s : Store) : Except ErrKind Store :=
  match s.active with
  | none => .error .activeBlobDoesntExist
  | some a => .ok { s with active := none, slots := s.slots ++ [some a] }

/-- `Inner::create_active_blob` -/
def tryCreateActive (s : Store) : Except ErrKind Store :=
  match s.active with
  | some _ => .error .activeBlobExists
  | none => .ok s.createActive

/-- index of the last non-empty slot (`HierarchicalFilters::pop`) -/
def lastPresent : List (Option Blob) → Option (Nat × Blob)
  | [] => none
  | o :: rest =>
    match lastPresent rest with
    | some (i, b) => some (i + 1, b)
    | none => match o with
      | some b => some (0, b)
      | none => none

/-- `Inner::restore_active_blob` (the restored blob loads its index: it must accept pushes) -/
def restoreActive (s : Store) : Except ErrKind Store :=
  match s.active with
  | some _ => .error .activeBlobExists
  | none =>
    match lastPresent s.slots with
    | none => .error .uninitialized
    | some (i, b) => .ok { s with active := some { b with onDisk := false }, slots := s.slots.set i none }

/-- `Safe::replace_active_blob` with a fresh blob (`ForceUpdateActiveBlob`, `TryUpdateActiveBlob`) -/
def replaceActive (s : Store) : Store :=
  let old := s.active
  let s := s.createActive
  match old with
  | none => s
  | some a => { s with slots := s.slots ++ [some a] }

/-- all closed non-empty blobs get their index dumped (`try_dump_old_blob_indexes` at quiescence) -/
def settle (s : Store) : Store :=
  { s with slots := s.slots.map (fun o => o.map (fun b => if b.recs.isEmpty then b else { b with onDisk := true })) }

/-- close + init on the same directory, without damage: blobs sorted by id, the last one becomes active
    (index loaded), the rest are dumped; `next_blob_id` = max id + 1 -/
def insertById (b : Blob) : List Blob → List Blob
  | [] => [b]
  | c :: cs => if b.id < c.id then b :: c :: cs else c :: insertById b cs

def sortById (l : List Blob) : List Blob := l.foldr insertById []

def restart (s : Store) (lazy : Bool) : Store :=
  let bs := sortById s.blobs
  let maxNext := bs.foldl (fun m b => max m (b.id + 1)) 0
  if lazy then
    { s with active := none
             slots := bs.map (fun b => some (if b.recs.isEmpty then b else { b with onDisk := true }))
             nextId := maxNext }
  else
    match bs.getLast? with
    | none => { s with active := none, slots := [], nextId := 0 }.createActive  -- `init_new`
    | some a =>
      { s with active := some { a with onDisk := false }
               slots := bs.dropLast.map (fun b => some (if b.recs.isEmpty then b else { b with onDisk := true }))
               nextId := maxNext }

/-- accounting getters -/
def recordsCount (s : Store) : Nat := (s.blobs.map Blob.count).sum
def recordsCountDetailed (s : Store) : List Nat := s.blobs.map Blob.count
def recordsCountInActive (s : Store) : Option Nat := s.active.map Blob.count
/-- number of blobs that exist -/
def blobsCount (s : Store) : Nat := s.blobs.length

/-- the history the specification talks about -/
def history (s : Store) : List (Nat × List Rec) := s.blobs.map (fun b => (b.id, b.recs))

end Store
end Pearl
