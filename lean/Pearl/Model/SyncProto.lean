/-
C12, the background-sync request protocol (`Pearl/Model/Fs.lean` models a sync as an immediate effect of the
operation that requests it, `fsyncCheckP`; this file models the mechanism that performs it).

Three cooperating pieces of /repo:

(a) `src/storage/core.rs`
    * `Inner::should_try_fsync(dirty) = too_many_dirty_bytes(dirty) && !fsync_in_progress.load()`,
      evaluated by `write_with_optional_meta` / `delete` with the `dirty_bytes` the blob reports after the append;
      when true, `TryFsyncData` is sent to the worker (after the storage lock has been dropped).
    * `Inner::fsyncdata` (the body of the background task):
        `compare_exchange(false, true)` on `fsync_in_progress` (lost → `return Ok(())`),
        `let _flag = ResetableFlag{..}` (its `Drop` stores `false`, on every exit path),
        `safe.read()`, early `return Ok(())` when the active blob is not over the limit,
        `safe.fsyncdata()` = `File::fsyncdata` of the active blob.  Locals are dropped in reverse order:
        the storage lock first, then the guard.
(b) `src/storage/observer_worker.rs`
    * top of the loop: a finished `fsync_task` is reaped (`complete_task`), then the worker waits in `recv`;
    * `try_run_fsync_task`: `if fsync_task.map_or(false, |t| !t.is_finished()) { return false }` (the request is
      dropped), `complete_task` (reaps a finished handle), `tokio::spawn(inner.fsyncdata())`.
(c) `src/io/unix/sync.rs`
    * `File::fsyncdata`: `let size = self.size()`, then in a blocking closure `sync_all()?;
      synced_size.fetch_max(size)`; `dirty_bytes = size - synced_size`.

State: the two counters of the active blob file, the flag, the worker's handle, the phase of the task body, the
number of queued `TryFsyncData` messages (they carry no data), the number of client calls between their append and
their `should_try_fsync`, and three ghost fields used by the statements only.
Events are the atomic steps above.  A client write is two steps: `append n` (the bytes, `size.fetch_add`, and the
`dirty_bytes` the blob reports under its lock) and, when those were over the limit, `decide` (the load of
`fsync_in_progress` and the send; the message sits in the queue for as long as the send might have been delayed).
`write n` is the two in one step, the only kind of write a sequential client can produce.
-/
namespace Pearl
namespace SyncProto

/-- `ObserverWorker::fsync_task : Option<JoinHandle<()>>` as the worker sees it -/
inductive Hdl where
  | none
  /-- `Some(h)`, `!h.is_finished()` -/
  | running
  /-- `Some(h)`, `h.is_finished()`, not yet reaped -/
  | finished
deriving DecidableEq, Repr, Inhabited

/-- where the body of the spawned task (`Inner::fsyncdata`) is -/
inductive Phase where
  /-- no task body is executing -/
  | idle
  /-- `tokio::spawn` done, the body has not reached the compare-exchange -/
  | spawned
  /-- compare-exchange won (guard armed in the shipped code), waiting for `safe.read()` -/
  | held
  /-- holds `safe.read()`, the active blob was over the limit -/
  | checked
  /-- `File::fsyncdata`: `size` captured (`cap`), `sync_all` in flight -/
  | syncing (cap : Nat)
  /-- the body is about to return (after the sync, after the early return, or after a lost compare-exchange);
      `reset` = the exit path stores `false` into `fsync_in_progress` -/
  | returned (reset : Bool)
  /-- locals dropped (storage lock, then the guard); `JoinHandle::is_finished` is still false -/
  | released
  /-- only in the repaired protocol (`Variant.recheck`): the task has looked at the dirty bytes once more after the
      flag was reset and found nothing to do; `JoinHandle::is_finished` is still false -/
  | done
deriving DecidableEq, Repr, Inhabited

/-- the task is past its size capture: bytes appended now are not covered by the sync it performs, and it will
    not look at the dirty bytes again -/
def Phase.blind : Phase → Bool
  | .syncing _ | .returned _ | .released | .done => true
  | _ => false

/-- the task holds `safe.read()`: `replace_active_blob` (which needs `safe.write()`) waits -/
def Phase.locked : Phase → Bool
  | .checked | .syncing _ | .returned _ => true
  | _ => false

/-- the task is between its compare-exchange and the reset of the flag by an exit path that does reset it -/
def Phase.owns : Phase → Bool
  | .held | .checked | .syncing _ | .returned true => true
  | _ => false

/-- the shipped code and the four seeded changes -/
structure Variant where
  /-- `false`: the guard object is created after the early return ("not over the limit" leaves the flag set) -/
  guardBeforeCheck : Bool := true
  /-- `false`: explicit `store(false)` after `safe.fsyncdata().await?` instead of a guard (skipped by `?`) -/
  resetOnError : Bool := true
  /-- `false`: `try_run_fsync_task` tests `fsync_task.is_some()` instead of `!is_finished()` -/
  reapFinished : Bool := true
  /-- `false`: `synced_size.fetch_max(size)` is executed whatever `sync_all` returned -/
  publishOnlyOnSuccess : Bool := true
  /-- `true` = /repo since the `fix:` commit bc65670 (repair of E23; `false` = /repo before it): after the flag has been
      reset the task evaluates "active blob over the limit" once more and runs the sync again when it holds (in the code
      this is the loop inside `Inner::fsyncdata`; the translator checks its presence, `Tie/C12.lean`) -/
  recheck : Bool := false
  /-- `true` (NOT in /repo, a candidate repair): `try_run_fsync_task` awaits an unfinished task instead of dropping
      the request, and then spawns the next one -/
  awaitRunning : Bool := false
deriving DecidableEq, Repr, Inhabited

/-- /repo BEFORE the repair of E23 (commit bc65670); the code as it is now is `recheckOnly` -/
def current : Variant := {}
/-- the code as it is since bc65670: the re-check is in, the worker still drops a request that meets an unfinished task -/
def recheckOnly : Variant := { recheck := true }
def guardLate : Variant := { guardBeforeCheck := false }
def resetSkipped : Variant := { resetOnError := false }
def notReaped : Variant := { reapFinished := false }
def publishAlways : Variant := { publishOnlyOnSuccess := false }
/-- the candidate repair: re-check after the flag is reset, and no request dropped while a task is unfinished -/
def repaired : Variant := { recheck := true, awaitRunning := true }

structure St where
  /-- `FileInner::size` of the active blob file -/
  size : Nat
  /-- `FileInner::synced_size` of the active blob file -/
  synced : Nat
  /-- `Inner::fsync_in_progress` -/
  flag : Bool := false
  hdl : Hdl := .none
  phase : Phase := .idle
  /-- queued `TryFsyncData` messages -/
  queue : Nat := 0
  /-- ghost: number of rotations so far (identifies the active blob) -/
  blob : Nat := 0
  /-- ghost: the largest size of the active blob file known to be on stable storage: its size when it became
      the active blob, or the size captured by a `sync_all` that succeeded -/
  durable : Nat
  /-- ghost: bytes appended since the latest size capture while a task was past its capture (`Phase.blind`) -/
  blind : Nat := 0
  /-- client calls that appended, were told `dirty_bytes > limit`, and have not yet evaluated
      `!fsync_in_progress.load()` (and sent) -/
  pending : Nat := 0
deriving DecidableEq, Repr, Inhabited

/-- `File::dirty_bytes` -/
def St.dirty (s : St) : Nat := s.size - s.synced

/-- a fresh active blob whose `base` bytes (the header) are synced: `Blob::open_new` -/
def init (base : Nat) : St := { size := base, synced := base, durable := base }

/-- `Inner::too_many_dirty_bytes` -/
def tooMany (limit dirty : Nat) : Bool := decide (dirty > limit)

/-- `Inner::should_try_fsync` -/
def shouldTryFsync (limit dirty : Nat) (flag : Bool) : Bool := tooMany limit dirty && !flag

inductive Ev where
  /-- a client appends `n` bytes to the active blob and is acknowledged; sends `TryFsyncData` iff `should_try_fsync` -/
  | write (n : Nat)
  /-- the first half of a write: the append, and `too_many_dirty_bytes` of the `dirty_bytes` it reports -/
  | append (n : Nat)
  /-- the second half of a write that was over the limit: `!fsync_in_progress.load()`, then the send -/
  | decide
  /-- the worker receives a `TryFsyncData`: `try_run_fsync_task`, then the top of its loop -/
  | recv
  /-- the worker handles some other message: only the reaping at the top of its loop matters here -/
  | tick
  /-- the task: `compare_exchange(false, true)` -/
  | cas
  /-- the task: `safe.read()` acquired, `too_many_dirty_bytes(active.dirty_bytes())` -/
  | check
  /-- the task: `File::fsyncdata` captures `size` and starts `sync_all` -/
  | start
  /-- `sync_all` returns -/
  | complete (ok : Bool)
  /-- the task drops its locals: storage lock, guard -/
  | release
  /-- repaired protocol only: the spawned closure evaluates `should_try_fsync` after `Inner::fsyncdata` returned -/
  | recheck
  /-- the task's future completes: `is_finished()` becomes true -/
  | finish
  /-- the worker replaces the active blob (`TryUpdateActiveBlob`): the new file has `base` bytes, all synced -/
  | rotate (base : Nat)
deriving DecidableEq, Repr, Inhabited

/-- events that need no client action and no other message: what happens "by itself" -/
def Ev.internal : Ev → Bool
  | .write _ | .append _ | .tick | .rotate _ => false
  | _ => true

def Ev.isWrite : Ev → Bool
  | .write _ | .append _ => true
  | _ => false

def Ev.isFailure : Ev → Bool
  | .complete false => true
  | _ => false

/-- one atomic step; `none` = the event is not enabled in this state -/
def step (v : Variant) (limit : Nat) (s : St) : Ev → Option St
  | .write n =>
    some { s with
      size := s.size + n
      queue := if shouldTryFsync limit (s.size + n - s.synced) s.flag then s.queue + 1 else s.queue
      blind := if s.phase.blind then s.blind + n else s.blind }
  | .append n =>
    some { s with
      size := s.size + n
      pending := if tooMany limit (s.size + n - s.synced) then s.pending + 1 else s.pending
      blind := if s.phase.blind then s.blind + n else s.blind }
  | .decide =>
    if s.pending = 0 then none
    else some { s with pending := s.pending - 1, queue := if s.flag then s.queue else s.queue + 1 }
  | .recv =>
    if s.queue = 0 then none
    else match s.hdl with
      | .running => if v.awaitRunning then none else some { s with queue := s.queue - 1 }
      | .finished =>
        if v.reapFinished then some { s with queue := s.queue - 1, hdl := .running, phase := .spawned }
        else some { s with queue := s.queue - 1, hdl := .none }
      | .none => some { s with queue := s.queue - 1, hdl := .running, phase := .spawned }
  | .tick =>
    some (match s.hdl with
      | .finished => { s with hdl := .none }
      | _ => s)
  | .cas =>
    match s.phase with
    | .spawned => if s.flag then some { s with phase := .returned false }
                  else some { s with flag := true, phase := .held }
    | _ => none
  | .check =>
    match s.phase with
    | .held => if tooMany limit s.dirty then some { s with phase := .checked }
               else some { s with phase := .returned v.guardBeforeCheck }
    | _ => none
  | .start =>
    match s.phase with
    | .checked => some { s with phase := .syncing s.size, blind := 0 }
    | _ => none
  | .complete ok =>
    match s.phase with
    | .syncing cap =>
      if ok then some { s with synced := max s.synced cap, durable := max s.durable cap, phase := .returned true }
      else some { s with
        synced := if v.publishOnlyOnSuccess then s.synced else max s.synced cap
        phase := .returned v.resetOnError }
    | _ => none
  | .release =>
    match s.phase with
    | .returned reset => some { s with flag := if reset then false else s.flag, phase := .released }
    | _ => none
  | .recheck =>
    match s.phase with
    | .released =>
      if v.recheck then
        (if shouldTryFsync limit s.dirty s.flag then some { s with phase := .spawned }
         else some { s with phase := .done })
      else none
    | _ => none
  | .finish =>
    match s.phase with
    | .released => if v.recheck then none else some { s with hdl := .finished, phase := .idle }
    | .done => some { s with hdl := .finished, phase := .idle }
    | _ => none
  | .rotate base =>
    if s.phase.locked then none
    else some { s with size := base, synced := base, durable := base, blind := 0, blob := s.blob + 1 }

/-- a schedule; `none` as soon as an event is not enabled -/
def run (v : Variant) (limit : Nat) (s : St) : List Ev → Option St
  | [] => some s
  | e :: es => (step v limit s e).bind fun t => run v limit t es

/-- reachable from a fresh active blob -/
def Reach (v : Variant) (limit : Nat) (s : St) : Prop := ∃ base evs, run v limit (init base) evs = some s

/-- reachable without a failing `sync_all` -/
def ReachOk (v : Variant) (limit : Nat) (s : St) : Prop :=
  ∃ base evs, (∀ e ∈ evs, e.isFailure = false) ∧ run v limit (init base) evs = some s

/-- worker queue drained, no task body executing (so no sync in flight), every client call returned -/
def St.quiescent (s : St) : Bool := s.queue == 0 && s.phase == .idle && s.pending == 0

/-- the internal event enabled in a state, if any (there is at most one, up to the outcome of `sync_all`) -/
def next (v : Variant) (s : St) : Option Ev :=
  if s.pending ≠ 0 then some .decide else
  match s.phase with
  | .idle => if s.queue = 0 then none else some .recv
  | .spawned => some .cas
  | .held => some .check
  | .checked => some .start
  | .syncing _ => some (.complete true)
  | .returned _ => some .release
  | .released => if v.recheck then some .recheck else some .finish
  | .done => some .finish

/-- let the protocol run by itself (every sync succeeding) for at most `fuel` steps -/
def settle (v : Variant) (limit : Nat) : Nat → St → St
  | 0, s => s
  | fuel + 1, s =>
    match next v s with
    | none => s
    | some e =>
      match step v limit s e with
      | some t => settle v limit fuel t
      | none => s

/-- no write of the schedule lands while a task is past its size capture (`Phase.blind`) -/
def noBlindWrite (v : Variant) (limit : Nat) : St → List Ev → Bool
  | _, [] => true
  | s, e :: es =>
    (match e with
      | .write n => !s.phase.blind || n == 0
      | .append n => !s.phase.blind || n == 0
      | _ => true) &&
    (match step v limit s e with
      | some t => noBlindWrite v limit t es
      | none => true)

/-- a bound on the number of internal steps from a state -/
def Phase.rank : Phase → Nat
  | .idle => 0
  | .spawned => 7
  | .held => 6
  | .checked => 5
  | .syncing _ => 4
  | .returned _ => 3
  | .released => 2
  | .done => 1

def St.measure (s : St) : Nat := 8 * s.queue + 9 * s.pending + s.phase.rank

/-- the immediate-effect model of `Pearl/Model/Fs.lean` on the two counters: what `Fs.fsyncCheckP` does to the
    file of the active blob (`Act.syncBlob` when `dirty > limit`) -/
def checkEffect (limit size synced : Nat) : Nat × Nat :=
  if size - synced > limit then (size, max synced size) else (size, synced)

end SyncProto
end Pearl
