import Pearl.Model.Record
/-
L5 byte layer, part 4: the offline tools (`src/tools`): `BlobReader`, `BlobWriter`, `validate_blob`,
`recovery_blob` / `process_blob_with`, `migrate_blob`.

Sources: src/tools/{blob_reader,blob_writer,utils,validation,migration}.rs, src/record/record.rs
(`with_blob_offset`, `with_reversed_key_bytes`, `update_checksum`), src/blob/header.rs
(`validate_without_version`).

A file is the list of its bytes. The reader state is the position (the kernel file cursor and
`self.position` coincide at every point where the model continues); `latest_wrong_header` travels in
the error value. Positions are `Nat` (`u64` wrap-around is outside the model, except for the
`checked_add`s of `skip_wrong_record_data`, which are modelled).

The tools hold the metadata *deserialised* (`HashMap<String, Vec<u8>>`) and serialise it again when
writing: a `ToolRecord` therefore carries the list of map entries in stream order. For maps with at most
one entry (everything the storage model writes) the re-serialisation is canonical; for larger maps the
Rust order is the `HashMap` iteration order, which the model replaces by stream order.
Core-only imports.
-/
namespace Pearl

/-- `record::Record` as the tools hold it: metadata deserialised -/
structure ToolRecord where
  header : RecHeader
  mt : List (String × List UInt8)
  data : List UInt8
deriving DecidableEq, Repr, Inhabited

/-- error kinds that the control flow of the tools distinguishes -/
inductive ToolErr where
  /-- `ToolsError::RecordHeaderValidation`; carries `latest_wrong_header` and the reader position
      (just after the header) -/
  | headerValidation (h : RecHeader) (pos : Nat)
  /-- `ToolsError::RecordValidation`; carries the reader position (just after the record's data) -/
  | recordValidation (pos : Nat)
  /-- `validate_without_version` of the blob header failed / written header differs -/
  | blobHeader
  /-- `ToolsError::SkipRecordData` -/
  | skipRecordData
  /-- `ToolsError::UnsupportedMigration` -/
  | unsupportedMigration (src tgt : Nat)
  /-- anything else: I/O (unexpected end of file) and bincode errors -/
  | other
  /-- model artefact: loop bound exhausted (never returned: `processLoop_ne_fuel`, `validateLoop_ne_fuel`, C16 `tools_total`) -/
  | fuel
deriving DecidableEq, Repr, Inhabited

/-! ### serialisation of the deserialised metadata -/

def serEntries : List (String × List UInt8) → List UInt8
  | [] => []
  | (k, v) :: es => serString k ++ serVec v ++ serEntries es

/-- `bincode::serialize(&record.meta)` -/
def serMetaEntries (es : List (String × List UInt8)) : List UInt8 :=
  le64 es.length ++ serEntries es

/-- a storage-level record as the tools see it after reading it at `off` -/
def Record.toTool (r : Record) (off : Nat) : ToolRecord :=
  { header := r.header.final off, mt := metaEntries r.mt, data := r.data }

/-! ### `BlobReader` -/

/-- `Header::validate_without_version` -/
def validateWithoutVersion (b : BlobHeader) : Except ToolErr Unit :=
  if b.magicByte ≠ BLOB_MAGIC_BYTE then .error .blobHeader else .ok ()

/-- `BlobReader::read_header` at position 0: the header and the new position -/
def readBlobHeader (file : List UInt8) : Except ToolErr (BlobHeader × Nat) :=
  match parseBlobHeader file with
  | none => .error .other
  | some b =>
    match validateWithoutVersion b with
    | .error e => .error e
    | .ok _ => .ok (b, blobHeaderSize)

/-- `BlobReader::read_single_record` at position `pos`: the record and the new position.
    The header is deserialised from the stream (`bincode::deserialize_from`), so its size follows from
    the key length found in the stream. -/
def readSingleRecord (file : List UInt8) (pos : Nat) : Except ToolErr (ToolRecord × Nat) :=
  match deserHeader (file.drop pos) with
  | none => .error .other
  | some h =>
    let pos1 := pos + h.serializedSize
    match headerValidate h with
    | .error _ => .error (.headerValidation h pos1)
    | .ok _ =>
      match readExactAt file h.metaSize pos1 with
      | none => .error .other
      | some mb =>
        match deserMeta mb with
        | none => .error .other
        | some es =>
          let pos2 := pos1 + h.metaSize
          match readExactAt file h.dataSize pos2 with
          | none => .error .other
          | some d =>
            let pos3 := pos2 + h.dataSize
            -- `Record::validate`: the header again (pure, already passed), then the data checksum
            match dataChecksumAudit h d with
            | .error _ => .error (.recordValidation pos3)
            | .ok _ => .ok ({ header := h, mt := es, data := d }, pos3)

/-- `BlobReader::skip_wrong_record_data`: `len` = file length, `pos` = position after the wrong header -/
def skipWrongRecordData (len : Nat) (h : RecHeader) (pos : Nat) : Except ToolErr Nat :=
  let p := pos + h.dataSize + h.metaSize
  if 2 ^ 64 ≤ p then .error .skipRecordData          -- `checked_add` overflow
  else if len ≤ p then .error .skipRecordData        -- "position is bigger than file size"
  else .ok p

/-- `BlobReader::read_record(skip_wrong)` -/
def readRecord (file : List UInt8) (skip : Bool) (pos : Nat) : Except ToolErr (ToolRecord × Nat) :=
  if skip then
    match readSingleRecord file pos with
    | .ok r => .ok r
    | .error (.recordValidation pos') => readSingleRecord file pos'
    | .error (.headerValidation h pos') =>
      match skipWrongRecordData file.length h pos' with
      | .error e => .error e
      | .ok p => readSingleRecord file p
    | .error e => .error e
  else readSingleRecord file pos

/-- `BlobReader::is_eof` -/
def isEof (file : List UInt8) (pos : Nat) : Bool := file.length ≤ pos

/-! ### `validate_blob` -/

/-- the loop of `validate_blob`; the first argument bounds the number of iterations -/
def validateLoop (file : List UInt8) : Nat → Nat → Except ToolErr Unit
  | 0, pos => if isEof file pos then .ok () else .error .fuel
  | fuel+1, pos =>
    if isEof file pos then .ok ()
    else
      match readRecord file false pos with
      | .error e => .error e
      | .ok (_, pos') => validateLoop file fuel pos'

/-- `validate_blob` -/
def validateBlob (file : List UInt8) : Except ToolErr Unit :=
  match readBlobHeader file with
  | .error e => .error e
  | .ok (_, pos) => validateLoop file file.length pos

/-! ### `BlobWriter` -/

/-- `BlobWriter::write_header` on the fresh (truncated) output file, with `validate_written_header` -/
def writeHeader (b : BlobHeader) : Except ToolErr (List UInt8) :=
  let out := serBlobHeader b
  match readBlobHeader out with
  | .error e => .error e
  | .ok (b', _) => if b' = b then .ok out else .error .blobHeader

/-- `BlobWriter::write_record`: `self.written` is the length of the output so far; the header is
    re-addressed (`with_blob_offset(self.written)`: offset := position, checksum recomputed) -/
def writeRecord (out : List UInt8) (r : ToolRecord) : List UInt8 :=
  out ++ (serHeader (r.header.final out.length) ++ (serMetaEntries r.mt ++ r.data))

/-! ### `process_blob_with`, `recovery_blob`, `migrate_blob` -/

/-- the loop of `process_blob_with`: stops (without an error) at the first record that cannot be read
    or preprocessed; the first argument bounds the number of iterations -/
def processLoop (input : List UInt8) (skip : Bool) (f : ToolRecord → Except ToolErr ToolRecord) :
    Nat → Nat → List UInt8 → Except ToolErr (List UInt8)
  | 0, pos, out => if isEof input pos then .ok out else .error .fuel
  | fuel+1, pos, out =>
    if isEof input pos then .ok out
    else
      match readRecord input skip pos with
      | .error _ => .ok out                                   -- `break`
      | .ok (r, pos') =>
        match f r with
        | .error _ => .ok out                                 -- `break`
        | .ok r' => processLoop input skip f fuel pos' (writeRecord out r')

/-- `process_blob_with` (with `validate_every = 0`); both preprocessors get the source version -/
def processBlobWith (input : List UInt8) (skip : Bool)
    (fRec : Nat → ToolRecord → Except ToolErr ToolRecord)
    (fHdr : Nat → BlobHeader → Except ToolErr BlobHeader) : Except ToolErr (List UInt8) :=
  match readBlobHeader input with
  | .error e => .error e
  | .ok (hdr, pos) =>
    match fHdr hdr.version hdr with
    | .error e => .error e
    | .ok hdr' =>
      match writeHeader hdr' with
      | .error e => .error e
      | .ok out => processLoop input skip (fRec hdr.version) input.length pos out

/-- `recovery_blob` -/
def recoveryBlob (input : List UInt8) (skip : Bool) : Except ToolErr (List UInt8) :=
  processBlobWith input skip (fun _ r => .ok r) (fun _ h => .ok h)

/-- `Header::with_reversed_key_bytes` -/
def RecHeader.withReversedKeyBytes (h : RecHeader) : RecHeader :=
  RecHeader.updateChecksum { h with key := h.key.reverse }

/-- `Record::migrate` -/
def migrateRecord (target source : Nat) (r : ToolRecord) : Except ToolErr ToolRecord :=
  if target ≤ source then .ok r
  else if source = 0 ∧ target = 1 then .ok { r with header := r.header.withReversedKeyBytes }
  else .error (.unsupportedMigration source target)

/-- `blob::Header::migrate` -/
def migrateBlobHeader (target source : Nat) (b : BlobHeader) : Except ToolErr BlobHeader :=
  if target ≤ source then .ok b
  else if source = 0 ∧ target = 1 then .ok { b with version := 1 }
  else .error (.unsupportedMigration source target)

/-- `migrate_blob` -/
def migrateBlob (input : List UInt8) (target : Nat := BLOB_VERSION) : Except ToolErr (List UInt8) :=
  processBlobWith input false (migrateRecord target) (migrateBlobHeader target)

/-- the records a file holds according to the reader (`read_single_record` until end of file or the
    first error); used to state what a recovered blob contains -/
def readAll (file : List UInt8) : Nat → Nat → List ToolRecord
  | 0, _ => []
  | fuel+1, pos =>
    if isEof file pos then []
    else
      match readSingleRecord file pos with
      | .error _ => []
      | .ok (r, pos') => r :: readAll file fuel pos'

end Pearl
