import Pearl.Model.Tools
/-
`BlobReader` of `src/tools/blob_reader.rs` with its state spelled out: `position` AND the field
`latest_wrong_header`, which `Model/Tools.lean` does not keep (there the wrong header travels in the error
value).  This second model is written from the Rust code independently of `readSingleRecord` /
`readRecord`; `Proofs/ToolsMany.lean` proves that, for the real code, both models agree on every file
(`recoveryBlobSt_real`), i.e. that the field is never read stale.

The reader is parametrised by the three places the seeded change C16-7 touched, so that the real reader,
the seeded variant, and each of its edits alone are instances:

  * `clearOnValid`  : `read_single_record` executes `self.latest_wrong_header = None` after
                      `header.validate()` succeeded                       (real: yes; edit (a): no)
  * `dataFailSkips` : `read_record` calls `skip_wrong_record_data` also for `RecordValidation`
                      (a data checksum failure)                           (real: no; edit (b): yes)
  * `noneIsOk`      : `skip_wrong_record_data` returns `Ok(())` instead of "wrong header not found" when
                      the field is `None`                                 (real: no; edit (b): yes)
Core-only imports.
-/
namespace Pearl

structure ReaderVariant where
  clearOnValid : Bool
  dataFailSkips : Bool
  noneIsOk : Bool
deriving DecidableEq, Repr

/-- the code at /repo -/
def ReaderVariant.real : ReaderVariant := { clearOnValid := true, dataFailSkips := false, noneIsOk := false }
/-- the seeded change: both edits -/
def ReaderVariant.stale : ReaderVariant := { clearOnValid := false, dataFailSkips := true, noneIsOk := true }
/-- edit (a) alone -/
def ReaderVariant.editA : ReaderVariant := { clearOnValid := false, dataFailSkips := false, noneIsOk := false }
/-- edit (b) alone -/
def ReaderVariant.editB : ReaderVariant := { clearOnValid := true, dataFailSkips := true, noneIsOk := true }

/-- the mutable fields of `BlobReader` (`file` and `len` do not change) -/
structure ReaderSt where
  pos : Nat
  lwh : Option RecHeader
deriving DecidableEq, Repr

/-- `BlobReader::read_single_record`: the result and the reader afterwards.  (After an I/O or bincode
    error the position is wherever the failed read left it; every caller gives up on such an error.) -/
def readSingleRecordSt (v : ReaderVariant) (file : List UInt8) (st : ReaderSt) :
    Except ToolErr ToolRecord × ReaderSt :=
  match deserHeader (file.drop st.pos) with
  | none => (.error .other, st)
  | some h =>
    let pos1 := st.pos + h.serializedSize
    match headerValidate h with
    | .error _ => (.error (.headerValidation h pos1), { pos := pos1, lwh := some h })
    | .ok _ =>
      let lwh := if v.clearOnValid then none else st.lwh
      match readExactAt file h.metaSize pos1 with
      | none => (.error .other, { pos := pos1, lwh := lwh })
      | some mb =>
        let pos2 := pos1 + h.metaSize
        match deserMeta mb with
        | none => (.error .other, { pos := pos2, lwh := lwh })
        | some es =>
          match readExactAt file h.dataSize pos2 with
          | none => (.error .other, { pos := pos2, lwh := lwh })
          | some d =>
            let pos3 := pos2 + h.dataSize
            match dataChecksumAudit h d with
            | .error _ => (.error (.recordValidation pos3), { pos := pos3, lwh := lwh })
            | .ok _ => (.ok { header := h, mt := es, data := d }, { pos := pos3, lwh := lwh })

/-- `BlobReader::skip_wrong_record_data`: reads the FIELD -/
def skipWrongRecordDataSt (v : ReaderVariant) (len : Nat) (st : ReaderSt) : Except ToolErr ReaderSt :=
  match st.lwh with
  | none => if v.noneIsOk then .ok st else .error .skipRecordData
  | some h =>
    let p := st.pos + h.dataSize + h.metaSize
    if 2 ^ 64 ≤ p then .error .skipRecordData
    else if len ≤ p then .error .skipRecordData
    else .ok { st with pos := p }

/-- `BlobReader::read_record(skip_wrong)` -/
def readRecordSt (v : ReaderVariant) (file : List UInt8) (skip : Bool) (st : ReaderSt) :
    Except ToolErr ToolRecord × ReaderSt :=
  if skip then
    match readSingleRecordSt v file st with
    | (.ok r, st1) => (.ok r, st1)
    | (.error (.recordValidation _), st1) =>
      if v.dataFailSkips then
        match skipWrongRecordDataSt v file.length st1 with
        | .error e => (.error e, st1)
        | .ok st2 => readSingleRecordSt v file st2
      else readSingleRecordSt v file st1
    | (.error (.headerValidation _ _), st1) =>
      match skipWrongRecordDataSt v file.length st1 with
      | .error e => (.error e, st1)
      | .ok st2 => readSingleRecordSt v file st2
    | (.error e, st1) => (.error e, st1)
  else readSingleRecordSt v file st

/-- the loop of `process_blob_with` (identity preprocessor, `validate_every = 0`) over this reader -/
def processLoopSt (v : ReaderVariant) (input : List UInt8) (skip : Bool) :
    Nat → ReaderSt → List UInt8 → Except ToolErr (List UInt8)
  | 0, st, out => if isEof input st.pos then .ok out else .error .fuel
  | fuel+1, st, out =>
    if isEof input st.pos then .ok out
    else
      match readRecordSt v input skip st with
      | (.error _, _) => .ok out
      | (.ok r, st') => processLoopSt v input skip fuel st' (writeRecord out r)

/-- `recovery_blob` over this reader -/
def recoveryBlobSt (v : ReaderVariant) (input : List UInt8) (skip : Bool) : Except ToolErr (List UInt8) :=
  match readBlobHeader input with
  | .error e => .error e
  | .ok (hdr, pos) =>
    match writeHeader hdr with
    | .error e => .error e
    | .ok out => processLoopSt v input skip input.length { pos := pos, lwh := none } out

end Pearl
