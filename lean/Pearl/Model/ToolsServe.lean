import Pearl.Model.EndToEndCrash
import Pearl.Model.ToolsWriter
/-
The offline tools (`Pearl/Model/Tools.lean`, `ToolsWriter.lean`) composed with the storage
(`Pearl/Model/EndToEnd.lean`, `EndToEndCrash.lean`): the file a tool wrote is put, as the single blob file `0`, into an
otherwise empty work directory — no index file, nothing in memory — and the storage is started on that directory.

New definitions only; nothing of the existing models is changed.  Start-up is the existing `CState.recover`
(`Storage::init` with the quarantine decision of `read_blobs`) and the existing `CState.restart` (the same, "init fails"
= state unchanged).  Both read, of the blobs of the state they are given, the `id` and the `file` only
(`recover_eraseGhost`, `regen`): so "a directory" is a state whose blobs carry their file and nothing else.
-/
namespace Pearl.E2E
open Pearl Pearl.BPTree

/-- a blob file as it lies in the work directory before start-up: the bytes, no index, no filter.
    `ghost` is the history variable of `CBlob` (never read by start-up nor by any read path). -/
def CBlob.ofFile (cfg : Cfg) (id : Nat) (file : List UInt8) (ghost : List Rec) : CBlob :=
  { id := id, file := file, index := .mem [], filter := newFilter cfg, ghost := ghost }

/-- the work directory that holds exactly one blob file, `0`, with the bytes `file` -/
def CState.dirOne (cfg : Cfg) (file : List UInt8) (ghost : List Rec) : CState :=
  { active := some (CBlob.ofFile cfg 0 file ghost), cont := CState.emptyCont cfg, nextId := 1 }

/-- `Storage::init` on that directory (with the quarantine decision of `read_blobs`); `none` = `init` fails -/
def startOn (cfg : Cfg) (file : List UInt8) (ghost : List Rec) (lazy : Bool) : Option CState :=
  (CState.dirOne cfg file ghost).recover cfg lazy

/-- what `read_blobs` does with the one file: opened / quarantined / `init` fails -/
def startOutcome (cfg : Cfg) (file : List UInt8) : InitOutcome := openBlob cfg.klen cfg.validateData file

end Pearl.E2E

namespace Pearl
open Pearl.E2E

/-- L2: the store `init` builds from one opened blob `0` holding the records `recs` -/
def Store.oneBlob (allowDup : Bool) (recs : List Rec) (lazy : Bool) : Store :=
  Store.ofBlobs allowDup [{ id := 0, recs := recs, onDisk := false }] 1 lazy

end Pearl
