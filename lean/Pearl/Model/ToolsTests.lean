import Pearl.Model.Tools
/-
Sanity checks of the tools model (`#eval`; not imported by `Pearl.lean`).
-/
open Pearl

def tsq16 : List UInt8 := (List.range 16).map (fun i => UInt8.ofNat (i * i))

def trecs : List (Rec × List UInt8) :=
  [ ({ key := 1, ts := 101, del := false, mt := none, data := ⟨16, 0⟩ }, tsq16),
    ({ key := 2, ts := 102, del := false, mt := some [9, 8], data := ⟨0, 0⟩ }, [7, 7, 7]),
    ({ key := 1, ts := 103, del := true, mt := none, data := ⟨0, 0⟩ }, []),
    ({ key := 3, ts := 104, del := false, mt := none, data := ⟨0, 0⟩ }, [1, 2, 3, 4, 5]) ]

def tb : List UInt8 := blobBytes 3 trecs

/-- info: true -/
#guard_msgs in #eval validateBlob tb == .ok ()
/-- info: true -/
#guard_msgs in #eval recoveryBlob tb false == .ok tb && recoveryBlob tb true == .ok tb
/-- info: true -/
#guard_msgs in #eval migrateBlob tb == .ok tb

-- record 0: header at 20 .. 80, meta 80 .. 88, data 88 .. 104
/-- info: true -/
#guard_msgs in #eval (blobBytes 3 (trecs.take 1)).length == 104

-- a flipped data byte in record 0
def tbData : List UInt8 := tb.set 91 0xAA
/-- info: true -/
#guard_msgs in #eval validateBlob tbData == .error (.recordValidation 104)
/-- info: true -/
#guard_msgs in #eval recoveryBlob tbData false == .ok (blobBytes 3 [])
/-- info: true -/
#guard_msgs in #eval recoveryBlob tbData true == .ok (blobBytes 3 (trecs.eraseIdx 0))

-- a flipped data byte in record 1 (header 104 .. 164, meta 164 .. 191, data 191 .. 194)
/-- info: true -/
#guard_msgs in #eval (blobBytes 3 (trecs.take 2)).length == 194
def tbData1 : List UInt8 := tb.set 192 0xAA
/-- info: true -/
#guard_msgs in #eval recoveryBlob tbData1 false == .ok (blobBytes 3 (trecs.take 1))
/-- info: true -/
#guard_msgs in #eval recoveryBlob tbData1 true == .ok (blobBytes 3 (trecs.eraseIdx 1))
/-- info: true -/
#guard_msgs in #eval validateBlob (blobBytes 3 (trecs.eraseIdx 1)) == .ok ()
/-- info: true -/
#guard_msgs in #eval rawRecordsLoad 3 true (blobBytes 3 (trecs.eraseIdx 1)) == .ok (blobHeaders 3 (trecs.eraseIdx 1))

-- a flipped timestamp byte in the header of record 1 (offset 104 + 33 + 3 + 8 = 148)
def tbHdr1 : List UInt8 := tb.set 148 0xAA
/-- info: true -/
#guard_msgs in #eval (match validateBlob tbHdr1 with | .error (.headerValidation _ 164) => true | _ => false)
/-- info: true -/
#guard_msgs in #eval recoveryBlob tbHdr1 false == .ok (blobBytes 3 (trecs.take 1))
/-- info: true -/
#guard_msgs in #eval recoveryBlob tbHdr1 true == .ok (blobBytes 3 (trecs.eraseIdx 1))

-- damage in the last record: nothing to continue with
def tbLast : List UInt8 := tb.set (tb.length - 2) 0xAA
/-- info: true -/
#guard_msgs in #eval recoveryBlob tbLast true == .ok (blobBytes 3 (trecs.take 3))
def tbLastH : List UInt8 := tb.set (tb.length - 20) 0xAA
/-- info: true -/
#guard_msgs in #eval recoveryBlob tbLastH true == .ok (blobBytes 3 (trecs.take 3))

-- truncation inside record 2
/-- info: true -/
#guard_msgs in #eval validateBlob (tb.take 200) == .error .other
/-- info: true -/
#guard_msgs in #eval recoveryBlob (tb.take 200) true == .ok (blobBytes 3 (trecs.take 2))
-- truncation at a record boundary
/-- info: true -/
#guard_msgs in #eval validateBlob (tb.take 194) == .ok () && tb.take 194 == blobBytes 3 (trecs.take 2)

-- blob magic
/-- info: true -/
#guard_msgs in #eval validateBlob (tb.set 2 0) == .error .blobHeader && recoveryBlob (tb.set 2 0) true == .error .blobHeader
-- blob version is NOT checked by the tools
/-- info: true -/
#guard_msgs in #eval validateBlob (tb.set 8 7) == .ok ()

-- migration v0 -> v1
def tbV0 : List UInt8 :=
  appendRecords (serBlobHeader { BlobHeader.new with version := 0 })
    ((recordsOf 3 trecs).map fun r => { r with header := { r.header with key := r.header.key.reverse } })
/-- info: true -/
#guard_msgs in #eval migrateBlob tbV0 == .ok tb
/-- info: true -/
#guard_msgs in #eval tbV0 != tb && validateBlob tbV0 == .ok ()
