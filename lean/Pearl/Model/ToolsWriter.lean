import Pearl.Model.Tools
/-
L5 byte layer, part 4b: `BlobWriter` with its read-back validation (`validate_every ≠ 0`).

Sources: src/tools/blob_writer.rs (`from_path`, `write_header`, `validate_written_header`, `write_record`,
`clear_cache`, `validate_written_records`), src/tools/utils.rs (`process_blob_with`),
src/tools/blob_reader.rs (`from_file`, `read_single_record`).

`Pearl/Model/Tools.lean` models `process_blob_with` with `validate_every = 0`: the writer is the list of
bytes written so far.  Here the writer is the Rust struct:

  * `file`    the content of the output file (opened with `truncate(true)`: initially empty);
  * `cursor`  the position of the file description.  `validate_written_*` work on `self.file.try_clone()`,
              i.e. a `dup`ed descriptor that SHARES this position: the `seek`s and reads of the validation
              move it, and the last statement of a successful validation seeks back to `self.written`.
              All writes (`serialize_into`, `write_all`) go to the cursor;
  * `written`, `writtenCached`, `cache`  the three fields of `BlobWriter`.

Note that `written_cached` is the NUMBER OF BYTES written since the cache was last cleared; the position at
which the read-back starts is `written - written_cached` (`checked_sub(..).expect(..)`: a panic if negative).

The record comparison `record != &written_record` is the derived `PartialEq` of `Record` (header, meta,
data).  The meta is a `HashMap`; as in `Pearl/Model/Tools.lean` the model holds it as the list of entries
in stream order.

Three consecutive writes at the cursor (`serialize_into(header)`, `write_all(meta)`, `write_all(data)`)
are one write of the concatenation.  Errors of the operating system (`?` on `write_all`, `seek`,
`try_clone`) are outside the model.  Core-only imports.
-/
namespace Pearl

/-- what a run with the writer can end with, other than `Ok` -/
inductive WriterErr where
  /-- an error the reader (or a preprocessor) produced, propagated by `?` -/
  | tool (e : ToolErr)
  /-- `ToolsError::RecordValidation("Written and cached records is not equal")` -/
  | notEqual
  /-- the panic of `checked_sub(self.written_cached).expect("Should be correct")` -/
  | subPanic
deriving DecidableEq, Repr, Inhabited

/-- `BlobWriter` -/
structure Writer where
  file : List UInt8
  cursor : Nat
  written : Nat
  writtenCached : Nat
  cache : Option (List ToolRecord)
deriving DecidableEq, Repr, Inhabited

namespace Writer

/-- `BlobWriter::from_path(path, cache_written)`: the file is created / truncated -/
def fromPath (cacheWritten : Bool) : Writer :=
  { file := [], cursor := 0, written := 0, writtenCached := 0,
    cache := if cacheWritten then some [] else none }

/-- `write_header`: serialise at the cursor, `written += serialized_size`, then
    `validate_written_header`: seek to 0, `BlobReader::from_file`, `read_header`, compare, seek back to
    `written` -/
def writeHeader (w : Writer) (b : BlobHeader) : Except WriterErr Writer :=
  let bytes := serBlobHeader b
  let file := pwrite w.file w.cursor bytes
  let written := w.written + blobHeaderSize
  match readBlobHeader file with
  | .error e => .error (.tool e)
  | .ok (b', _) =>
    if b' ≠ b then .error (.tool .blobHeader)
    else .ok { w with file := file, written := written, cursor := written }

/-- the bytes `write_record` writes for a record whose header has been re-addressed to `off` -/
def recordImage (r : ToolRecord) (off : Nat) : List UInt8 :=
  serHeader (r.header.final off) ++ (serMetaEntries r.mt ++ r.data)

/-- `write_record`: the header is re-addressed to `self.written`; header, meta and data are written at the
    cursor; the record (with the new header) is pushed into the cache and `written_cached` advanced if
    there is a cache; `written` is advanced -/
def writeRecord (w : Writer) (r : ToolRecord) : Writer :=
  let r' : ToolRecord := { r with header := r.header.final w.written }
  let bytes := recordImage r w.written
  let n := bytes.length
  { file := pwrite w.file w.cursor bytes,
    cursor := w.cursor + n,
    written := w.written + n,
    writtenCached := match w.cache with
      | some _ => w.writtenCached + n
      | none => w.writtenCached,
    cache := match w.cache with
      | some c => some (c ++ [r'])
      | none => none }

/-- seeded variant 1: `self.written += written` moved inside `if let Some(cache)` -/
def writeRecordBuggyOffset (w : Writer) (r : ToolRecord) : Writer :=
  let r' : ToolRecord := { r with header := r.header.final w.written }
  let bytes := recordImage r w.written
  let n := bytes.length
  { file := pwrite w.file w.cursor bytes,
    cursor := w.cursor + n,
    written := match w.cache with
      | some _ => w.written + n
      | none => w.written,
    writtenCached := match w.cache with
      | some _ => w.writtenCached + n
      | none => w.writtenCached,
    cache := match w.cache with
      | some c => some (c ++ [r'])
      | none => none }

/-- `clear_cache` -/
def clearCache (w : Writer) : Writer :=
  match w.cache with
  | some _ => { w with cache := some [], writtenCached := 0 }
  | none => w

/-- seeded variant 2: `clear_cache` without `self.written_cached = 0` -/
def clearCacheBuggy (w : Writer) : Writer :=
  match w.cache with
  | some _ => { w with cache := some [] }
  | none => w

/-- the `for record in cache.iter()` loop of `validate_written_records`: the reader (a `BlobReader` on the
    shared descriptor, positioned at `pos`; its `len` is the current length of the file) reads one record
    per cached record and compares -/
def readback (file : List UInt8) : List ToolRecord → Nat → Except WriterErr Nat
  | [], pos => .ok pos
  | r :: rs, pos =>
    match readSingleRecord file pos with
    | .error e => .error (.tool e)
    | .ok (r', pos') => if r ≠ r' then .error .notEqual else readback file rs pos'

/-- `validate_written_records` -/
def validateWrittenRecords (w : Writer) : Except WriterErr Writer :=
  match w.cache with
  | none => .ok w
  | some c =>
    if c = [] then .ok w
    else
      let currentPosition := w.written
      if currentPosition < w.writtenCached then .error .subPanic
      else
        let startPosition := currentPosition - w.writtenCached
        match readback w.file c startPosition with
        | .error e => .error e
        | .ok _ => .ok { w with cursor := currentPosition }      -- `seek(SeekFrom::Start(current_position))`

end Writer

/-- the writer operations a run uses: the real ones, or one of the seeded variants -/
structure WriterOps where
  write : Writer → ToolRecord → Writer
  clear : Writer → Writer

def WriterOps.real : WriterOps := { write := Writer.writeRecord, clear := Writer.clearCache }
/-- `written` advances only when `cache.is_some()` -/
def stepBuggyOffset : WriterOps := { write := Writer.writeRecordBuggyOffset, clear := Writer.clearCache }
/-- `clear_cache` keeps `written_cached` -/
def stepBuggyClear : WriterOps := { write := Writer.writeRecord, clear := Writer.clearCacheBuggy }

/-- `validate_written_records()?; clear_cache()` -/
def validateAndClear (ops : WriterOps) (w : Writer) : Except WriterErr Writer :=
  match w.validateWrittenRecords with
  | .error e => .error e
  | .ok w' => .ok (ops.clear w')

/-- the loop of `process_blob_with` over the writer; `count` is the number of records written so far.
    A record that cannot be read or preprocessed ends the loop (`break`: the check after the `match` is
    skipped).  The first `Nat` bounds the number of iterations, as in `processLoop`. -/
def processLoopW (ops : WriterOps) (validateEvery : Nat) (input : List UInt8) (skip : Bool)
    (f : ToolRecord → Except ToolErr ToolRecord) : Nat → Nat → Nat → Writer → Except WriterErr Writer
  | 0, pos, _, w => if isEof input pos then .ok w else .error (.tool .fuel)
  | fuel+1, pos, count, w =>
    if isEof input pos then .ok w
    else
      match readRecord input skip pos with
      | .error _ => .ok w                                     -- `break`
      | .ok (r, pos') =>
        match f r with
        | .error _ => .ok w                                   -- `break`
        | .ok r' =>
          let w1 := ops.write w r'
          -- `validate_written_records && count % validate_every == 0`
          if validateEvery ≠ 0 ∧ (count + 1) % validateEvery = 0 then
            match validateAndClear ops w1 with
            | .error e => .error e
            | .ok w2 => processLoopW ops validateEvery input skip f fuel pos' (count + 1) w2
          else processLoopW ops validateEvery input skip f fuel pos' (count + 1) w1

/-- what follows the loop: `if validate_written_records { validate_written_records()?; clear_cache() }`;
    the result is the content of the output file -/
def finishW (ops : WriterOps) (validateEvery : Nat) (w : Writer) : Except WriterErr (List UInt8) :=
  if validateEvery ≠ 0 then
    match validateAndClear ops w with
    | .error e => .error e
    | .ok w' => .ok w'.file
  else .ok w.file

/-- the loop and what follows it -/
def processRunW (ops : WriterOps) (validateEvery : Nat) (input : List UInt8) (skip : Bool)
    (f : ToolRecord → Except ToolErr ToolRecord) (fuel pos count : Nat) (w : Writer) :
    Except WriterErr (List UInt8) :=
  match processLoopW ops validateEvery input skip f fuel pos count w with
  | .error e => .error e
  | .ok w1 => finishW ops validateEvery w1

/-- `process_blob_with(input, output, validate_every, preprocess_record, preprocess_header, skip_wrong_record)`;
    the result is the content of the output file -/
def processBlobWithW (ops : WriterOps) (validateEvery : Nat) (input : List UInt8) (skip : Bool)
    (fRec : Nat → ToolRecord → Except ToolErr ToolRecord)
    (fHdr : Nat → BlobHeader → Except ToolErr BlobHeader) : Except WriterErr (List UInt8) :=
  match readBlobHeader input with
  | .error e => .error (.tool e)
  | .ok (hdr, pos) =>
    match fHdr hdr.version hdr with
    | .error e => .error (.tool e)
    | .ok hdr' =>
      match (Writer.fromPath (validateEvery != 0)).writeHeader hdr' with
      | .error e => .error e
      | .ok w => processRunW ops validateEvery input skip (fRec hdr.version) input.length pos 0 w

/-- `process_blob_with` with any `validate_every` -/
def processBlobWithV (validateEvery : Nat) (input : List UInt8) (skip : Bool)
    (fRec : Nat → ToolRecord → Except ToolErr ToolRecord)
    (fHdr : Nat → BlobHeader → Except ToolErr BlobHeader) : Except WriterErr (List UInt8) :=
  processBlobWithW .real validateEvery input skip fRec fHdr

/-- `recovery_blob(input, output, validate_every, skip_wrong_record)` -/
def recoveryBlobV (validateEvery : Nat) (input : List UInt8) (skip : Bool) : Except WriterErr (List UInt8) :=
  processBlobWithV validateEvery input skip (fun _ r => .ok r) (fun _ h => .ok h)

/-- `migrate_blob(input, output, validate_every, target_version)` -/
def migrateBlobV (validateEvery : Nat) (input : List UInt8) (target : Nat := BLOB_VERSION) :
    Except WriterErr (List UInt8) :=
  processBlobWithV validateEvery input false (migrateRecord target) (migrateBlobHeader target)

/-- how a result of the `validate_every = 0` model reads as a result of this one -/
def liftW : Except ToolErr (List UInt8) → Except WriterErr (List UInt8)
  | .ok out => .ok out
  | .error e => .error (.tool e)

end Pearl
