import Pearl.Model.Store
/-
L3: the background maintenance worker (`src/storage/observer_worker.rs`, `src/storage/observer.rs`,
the `*_in_background` / `force_update_active_blob` / `try_update_active_blob` entry points of
`src/storage/core.rs`).

What is modelled, arm by arm, is `ObserverWorker::process_msg` and `process_defered`; the `run` loop is
`runWorkerWith` (a fold over the messages the channel delivers) and `Worker.loop` (the same loop as a small
step machine with an explicit phase, used for the termination statement).

Abstractions:
* time: a deadline that fires is the explicit event `Msg.deadlineDue` (`timeout_at` returned `Err(_)` and the
  `min`/`max` condition of `process_deferred_blob_index_dump` holds; a deadline that fires early only re-arms
  itself and changes nothing the model tracks);
* the two spawned tasks (`index_dump_task`, `fsync_task`) are a flag each; a task that finishes is the
  explicit event `Msg.dumpDone` / `Msg.fsyncDone` (`task.is_finished()` observed at the top of the loop).
  A finishing dump task dumps every closed non-empty blob at once (`Store.settle`);
* limits: `max_data_in_blob` and `max_blob_size` are both mandatory in `Builder::build`, so the
  `ErrorKind::Uninitialized` exits of `try_update_active_blob` are unreachable and the limits are plain
  numbers; the file size of a blob is abstracted to the sum of its payload lengths (any measure works:
  it is only ever compared with `maxSize`);
* I/O failures (`Blob::open_new`, `fsyncdata` inside `close_active_blob`, `load_index` inside
  `restore_active_blob`) are not injected here.  They take the same `?` path as the logical errors below.

The error policy is a parameter:
* `ErrorPolicy.panic` is the loop up to /repo commit 4216739 (`self.process_msg(msg).await?` in `tick` and
  `tick_with_deadline`, then `panic!` in `run`: the worker task dies on the first failed request);
* `ErrorPolicy.logAndContinue` is the loop since /repo commit 33c2a77 (`if let Err(err) = self.process_msg(msg)
  .await { error!(..) }`): the failed request is reported and the loop goes on.  An `Err` aborts the rest of
  the arm it occurs in; in this model every `Err` is raised before the arm has changed anything
  (`closeActive` / `tryCreateActive` / `restoreActive` fail on their precondition), so "log and continue" is
  "state unchanged".  `process_defered` errors still reach the `panic!`, but `process_defered` has no failing
  path (`processE _ .deadlineDue` is always `.ok`), so the policy never applies to it.
-/
namespace Pearl

/-- `ActiveBlobStat` -/
structure BlobStat where
  recordsCount : Nat
  indexMemory : Nat
  fileSize : Nat
deriving DecidableEq, Repr, Inhabited

/-- `ActiveBlobPred = fn(Option<ActiveBlobStat>) -> bool` -/
abbrev BlobPred := Option BlobStat → Bool

/-- `OperationType` (same order as the Rust enum) -/
inductive OpType where
  | createActiveBlob
  | closeActiveBlob
  | restoreActiveBlob
  | forceUpdateActiveBlob
  | tryDumpBlobIndexes
  | tryUpdateActiveBlob
  | deferredDumpBlobIndexes
  | tryFsyncData
deriving DecidableEq, Repr, Inhabited

/-- what the worker loop can observe in one iteration -/
inductive Msg where
  /-- `Msg { optype, predicate }` received from the channel -/
  | op (t : OpType) (pred : Option BlobPred)
  /-- `timeout_at` elapsed and the deferred dump is due -/
  | deadlineDue
  /-- the spawned `try_dump_old_blob_indexes` task finished -/
  | dumpDone
  /-- the spawned `fsyncdata` task finished -/
  | fsyncDone
deriving Inhabited

/-- configured limits (`max_data_in_blob`, `max_blob_size`) -/
structure Limits where
  maxCount : Nat
  maxSize : Nat
deriving DecidableEq, Repr, Inhabited

/-- abstract file size of a blob -/
def Blob.fileSize (b : Blob) : Nat := (b.recs.map (fun r => r.data.len)).sum

/-- `file_size() >= max_blob_size || records_count() >= max_data_in_blob` -/
def Limits.full (lim : Limits) (b : Blob) : Bool :=
  decide (lim.maxSize ≤ b.fileSize) || decide (lim.maxCount ≤ b.count)

/-- `Inner::active_blob_stat` -/
def Store.activeStat (s : Store) : Option BlobStat :=
  s.active.map (fun a => { recordsCount := a.count, indexMemory := if a.onDisk then 0 else a.count, fileSize := a.fileSize })

structure WState where
  store : Store
  /-- the `ObserverWorker::run` task has not panicked -/
  alive : Bool := true
  /-- `deferred_index_dump_info.is_some()` -/
  deferred : Bool := false
  /-- `index_dump_task` holds a task that is not finished -/
  dumpRunning : Bool := false
  /-- `fsync_task` holds a task that is not finished -/
  fsyncRunning : Bool := false
deriving Repr, Inhabited

inductive ErrorPolicy where
  /-- `?` in `tick` + `panic!` in `run` (before /repo 33c2a77) -/
  | panic
  /-- log the error, keep the state, go on with the next message (/repo 33c2a77 and later) -/
  | logAndContinue
deriving DecidableEq, Repr, Inhabited

namespace Worker

/-- `predicate_wrapper` -/
def predOk (pred : Option BlobPred) (s : Store) : Bool :=
  match pred with
  | none => true
  | some p => p s.activeStat

/-- `try_run_old_blob_indexes_dump_task`: `false` if a dump is in progress, otherwise starts one -/
def tryRunDump (w : WState) : WState × Bool :=
  if w.dumpRunning then (w, false) else ({ w with dumpRunning := true }, true)

/-- `try_run_fsync_task` -/
def tryRunFsync (w : WState) : WState × Bool :=
  if w.fsyncRunning then (w, false) else ({ w with fsyncRunning := true }, true)

/-- `defer_blob_indexes_dump` (registers the deferred dump or refreshes its `last_time`; never fails) -/
def deferDump (w : WState) : WState := { w with deferred := true }

/-- `ObserverWorker::try_update_active_blob`: `Ok(true)` iff the active blob was replaced.
    Without an active blob both checks fall through and nothing is replaced. -/
def tryUpdateActive (lim : Limits) (w : WState) : WState × Bool :=
  match w.store.active with
  | none => (w, false)
  | some a =>
    if lim.full a then ({ w with store := w.store.replaceActive }, true)
    else (w, false)

/-- `process_deferred_blob_index_dump` with the time condition satisfied -/
def processDeferred (w : WState) : WState :=
  if w.deferred then
    let (w', started) := tryRunDump w
    -- started: `deferred_index_dump_info = None`; not started: a fresh `DeferredEventData`
    { w' with deferred := !started }
  else w

/-- `process_msg`: the `Result` it returns -/
def processOp (lim : Limits) (w : WState) (t : OpType) (pred : Option BlobPred) : Except ErrKind WState :=
  if !predOk pred w.store then .ok w
  else
    match t with
    | .forceUpdateActiveBlob => .ok { w with store := w.store.replaceActive }
    | .closeActiveBlob => do
        let s ← w.store.closeActive
        .ok { w with store := s }
    | .createActiveBlob => do
        let s ← w.store.tryCreateActive
        .ok { w with store := s }
    | .restoreActiveBlob => do
        let s ← w.store.restoreActive
        .ok { w with store := s }
    | .tryDumpBlobIndexes =>
        -- since the repair of E27: a request that finds a dump task running is deferred, not dropped
        let (w1, started) := tryRunDump w
        if started then .ok w1 else .ok (deferDump w1)
    | .tryFsyncData => .ok (tryRunFsync w).1
    | .tryUpdateActiveBlob =>
        let (w1, switched) := tryUpdateActive lim w
        if switched then
          if w1.deferred then .ok (deferDump w1)
          else
            let (w2, started) := tryRunDump w1
            if started then .ok w2 else .ok (deferDump w2)
        else .ok w1
    | .deferredDumpBlobIndexes => .ok (deferDump w)

/-- one loop iteration as a `Result` (`tick` / `tick_with_deadline`, plus the task bookkeeping at the top
    of the loop) -/
def processE (lim : Limits) (w : WState) : Msg → Except ErrKind WState
  | .op t pred => processOp lim w t pred
  | .deadlineDue => .ok (processDeferred w)
  | .dumpDone => .ok (if w.dumpRunning then { w with store := w.store.settle, dumpRunning := false } else w)
  | .fsyncDone => .ok { w with fsyncRunning := false }

end Worker

open Worker in
/-- one iteration of `ObserverWorker::run` under an error policy; a dead worker ignores everything -/
def processMsgWith (onError : ErrorPolicy) (lim : Limits) (w : WState) (m : Msg) : WState :=
  if !w.alive then w
  else
    match processE lim w m with
    | .ok w' => w'
    | .error _ =>
      match onError with
      | .panic => { w with alive := false }
      | .logAndContinue => w

/-- the loop before the repair (`?`-propagating) -/
def processMsg : Limits → WState → Msg → WState := processMsgWith .panic
/-- the repaired loop = the code as it is now -/
def processMsgFixed : Limits → WState → Msg → WState := processMsgWith .logAndContinue

def runWorkerWith (onError : ErrorPolicy) (lim : Limits) (w : WState) (msgs : List Msg) : WState :=
  msgs.foldl (processMsgWith onError lim) w

def runWorker : Limits → WState → List Msg → WState := runWorkerWith .panic
def runWorkerFixed : Limits → WState → List Msg → WState := runWorkerWith .logAndContinue

namespace Worker

/-- after the loop: `complete_task(index_dump_task)`, `complete_task(fsync_task)`.
    Awaiting the dump handle lets the dump run to its end. -/
def drain (w : WState) : WState :=
  { w with store := if w.dumpRunning then w.store.settle else w.store, dumpRunning := false, fsyncRunning := false }

/-- `Observer::shutdown`: the sender is dropped, the worker consumes what is still queued, `recv` returns
    `None`, the loop breaks and the two handles are awaited. -/
def shutdownWith (onError : ErrorPolicy) (lim : Limits) (w : WState) (queued : List Msg) : WState :=
  let w' := runWorkerWith onError lim w queued
  if w'.alive then drain w' else w'

/-- the `run` loop as a small-step machine -/
inductive Phase where
  /-- inside `loop { .. }` -/
  | running
  /-- `panic!` was reached: the task is finished with a `JoinError` -/
  | panicked
  /-- `debug!("observer stopped")` was reached -/
  | stopped
deriving DecidableEq, Repr, Inhabited

structure Cfg where
  w : WState
  /-- messages still in the channel; the sender is dropped, so `recv` on an empty queue returns `None` -/
  queue : List Msg
  phase : Phase := .running

/-- one iteration of `loop { .. }` (the last one includes the two `complete_task` after the `break`) -/
def loopStep (onError : ErrorPolicy) (lim : Limits) (c : Cfg) : Cfg :=
  match c.phase with
  | .running =>
    match c.queue with
    | [] => { c with w := drain c.w, phase := .stopped }
    | m :: q =>
      let w' := processMsgWith onError lim c.w m
      { w := w', queue := q, phase := if w'.alive then .running else .panicked }
  | _ => c

def loopN (onError : ErrorPolicy) (lim : Limits) : Nat → Cfg → Cfg
  | 0, c => c
  | n + 1, c => loopN onError lim n (loopStep onError lim c)

end Worker
end Pearl
