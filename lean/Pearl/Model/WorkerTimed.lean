import Pearl.Model.Worker
/-
L3t: a timed refinement of the worker model (`Pearl/Model/Worker.lean`) — the deferred index dump of
`src/storage/observer_worker.rs` with its clock made explicit.

`Worker.lean` abstracts the deferred dump to a flag `deferred : Bool` and an external event `Msg.deadlineDue`
that is ASSUMED to arrive whenever a deferred dump is registered.  Here that assumption is the thing under
study: the state carries

* `now : Nat`                           — the clock, in ms (`Instant::now()`),
* `deferredInfo : Option Deferred`      — `deferred_index_dump_info: Option<Box<DeferredEventData>>`
                                          (`first_time`, `last_time`),
* `nextDeadline : Option Nat`           — `next_deadline: Option<Instant>`,
* `dumpRunning : Bool`                  — `index_dump_task` holds a task that is not finished; the task ends by the
                                          external event `dumpDone`,

and the events are what one iteration of `ObserverWorker::run` can observe, each stamped with the time at which
the iteration runs:

* `recv t op pred`   — `recv()` returned `Some(msg)` (in `tick`, or in `tick_with_deadline` before the timeout),
* `timeout t`        — `timeout_at(deadline + EPS, recv())` returned `Err(_)`: enabled only when a deadline is armed
                       and `deadline + EPS ≤ t`,
* `dumpDone t`       — the spawned `try_dump_old_blob_indexes` task finished,
* `fsyncDone t`      — the spawned `fsyncdata` task finished,
* `wait t`           — time passes, nothing is observed.

One iteration is atomic: every `Instant::now()` / `elapsed()` evaluated inside it reads the time stamp of the
event.  An event that is not enabled (time going backwards, `timeout` without an elapsed deadline, `dumpDone`
without a running task, anything on a dead worker) is a no-op, so a run is `foldl step` over ANY event list and
"reachable" means "reached by some event list".  `recv` is deliberately not constrained by the armed deadline:
`tokio::time::Timeout` polls the inner future first, so a message that is already queued wins over an elapsed
deadline (a flooded queue postpones `process_defered`); allowing every `recv` over-approximates this.

Three variants of the code are modelled, statement by statement:

* `Variant.shipped`   — /repo HEAD.
* `Variant.seeded`    — seeded change C13-5: `defer_blob_indexes_dump` arms the deadline (`update_deadline`) only
                        when it creates a NEW `DeferredEventData`.
* `Variant.repaired`  — /repo HEAD plus one statement: the branch of `process_deferred_blob_index_dump` that
                        re-creates the record because the dump task is still running also calls
                        `update_deadline(next_deadline(min, max))`.  (In /repo HEAD that branch does NOT re-arm the
                        deadline, although `tick_with_deadline` has just reset it to `None`: see
                        `Pearl/Props/C13.lean`, `deferred_has_deadline_refuted`.)

`step` is the shipped code, `stepBuggy` the seeded one, `stepRepaired` the repaired one.
-/
namespace Pearl
namespace WorkerTimed

open Worker

/-- `DEFERRED_PROCESS_DEADLINE_EPS` (1 ms) -/
def EPS : Nat := 1

/-- the configuration the loop reads: the blob limits, `deferred_min_time()`, `deferred_max_time()` (ms) -/
structure TCfg where
  lim : Limits
  minT : Nat
  maxT : Nat
deriving DecidableEq, Repr, Inhabited

/-- `DeferredEventData { first_time, last_time }` -/
structure Deferred where
  first : Nat
  last : Nat
deriving DecidableEq, Repr, Inhabited

/-- `DeferredEventData::new()` at time `now` -/
def Deferred.new (now : Nat) : Deferred := { first := now, last := now }

/-- `DeferredEventData::next_deadline(min, max) = (first_time + max).min(last_time + min)` -/
def Deferred.nextDeadline (d : Deferred) (minT maxT : Nat) : Nat := min (d.first + maxT) (d.last + minT)

/-- the condition of `process_deferred_blob_index_dump` evaluated at time `t`:
    `last_time.elapsed() >= min || first_time.elapsed() >= max` (`elapsed` saturates at zero) -/
def Deferred.due (d : Deferred) (minT maxT : Nat) (t : Nat) : Bool :=
  decide (minT ≤ t - d.last) || decide (maxT ≤ t - d.first)

inductive Variant where
  /-- /repo HEAD -/
  | shipped
  /-- seeded change C13-5 (deadline armed only for a new record) -/
  | seeded
  /-- /repo HEAD + `update_deadline` in the re-create branch of `process_deferred_blob_index_dump` -/
  | repaired
deriving DecidableEq, Repr, Inhabited

structure TState where
  store : Store
  /-- the `ObserverWorker::run` task has not panicked -/
  alive : Bool := true
  /-- `index_dump_task` holds a task that is not finished -/
  dumpRunning : Bool := false
  /-- `fsync_task` holds a task that is not finished -/
  fsyncRunning : Bool := false
  /-- the clock (ms) -/
  now : Nat := 0
  /-- `deferred_index_dump_info` -/
  deferredInfo : Option Deferred := none
  /-- `next_deadline` -/
  nextDeadline : Option Nat := none
  /-- ghost: how many times `try_run_old_blob_indexes_dump_task` has spawned a dump task -/
  dumpStarts : Nat := 0
deriving Repr, Inhabited

/-- erase the clock: the state of the untimed model (`deferred` = `deferred_index_dump_info.is_some()`) -/
def erase (s : TState) : WState :=
  { store := s.store, alive := s.alive, deferred := s.deferredInfo.isSome,
    dumpRunning := s.dumpRunning, fsyncRunning := s.fsyncRunning }

/-- `update_deadline`: keep the closest of the passed deadline and the one already set -/
def updateDeadline (s : TState) (deadline : Nat) : TState :=
  match s.nextDeadline with
  | none => { s with nextDeadline := some deadline }
  | some prev => if deadline < prev then { s with nextDeadline := some deadline } else s

/-- `try_run_old_blob_indexes_dump_task` -/
def tryRunDumpT (s : TState) : TState × Bool :=
  if s.dumpRunning then (s, false)
  else ({ s with dumpRunning := true, dumpStarts := s.dumpStarts + 1 }, true)

/-- `try_run_fsync_task` -/
def tryRunFsyncT (s : TState) : TState × Bool :=
  if s.fsyncRunning then (s, false) else ({ s with fsyncRunning := true }, true)

/-- `defer_blob_indexes_dump` -/
def deferDumpT (v : Variant) (cfg : TCfg) (s : TState) : TState :=
  match v with
  | .seeded =>
    -- if let Some(deferred) = .. { deferred.update_last_time() }
    -- else { let deferred = new(); update_deadline(deferred.next_deadline(min, max)); info = Some(deferred) }
    match s.deferredInfo with
    | some d => { s with deferredInfo := some { d with last := s.now } }
    | none =>
      let d := Deferred.new s.now
      { updateDeadline s (d.nextDeadline cfg.minT cfg.maxT) with deferredInfo := some d }
  | _ =>
    -- if let Some(deferred) = .. { deferred.update_last_time() } else { info = Some(new()) }
    let s1 : TState :=
      match s.deferredInfo with
      | some d => { s with deferredInfo := some { d with last := s.now } }
      | none => { s with deferredInfo := some (Deferred.new s.now) }
    -- if let Some(deferred) = &info { update_deadline(deferred.next_deadline(min, max)) }
    match s1.deferredInfo with
    | some d => updateDeadline s1 (d.nextDeadline cfg.minT cfg.maxT)
    | none => s1

/-- `process_deferred_blob_index_dump` -/
def processDeferredT (v : Variant) (cfg : TCfg) (s : TState) : TState :=
  match s.deferredInfo with
  | none => s
  | some d =>
    if d.due cfg.minT cfg.maxT s.now then
      let (s', started) := tryRunDumpT s
      if started then { s' with deferredInfo := none }
      else
        -- "The dump procedure is already running … we defer the dump procedure once more"
        let d' := Deferred.new s'.now
        let s'' : TState := { s' with deferredInfo := some d' }
        match v with
        | .repaired => updateDeadline s'' (d'.nextDeadline cfg.minT cfg.maxT)
        | _ => s''
    else updateDeadline s (d.nextDeadline cfg.minT cfg.maxT)

/-- `ObserverWorker::try_update_active_blob` -/
def tryUpdateActiveT (lim : Limits) (s : TState) : TState × Bool :=
  match s.store.active with
  | none => (s, false)
  | some a =>
    if lim.full a then ({ s with store := s.store.replaceActive }, true)
    else (s, false)

/-- `process_msg` -/
def processOpT (v : Variant) (cfg : TCfg) (s : TState) (t : OpType) (pred : Option BlobPred) :
    Except ErrKind TState :=
  if !predOk pred s.store then .ok s
  else
    match t with
    | .forceUpdateActiveBlob => .ok { s with store := s.store.replaceActive }
    | .closeActiveBlob => do
        let st ← s.store.closeActive
        .ok { s with store := st }
    | .createActiveBlob => do
        let st ← s.store.tryCreateActive
        .ok { s with store := st }
    | .restoreActiveBlob => do
        let st ← s.store.restoreActive
        .ok { s with store := st }
    | .tryDumpBlobIndexes =>
        -- since the repair of E27 (all variants): a request that finds a dump task running is deferred, not dropped
        let (s1, started) := tryRunDumpT s
        if started then .ok s1 else .ok (deferDumpT v cfg s1)
    | .tryFsyncData => .ok (tryRunFsyncT s).1
    | .tryUpdateActiveBlob =>
        let (s1, switched) := tryUpdateActiveT cfg.lim s
        if switched then
          if s1.deferredInfo.isSome then .ok (deferDumpT v cfg s1)
          else
            let (s2, started) := tryRunDumpT s1
            if started then .ok s2 else .ok (deferDumpT v cfg s2)
        else .ok s1
    | .deferredDumpBlobIndexes => .ok (deferDumpT v cfg s)

/-- what one iteration of `run` observes, and when -/
inductive TEvent where
  /-- `recv()` returned `Some(Msg { optype, predicate })` at time `t` -/
  | recv (t : Nat) (op : OpType) (pred : Option BlobPred)
  /-- `timeout_at(deadline + EPS, recv())` returned `Err(_)` at time `t` -/
  | timeout (t : Nat)
  /-- the dump task finished at time `t` -/
  | dumpDone (t : Nat)
  /-- the fsync task finished at time `t` -/
  | fsyncDone (t : Nat)
  /-- time passes until `t` -/
  | wait (t : Nat)
deriving Inhabited

def TEvent.time : TEvent → Nat
  | .recv t _ _ => t
  | .timeout t => t
  | .dumpDone t => t
  | .fsyncDone t => t
  | .wait t => t

/-- an armed deadline has elapsed at time `t` (`deadline + EPS ≤ t`) -/
def deadlineElapsed (s : TState) (t : Nat) : Bool :=
  match s.nextDeadline with
  | some dl => decide (dl + EPS ≤ t)
  | none => false

/-- can the event happen in this state -/
def enabled (s : TState) (e : TEvent) : Bool :=
  s.alive && decide (s.now ≤ e.time) &&
    match e with
    | .timeout t => deadlineElapsed s t
    | .dumpDone _ => s.dumpRunning
    | _ => true

/-- one iteration of `ObserverWorker::run` (error policy of /repo HEAD: a failed `process_msg` is logged and the
    loop goes on) -/
def stepV (v : Variant) (cfg : TCfg) (s : TState) (e : TEvent) : TState :=
  if !enabled s e then s
  else
    let s : TState := { s with now := e.time }
    match e with
    | .recv _ op pred =>
      match processOpT v cfg s op pred with
      | .ok s' => s'
      | .error _ => s
    | .timeout _ =>
      -- "Deadline reached": `self.next_deadline = None; self.process_defered().await?`
      processDeferredT v cfg { s with nextDeadline := none }
    | .dumpDone _ => { s with store := s.store.settle, dumpRunning := false }
    | .fsyncDone _ => { s with fsyncRunning := false }
    | .wait _ => s

/-- the shipped code -/
def step : TCfg → TState → TEvent → TState := stepV .shipped
/-- the seeded change C13-5 -/
def stepBuggy : TCfg → TState → TEvent → TState := stepV .seeded
/-- the shipped code with the re-create branch re-arming the deadline -/
def stepRepaired : TCfg → TState → TEvent → TState := stepV .repaired

def runV (v : Variant) (cfg : TCfg) (s : TState) (es : List TEvent) : TState := es.foldl (stepV v cfg) s

def run : TCfg → TState → List TEvent → TState := runV .shipped
def runBuggy : TCfg → TState → List TEvent → TState := runV .seeded
def runRepaired : TCfg → TState → List TEvent → TState := runV .repaired

/-- a record is registered and the condition of `process_deferred_blob_index_dump` holds at time `t` -/
def dueAt (cfg : TCfg) (s : TState) (t : Nat) : Bool :=
  match s.deferredInfo with
  | some d => d.due cfg.minT cfg.maxT t
  | none => false

/-- the `timeout` at time `t` finds the deferred dump due (it is the untimed `Msg.deadlineDue`) -/
def firesDue (cfg : TCfg) (s : TState) (t : Nat) : Bool :=
  enabled s (.timeout t) && dueAt cfg s t

/-- the message of the untimed model that an event of the timed model is -/
def msgOf (cfg : TCfg) (s : TState) (e : TEvent) : Option Msg :=
  if !enabled s e then none
  else
    match e with
    | .recv _ op pred => some (.op op pred)
    | .timeout t => if firesDue cfg s t then some .deadlineDue else none
    | .dumpDone _ => some .dumpDone
    | .fsyncDone _ => some .fsyncDone
    | .wait _ => none

/-- the untimed message sequence of a timed run -/
def traceV (v : Variant) (cfg : TCfg) : TState → List TEvent → List Msg
  | _, [] => []
  | s, e :: es => (msgOf cfg s e).toList ++ traceV v cfg (stepV v cfg s e) es

/-- events that neither deliver a message nor fire the deadline -/
def TEvent.quiet : TEvent → Bool
  | .dumpDone _ => true
  | .fsyncDone _ => true
  | .wait _ => true
  | _ => false

/-- events that do not deliver a message (the worker is left alone) -/
def TEvent.noRecv : TEvent → Bool
  | .recv _ _ _ => false
  | _ => true

/-- a delete that hit a closed blob: `DeferredDumpBlobIndexes` arrives -/
def TEvent.isDelete : TEvent → Bool
  | .recv _ .deferredDumpBlobIndexes _ => true
  | _ => false

/-- is the untimed message `Msg.deadlineDue` -/
def isDue : Msg → Bool
  | .deadlineDue => true
  | _ => false

/-- the state right after `ObserverWorker::new` -/
def TState.init (store : Store) : TState := { store := store }

/-- reachable = reached from a state right after `ObserverWorker::new` by some event list -/
def Reachable (v : Variant) (cfg : TCfg) (s : TState) : Prop :=
  ∃ store es, s = runV v cfg (TState.init store) es

/-- the spawn of a dump task by the deferred path: task running, one more spawn, record and deadline cleared -/
def Started (s s' : TState) : Prop :=
  s'.dumpRunning = true ∧ s'.dumpStarts = s.dumpStarts + 1 ∧ s'.deferredInfo = none ∧ s'.nextDeadline = none

end WorkerTimed
end Pearl
