import Pearl.Spec
import Pearl.Model.Script
/-
Oracle mode of the driver: judges the *implementation's* transcript with the L0 `Spec` functions only.
Input lines have the form `<script line> => <implementation output>`.  The history is reconstructed from
the implementation's own `#states` probe (per-blob record counts): the blobs whose count grew after an
acknowledged `w`/`d` received that record.  No L1–L7 model function is used here.
-/
namespace Pearl.Oracle
open Pearl Pearl.Script

structure BlobSt where
  id : Nat
  active : Bool
  count : Nat
deriving Repr, Inhabited

inductive Pending where
  | none
  | write (k : Key) (ts : Nat) (m : Option Meta) (d : Data) (ok : Bool) (switched : Bool)
  | delete (k : Key) (ts : Nat) (m : Option Meta) (oip : Bool) (n : Option Nat)
deriving Repr, Inhabited

structure St where
  hist : History := []
  blobs : List BlobSt := []
  pending : Pending := .none
  allowDup : Bool := false
  maxId : Option Nat := none
  fresh : Bool := true     -- no `#states` seen yet in this scenario
deriving Inhabited

def parseStates (s : String) : Option (List BlobSt) :=
  match s.trimAscii.toString.splitOn " " with
  | "#states" :: toks =>
    (toks.filter (· ≠ "")).mapM fun t =>
      match t.splitOn ":" with
      | [i, a, c] =>
        match i.toNat?, c.toNat? with
        | some i, some c => some { id := i, active := a == "a", count := c }
        | _, _ => none
      | _ => none
  | _ => none

def histGet (h : History) (id : Nat) : List Rec :=
  match h.find? (·.1 == id) with
  | some b => b.2
  | none => []

def histSet (h : History) (id : Nat) (rs : List Rec) : History :=
  if h.any (·.1 == id) then h.map (fun b => if b.1 == id then (id, rs) else b) else h ++ [(id, rs)]

def isLive (h : History) (k : Key) (m : Option Meta) : Bool :=
  match m with
  | none => (Spec.latest h k).isFound
  | some m => (Spec.readWith h k m).isFound

def showReadP : ReadResult PRec → String
  | .found p => "found " ++ showData p.r.data
  | .deleted t => s!"deleted {t}"
  | .notFound => "notfound"

def showContainsP : ReadResult PRec → String
  | .found p => s!"found {p.r.ts}"
  | .deleted t => s!"deleted {t}"
  | .notFound => "notfound"

def verdict (expected got : String) : String :=
  if expected == got then "ok" else s!"MISMATCH expected=[{expected}] got=[{got}]"

/-- process a `#states` observation: place the pending record(s), judge placement -/
def onStates (st : St) (obs : List BlobSt) : St × String :=
  -- drop blobs that no longer exist, add new ones
  let hist0 : History := obs.map (fun b => (b.id, histGet st.hist b.id))
  let maxId := obs.foldl (fun m b => match m with | none => some b.id | some x => some (max x b.id)) st.maxId
  let grow := obs.map (fun b => (b, b.count - (histGet st.hist b.id).length))
  let shrink := obs.any (fun b => b.count < (histGet st.hist b.id).length)
  let st' := { st with blobs := obs, maxId := maxId, fresh := false, pending := .none }
  if shrink then ({ st' with hist := hist0 }, "MISMATCH records-lost")
  else
    match st.pending with
    | .none =>
      if grow.any (fun g => g.2 > 0) && !st.fresh then
        -- records appeared that no acknowledged operation explains
        ({ st' with hist := hist0 }, "MISMATCH unexplained-growth")
      else ({ st' with hist := hist0 }, "ok")
    | .write k ts m d ok switched =>
      let r : Rec := { key := k, ts := ts, del := false, mt := m.getD none, data := d }
      let grown := grow.filter (fun g => g.2 > 0)
      let expectStore := ok && (st.allowDup || !isLive st.hist k m)
      match grown with
      | [] =>
        if expectStore then ({ st' with hist := hist0 }, "MISMATCH write-not-stored")
        else ({ st' with hist := hist0 }, "ok")
      | [(b, 1)] =>
        let hist1 := histSet hist0 b.id (histGet hist0 b.id ++ [r])
        if !ok then ({ st' with hist := hist1 }, "MISMATCH failed-write-stored")
        else if !expectStore then ({ st' with hist := hist1 }, "MISMATCH duplicate-stored")
        else if !(if switched then (st.blobs.any (fun o => o.id == b.id && o.active)) || !(st.blobs.any (·.active))
                  else b.active) then
          ({ st' with hist := hist1 }, "MISMATCH write-not-in-active")
        else ({ st' with hist := hist1 }, "ok")
      | _ => ({ st' with hist := hist0 }, "MISMATCH write-placement")
    | .delete k ts m oip n =>
      let r : Rec := { key := k, ts := ts, del := true, mt := m.getD none, data := ⟨0, 0⟩ }
      if grow.any (fun g => g.2 > 1) then ({ st' with hist := hist0 }, "MISMATCH delete-placement")
      else
        let marked := (grow.filter (fun g => g.2 == 1)).map (·.1.id)
        -- expected: active blob when !oip (created on demand), and every blob where the key is live
        let expected := (obs.filter (fun b =>
            (b.active && !oip) || Spec.liveIn b.id (histGet st.hist b.id) k)).map (·.id)
        let hist1 := marked.foldl (fun h id => histSet h id (histGet h id ++ [r])) hist0
        let nOk := match n with | some n => n == marked.length | none => true
        if marked != expected then
          ({ st' with hist := hist1 }, s!"MISMATCH delete-targets expected={expected} got={marked}")
        else if !nOk then ({ st' with hist := hist1 }, s!"MISMATCH delete-count marked={marked.length}")
        else ({ st' with hist := hist1 }, "ok")

def showRecP (p : PRec) : String := showEntry p.r

def expectedCounts (st : St) : String :=
  let cs := st.blobs.map (·.count)
  let act := match st.blobs.find? (·.active) with | some b => toString b.count | none => "-"
  let next := match st.maxId with | some m => m + 1 | none => 0
  s!"counts rc={cs.sum} det={showNats cs} act={act} blobs={st.blobs.length} next={next}"

def step (st : St) (line : String) : St × String :=
  match line.splitOn " => " with
  | [cmd, out] =>
    let out := out.trimAscii.toString
    match cmd.trimAscii.toString.splitOn " " with
    | "cfg" :: toks => ({ allowDup := toks.any (· == "dup=1") }, "ok")
    | ["states"] =>
      match parseStates out with
      | some obs => onStates st obs
      | none => (st, "skip")
    | ["w", k, ts, m, len, seed] =>
      match hexNat k, ts.toNat?, parseMeta m, len.toNat?, seed.toNat? with
      | some k, some ts, some m, some len, some seed =>
        ({ st with pending := .write k ts m ⟨len, if len == 0 then 0 else seed⟩ (out == "ok" || out.startsWith "ok ") (out.endsWith " switched") }, "ok")
      | _, _, _, _, _ => (st, "skip")
    | ["d", k, ts, m, oip] =>
      match hexNat k, ts.toNat?, parseMeta m, oip.toNat? with
      | some k, some ts, some m, some oip =>
        let n := if out.startsWith "n=" then (out.drop 2).toString.toNat? else none
        if out.startsWith "n=" then ({ st with pending := .delete k ts m (oip != 0) n }, "ok")
        else (st, "ok")
      | _, _, _, _ => (st, "skip")
    | ["r", k] =>
      match hexNat k with
      | some k => (st, verdict (showReadP (Spec.latest st.hist k)) out)
      | none => (st, "skip")
    | ["c", k] =>
      match hexNat k with
      | some k => (st, verdict (showContainsP (Spec.latest st.hist k)) out)
      | none => (st, "skip")
    | ["rw", k, m] =>
      match hexNat k, parseMeta m with
      | some k, some (some m) => (st, verdict (showReadP (Spec.readWith st.hist k m)) out)
      | _, _ => (st, "skip")
    | ["ram", k] =>
      match hexNat k with
      | some k => (st, verdict (showItems ((Spec.allCut st.hist k).map showRecP)) out)
      | none => (st, "skip")
    | ["ra", k] =>
      match hexNat k with
      | some k => (st, verdict (showItems ((Spec.allLive st.hist k).map showRecP)) out)
      | none => (st, "skip")
    | [q, k] =>
      -- C10: a filter must never answer "definitely absent" for a key that has a record in some blob
      if q == "cf" || q == "cfs" || q == "gfc" then
        match hexNat k with
        | some k =>
          let stored := st.hist.any (fun b => b.2.any (fun r => r.key == k))
          if stored && (out == "some false" || out == "no") then
            (st, s!"MISMATCH false-negative: key is stored but the filters answered [{out}]")
          else (st, "ok")
        | none => (st, "skip")
      else (st, "skip")
    | ["counts"] => (st, verdict (expectedCounts st) out)
    | _ => (st, "skip")
  | _ => (st, "skip")

end Pearl.Oracle
