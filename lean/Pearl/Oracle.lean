import Pearl.Spec
import Pearl.Model.Script
/-
Oracle mode of the driver: judges the *implementation's* transcript with the L0 `Spec` functions only.
Input lines have the form `<script line> => <implementation output>`.  The history is reconstructed from
the implementation's own `#states` probe (per-blob record counts): the blobs whose count grew after an
acknowledged `w`/`d` received that record.  No L1–L7 model function is used here.
-/
namespace Pearl.Oracle
open Pearl Pearl.Script

structure BlobSt where
  id : Nat
  active : Bool
  count : Nat
deriving Repr, Inhabited

inductive Pending where
  | none
  | write (k : Key) (ts : Nat) (m : Option Meta) (d : Data) (ok : Bool) (switched : Bool) (cancelled : Bool := false)
  | delete (k : Key) (ts : Nat) (m : Option Meta) (oip : Bool) (n : Option Nat) (cancelled : Bool := false)
  /-- `race2`: two acknowledged writes of one key with one timestamp, the first started (and reserved its place in the
      file) before the second -/
  | write2 (k : Key) (ts : Nat) (a b : Data)
deriving Repr, Inhabited

structure St where
  hist : History := []
  blobs : List BlobSt := []
  pending : Pending := .none
  allowDup : Bool := false
  maxId : Option Nat := none
  fresh : Bool := true     -- no `#states` seen yet in this scenario
  /-- records of cancelled (dropped-future) operations that have not shown up yet: they may still take effect, at the
      latest at the next start -/
  limbo : List (Rec × Nat × Nat) := []      -- record, blob id, position in the blob at the time of the cancellation
  /-- cancelled operations that had not shown up by the first start after the cancellation -/
  expired : List (Rec × Nat × Nat) := []
  /-- a restart happened since the last probe -/
  restarted : Bool := false
  /-- records of blobs the storage no longer holds (quarantined, or unreadable and left in place under
      `ignore_corrupted`): if such a blob is held again after a later start (its file was repaired), it comes back with
      the records it had -/
  gone : History := []
deriving Inhabited

def parseStates (s : String) : Option (List BlobSt) :=
  match s.trimAscii.toString.splitOn " " with
  | "#states" :: toks =>
    (toks.filter (· ≠ "")).mapM fun t =>
      match t.splitOn ":" with
      | [i, a, c] =>
        match i.toNat?, c.toNat? with
        | some i, some c => some { id := i, active := a == "a", count := c }
        | _, _ => none
      | _ => none
  | _ => none

def histGet (h : History) (id : Nat) : List Rec :=
  match h.find? (·.1 == id) with
  | some b => b.2
  | none => []

def histSet (h : History) (id : Nat) (rs : List Rec) : History :=
  if h.any (·.1 == id) then h.map (fun b => if b.1 == id then (id, rs) else b) else h ++ [(id, rs)]

def isLive (h : History) (k : Key) (m : Option Meta) : Bool :=
  match m with
  | none => (Spec.latest h k).isFound
  | some m => (Spec.readWith h k m).isFound

/-- a record of a cancelled operation shows up in blob `id`: it was appended at the time of the cancellation, i.e. it
    sits at the position the blob had then -/
def placeLimbo (h : History) (id : Nat) (e : Rec × Nat × Nat) : History :=
  let l := histGet h id
  let pos := if e.2.1 == id then min e.2.2 l.length else l.length
  histSet h id (l.take pos ++ [e.1] ++ l.drop pos)

/-- choose `n` pending records for a blob that grew: those cancelled while that blob was the target first -/
def pickLimbo (pool : List (Rec × Nat × Nat)) (id n : Nat) : List (Rec × Nat × Nat) × List (Rec × Nat × Nat) :=
  let mine := pool.filter (fun e => e.2.1 == id)
  -- a pending deletion marker belongs to one particular blob; only a pending write may land in another blob
  -- (the active blob may have been switched in between)
  let others := pool.filter (fun e => e.2.1 != id && !e.1.del)
  let fixed := pool.filter (fun e => e.2.1 != id && e.1.del)
  let fromMine := mine.take n
  let fromOthers := others.take (n - fromMine.length)
  (fromMine ++ fromOthers, mine.drop n ++ others.drop (n - fromMine.length) ++ fixed)

def showReadP : ReadResult PRec → String
  | .found p => "found " ++ showData p.r.data
  | .deleted t => s!"deleted {t}"
  | .notFound => "notfound"

def showContainsP : ReadResult PRec → String
  | .found p => s!"found {p.r.ts}"
  | .deleted t => s!"deleted {t}"
  | .notFound => "notfound"

def verdict (expected got : String) : String :=
  if expected == got then "ok" else s!"MISMATCH expected=[{expected}] got=[{got}]"

/-- process a `#states` observation: place the pending record(s), judge placement -/
def onStates (st : St) (obs : List BlobSt) : St × String :=
  -- drop blobs that no longer exist, add new ones
  let known : History := st.hist ++ st.gone.filter (fun g => !(st.hist.any (·.1 == g.1)))
  let st := { st with hist := known,
                      gone := known.filter (fun g => !(obs.any (·.id == g.1))) }
  let hist0 : History := obs.map (fun b => (b.id, histGet st.hist b.id))
  let maxId := obs.foldl (fun m b => match m with | none => some b.id | some x => some (max x b.id)) st.maxId
  let grow := obs.map (fun b => (b, b.count - (histGet st.hist b.id).length))
  let shrink := obs.any (fun b => b.count < (histGet st.hist b.id).length)
  let st' := { st with blobs := obs, maxId := maxId, fresh := false, pending := .none }
  -- a blob that holds records can leave the storage only at a start (quarantine / skipped as unreadable)
  let vanished := st.blobs.any (fun b => b.count > 0 && !(obs.any (·.id == b.id))) && !st.restarted && !st.fresh
  if shrink then ({ st' with hist := hist0 }, "MISMATCH records-lost")
  else if vanished then ({ st' with hist := hist0 }, "MISMATCH blob-vanished: a blob with records is neither active nor closed any more")
  else
    let st' := { st' with limbo := if st.restarted then [] else st.limbo, restarted := false }
    match st.pending with
    | .none =>
      if grow.any (fun g => g.2 > 0) && !st.fresh then
        -- records appeared that no acknowledged operation explains: only a cancelled operation may still land,
        -- and only until the first start after the cancellation
        let total := (grow.map (·.2)).foldl (· + ·) 0
        -- every grown blob must find enough pending records that can land in it
        let fits (pool : List (Rec × Nat × Nat)) : Bool :=
          (grow.foldl (fun (acc : Bool × List (Rec × Nat × Nat)) g =>
              let (take, rest) := pickLimbo acc.2 g.1.id g.2
              (acc.1 && take.length == g.2, rest)) (true, pool)).1
        if total ≤ st.limbo.length && fits st.limbo then
          let (hist1, rest) := grow.foldl (fun (acc : History × List (Rec × Nat × Nat)) g =>
              let (take, rest) := pickLimbo acc.2 g.1.id g.2
              (take.foldl (fun h e => placeLimbo h g.1.id e) acc.1, rest)) (hist0, st.limbo)
          ({ st' with hist := hist1, limbo := if st.restarted then [] else rest,
                      expired := if st.restarted then st.expired ++ rest else st.expired }, "ok")
        else if total ≤ st.limbo.length + st.expired.length && fits (st.limbo ++ st.expired) then
          -- a cancelled operation shows up later than the first start after its cancellation
          let pool := st.limbo ++ st.expired
          let (hist1, rest) := grow.foldl (fun (acc : History × List (Rec × Nat × Nat)) g =>
              let (take, rest) := pickLimbo acc.2 g.1.id g.2
              (take.foldl (fun h e => placeLimbo h g.1.id e) acc.1, rest)) (hist0, pool)
          ({ st' with hist := hist1, limbo := [], expired := rest },
            "MISMATCH late-effect: a cancelled operation took effect later than the first start after its cancellation")
        else ({ st' with hist := hist0 }, "MISMATCH unexplained-growth")
      else if st.restarted then ({ st' with hist := hist0, expired := st.expired ++ st.limbo }, "ok")
      else ({ st' with hist := hist0 }, "ok")
    | .write k ts m d ok switched cancelled =>
      let r : Rec := { key := k, ts := ts, del := false, mt := m.getD none, data := d }
      let grown := grow.filter (fun g => g.2 > 0)
      let expectStore := ok && (st.allowDup || !isLive st.hist k m)
      match grown with
      | [] =>
        if cancelled then
          -- not (yet) visible: it may still land until the next start
          let where_ := match obs.find? (·.active) with
            | some a => (a.id, (histGet hist0 a.id).length)
            | none => (0, 0)
          ({ st' with hist := hist0, limbo := if expectStore then st'.limbo ++ [(r, where_)] else st'.limbo }, "ok")
        else if expectStore then ({ st' with hist := hist0 }, "MISMATCH write-not-stored")
        else ({ st' with hist := hist0 }, "ok")
      | [(b, 1)] =>
        let hist1 := histSet hist0 b.id (histGet hist0 b.id ++ [r])
        if !ok then ({ st' with hist := hist1 }, "MISMATCH failed-write-stored")
        else if !expectStore then ({ st' with hist := hist1 }, "MISMATCH duplicate-stored")
        else if !(if switched || cancelled then
                    b.active || (st.blobs.any (fun o => o.id == b.id && o.active)) || !(st.blobs.any (·.active))
                  else b.active) then
          ({ st' with hist := hist1 }, "MISMATCH write-not-in-active")
        else ({ st' with hist := hist1 }, "ok")
      | _ => ({ st' with hist := hist0 }, "MISMATCH write-placement")
    | .write2 k ts a b =>
      let ra : Rec := { key := k, ts := ts, del := false, mt := none, data := a }
      let rb : Rec := { key := k, ts := ts, del := false, mt := none, data := b }
      match grow.filter (fun g => g.2 > 0) with
      | [(bl, 2)] => ({ st' with hist := histSet hist0 bl.id (histGet hist0 bl.id ++ [ra, rb]) }, "ok")
      | _ => ({ st' with hist := hist0 }, "MISMATCH race2-placement")
    | .delete k ts m oip n cancelled =>
      let r : Rec := { key := k, ts := ts, del := true, mt := m.getD none, data := ⟨0, 0⟩ }
      if grow.any (fun g => g.2 > 1) then ({ st' with hist := hist0 }, "MISMATCH delete-placement")
      else if cancelled then
        -- a dropped delete may have marked any subset of its targets; the rest may still land until the next start
        let marked := (grow.filter (fun g => g.2 == 1)).map (·.1.id)
        let expected := (obs.filter (fun b =>
            (b.active && !oip) || Spec.liveIn b.id (histGet st.hist b.id) k)).map (·.id)
        let hist1 := marked.foldl (fun h id => histSet h id (histGet h id ++ [r])) hist0
        if marked.all (fun id => expected.contains id) then
          ({ st' with hist := hist1,
                      limbo := st'.limbo ++ ((expected.filter (fun id => !marked.contains id)).map
                                 (fun id => (r, id, (histGet hist0 id).length))) }, "ok")
        else ({ st' with hist := hist1 }, s!"MISMATCH delete-targets expected⊆{expected} got={marked}")
      else
        let marked := (grow.filter (fun g => g.2 == 1)).map (·.1.id)
        -- expected: active blob when !oip (created on demand), and every blob where the key is live
        let expected := (obs.filter (fun b =>
            (b.active && !oip) || Spec.liveIn b.id (histGet st.hist b.id) k)).map (·.id)
        let hist1 := marked.foldl (fun h id => histSet h id (histGet h id ++ [r])) hist0
        let nOk := match n with | some n => n == marked.length | none => true
        if marked != expected then
          -- reported; a caller that accepts under-marking (a delete issued while an injected fault is armed: the
          -- error of a closed blob is logged and counted as "not deleted") must also accept that the marker of such a
          -- blob, if its header reached the file, is indexed at the next start: the unmarked targets wait in limbo
          let pend := if marked.all (fun id => expected.contains id) then
              (expected.filter (fun id => !marked.contains id)).map (fun id => (r, id, (histGet hist0 id).length))
            else []
          ({ st' with hist := hist1, limbo := st'.limbo ++ pend },
            s!"MISMATCH delete-targets expected={expected} got={marked}")
        else if !nOk then ({ st' with hist := hist1 }, s!"MISMATCH delete-count marked={marked.length}")
        else ({ st' with hist := hist1 }, "ok")

def showRecP (p : PRec) : String := showEntry p.r

def expectedCounts (st : St) : String :=
  let cs := st.blobs.map (·.count)
  let act := match st.blobs.find? (·.active) with | some b => toString b.count | none => "-"
  let next := match st.maxId with | some m => m + 1 | none => 0
  s!"counts rc={cs.sum} det={showNats cs} act={act} blobs={st.blobs.length} next={next}"

def step (st : St) (line : String) : St × String :=
  match line.splitOn " => " with
  | [cmd, out] =>
    let out := out.trimAscii.toString
    let toksAll := cmd.trimAscii.toString.splitOn " "
    -- `cancel <k> <op...>`: the operation future was dropped after k polls (`cancelled`) or completed (`<out> polls=n`)
    let isCancel := toksAll.head? == some "cancel"
    let cancelled := isCancel && out.startsWith "cancelled"
    let out := if isCancel then (out.splitOn " polls=").headD out else out
    let out := if cancelled then "ok" else out
    -- (`@nodrain` on a write only tells the harness not to wait for the worker: the same write for the oracle)
    let toksAll := if toksAll.head? == some "w" && toksAll.getLast? == some "@nodrain" then toksAll.dropLast else toksAll
    match (if isCancel then toksAll.drop 2 else toksAll) with
    | "cfg" :: toks => ({ allowDup := toks.any (· == "dup=1") }, "ok")
    | "restart" :: _ => ({ st with restarted := true }, "ok")
    | "open" :: _ => ({ st with restarted := true }, "ok")
    | "replayfrom" :: _ => ({ st with restarted := true }, "ok")
    | ["states"] =>
      match parseStates out with
      | some obs => onStates st obs
      | none => (st, "skip")
    | ["w", k, ts, m, len, seed] =>
      match hexNat k, ts.toNat?, parseMeta m, len.toNat?, seed.toNat? with
      | some k, some ts, some m, some len, some seed =>
        ({ st with pending := .write k ts m ⟨len, if len == 0 then 0 else seed⟩ (out == "ok" || out.startsWith "ok ") (out.endsWith " switched") cancelled }, "ok")
      | _, _, _, _, _ => (st, "skip")
    | ["closerace", _, k, ts, len, seed] =>
      -- a close of the active blob raced by a write: both succeed; the write lands in a blob that is active afterwards
      match hexNat k, ts.toNat?, len.toNat?, seed.toNat? with
      | some k, some ts, some len, some seed =>
        if out == "close=ok w=ok" then
          ({ st with pending := .write k ts none ⟨len, if len == 0 then 0 else seed⟩ true false false }, "ok")
        else (st, "MISMATCH closerace: " ++ out)
      | _, _, _, _ => (st, "skip")
    | ["race2", _, k, ts, la, sa, lb, sb] =>
      match hexNat k, ts.toNat?, la.toNat?, sa.toNat?, lb.toNat?, sb.toNat? with
      | some k, some ts, some la, some sa, some lb, some sb =>
        if out == "ok ok" then ({ st with pending := .write2 k ts ⟨la, sa⟩ ⟨lb, sb⟩ }, "ok") else (st, "MISMATCH race2: " ++ out)
      | _, _, _, _, _, _ => (st, "skip")
    | ["d", k, ts, m, oip] =>
      match hexNat k, ts.toNat?, parseMeta m, oip.toNat? with
      | some k, some ts, some m, some oip =>
        let n := if out.startsWith "n=" then (out.drop 2).toString.toNat? else none
        if out.startsWith "n=" || cancelled then ({ st with pending := .delete k ts m (oip != 0) n cancelled }, "ok")
        else (st, "ok")
      | _, _, _, _ => (st, "skip")
    | ["r", k] =>
      match hexNat k with
      | some k => (st, verdict (showReadP (Spec.latest st.hist k)) out)
      | none => (st, "skip")
    | ["c", k] =>
      match hexNat k with
      | some k => (st, verdict (showContainsP (Spec.latest st.hist k)) out)
      | none => (st, "skip")
    | ["rw", k, m] =>
      match hexNat k, parseMeta m with
      | some k, some (some m) => (st, verdict (showReadP (Spec.readWith st.hist k m)) out)
      | _, _ => (st, "skip")
    | ["ram", k] =>
      match hexNat k with
      | some k => (st, verdict (showItems ((Spec.allCut st.hist k).map showRecP)) out)
      | none => (st, "skip")
    | ["ra", k] =>
      match hexNat k with
      | some k => (st, verdict (showItems ((Spec.allLive st.hist k).map showRecP)) out)
      | none => (st, "skip")
    | [q, k] =>
      -- C10: a filter must never answer "definitely absent" for a key that has a record in some blob
      if q == "cf" || q == "cfs" || q == "gfc" then
        match hexNat k with
        | some k =>
          let stored := st.hist.any (fun b => b.2.any (fun r => r.key == k))
          if stored && (out == "some false" || out == "no") then
            (st, s!"MISMATCH false-negative: key is stored but the filters answered [{out}]")
          else (st, "ok")
        | none => (st, "skip")
      else (st, "skip")
    | ["counts"] => (st, verdict (expectedCounts st) out)
    | _ => (st, "skip")
  | _ => (st, "skip")

end Pearl.Oracle
