import Pearl.Model.Abstract
import Pearl.Proofs.MaintLemmas
import Pearl.Props.C01
import Pearl.Props.C02
/-
Helper lemmas for the refinement of the blob-free abstract specification (`Pearl/Model/Abstract.lean`)
by the storage model: what appending records at the end of blobs does to the rank order of a key and
to its cut (the visible part), and the view of every single operation.
-/
namespace Pearl

/-! ### ordered insertion into a rank-sorted list, and what it does to the cut -/

/-- insertion in rank order -/
def insRank (p : PRec) : List PRec → List PRec
  | [] => [p]
  | x :: xs => if rankBefore p x then p :: x :: xs else x :: insRank p xs

theorem mem_insRank {p q : PRec} : ∀ {l : List PRec}, q ∈ insRank p l ↔ q = p ∨ q ∈ l
  | [] => by simp [insRank]
  | x :: xs => by
    unfold insRank
    split
    · simp
    · rw [List.mem_cons, mem_insRank (l := xs), List.mem_cons]
      constructor
      · rintro (h | h | h)
        · exact Or.inr (Or.inl h)
        · exact Or.inl h
        · exact Or.inr (Or.inr h)
      · rintro (h | h | h)
        · exact Or.inr (Or.inl h)
        · exact Or.inl h
        · exact Or.inr (Or.inr h)

theorem insRank_sorted {p : PRec} : ∀ {l : List PRec}, RankSorted l → (∀ x ∈ l, PDistinct p x) →
    RankSorted (insRank p l)
  | [], _, _ => by simp [insRank, RankSorted]
  | x :: xs, hl, hd => by
    rw [rankSorted_cons] at hl
    unfold insRank
    split
    · rename_i hpx
      refine rankSorted_cons.2 ⟨?_, rankSorted_cons.2 hl⟩
      intro z hz
      rcases List.mem_cons.1 hz with rfl | hz
      · exact hpx
      · exact rankBefore_trans hpx (hl.1 z hz)
    · rename_i hpx
      have hxp : rankBefore x p = true := by
        rcases rankBefore_total (hd x (by simp)) with h | h
        · exact absurd h hpx
        · exact h
      refine rankSorted_cons.2 ⟨?_, insRank_sorted hl.2 (fun z hz => hd z (by simp [hz]))⟩
      intro z hz
      rcases mem_insRank.1 hz with rfl | hz
      · exact hxp
      · exact hl.1 z hz

/-- the cut after an insertion, as a function of the cut before -/
def insCut (p : PRec) : List PRec → List PRec
  | [] => [p]
  | x :: xs =>
    if rankBefore p x then (if p.r.del then [p] else p :: x :: xs)
    else if x.r.del then [x] else x :: insCut p xs

theorem cut_insRank (p : PRec) : ∀ l : List PRec, Spec.cut (insRank p l) = insCut p (Spec.cut l)
  | [] => by
    simp [insRank, Spec.cut, insCut]
  | x :: xs => by
    by_cases hpx : rankBefore p x = true
    · by_cases hx : x.r.del = true
      · simp [insRank, Spec.cut, insCut, hpx, hx]
      · simp [insRank, Spec.cut, insCut, hpx, hx]
    · by_cases hx : x.r.del = true
      · simp [insRank, Spec.cut, insCut, hpx, hx]
      · simp [insRank, Spec.cut, insCut, hpx, hx, cut_insRank p xs]

/-- on records: if the inserted record wins every tie it is involved in (or, being a marker, is
    indistinguishable from the record it ties with), insertion into the cut is `Abs.ins` -/
theorem insCut_map_r (p : PRec) : ∀ cl : List PRec,
    (∀ x ∈ cl, x.r.ts ≤ p.r.ts → rankBefore p x = true ∨ (p.r.del = true ∧ x.r = p.r)) →
    (insCut p cl).map (·.r) = Abs.ins p.r (cl.map (·.r))
  | [], _ => rfl
  | x :: xs, h => by
    have ih := insCut_map_r p xs (fun z hz => h z (by simp [hz]))
    simp only [List.map_cons, insCut, Abs.ins]
    by_cases hts : x.r.ts > p.r.ts
    · have hpx : ¬ rankBefore p x = true := by rw [rankBefore_iff]; omega
      simp only [hpx, hts, if_true, Bool.false_eq_true, if_false]
      split
      · rfl
      · rw [List.map_cons, ih]
    · rcases h x (by simp) (by omega) with hpx | ⟨hpd, hxr⟩
      · simp only [hpx, hts, if_true, if_false]
        split <;> rfl
      · by_cases hpx : rankBefore p x = true
        · simp only [hpx, hts, if_true, if_false]
          split <;> rfl
        · have hxd : x.r.del = true := by rw [hxr]; exact hpd
          simp [hpx, hpd, hxr]

/-- records ranked below a marker that is already there do not change the cut -/
theorem cut_absorb {C₁ C' : List PRec} (h₁ : RankSorted C₁) (h' : RankSorted C') (R : PRec → Prop)
    (hm : ∀ p, p ∈ C' ↔ p ∈ C₁ ∨ R p)
    (hR : ∀ y, R y → ∃ d ∈ C₁, d.r.del = true ∧ rankBefore d y = true) :
    Spec.cut C' = Spec.cut C₁ := by
  refine RankSorted.eq_of_mem_iff (h'.sublist (cut_sublist _)) (h₁.sublist (cut_sublist _)) ?_
  intro p
  rw [mem_cut_iff h', mem_cut_iff h₁]
  constructor
  · rintro ⟨hp, hno⟩
    rcases (hm p).1 hp with hp1 | hpR
    · exact ⟨hp1, fun d hd hdd => hno d ((hm d).2 (Or.inl hd)) hdd⟩
    · obtain ⟨d, hd, hdd, hdp⟩ := hR p hpR
      exact absurd hdp (hno d ((hm d).2 (Or.inl hd)) hdd)
  · rintro ⟨hp, hno⟩
    refine ⟨(hm p).2 (Or.inl hp), fun d hd hdd hdp => ?_⟩
    rcases (hm d).1 hd with hd1 | hdR
    · exact hno d hd1 hdd hdp
    · obtain ⟨e, he, hed, hedd⟩ := hR d hdR
      exact hno e he hed (rankBefore_trans hedd hdp)

/-- one operation: a primary new record `p`, and further new records `R`, all ranked below `p`,
    which is then a marker -/
theorem cut_step {C C' : List PRec} (hC : RankSorted C) (hC' : RankSorted C') (p : PRec)
    (R : PRec → Prop) (hd : ∀ x ∈ C, PDistinct p x)
    (hm : ∀ q, q ∈ C' ↔ (q = p ∨ q ∈ C) ∨ R q)
    (hR : ∀ y, R y → p.r.del = true ∧ rankBefore p y = true)
    (hins : ∀ x ∈ Spec.cut C, x.r.ts ≤ p.r.ts →
      rankBefore p x = true ∨ (p.r.del = true ∧ x.r = p.r)) :
    (Spec.cut C').map (·.r) = Abs.ins p.r ((Spec.cut C).map (·.r)) := by
  have h₁ : RankSorted (insRank p C) := insRank_sorted hC hd
  have := cut_absorb h₁ hC' R (fun q => by rw [hm q, mem_insRank])
    (fun y hy => ⟨p, mem_insRank.2 (Or.inl rfl), (hR y hy).1, (hR y hy).2⟩)
  rw [this, cut_insRank, insCut_map_r p _ hins]

theorem head?_cut (l : List PRec) : (Spec.cut l).head? = l.head? := by
  cases l with
  | nil => rfl
  | cons x xs => simp only [Spec.cut]; split <;> rfl

theorem cut_of_head_del {l : List PRec} {d : PRec} (h : l.head? = some d) (hd : d.r.del = true) :
    Spec.cut l = [d] := by
  cases l with
  | nil => simp at h
  | cons x xs =>
    simp only [List.head?_cons, Option.some.injEq] at h
    subst h
    simp [Spec.cut, hd]

/-! ### positions -/

theorem mem_positionedFrom_lt {id : Nat} : ∀ {rs : List Rec} {i : Nat} {p : PRec},
    p ∈ positionedFrom id i rs → p.seq < i + rs.length
  | [], _, _, h => by simp [positionedFrom] at h
  | r :: rs, i, p, h => by
    simp only [positionedFrom, List.mem_cons] at h
    rcases h with rfl | h
    · simp
    · have := mem_positionedFrom_lt h
      simp only [List.length_cons]; omega

/-- the position the next record appended to blob `b` gets -/
def Blob.nextPos (b : Blob) (r : Rec) : PRec := ⟨r, b.id, b.recs.length⟩

theorem mem_positionedFrom_snoc {id : Nat} {rs : List Rec} {r : Rec} {p : PRec} :
    p ∈ positionedFrom id 0 (rs ++ [r]) ↔ p ∈ positionedFrom id 0 rs ∨ p = ⟨r, id, rs.length⟩ := by
  rw [positionedFrom_append]; simp

/-- blobs updated by appending `r` to those selected by `h` -/
theorem mem_positioned_upd (r : Rec) (h : Blob → Bool) (f : Blob → Blob) : ∀ (L : List Blob),
    (∀ b ∈ L, (f b).hist = (b.id, if h b then b.recs ++ [r] else b.recs)) → ∀ p,
    (p ∈ History.positioned ((L.map f).map Blob.hist) ↔
      p ∈ History.positioned (L.map Blob.hist) ∨ ∃ b ∈ L, h b = true ∧ p = b.nextPos r)
  | [], _, p => by simp [positioned_nil]
  | b :: L, hf, p => by
    have ih := mem_positioned_upd r h f L (fun x hx => hf x (by simp [hx])) p
    simp only [List.map_cons, positioned_cons, List.mem_append, ih, hf b (by simp)]
    by_cases hb : h b = true
    · simp only [hb, if_true, mem_positionedFrom_snoc, Blob.hist, Blob.nextPos, List.mem_cons,
        exists_eq_or_imp, true_and]
      constructor
      · rintro ((h1 | h1) | (h1 | h1))
        · exact Or.inl (Or.inl h1)
        · exact Or.inr (Or.inl h1)
        · exact Or.inl (Or.inr h1)
        · exact Or.inr (Or.inr h1)
      · rintro ((h1 | h1) | (h1 | h1))
        · exact Or.inl (Or.inl h1)
        · exact Or.inr (Or.inl h1)
        · exact Or.inl (Or.inr h1)
        · exact Or.inr (Or.inr h1)
    · simp only [hb, Bool.false_eq_true, if_false, Blob.hist, List.mem_cons, exists_eq_or_imp,
        false_and, false_or]
      constructor
      · rintro (h1 | h1 | h1)
        · exact Or.inl (Or.inl h1)
        · exact Or.inl (Or.inr h1)
        · exact Or.inr h1
      · rintro ((h1 | h1) | h1)
        · exact Or.inl h1
        · exact Or.inr (Or.inl h1)
        · exact Or.inr (Or.inr h1)

namespace Store

/-- the visible records of key `k`: the rank order of the key, cut after its first marker -/
def vis (s : Store) (k : Key) : List Rec := (Spec.allCut s.history k).map (·.r)

theorem history_split (s : Store) :
    s.history = s.closed.map Blob.hist ++ s.active.toList.map Blob.hist := by
  rw [history_eq, blobs, List.map_append]

/-- the rank order of key `k` after an operation that appended `r` to the closed blobs selected by
    `h₁` and to the active blob if selected by `h₂` -/
theorem mem_all_upd {s s' : Store} (r : Rec) (h₁ h₂ : Blob → Bool) (f₁ f₂ : Blob → Blob)
    (hb : s'.blobs = s.closed.map f₁ ++ s.active.toList.map f₂)
    (hf₁ : ∀ b ∈ s.closed, (f₁ b).hist = (b.id, if h₁ b then b.recs ++ [r] else b.recs))
    (hf₂ : ∀ b ∈ s.active.toList, (f₂ b).hist = (b.id, if h₂ b then b.recs ++ [r] else b.recs))
    (k : Key) (p : PRec) :
    p ∈ Spec.all s'.history k ↔ p ∈ Spec.all s.history k ∨
      (r.key = k ∧ ((∃ b ∈ s.closed, h₁ b = true ∧ p = b.nextPos r) ∨
        (∃ b ∈ s.active.toList, h₂ b = true ∧ p = b.nextPos r))) := by
  rw [Spec.all_eq_sortedBy, Spec.all_eq_sortedBy, mem_sortedBy, mem_sortedBy, history_eq s', hb,
    List.map_append, positioned_append, List.mem_append, mem_positioned_upd r h₁ f₁ _ hf₁,
    mem_positioned_upd r h₂ f₂ _ hf₂, history_split s, positioned_append, List.mem_append]
  have key : ∀ b : Blob, p = b.nextPos r → ((p.r.key == k) = true ↔ r.key = k) := by
    intro b hp; rw [hp]; simp [Blob.nextPos]
  constructor
  · rintro ⟨(h1 | ⟨b, hb1, hb2, hp⟩) | (h1 | ⟨b, hb1, hb2, hp⟩), hk⟩
    · exact Or.inl ⟨Or.inl h1, hk⟩
    · exact Or.inr ⟨(key b hp).1 hk, Or.inl ⟨b, hb1, hb2, hp⟩⟩
    · exact Or.inl ⟨Or.inr h1, hk⟩
    · exact Or.inr ⟨(key b hp).1 hk, Or.inr ⟨b, hb1, hb2, hp⟩⟩
  · rintro (⟨h1 | h1, hk⟩ | ⟨hk, ⟨b, hb1, hb2, hp⟩ | ⟨b, hb1, hb2, hp⟩⟩)
    · exact ⟨Or.inl (Or.inl h1), hk⟩
    · exact ⟨Or.inr (Or.inl h1), hk⟩
    · exact ⟨Or.inl (Or.inr ⟨b, hb1, hb2, hp⟩), (key b hp).2 hk⟩
    · exact ⟨Or.inr (Or.inr ⟨b, hb1, hb2, hp⟩), (key b hp).2 hk⟩

/-! #### the answers, read off the visible records -/

theorem latestOf_map (l : List PRec) :
    (classify l.head?).map (·.r) = Abs.latestOf ((Spec.cut l).map (·.r)) := by
  cases l with
  | nil => rfl
  | cons x xs =>
    by_cases hx : x.r.del = true
    · simp [classify, Spec.cut, Abs.latestOf, hx, ReadResult.map]
    · simp [classify, Spec.cut, Abs.latestOf, hx, ReadResult.map]

theorem withOf_map (m : Meta) (cl : List PRec) :
    (classify (cl.find? (fun p => p.r.del || p.r.mt == m))).map (·.r) =
      Abs.withOf (cl.map (·.r)) m := by
  unfold Abs.withOf
  rw [List.find?_map]
  have : ((fun r : Rec => r.del || r.mt == m) ∘ fun p : PRec => p.r) =
      fun p : PRec => p.r.del || p.r.mt == m := rfl
  rw [this]
  cases cl.find? (fun p => p.r.del || p.r.mt == m) with
  | none => rfl
  | some x => simp only [classify, Option.map]; split <;> rfl

theorem Spec_readWith_cut (h : History) (k : Key) (m : Meta) :
    Spec.readWith h k m =
      classify ((Spec.allCut h k).find? (fun p => p.r.del || p.r.mt == m)) := by
  have := readWith_list_eq m (Spec.allCut h k)
  unfold Spec.allCut at this ⊢
  rw [cut_cut] at this
  exact this

theorem readAllMarked_eq_vis {s : Store} (hwf : s.WF) (k : Key) : s.readAllMarked k = s.vis k :=
  readAllMarked_eq_spec hwf k

theorem readAll_eq_vis {s : Store} (hwf : s.WF) (k : Key) :
    s.readAll k = (s.vis k).filter (fun r => !r.del) := by
  rw [readAll_eq_spec hwf k]
  unfold Spec.allLive vis
  rw [List.filter_map]
  rfl

theorem read_eq_vis {s : Store} (hwf : s.WF) (k : Key) (mo : Option Meta) :
    s.read k mo = Abs.readOf (s.vis k) mo := by
  cases mo with
  | none => rw [read_eq_spec hwf k, Spec.latest_eq]; exact latestOf_map _
  | some m => rw [readWith_eq_spec hwf k m, Spec_readWith_cut]; exact withOf_map m _

theorem contains_eq_vis {s : Store} (hwf : s.WF) (k : Key) :
    s.contains k = (Abs.latestOf (s.vis k)).map (·.ts) := by
  have := read_eq_vis hwf k none
  unfold read at this
  unfold contains
  rw [this]; rfl

/-! #### positions in a well-formed storage -/

theorem all_sorted {s : Store} (hwf : s.WF) (k : Key) : RankSorted (Spec.all s.history k) :=
  sortedBy_sorted _ hwf.history_nodup

theorem mem_all_blob {s : Store} {k : Key} {p : PRec} (hp : p ∈ Spec.all s.history k) :
    ∃ b ∈ s.blobs, p ∈ positionedFrom b.id 0 b.recs ∧ p.r.key = k := by
  obtain ⟨b, hb, hpb⟩ := (mem_all k).1 hp
  exact ⟨b, hb, Blob.mem_ranked.1 hpb⟩

theorem pos_of_mem {b : Blob} {p : PRec} (hp : p ∈ positionedFrom b.id 0 b.recs) :
    p.blob = b.id ∧ p.seq < b.recs.length := by
  have h1 := mem_positionedFrom hp
  have h2 := mem_positionedFrom_lt hp
  exact ⟨h1.1, by omega⟩

theorem nextPos_distinct {s : Store} (hwf : s.WF) {k : Key} {b : Blob} (hb : b ∈ s.blobs) (r : Rec)
    {x : PRec} (hx : x ∈ Spec.all s.history k) : PDistinct (b.nextPos r) x := by
  obtain ⟨b', hb', hxb, _⟩ := mem_all_blob hx
  have hpos := pos_of_mem hxb
  unfold PDistinct Blob.nextPos
  by_cases hid : b'.id = b.id
  · have : b' = b := eq_of_id_eq hwf.1 hb' hb hid
    subst this
    right; simp only; omega
  · left; simp only; omega

theorem nextPos_before {b b' : Blob} {r : Rec} {x : PRec}
    (hx : x ∈ positionedFrom b'.id 0 b'.recs) (hle : b'.id < b.id ∨ b' = b)
    (hts : x.r.ts ≤ r.ts) : rankBefore (b.nextPos r) x = true := by
  have hpos := pos_of_mem hx
  rw [rankBefore_iff]
  unfold Blob.nextPos
  simp only
  rcases hle with h | rfl
  · omega
  · omega

theorem blobs_of_active {s : Store} {a : Blob} (ha : s.active = some a) :
    s.blobs = s.closed ++ [a] := by
  simp [blobs, ha]

theorem closed_lt_active {s : Store} (hwf : s.WF) {a : Blob} (ha : s.active = some a) {b : Blob}
    (hb : b ∈ s.closed) : b.id < a.id := by
  have := hwf.1
  rw [blobs_of_active ha, List.map_append, List.pairwise_append] at this
  exact this.2.2 b.id (List.mem_map_of_mem hb) a.id (by simp)

theorem mem_blobs_le_active {s : Store} (hwf : s.WF) {a : Blob} (ha : s.active = some a) {b : Blob}
    (hb : b ∈ s.blobs) : b.id < a.id ∨ b = a := by
  rw [blobs_of_active ha, List.mem_append] at hb
  rcases hb with hb | hb
  · exact Or.inl (closed_lt_active hwf ha hb)
  · exact Or.inr (by simpa using hb)

/-! #### operations that do not touch the key, or no record at all -/

theorem vis_congr {s s' : Store}
    (h : History.positioned s'.history = History.positioned s.history) (k : Key) :
    s'.vis k = s.vis k := by
  unfold vis; rw [Spec.allCut_congr h]

theorem vis_of_mem_iff {s s' : Store} (hwf : s.WF) (hwf' : s'.WF) (k : Key)
    (h : ∀ p, p ∈ Spec.all s'.history k ↔ p ∈ Spec.all s.history k) : s'.vis k = s.vis k := by
  unfold vis Spec.allCut
  rw [(all_sorted hwf' k).eq_of_mem_iff (all_sorted hwf k) h]

theorem vis_maint {s : Store} (hwf : s.WF) {m : Op} (hm : m.isMaint = true) (k : Key) :
    (s.apply m).vis k = s.vis k := by
  obtain ⟨e, he, hempty⟩ := (apply_maint_step hwf hm).history_ext
  exact vis_congr (by rw [he, positioned_append_empty _ hempty]) k

theorem vis_ensureActive {s : Store} (hwf : s.WF) (k : Key) : s.ensureActive.vis k = s.vis k := by
  rw [ensureActive_eq_apply]; exact vis_maint hwf rfl k

theorem vis_deleteBase {s : Store} (hwf : s.WF) (oip : Bool) (k : Key) :
    (s.deleteBase oip).vis k = s.vis k := by
  unfold deleteBase; split
  · rfl
  · exact vis_ensureActive hwf k

theorem deleteBase_WF {s : Store} (hwf : s.WF) (oip : Bool) : (s.deleteBase oip).WF := by
  unfold deleteBase; split
  · exact hwf
  · exact ensureActive_WF hwf

/-! #### `write` -/

theorem vis_write {s : Store} (hwf : s.WF) (k : Key) (ts : Nat) (m : Option Meta) (d : Data)
    (k' : Key) :
    (s.write k ts m d).vis k' = Abs.step s.allowDup k' (s.vis k') (.write k ts m d) := by
  have hwf0 := ensureActive_WF hwf
  have hwf' : (s.write k ts m d).WF := apply_WF' hwf (.write k ts m d)
  have hguard : (s.ensureActive.getLatestEntry k m) = Abs.readOf (s.vis k) m := by
    have := read_eq_vis hwf0 k m
    rw [vis_ensureActive hwf] at this
    exact this
  by_cases hg : (!s.allowDup && (s.ensureActive.getLatestEntry k m).isFound) = true
  · -- refused as a duplicate
    have hd : s.allowDup = false := by
      cases h : s.allowDup <;> simp_all
    have hf : (s.ensureActive.getLatestEntry k m).isFound = true := by
      cases h : s.allowDup <;> simp_all
    rw [dedup_write s k ts m d hd hf, vis_ensureActive hwf]
    unfold Abs.step
    by_cases hk : k = k'
    · subst hk
      rw [hguard] at hg
      simp [hg]
    · simp [hk]
  · have hg' : s.allowDup = true ∨ (s.ensureActive.getLatestEntry k m).isFound = false := by
      cases h : s.allowDup
      · right; simpa [h] using hg
      · exact Or.inl rfl
    obtain ⟨a, ha, hw⟩ := write_appends s k ts m d hg'
    have hb : (s.write k ts m d).blobs =
        s.ensureActive.closed.map id ++ s.ensureActive.active.toList.map (fun b => b.append (Abs.wrec k ts m d)) := by
      rw [hw, ha]
      simp [blobs, closed, Abs.wrec]
    have hmem := mem_all_upd (s := s.ensureActive) (s' := s.write k ts m d) (Abs.wrec k ts m d)
      (fun _ => false) (fun _ => true) id (fun b => b.append (Abs.wrec k ts m d)) hb
      (fun b _ => by simp [Blob.hist]) (fun b _ => by simp [Blob.hist, Blob.append]) k'
    rw [← vis_ensureActive hwf k']
    unfold Abs.step
    by_cases hk : k = k'
    · subst hk
      have hgA : (!s.allowDup && (Abs.readOf (s.ensureActive.vis k) m).isFound) = false := by
        rw [vis_ensureActive hwf, ← hguard]; simpa using hg
      simp only [if_true, hgA, Bool.false_eq_true, if_false]
      have hab : a ∈ s.ensureActive.blobs := by rw [blobs_of_active ha]; simp
      refine cut_step (all_sorted hwf0 k) (all_sorted hwf' k) (a.nextPos (Abs.wrec k ts m d))
        (fun _ => False) (fun x hx => nextPos_distinct hwf0 hab _ hx) ?_ (fun y hy => hy.elim) ?_
      · intro q
        rw [hmem q, ha]
        simp [Abs.wrec]
        constructor
        · rintro (h | h)
          · exact Or.inr h
          · exact Or.inl h
        · rintro (h | h)
          · exact Or.inr h
          · exact Or.inl h
      · intro x hx hts
        left
        obtain ⟨b', hb', hxb, _⟩ := mem_all_blob ((cut_sublist _).subset hx)
        exact nextPos_before hxb (mem_blobs_le_active hwf0 ha hb') hts
    · simp only [hk, if_false]
      refine vis_of_mem_iff hwf0 hwf' k' (fun p => ?_)
      rw [hmem p]
      simp [Abs.wrec, hk]

/-! #### `delete` -/

/-- the liveness test of `Blob::delete` -/
def liveB (k : Key) (b : Blob) : Bool := (b.getLatest k).isFound

theorem getLatest_ranked (b : Blob) (k : Key) :
    b.getLatest k = (classify (b.ranked k).head?).map (·.r) := b.getLatest_eq k

/-- a blob holding a visible live record of the key has the key live -/
theorem live_of_visible {s : Store} (hwf : s.WF) {k : Key} {b : Blob} (hb : b ∈ s.blobs) {x : PRec}
    (hx : x ∈ Spec.cut (Spec.all s.history k)) (hxd : x.r.del = false)
    (hxb : x ∈ positionedFrom b.id 0 b.recs) : liveB k b = true := by
  have hxC := (cut_sublist _).subset hx
  have hkey : x.r.key = k := by
    have := (mem_sortedBy.1 hxC).2
    simpa using this
  have hxr : x ∈ b.ranked k := Blob.mem_ranked.2 ⟨hxb, hkey⟩
  unfold liveB
  rw [getLatest_ranked, ReadResult.isFound_map]
  cases hh : (b.ranked k).head? with
  | none => rw [List.head?_eq_none_iff] at hh; rw [hh] at hxr; simp at hxr
  | some f =>
    obtain ⟨hf, hmax⟩ := (b.ranked_sorted k).of_head? hh
    by_cases hfd : f.r.del = true
    · exfalso
      have hfC : f ∈ Spec.all s.history k := (mem_all k).2 ⟨b, hb, hf⟩
      rcases hmax x hxr with rfl | hrb
      · rw [hfd] at hxd; exact absurd hxd (by simp)
      · exact ((mem_cut_iff (all_sorted hwf k)).1 hx).2 f hfC hfd hrb
    · simp [classify, hfd, ReadResult.isFound]

/-- a blob in which the key is live holds a record of the key -/
theorem exists_of_live {s : Store} {k : Key} {b : Blob} (hb : b ∈ s.blobs) (hl : liveB k b = true) :
    ∃ f, f ∈ Spec.all s.history k := by
  unfold liveB at hl
  rw [getLatest_ranked, ReadResult.isFound_map] at hl
  cases hh : (b.ranked k).head? with
  | none => rw [hh] at hl; simp [classify, ReadResult.isFound] at hl
  | some f =>
    exact ⟨f, (mem_all k).2 ⟨b, hb, List.mem_of_mem_head? hh⟩⟩

/-- with a single blob, a key whose first-ranked record is a marker is not live in it -/
theorem not_live_of_head_del {s : Store} (hcl : s.closed = []) {k : Key} {d : PRec}
    (hh : (Spec.all s.history k).head? = some d) (hd : d.r.del = true) {b : Blob}
    (hb : b ∈ s.blobs) : liveB k b = false := by
  have hbl : s.blobs = [b] := by
    unfold blobs at hb ⊢
    rw [hcl] at hb ⊢
    cases ha : s.active with
    | none => rw [ha] at hb; simp at hb
    | some a => rw [ha] at hb; simp at hb; simp [hb]
  have hhist : s.history = [b.hist] := by rw [history_eq, hbl]; rfl
  unfold liveB
  rw [getLatest_ranked, ReadResult.isFound_map]
  unfold Blob.ranked
  rw [← hhist, hh]
  simp [classify, hd, ReadResult.isFound]

theorem exists_max_id : ∀ {l : List Blob}, (l.map (·.id)).Pairwise (· < ·) → l ≠ [] →
    ∃ m ∈ l, ∀ b ∈ l, b.id < m.id ∨ b = m
  | [], _, h => absurd rfl h
  | [x], _, _ => ⟨x, by simp, fun b hb => Or.inr (by simpa using hb)⟩
  | x :: y :: ys, hs, _ => by
    rw [List.map_cons, List.pairwise_cons] at hs
    obtain ⟨m, hm, hmax⟩ := exists_max_id hs.2 (by simp : y :: ys ≠ [])
    refine ⟨m, List.mem_cons_of_mem _ hm, fun b hb => ?_⟩
    rcases List.mem_cons.1 hb with rfl | hb
    · exact Or.inl (hs.1 m.id (List.mem_map_of_mem hm))
    · exact hmax b hb

theorem blobDelete_hist (b : Blob) (k : Key) (ts : Nat) (m : Option Meta) (oip : Bool) :
    (blobDelete b k ts m oip).1.hist =
      (b.id, if (!oip || liveB k b) then b.recs ++ [Abs.drec k ts m] else b.recs) := by
  rw [blobDelete_fst]
  unfold liveB
  split <;> rfl

/-- what `delete` does to the rank order of a key -/
theorem mem_all_delete (s : Store) (k : Key) (ts : Nat) (m : Option Meta) (oip : Bool) (k' : Key)
    (p : PRec) :
    p ∈ Spec.all (s.delete k ts m oip).1.history k' ↔
      p ∈ Spec.all (s.deleteBase oip).history k' ∨
        (k = k' ∧ ((∃ b ∈ (s.deleteBase oip).closed, liveB k b = true ∧ p = b.nextPos (Abs.drec k ts m)) ∨
          (∃ b ∈ (s.deleteBase oip).active.toList,
            (!oip || liveB k b) = true ∧ p = b.nextPos (Abs.drec k ts m)))) := by
  have := mem_all_upd (s := s.deleteBase oip) (s' := (s.delete k ts m oip).1) (Abs.drec k ts m)
    (fun b => !true || liveB k b) (fun b => !oip || liveB k b)
    (fun b => (blobDelete b k ts m true).1) (fun b => (blobDelete b k ts m oip).1)
    (delete_blobs s k ts m oip) (fun b _ => blobDelete_hist b k ts m true)
    (fun b _ => blobDelete_hist b k ts m oip) k' p
  simpa [Abs.drec] using this

/-- `delete` as seen by another key -/
theorem vis_delete_other {s : Store} (hwf : s.WF) (k : Key) (ts : Nat) (m : Option Meta)
    (oip : Bool) {k' : Key} (hk : k ≠ k') : (s.delete k ts m oip).1.vis k' = s.vis k' := by
  rw [← vis_deleteBase hwf oip k']
  have hwf' : (s.delete k ts m oip).1.WF := apply_WF' hwf (.delete k ts m oip)
  refine vis_of_mem_iff (deleteBase_WF hwf oip) hwf' k' (fun p => ?_)
  rw [mem_all_delete]
  simp [hk]

/-- `delete` without `only_if_presented`: the active blob takes the marker, and it is ranked above
    every other copy -/
theorem vis_delete_always {s : Store} (hwf : s.WF) (k : Key) (ts : Nat) (m : Option Meta) :
    (s.delete k ts m false).1.vis k = Abs.ins (Abs.drec k ts m) (s.vis k) := by
  have hwf0 : s.ensureActive.WF := ensureActive_WF hwf
  have hwf' : (s.delete k ts m false).1.WF := apply_WF' hwf (.delete k ts m false)
  obtain ⟨a, ha⟩ := s.ensureActive_active
  have hab : a ∈ s.ensureActive.blobs := by rw [blobs_of_active ha]; simp
  rw [← vis_ensureActive hwf k]
  refine cut_step (all_sorted hwf0 k) (all_sorted hwf' k) (a.nextPos (Abs.drec k ts m))
    (fun q => ∃ b ∈ s.ensureActive.closed, liveB k b = true ∧ q = b.nextPos (Abs.drec k ts m))
    (fun x hx => nextPos_distinct hwf0 hab _ hx) ?_ ?_ ?_
  · intro q
    rw [mem_all_delete]
    have : s.deleteBase false = s.ensureActive := rfl
    rw [this, ha]
    simp
    constructor
    · rintro (h | h | h)
      · exact Or.inl (Or.inr h)
      · exact Or.inr h
      · exact Or.inl (Or.inl h)
    · rintro ((h | h) | h)
      · exact Or.inr (Or.inr h)
      · exact Or.inl h
      · exact Or.inr (Or.inl h)
  · rintro y ⟨b, hb, _, rfl⟩
    refine ⟨rfl, ?_⟩
    have := closed_lt_active hwf0 ha hb
    rw [rankBefore_iff]
    exact Or.inr ⟨rfl, Or.inl this⟩
  · intro x hx hts
    left
    obtain ⟨b', hb', hxb, _⟩ := mem_all_blob ((cut_sublist _).subset hx)
    exact nextPos_before hxb (mem_blobs_le_active hwf0 ha hb') hts

theorem mem_all_delete_oip (s : Store) (k : Key) (ts : Nat) (m : Option Meta) (p : PRec) :
    p ∈ Spec.all (s.delete k ts m true).1.history k ↔
      p ∈ Spec.all s.history k ∨
        ∃ b ∈ s.blobs, liveB k b = true ∧ p = b.nextPos (Abs.drec k ts m) := by
  rw [mem_all_delete]
  have : s.deleteBase true = s := rfl
  rw [this]
  simp only [true_and, Bool.not_true, Bool.false_or, blobs, List.mem_append]
  constructor
  · rintro (h | ⟨b, hb, h⟩ | ⟨b, hb, h⟩)
    · exact Or.inl h
    · exact Or.inr ⟨b, Or.inl hb, h⟩
    · exact Or.inr ⟨b, Or.inr hb, h⟩
  · rintro (h | ⟨b, hb | hb, h⟩)
    · exact Or.inl h
    · exact Or.inr (Or.inl ⟨b, hb, h⟩)
    · exact Or.inr (Or.inr ⟨b, hb, h⟩)

/-- `only_if_presented`, the key live in no blob: nothing happens -/
theorem vis_delete_oip_none {s : Store} (hwf : s.WF) (k : Key) (ts : Nat) (m : Option Meta)
    (hno : ∀ b ∈ s.blobs, liveB k b = false) : (s.delete k ts m true).1.vis k = s.vis k := by
  have hwf' : (s.delete k ts m true).1.WF := apply_WF' hwf (.delete k ts m true)
  refine vis_of_mem_iff hwf hwf' k (fun p => ?_)
  rw [mem_all_delete_oip]
  constructor
  · rintro (h | ⟨b, hb, hl, _⟩)
    · exact h
    · rw [hno b hb] at hl; exact absurd hl (by simp)
  · exact Or.inl

/-- the newest blob in which the key is live -/
theorem exists_top_live {s : Store} (hwf : s.WF) {k : Key} (hex : ∃ b ∈ s.blobs, liveB k b = true) :
    ∃ t ∈ s.blobs, liveB k t = true ∧ ∀ b ∈ s.blobs, liveB k b = true → b.id < t.id ∨ b = t := by
  have hsub : ((s.blobs.filter (liveB k)).map (·.id)).Pairwise (· < ·) :=
    hwf.1.sublist (List.filter_sublist.map _)
  have hne : s.blobs.filter (liveB k) ≠ [] := by
    obtain ⟨b, hb, hl⟩ := hex
    intro h0
    have : b ∈ s.blobs.filter (liveB k) := List.mem_filter.2 ⟨hb, hl⟩
    rw [h0] at this; simp at this
  obtain ⟨t, ht, hmax⟩ := exists_max_id hsub hne
  obtain ⟨htb, htl⟩ := List.mem_filter.1 ht
  exact ⟨t, htb, htl, fun b hb hl => hmax b (List.mem_filter.2 ⟨hb, hl⟩)⟩

/-- `only_if_presented`, the key live in some blob: the marker copy in the newest such blob `t` is
    ranked above the others; if it wins the ties with the visible records the view changes as if the
    marker had been appended to the log -/
theorem vis_delete_oip_top {s : Store} (hwf : s.WF) (k : Key) (ts : Nat) (m : Option Meta)
    {t : Blob} (htb : t ∈ s.blobs) (htl : liveB k t = true)
    (hmax : ∀ b ∈ s.blobs, liveB k b = true → b.id < t.id ∨ b = t)
    (hins : ∀ x ∈ Spec.cut (Spec.all s.history k), x.r.ts ≤ ts →
        rankBefore (t.nextPos (Abs.drec k ts m)) x = true ∨ x.r = Abs.drec k ts m) :
    (s.delete k ts m true).1.vis k = Abs.ins (Abs.drec k ts m) (s.vis k) := by
  have hwf' : (s.delete k ts m true).1.WF := apply_WF' hwf (.delete k ts m true)
  refine cut_step (all_sorted hwf k) (all_sorted hwf' k) (t.nextPos (Abs.drec k ts m))
    (fun q => ∃ b ∈ s.blobs, liveB k b = true ∧ b ≠ t ∧ q = b.nextPos (Abs.drec k ts m))
    (fun x hx => nextPos_distinct hwf htb _ hx) ?_ ?_ ?_
  · intro q
    rw [mem_all_delete_oip]
    constructor
    · rintro (h | ⟨b, hb, hl, hq⟩)
      · exact Or.inl (Or.inr h)
      · by_cases hbt : b = t
        · subst hbt; exact Or.inl (Or.inl hq)
        · exact Or.inr ⟨b, hb, hl, hbt, hq⟩
    · rintro ((h | h) | ⟨b, hb, hl, _, hq⟩)
      · exact Or.inr ⟨t, htb, htl, h⟩
      · exact Or.inl h
      · exact Or.inr ⟨b, hb, hl, hq⟩
  · rintro y ⟨b, hb, hl, hbt, rfl⟩
    refine ⟨rfl, ?_⟩
    rcases hmax b hb hl with h | h
    · rw [rankBefore_iff]
      exact Or.inr ⟨rfl, Or.inl h⟩
    · exact absurd h hbt
  · intro x hx hts
    rcases hins x hx hts with h | h
    · exact Or.inl h
    · exact Or.inr ⟨rfl, h⟩

theorem vis_delete_oip_some {s : Store} (hwf : s.WF) (k : Key) (ts : Nat) (m : Option Meta)
    (hex : ∃ b ∈ s.blobs, liveB k b = true)
    (hins : ∀ t ∈ s.blobs, liveB k t = true → (∀ b ∈ s.blobs, liveB k b = true → b.id < t.id ∨ b = t) →
      ∀ x ∈ Spec.cut (Spec.all s.history k), x.r.ts ≤ ts →
        rankBefore (t.nextPos (Abs.drec k ts m)) x = true ∨ x.r = Abs.drec k ts m) :
    (s.delete k ts m true).1.vis k = Abs.ins (Abs.drec k ts m) (s.vis k) := by
  obtain ⟨t, htb, htl, hmax⟩ := exists_top_live hwf hex
  exact vis_delete_oip_top hwf k ts m htb htl hmax (hins t htb htl hmax)

/-- `only_if_presented`: if even the best-ranked marker copy is ranked below a marker that is
    already there, nothing visible happens -/
theorem vis_delete_oip_below {s : Store} (hwf : s.WF) (k : Key) (ts : Nat) (m : Option Meta)
    {t : Blob} (hmax : ∀ b ∈ s.blobs, liveB k b = true → b.id < t.id ∨ b = t)
    {d : PRec} (hd : d ∈ Spec.all s.history k) (hdd : d.r.del = true)
    (hrb : rankBefore d (t.nextPos (Abs.drec k ts m)) = true) :
    (s.delete k ts m true).1.vis k = s.vis k := by
  have hwf' : (s.delete k ts m true).1.WF := apply_WF' hwf (.delete k ts m true)
  unfold vis Spec.allCut
  rw [cut_absorb (all_sorted hwf k) (all_sorted hwf' k)
    (fun q => ∃ b ∈ s.blobs, liveB k b = true ∧ q = b.nextPos (Abs.drec k ts m))
    (fun q => mem_all_delete_oip s k ts m q)]
  rintro y ⟨b, hb, hl, rfl⟩
  refine ⟨d, hd, hdd, ?_⟩
  rcases hmax b hb hl with h | h
  · refine rankBefore_trans hrb ?_
    rw [rankBefore_iff]
    exact Or.inr ⟨rfl, Or.inl h⟩
  · rw [h]; exact hrb

end Store

theorem Abs.oipSafe_live {x : Rec} {xs : List Rec} {y : Rec} (hx : x.del = false)
    (h : Abs.oipSafe (x :: xs) y = true) : ∀ z ∈ x :: xs, z.del = true → z.ts = y.ts → z = y := by
  intro z hz hzd hzt
  simp only [Abs.oipSafe, hx, Bool.false_eq_true, if_false, List.all_eq_true] at h
  have := h z hz
  simpa [hzd, hzt] using this

theorem Abs.oipSafe_dead {x : Rec} {xs : List Rec} {y : Rec} (hx : x.del = true)
    (h : Abs.oipSafe (x :: xs) y = true) : y.ts < x.ts ∨ x = y := by
  simpa [Abs.oipSafe, hx] using h

namespace Store

theorem eq_of_closed_nil {s : Store} (hcl : s.closed = []) {b b' : Blob} (hb : b ∈ s.blobs)
    (hb' : b' ∈ s.blobs) : b = b' := by
  unfold blobs at hb hb'
  rw [hcl] at hb hb'
  cases ha : s.active with
  | none => rw [ha] at hb; simp at hb
  | some a =>
    rw [ha] at hb hb'
    simp at hb hb'
    rw [hb, hb']

/-- `delete`, as seen by every key.  With `only_if_presented` the step is the abstract one if the
    delete is safe in the view of the key, or if the storage has no closed blob. -/
theorem vis_delete {s : Store} (hwf : s.WF) (k : Key) (ts : Nat) (m : Option Meta) (oip : Bool)
    (k' : Key)
    (hok : oip = true → k = k' →
      Abs.oipSafe (s.vis k') (Abs.drec k' ts m) = true ∨ s.closed = []) :
    (s.delete k ts m oip).1.vis k' = Abs.step s.allowDup k' (s.vis k') (.delete k ts m oip) := by
  by_cases hk : k = k'
  · subst hk
    cases oip with
    | false => rw [vis_delete_always hwf]; simp [Abs.step]
    | true =>
      have hok' := hok rfl rfl
      have hS := all_sorted hwf k
      simp only [Abs.step, if_true, Bool.true_and]
      cases hh : (Spec.all s.history k).head? with
      | none =>
        have hC : Spec.all s.history k = [] := List.head?_eq_none_iff.1 hh
        have hv : s.vis k = [] := by unfold vis Spec.allCut; rw [hC]; rfl
        have hno : ∀ b ∈ s.blobs, liveB k b = false := by
          intro b hb
          cases hl : liveB k b with
          | false => rfl
          | true =>
            obtain ⟨f, hf⟩ := exists_of_live hb hl
            rw [hC] at hf; simp at hf
        rw [vis_delete_oip_none hwf k ts m hno, hv]
        simp [Abs.latestOf, ReadResult.isFound]
      | some h0 =>
        obtain ⟨rest, hC⟩ : ∃ rest, Spec.all s.history k = h0 :: rest := by
          cases hl : Spec.all s.history k with
          | nil => rw [hl] at hh; simp at hh
          | cons x xs => rw [hl] at hh; simp at hh; exact ⟨xs, by rw [hh]⟩
        by_cases hd : h0.r.del = true
        · -- the key is dead for every reader
          have hcut : Spec.cut (Spec.all s.history k) = [h0] := cut_of_head_del hh hd
          have hv : s.vis k = [h0.r] := by unfold vis Spec.allCut; rw [hcut]; rfl
          have habs : (!(Abs.latestOf (s.vis k)).isFound) = true := by
            rw [hv]; simp [Abs.latestOf, hd, ReadResult.isFound]
          simp only [habs, if_true]
          by_cases hex : ∃ b ∈ s.blobs, liveB k b = true
          · rcases hok' with hsafe | hcl
            · rw [hv] at hsafe
              have hs := Abs.oipSafe_dead hd hsafe
              rw [vis_delete_oip_some hwf k ts m hex, hv]
              · -- the marker stays below the visible one, or is indistinguishable from it
                simp only [Abs.ins]
                by_cases hgt : h0.r.ts > (Abs.drec k ts m).ts
                · simp [hgt, hd]
                · have : h0.r = Abs.drec k ts m := by
                    rcases hs with h | h
                    · exact absurd h hgt
                    · exact h
                  simp [this, Abs.drec]
              · intro t _ _ _ x hx hts
                rw [hcut] at hx
                simp only [List.mem_singleton] at hx
                subst hx
                rcases hs with h | h
                · simp only [Abs.drec] at h; omega
                · exact Or.inr h
            · obtain ⟨b, hb, hl⟩ := hex
              rw [not_live_of_head_del hcl hh hd hb] at hl
              exact absurd hl (by simp)
          · refine vis_delete_oip_none hwf k ts m (fun b hb => ?_)
            cases hl : liveB k b with
            | false => rfl
            | true => exact absurd ⟨b, hb, hl⟩ hex
        · -- the key is live
          have hd' : h0.r.del = false := by simpa using hd
          have hcut : Spec.cut (Spec.all s.history k) = h0 :: Spec.cut rest := by
            rw [hC]; simp [Spec.cut, hd']
          have hv : s.vis k = h0.r :: (Spec.cut rest).map (·.r) := by
            unfold vis Spec.allCut; rw [hcut]; rfl
          have habs : (!(Abs.latestOf (s.vis k)).isFound) = false := by
            rw [hv]; simp [Abs.latestOf, hd', ReadResult.isFound]
          simp only [habs, Bool.false_eq_true, if_false]
          have h0cut : h0 ∈ Spec.cut (Spec.all s.history k) := by rw [hcut]; simp
          obtain ⟨b0, hb0, hx0, _⟩ := mem_all_blob ((cut_sublist _).subset h0cut)
          have hex : ∃ b ∈ s.blobs, liveB k b = true :=
            ⟨b0, hb0, live_of_visible hwf hb0 h0cut hd' hx0⟩
          refine vis_delete_oip_some hwf k ts m hex ?_
          intro t htb htl hmax x hx hts
          obtain ⟨b', hb', hxb, _⟩ := mem_all_blob ((cut_sublist _).subset hx)
          by_cases hxd : x.r.del = true
          · rcases hok' with hsafe | hcl
            · rw [hv] at hsafe
              have hxv : x.r ∈ h0.r :: (Spec.cut rest).map (·.r) := by
                rw [← hv]; unfold vis Spec.allCut; exact List.mem_map_of_mem hx
              by_cases heq : x.r.ts = ts
              · exact Or.inr (Abs.oipSafe_live hd' hsafe x.r hxv hxd heq)
              · left
                rw [rankBefore_iff]
                left
                show ts > x.r.ts
                omega
            · left
              have : b' = t := eq_of_closed_nil hcl hb' htb
              exact nextPos_before hxb (Or.inr this) hts
          · left
            have hxd' : x.r.del = false := by simpa using hxd
            exact nextPos_before hxb (hmax b' hb' (live_of_visible hwf hb' hx hxd' hxb)) hts
  · rw [vis_delete_other hwf k ts m oip hk]
    simp [Abs.step, hk]

theorem rankSorted_total : ∀ {l : List PRec}, RankSorted l → ∀ {a b : PRec}, a ∈ l → b ∈ l → a ≠ b →
    rankBefore a b = true ∨ rankBefore b a = true
  | [], _, _, _, ha, _, _ => by simp at ha
  | x :: xs, hl, a, b, ha, hb, hne => by
    rw [rankSorted_cons] at hl
    rcases List.mem_cons.1 ha with h1 | h1 <;> rcases List.mem_cons.1 hb with h2 | h2
    · exact absurd (h1.trans h2.symm) hne
    · rw [h1]; exact Or.inl (hl.1 b h2)
    · rw [h2]; exact Or.inr (hl.1 a h1)
    · exact rankSorted_total hl.2 h1 h2 hne

/-- in a cut list whose markers have timestamp `ts` and whose live records are strictly newer, the
    marker directly follows the strictly newer records -/
theorem tie_of_cut (y : Rec) : ∀ l : List PRec, Spec.cut l = l →
    (∃ X ∈ l, X.r.del = true) → (∀ x ∈ l, x.r.del = true → x.r.ts = y.ts) →
    (∀ x ∈ l, x.r.del = false → x.r.ts > y.ts) → Abs.tie y (l.map (·.r)) = true
  | [], _, h, _, _ => by obtain ⟨X, hX, _⟩ := h; simp at hX
  | [x], _, h, hdel, _ => by
    obtain ⟨X, hX, hXd⟩ := h
    simp only [List.mem_singleton] at hX
    subst hX
    simp [Abs.tie, hXd, hdel X (by simp) hXd]
  | x :: z :: zs, hc, h, hdel, hlive => by
    have hxd : x.r.del = false := by
      cases hx : x.r.del with
      | false => rfl
      | true => simp [Spec.cut, hx] at hc
    have hc' : Spec.cut (z :: zs) = z :: zs := by
      simp only [Spec.cut, hxd, Bool.false_eq_true, if_false, List.cons.injEq, true_and] at hc
      simpa [Spec.cut] using hc
    obtain ⟨X, hX, hXd⟩ := h
    have hX' : X ∈ z :: zs := by
      rcases List.mem_cons.1 hX with rfl | hX
      · rw [hxd] at hXd; exact absurd hXd (by simp)
      · exact hX
    have ih := tie_of_cut y (z :: zs) hc' ⟨X, hX', hXd⟩
      (fun w hw => hdel w (List.mem_cons_of_mem _ hw))
      (fun w hw => hlive w (List.mem_cons_of_mem _ hw))
    have hgt := hlive x (by simp) hxd
    simp only [List.map_cons] at ih ⊢
    simp [Abs.tie, hgt, ih]

/-- `delete` with `only_if_presented`, no hypothesis: either the marker becomes the visible one as if
    appended to the log (possible only if the key has a visible record), or nothing visible happens
    (possible only if the key is dead or the visible marker ties with the new one) -/
theorem vis_delete_oip_cases {s : Store} (hwf : s.WF) (k : Key) (ts : Nat) (m : Option Meta) :
    ((s.delete k ts m true).1.vis k = Abs.ins (Abs.drec k ts m) (s.vis k) ∧ s.vis k ≠ []) ∨
      ((s.delete k ts m true).1.vis k = s.vis k ∧ Abs.keepOk (s.vis k) (Abs.drec k ts m) = true) := by
  have hS := all_sorted hwf k
  by_cases hex : ∃ b ∈ s.blobs, liveB k b = true
  · obtain ⟨t, htb, htl, hmax⟩ := exists_top_live hwf hex
    obtain ⟨f, hf⟩ := exists_of_live htb htl
    have hvne : s.vis k ≠ [] := by
      unfold vis Spec.allCut
      intro h0
      have := cut_eq_nil_iff.1 (List.map_eq_nil_iff.1 h0)
      rw [this] at hf; simp at hf
    -- is there a visible marker ranked above the best copy of the new one?
    by_cases hbelow : ∃ d ∈ Spec.cut (Spec.all s.history k), d.r.del = true ∧
        rankBefore d (t.nextPos (Abs.drec k ts m)) = true ∧ d.r.ts = ts
    · right
      obtain ⟨d, hdc, hdd, hrb, hdts⟩ := hbelow
      have hdC := (cut_sublist _).subset hdc
      refine ⟨vis_delete_oip_below hwf k ts m hmax hdC hdd hrb, ?_⟩
      -- the view is: strictly newer records, then `d`
      have hv : s.vis k = (Spec.cut (Spec.all s.history k)).map (·.r) := rfl
      rw [hv]
      cases hcl : Spec.cut (Spec.all s.history k) with
      | nil => rw [hcl] at hdc; simp at hdc
      | cons x xs =>
        simp only [List.map_cons, Abs.keepOk]
        rw [Bool.or_eq_true]
        right
        rw [← List.map_cons, ← hcl]
        refine tie_of_cut _ _ (cut_cut _) ⟨d, hdc, hdd⟩ ?_ ?_
        · intro x hx hxd
          have := getLast?_cut_of_del hx hxd
          rw [getLast?_cut_of_del hdc hdd] at this
          simp only [Option.some.injEq] at this
          rw [← this]; exact hdts
        · intro x hx hxd
          show x.r.ts > ts
          refine Nat.lt_of_not_le (fun hle' => ?_)
          obtain ⟨b', hb', hxb, _⟩ := mem_all_blob ((cut_sublist _).subset hx)
          have h1 : rankBefore (t.nextPos (Abs.drec k ts m)) x = true :=
            nextPos_before hxb (hmax b' hb' (live_of_visible hwf hb' hx hxd hxb)) hle'
          -- `x` is ranked above `d` (it is visible), so the new copy would be, too
          have hxd' : rankBefore x d = true := by
            have hne : x ≠ d := by rintro rfl; rw [hdd] at hxd; exact absurd hxd (by simp)
            rcases rankSorted_total hS ((cut_sublist _).subset hx) hdC hne with h | h
            · exact h
            · exact absurd h (((mem_cut_iff hS).1 hx).2 d hdC hdd)
          exact absurd (rankBefore_trans h1 hxd') (rankBefore_asymm hrb)
    · left
      refine ⟨vis_delete_oip_top hwf k ts m htb htl hmax ?_, hvne⟩
      intro x hx hts
      left
      obtain ⟨b', hb', hxb, _⟩ := mem_all_blob ((cut_sublist _).subset hx)
      by_cases hxd : x.r.del = true
      · by_cases heq : x.r.ts = ts
        · have hdist : PDistinct (t.nextPos (Abs.drec k ts m)) x :=
            nextPos_distinct hwf htb _ ((cut_sublist _).subset hx)
          rcases rankBefore_total hdist with h | h
          · exact h
          · exact absurd ⟨x, hx, hxd, h, heq⟩ hbelow
        · rw [rankBefore_iff]
          left
          show ts > x.r.ts
          omega
      · have hxd' : x.r.del = false := by simpa using hxd
        exact nextPos_before hxb (hmax b' hb' (live_of_visible hwf hb' hx hxd' hxb)) hts
  · right
    have hno : ∀ b ∈ s.blobs, liveB k b = false := by
      intro b hb
      cases hl : liveB k b with
      | false => rfl
      | true => exact absurd ⟨b, hb, hl⟩ hex
    refine ⟨vis_delete_oip_none hwf k ts m hno, ?_⟩
    -- no blob holds the key live: the key is dead (or absent) for every reader
    have hv : s.vis k = (Spec.cut (Spec.all s.history k)).map (·.r) := rfl
    rw [hv]
    cases hcl : Spec.cut (Spec.all s.history k) with
    | nil => rfl
    | cons x xs =>
      simp only [List.map_cons, Abs.keepOk]
      rw [Bool.or_eq_true]
      left
      cases hxd : x.r.del with
      | true => rfl
      | false =>
        exfalso
        have hx : x ∈ Spec.cut (Spec.all s.history k) := by rw [hcl]; simp
        obtain ⟨b', hb', hxb, _⟩ := mem_all_blob ((cut_sublist _).subset hx)
        have := live_of_visible hwf hb' hx hxd hxb
        rw [hno b' hb'] at this
        exact absurd this (by simp)

/-! #### runs -/

theorem closed_ensureActive (s : Store) : s.ensureActive.closed = s.closed := by
  unfold ensureActive; cases s.active <;> rfl

theorem closed_write (s : Store) (k : Key) (ts : Nat) (m : Option Meta) (d : Data) :
    (s.write k ts m d).closed = s.closed := by
  rw [← closed_ensureActive s]
  simp only [write]
  split
  · rfl
  · split <;> rfl

theorem closed_delete_nil {s : Store} (hcl : s.closed = []) (k : Key) (ts : Nat) (m : Option Meta)
    (oip : Bool) : (s.delete k ts m oip).1.closed = [] := by
  have h0 : (s.deleteBase oip).closed = [] := by
    unfold deleteBase; split
    · exact hcl
    · rw [closed_ensureActive, hcl]
  simp only [delete]
  unfold closed at h0 ⊢
  unfold deleteBase at h0
  simp only [List.map_map]
  rw [List.filterMap_map]
  rw [List.filterMap_eq_nil_iff] at h0 ⊢
  intro o ho
  have := h0 o ho
  cases o with
  | none => rfl
  | some b => simp at this

/-- a data operation, as seen by key `k` -/
theorem vis_apply_data {s : Store} (hwf : s.WF) (dop : DOp) (k : Key)
    (hok : Abs.okStep k (s.vis k) dop = true ∨ s.closed = []) :
    (s.apply dop.toOp).vis k = Abs.step s.allowDup k (s.vis k) dop := by
  cases dop with
  | write k' ts m d => exact vis_write hwf k' ts m d k
  | delete k' ts m oip =>
    refine vis_delete hwf k' ts m oip k ?_
    intro ho hk
    subst ho hk
    rcases hok with h | h
    · left; simpa [Abs.okStep] using h
    · exact Or.inr h

theorem data?_toOp (dop : DOp) : dop.toOp.data? = some dop := by cases dop <;> rfl

theorem toOp_of_data? {op : Op} {dop : DOp} (h : op.data? = some dop) : op = dop.toOp := by
  cases op <;> simp [Op.data?] at h <;> subst h <;> rfl

theorem isMaint_of_data?_none {op : Op} (h : op.data? = none) : op.isMaint = true := by
  cases op <;> simp [Op.data?] at h <;> rfl

theorem dataOps_cons_some {op : Op} {dop : DOp} (h : op.data? = some dop) (ops : List Op) :
    dataOps (op :: ops) = dop :: dataOps ops := by
  unfold dataOps; rw [List.filterMap_cons_some h]

theorem dataOps_cons_none {op : Op} (h : op.data? = none) (ops : List Op) :
    dataOps (op :: ops) = dataOps ops := by
  unfold dataOps; rw [List.filterMap_cons_none h]

/-- from any well-formed storage: the visible records of key `k` after a history all of whose
    `only_if_presented` deletes of `k` are safe are those the abstract specification computes from
    the data operations of the history -/
theorem vis_run_safe (k : Key) : ∀ (ops : List Op) {s : Store}, s.WF →
    Abs.safeFrom s.allowDup k (s.vis k) (dataOps ops) = true →
    (s.run ops).vis k = Abs.viewFrom s.allowDup k (s.vis k) (dataOps ops)
  | [], _, _, _ => rfl
  | op :: ops, s, hwf, hs => by
    rw [run_cons]
    have hwf' := apply_WF' hwf op
    cases hd : op.data? with
    | none =>
      rw [dataOps_cons_none hd] at hs ⊢
      have hv := vis_maint hwf (isMaint_of_data?_none hd) k
      have := vis_run_safe k ops hwf' (by rw [apply_allowDup, hv]; exact hs)
      rw [this, apply_allowDup, hv]
    | some dop =>
      rw [dataOps_cons_some hd] at hs ⊢
      simp only [Abs.safeFrom, Bool.and_eq_true] at hs
      have hop := toOp_of_data? hd
      subst hop
      have hv := vis_apply_data hwf dop k (Or.inl hs.1)
      have := vis_run_safe k ops hwf' (by rw [apply_allowDup, hv]; exact hs.2)
      rw [this, apply_allowDup, hv]
      rfl

theorem closed_apply_data {s : Store} (hcl : s.closed = []) (dop : DOp) :
    (s.apply dop.toOp).closed = [] := by
  cases dop with
  | write k ts m d => show (s.write k ts m d).closed = []; rw [closed_write, hcl]
  | delete k ts m oip => exact closed_delete_nil hcl k ts m oip

/-- from any well-formed storage without closed blobs: a history of data operations only -/
theorem vis_run_data (k : Key) : ∀ (ops : List Op) {s : Store}, s.WF → s.closed = [] →
    (∀ op ∈ ops, op.isData = true) →
    (s.run ops).vis k = Abs.viewFrom s.allowDup k (s.vis k) (dataOps ops)
  | [], _, _, _, _ => rfl
  | op :: ops, s, hwf, hcl, hall => by
    rw [run_cons]
    have hwf' := apply_WF' hwf op
    have hdat : op.isData = true := hall op (by simp)
    unfold Op.isData at hdat
    cases hd : op.data? with
    | none => rw [hd] at hdat; simp at hdat
    | some dop =>
      rw [dataOps_cons_some hd]
      have hop := toOp_of_data? hd
      subst hop
      have hv := vis_apply_data hwf dop k (Or.inr hcl)
      have := vis_run_data k ops hwf' (closed_apply_data hcl dop)
        (fun o ho => hall o (by simp [ho]))
      rw [this, apply_allowDup, hv]
      rfl

/-- a data operation, as seen by key `k`, no hypothesis: one of the possible abstract outcomes -/
theorem vis_apply_nstep {s : Store} (hwf : s.WF) (dop : DOp) (k : Key) :
    (s.apply dop.toOp).vis k ∈ Abs.nstep s.allowDup k (s.vis k) dop := by
  cases dop with
  | write k' ts m d =>
    simp only [Abs.nstep, List.mem_singleton]
    exact vis_write hwf k' ts m d k
  | delete k' ts m oip =>
    cases oip with
    | false =>
      simp only [Abs.nstep, List.mem_singleton]
      exact vis_delete hwf k' ts m false k (fun h => absurd h (by simp))
    | true =>
      simp only [Abs.nstep]
      by_cases hk : k' = k
      · subst hk
        simp only [if_true, Abs.oipOutcomes, List.mem_append]
        show (s.delete k' ts m true).1.vis k' ∈ _ ∨ (s.delete k' ts m true).1.vis k' ∈ _
        rcases vis_delete_oip_cases hwf k' ts m with ⟨h, hne⟩ | ⟨h, hkeep⟩
        · left
          have : (s.vis k').isEmpty = false := by
            cases hv : s.vis k' with
            | nil => exact absurd hv hne
            | cons x xs => rfl
          rw [this, h]; simp
        · right
          rw [hkeep, h]; simp
      · simp only [hk, if_false, List.mem_singleton]
        exact vis_delete_other hwf k' ts m true hk

/-- from any well-formed storage, every history: the visible records of key `k` are among the
    possible views of the nondeterministic abstract specification -/
theorem vis_run_nviews (k : Key) : ∀ (ops : List Op) {s : Store} (vs : List (List Rec)), s.WF →
    s.vis k ∈ vs → (s.run ops).vis k ∈ Abs.nviewsFrom s.allowDup k vs (dataOps ops)
  | [], _, _, _, h => h
  | op :: ops, s, vs, hwf, h => by
    rw [run_cons]
    have hwf' := apply_WF' hwf op
    cases hd : op.data? with
    | none =>
      rw [dataOps_cons_none hd]
      have hv := vis_maint hwf (isMaint_of_data?_none hd) k
      have := vis_run_nviews k ops vs hwf' (by rw [hv]; exact h)
      rw [apply_allowDup] at this
      exact this
    | some dop =>
      rw [dataOps_cons_some hd]
      have hop := toOp_of_data? hd
      subst hop
      simp only [Abs.nviewsFrom]
      have := vis_run_nviews k ops (vs.flatMap (fun v => Abs.nstep s.allowDup k v dop)) hwf'
        (List.mem_flatMap.2 ⟨s.vis k, h, vis_apply_nstep hwf dop k⟩)
      rw [apply_allowDup] at this
      exact this

theorem vis_init (d : Bool) (k : Key) : (Store.init d).vis k = [] := by
  simp [vis, Spec.allCut, Spec.all, history, init, createActive, blobs, closed,
    History.positioned, positionedFrom, Spec.cut]

theorem closed_init (d : Bool) : (Store.init d).closed = [] := rfl

theorem allowDup_init (d : Bool) : (Store.init d).allowDup = d := rfl

end Store

/-! ### the data operations of a history; safety -/

theorem isData_eq_not_isMaint (op : Op) : op.isData = !op.isMaint := by cases op <;> rfl

theorem dataOps_filter_isData (ops : List Op) : dataOps (ops.filter Op.isData) = dataOps ops := by
  induction ops with
  | nil => rfl
  | cons op ops ih =>
    cases hd : op.data? with
    | none =>
      have : op.isData = false := by simp [Op.isData, hd]
      rw [List.filter_cons_of_neg (by simp [this]), ih, Store.dataOps_cons_none hd]
    | some dop =>
      have : op.isData = true := by simp [Op.isData, hd]
      rw [List.filter_cons_of_pos this, Store.dataOps_cons_some hd, Store.dataOps_cons_some hd, ih]

theorem dataOps_map_toOp (dops : List DOp) : dataOps (dops.map DOp.toOp) = dops := by
  induction dops with
  | nil => rfl
  | cons d ds ih => rw [List.map_cons, Store.dataOps_cons_some (Store.data?_toOp d), ih]

namespace Abs

theorem okStep_of_key_ne {k : Key} {op : DOp} (h : op.key ≠ k) (v : List Rec) :
    okStep k v op = true := by
  cases op with
  | write k' ts m d => rfl
  | delete k' ts m oip =>
    cases oip with
    | false => rfl
    | true => simp only [okStep, DOp.key] at h ⊢; simp [h]

theorem safeFrom_of_key_ne (dup : Bool) {k : Key} : ∀ (ops : List DOp) (v : List Rec),
    (∀ op ∈ ops, op.key ≠ k) → safeFrom dup k v ops = true
  | [], _, _ => rfl
  | op :: ops, v, h => by
    simp only [safeFrom, Bool.and_eq_true]
    exact ⟨okStep_of_key_ne (h op (by simp)) v,
      safeFrom_of_key_ne dup ops _ (fun o ho => h o (by simp [ho]))⟩

theorem safeFrom_of_noOip (dup : Bool) (k : Key) : ∀ (ops : List DOp) (v : List Rec),
    noOip ops = true → safeFrom dup k v ops = true
  | [], _, _ => rfl
  | op :: ops, v, h => by
    simp only [noOip, List.all_cons, Bool.and_eq_true] at h
    simp only [safeFrom, Bool.and_eq_true]
    refine ⟨?_, safeFrom_of_noOip dup k ops _ h.2⟩
    cases op with
    | write k' ts m d => rfl
    | delete k' ts m oip =>
      cases oip with
      | false => rfl
      | true => simp at h

/-- safety of all keys is decided by looking at the keys that occur -/
theorem safe_iff (dup : Bool) (ops : List DOp) : Safe dup ops ↔ safeAll dup ops = true := by
  unfold Safe safeAll
  rw [List.all_eq_true]
  constructor
  · intro h op _; exact h op.key
  · intro h k
    by_cases hk : ∃ op ∈ ops, op.key = k
    · obtain ⟨op, hop, rfl⟩ := hk
      exact h op hop
    · exact safeFrom_of_key_ne dup ops [] (fun op hop hkey => hk ⟨op, hop, hkey⟩)

theorem safe_of_noOip (dup : Bool) {ops : List DOp} (h : noOip ops = true) : Safe dup ops :=
  fun k => safeFrom_of_noOip dup k ops [] h

/-! #### the deterministic step is one of the possible outcomes -/

theorem step_mem_nstep (dup : Bool) (k : Key) (v : List Rec) (op : DOp) :
    step dup k v op ∈ nstep dup k v op := by
  cases op with
  | write k' ts m d => simp [nstep]
  | delete k' ts m oip =>
    cases oip with
    | false => simp [nstep]
    | true =>
      simp only [nstep, step]
      by_cases hk : k' = k
      · simp only [hk, if_true, Bool.true_and, oipOutcomes, List.mem_append]
        cases v with
        | nil => right; simp [latestOf, ReadResult.isFound, keepOk]
        | cons x xs =>
          cases hx : x.del with
          | true => right; simp [latestOf, ReadResult.isFound, keepOk, hx]
          | false => left; simp [latestOf, ReadResult.isFound, hx]
      · simp [hk]

theorem viewFrom_mem_nviewsFrom (dup : Bool) (k : Key) : ∀ (ops : List DOp) (v : List Rec)
    (vs : List (List Rec)), v ∈ vs → viewFrom dup k v ops ∈ nviewsFrom dup k vs ops
  | [], _, _, h => h
  | op :: ops, v, vs, h => by
    unfold viewFrom
    rw [List.foldl_cons]
    exact viewFrom_mem_nviewsFrom dup k ops _ _
      (List.mem_flatMap.2 ⟨v, h, step_mem_nstep dup k v op⟩)

theorem view_mem_nviews (dup : Bool) (ops : List DOp) (k : Key) : view dup ops k ∈ nviews dup ops k :=
  viewFrom_mem_nviewsFrom dup k ops [] [[]] (by simp)

/-! #### the view is the sorted, cut log -/

theorem cutHdrs_insertDesc (r : Rec) : ∀ S : List Rec,
    cutHdrs (Store.insertDesc r S) = ins r (cutHdrs S)
  | [] => by simp [Store.insertDesc, cutHdrs, ins]
  | y :: ys => by
    have ih := cutHdrs_insertDesc r ys
    by_cases hge : r.ts ≥ y.ts
    · have hgt : ¬ y.ts > r.ts := by omega
      by_cases hy : y.del = true <;> by_cases hr : r.del = true <;>
        simp [Store.insertDesc, cutHdrs, ins, hge, hgt, hy, hr]
    · have hgt : y.ts > r.ts := by omega
      by_cases hy : y.del = true
      · simp [Store.insertDesc, cutHdrs, ins, hge, hgt, hy]
      · simp [Store.insertDesc, cutHdrs, ins, hge, hgt, hy, ih]

theorem visOfLog_append_same (log : List Rec) (r : Rec) :
    visOfLog (log ++ [r]) r.key = ins r (visOfLog log r.key) := by
  unfold visOfLog
  rw [List.filter_append]
  simp only [List.filter_cons, beq_self_eq_true, if_true, List.filter_nil, List.reverse_append,
    List.reverse_cons, List.reverse_nil, List.nil_append, List.singleton_append]
  unfold Store.sortDesc
  rw [List.foldr_cons]
  exact cutHdrs_insertDesc r _

theorem visOfLog_append_other (log : List Rec) (r : Rec) {k : Key} (h : r.key ≠ k) :
    visOfLog (log ++ [r]) k = visOfLog log k := by
  unfold visOfLog
  rw [List.filter_append]
  simp [h]

theorem step_visOfLog (dup : Bool) (k : Key) (l : List Rec) (op : DOp) :
    step dup k (visOfLog l k) op = visOfLog (logStep dup l op) k := by
  cases op with
  | write k' ts m d =>
    simp only [step, logStep]
    by_cases hk : k' = k
    · subst hk
      simp only [if_true]
      split
      · rfl
      · exact (visOfLog_append_same l (wrec k' ts m d)).symm
    · simp only [hk, if_false]
      split
      · rfl
      · exact (visOfLog_append_other l _ (by simpa [wrec] using hk)).symm
  | delete k' ts m oip =>
    simp only [step, logStep]
    by_cases hk : k' = k
    · subst hk
      simp only [if_true]
      split
      · rfl
      · exact (visOfLog_append_same l (drec k' ts m)).symm
    · simp only [hk, if_false]
      split
      · rfl
      · exact (visOfLog_append_other l _ (by simpa [drec] using hk)).symm

theorem viewFrom_visOfLog (dup : Bool) (k : Key) : ∀ (ops : List DOp) (l : List Rec),
    viewFrom dup k (visOfLog l k) ops = visOfLog (ops.foldl (logStep dup) l) k
  | [], _ => rfl
  | op :: ops, l => by
    unfold viewFrom
    rw [List.foldl_cons, List.foldl_cons, step_visOfLog]
    exact viewFrom_visOfLog dup k ops _

/-- the view of a key is the log of accepted records restricted to the key, newest operation first,
    stably sorted by descending timestamp, cut after the first marker -/
theorem view_eq_visOfLog (dup : Bool) (ops : List DOp) (k : Key) :
    view dup ops k = visOfLog (log dup ops) k :=
  viewFrom_visOfLog dup k ops []

end Abs

end Pearl
