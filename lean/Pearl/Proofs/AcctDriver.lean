import Pearl.Model.Driver
import Pearl.Proofs.AcctLemmas
import Pearl.Proofs.BPTreeBytesLemmas
import Pearl.Proofs.EndToEndBlob
/-
The accounting component of the correspondence driver is a run of `Acct.step`.

`Driver.step` answers `fcounts` from `d.acct` (`AcctScript.showFcounts`).  Whatever script is fed to the driver,
`d.acct.st` is `Acct.run c dup ops` for the configuration `c` of the current scenario and some list `ops` of
`Acct.AOp`s, so `Acct.inv_run` (and with it `acct_inv_run` and every theorem of `Props/C15.lean` stated over
`Acct.run`) applies to every state the driver prints from.
-/
namespace Pearl
namespace AcctScript

/-- the state is reachable in the proved model, under the configuration the state itself carries -/
def AD.Good (a : AD) : Prop := ∃ ops : List Acct.AOp, a.st = Acct.run a.cfg a.dup ops

theorem good_default : AD.Good {} := ⟨[], rfl⟩

theorem good_fresh (toks0 : List String) : AD.Good (fresh toks0) := ⟨[], rfl⟩

/-- a non-`cfg` line: the configuration stays, the state advances by the planned operations -/
theorem track_eq_of_not_cfg (a : AD) (toks0 : List String) (out : String)
    (h : ∀ rest, toks0.filter (fun t => !t.startsWith "@" && t ≠ "") ≠ "cfg" :: rest) :
    (track a toks0 out).st = Acct.runFrom a.cfg a.st (plan a toks0 out).ops ∧
      (track a toks0 out).cfg = a.cfg ∧ (track a toks0 out).dup = a.dup := by
  unfold track
  split
  · rename_i rest heq
    exact absurd heq (h rest)
  · exact ⟨rfl, rfl, rfl⟩

theorem track_eq_of_cfg (a : AD) (toks0 : List String) (out : String) (rest : List String)
    (h : toks0.filter (fun t => !t.startsWith "@" && t ≠ "") = "cfg" :: rest) :
    track a toks0 out = fresh toks0 := by
  unfold track
  split
  · rfl
  · rename_i hne
    exact absurd h (hne rest)

theorem runFrom_append (c : Acct.Cfg) (s : Acct.State) (o1 o2 : List Acct.AOp) :
    Acct.runFrom c (Acct.runFrom c s o1) o2 = Acct.runFrom c s (o1 ++ o2) := by
  simp [Acct.runFrom, List.foldl_append]

/-- one script line keeps the accounting state reachable -/
theorem good_track {a : AD} (h : a.Good) (toks0 : List String) (out : String) : (track a toks0 out).Good := by
  by_cases hc : ∃ rest, toks0.filter (fun t => !t.startsWith "@" && t ≠ "") = "cfg" :: rest
  · obtain ⟨rest, hr⟩ := hc
    rw [track_eq_of_cfg a toks0 out rest hr]
    exact good_fresh toks0
  · have hn : ∀ rest, toks0.filter (fun t => !t.startsWith "@" && t ≠ "") ≠ "cfg" :: rest :=
      fun rest hr => hc ⟨rest, hr⟩
    obtain ⟨hst, hcfg, hdup⟩ := track_eq_of_not_cfg a toks0 out hn
    obtain ⟨ops, hops⟩ := h
    refine ⟨ops ++ (plan a toks0 out).ops, ?_⟩
    rw [hst, hcfg, hdup, hops]
    exact runFrom_append _ _ _ _

/-- every step of the accounting state is a (possibly empty) sequence of `Acct.step`s or the start of a new
    scenario -/
theorem track_cases (a : AD) (toks0 : List String) (out : String) :
    track a toks0 out = fresh toks0 ∨
      ((track a toks0 out).st = Acct.runFrom a.cfg a.st (plan a toks0 out).ops ∧
        (track a toks0 out).cfg = a.cfg ∧ (track a toks0 out).dup = a.dup) := by
  by_cases hc : ∃ rest, toks0.filter (fun t => !t.startsWith "@" && t ≠ "") = "cfg" :: rest
  · obtain ⟨rest, hr⟩ := hc
    exact .inl (track_eq_of_cfg a toks0 out rest hr)
  · exact .inr (track_eq_of_not_cfg a toks0 out (fun rest hr => hc ⟨rest, hr⟩))

end AcctScript

namespace Driver

/-- what `Driver.step` does to the accounting component: nothing (`fcounts`) or `AcctScript.track` -/
theorem step_acct (d : DState) (line : String) :
    (step d line).1.acct = d.acct ∨
      (step d line).1.acct = AcctScript.track d.acct (acctToks line) (stepL3 d line).2 := by
  unfold step
  simp only []
  split
  · exact .inl rfl
  · exact .inr rfl

/-- `fcounts` is answered from the accounting component and changes nothing -/
theorem step_fcounts (d : DState) (line : String)
    (h : (acctToks line).filter (fun t => !t.startsWith "@") = ["fcounts"]) :
    step d line = (d, AcctScript.showFcounts d.acct) := by
  unfold step
  simp only [h]

/-- every other line is answered as before the accounting component was added -/
theorem step_other (d : DState) (line : String)
    (h : (acctToks line).filter (fun t => !t.startsWith "@") ≠ ["fcounts"]) :
    (step d line).2 = (stepL3 d line).2 ∧
      (step d line).1 = { (stepL3 d line).1 with acct := AcctScript.track d.acct (acctToks line) (stepL3 d line).2 } := by
  unfold step
  simp only []   -- the match is decided by `h`
  exact ⟨trivial, trivial⟩

theorem good_step {d : DState} (h : d.acct.Good) (line : String) : (step d line).1.acct.Good := by
  rcases step_acct d line with e | e
  · rw [e]; exact h
  · rw [e]; exact AcctScript.good_track h _ _

/-- the driver state after a whole script (`Main.loop` feeds the non-empty, non-comment lines of its input to
    `Driver.step`, starting from the default state) -/
def runScript (lines : List String) : DState := lines.foldl (fun d l => (step d l).1) {}

theorem good_foldl {d : DState} (h : d.acct.Good) (lines : List String) :
    (lines.foldl (fun d l => (step d l).1) d).acct.Good := by
  induction lines generalizing d with
  | nil => exact h
  | cons l ls ih => exact ih (good_step h l)

/-- **the driver's accounting component is a run of `Acct.step`** — for every script, under the configuration
    (`klen`, real `idxLen`) and `allow_duplicates` setting of the scenario the driver is in -/
theorem acct_is_run (lines : List String) :
    ∃ ops : List Acct.AOp,
      (runScript lines).acct.st = Acct.run (runScript lines).acct.cfg (runScript lines).acct.dup ops :=
  good_foldl AcctScript.good_default lines

/-- so the structural invariant of `Pearl/Proofs/AcctLemmas.lean` holds of every state `fcounts` is printed from -/
theorem acct_inv (lines : List String) :
    Acct.Inv (runScript lines).acct.cfg (runScript lines).acct.st := by
  obtain ⟨ops, h⟩ := acct_is_run lines
  rw [h]
  exact Acct.inv_run _ _ ops

end Driver

/-! ### `idxLen` of the driver is the length of the L4 byte image

`AcctScript.idxLenReal` is `IndexFile.fileSize` of the serializer model run on a map that has the right SHAPE (the keys
ascending, each with as many headers as the blob has records of that key).  The file size depends on the shape only
(`fileSize_shape`), the byte image of the index file the L4 driver compares with the real `.index` files
(`Driver.indexImage`) is built from a map of that shape, and its length is `fileSize` (`build_bytes_length`, C09). -/

namespace BPTree

/-- keys with the number of headers under each -/
def shape {H : Type} (m : InMem H) : List (Nat × Nat) := m.map fun kv => (kv.1, kv.2.length)

theorem packLeaves_shape {H H' : Type} (p : Params) :
    ∀ (m : InMem H) (m' : InMem H'), shape m = shape m' →
      ∀ o r k mo, packLeaves p m o r k mo = packLeaves p m' o r k mo
  | [], [], _, _, _, _, _ => rfl
  | [], _ :: _, h, _, _, _, _ => by simp [shape] at h
  | _ :: _, [], h, _, _, _, _ => by simp [shape] at h
  | (k, v) :: rest, (k', v') :: rest', h, o, r, mk, mo => by
    simp only [shape, List.map_cons, List.cons.injEq, Prod.mk.injEq] at h
    obtain ⟨⟨hk, hv⟩, hr⟩ := h
    subst hk
    simp only [packLeaves, hv]
    rw [packLeaves_shape p rest rest' hr, packLeaves_shape p rest rest' hr]

theorem leafTable_shape {H H' : Type} (p : Params) (m : InMem H) (m' : InMem H') (h : shape m = shape m') :
    leafTable p m = leafTable p m' := by
  cases m with
  | nil => cases m' with
    | nil => rfl
    | cons _ _ => simp [shape] at h
  | cons a rest => cases m' with
    | nil => simp [shape] at h
    | cons a' rest' =>
      obtain ⟨k, v⟩ := a
      obtain ⟨k', v'⟩ := a'
      have hk : k = k' := by
        simp only [shape, List.map_cons, List.cons.injEq, Prod.mk.injEq] at h
        exact h.1.1
      subst hk
      simp only [leafTable]
      exact packLeaves_shape p _ _ h _ _ _ _

theorem leafArray_length {H : Type} : ∀ m : InMem H, (leafArray m).length = ((shape m).map (·.2)).sum
  | [] => rfl
  | kv :: rest => by
    have ih := leafArray_length rest
    simp only [leafArray, shape, List.flatMap_cons, List.length_append, List.length_reverse, List.map_cons,
      List.sum_cons] at ih ⊢
    rw [ih]

/-- the size of the index file depends on the in-memory index only through its shape -/
theorem fileSize_shape {H H' : Type} (p : Params) (metaLen : Nat) (m : InMem H) (m' : InMem H')
    (h : shape m = shape m') : (build p metaLen m).fileSize = (build p metaLen m').fileSize := by
  simp only [IndexFile.fileSize, IndexFile.leavesStart, IndexFile.treeStart, build, leafTable_shape p m m' h,
    leafArray_length, h]

end BPTree

namespace AcctScript
open BPTree

theorem insKey_eq (k : Nat) (l : List Nat) : Driver.insertKeySorted k l = insKey k l := by
  induction l with
  | nil => rfl
  | cons x xs ih => simp only [Driver.insertKeySorted, insKey, ih]

theorem foldl_insertAsc_length (l : List (Rec × RawHeader)) :
    ∀ acc, (l.foldl (fun v x => Driver.insertAsc x v) acc).length = acc.length + l.length := by
  induction l with
  | nil => intro acc; rfl
  | cons x xs ih =>
    intro acc
    simp only [List.foldl_cons, List.length_cons]
    rw [ih]
    have : (Driver.insertAsc x acc).length = acc.length + 1 := by
      have h := List.takeWhile_append_dropWhile (p := fun y => decide (y.1.ts ≤ x.1.ts)) (l := acc)
      have hl := congrArg List.length h
      simp only [Driver.insertAsc, List.length_append, List.length_cons] at hl ⊢
      omega
    omega

/-- keys of a list of pairs, folded into the sorted key list: only the first components matter -/
theorem foldl_keys_pairs {β : Type} (ps : List (Rec × β)) :
    ∀ acc, ps.foldl (fun ks p => Driver.insertKeySorted p.1.key ks) acc =
      (ps.map (·.1)).foldl (fun ks r => insKey r.key ks) acc := by
  induction ps with
  | nil => intro acc; rfl
  | cons p rest ih =>
    intro acc
    simp only [List.foldl_cons, List.map_cons]
    rw [ih, insKey_eq]

theorem filter_pairs_length {β : Type} (ps : List (Rec × β)) (k : Nat) :
    (ps.filter (fun p => p.1.key == k)).length = ((ps.map (·.1)).filter (fun r => r.key == k)).length := by
  induction ps with
  | nil => rfl
  | cons p rest ih =>
    simp only [List.filter_cons, List.map_cons]
    split <;> simp [ih]

theorem zip_map_fst {α β : Type} : ∀ (l : List α) (l' : List β), l.length = l'.length → (l.zip l').map (·.1) = l
  | [], _, _ => by simp
  | _ :: _, [], h => by simp at h
  | a :: l, b :: l', h => by
    simp only [List.zip_cons_cons, List.map_cons, List.cons.injEq, true_and]
    exact zip_map_fst l l' (by simpa using h)

/-- **the `idxLen` the driver runs `Acct` with is the length of the index file image of the L4 byte model**
    (`Driver.indexImage` is what the `indexsum` correspondence compares with the real `.index` files, byte by byte up
    to the filter section and the hash) -/
theorem idxLenReal_eq_image (klen : Nat) (hK : klen ≤ 2032) (b : Blob) (metaLen : Nat) :
    (Driver.indexImage klen b metaLen).length = idxLenReal klen metaLen b.recs := by
  unfold Driver.indexImage idxLenReal
  simp only [List.length_map]
  have hlen := build_bytes_length klen hK
  generalize hw : (b.recs.map fun r => (r, genData r.data.len r.data.seed)) = withData
  have hfull : withData = E2E.full b.recs := by rw [← hw]; rfl
  generalize hp : ((b.recs.zip (blobHeaders klen withData)).map fun x =>
      match x with | (r, h) => (r, Driver.rawOf h r.key)) = pairs
  have hfst : pairs.map (·.1) = b.recs := by
    rw [← hp, List.map_map]
    have : ((fun x : Rec × RawHeader => x.1) ∘ fun x : Rec × RecHeader =>
        match x with | (r, h) => (r, Driver.rawOf h r.key)) = fun x => x.1 := by
      funext x; obtain ⟨r, h⟩ := x; rfl
    rw [this]
    apply zip_map_fst
    rw [hfull, E2E.blobHeaders_full, List.length_map, E2E.withOff_length]
  have h := hlen
    ((pairs.foldl (fun ks p => Driver.insertKeySorted p.1.key ks) []).map fun k =>
      (k, ((pairs.filter (fun p => p.1.key == k)).foldl (fun v x => Driver.insertAsc x v) []).map (·.2)))
    (List.replicate metaLen 0) (List.replicate 32 0) (blobBytes klen withData).length (by simp)
  rw [List.length_replicate] at h
  rw [h]
  apply fileSize_shape
  simp only [shape, inMemOf, List.map_map, foldl_keys_pairs, hfst]
  apply List.map_congr_left
  intro k _
  simp only [Function.comp_def, List.length_map, foldl_insertAsc_length, List.length_nil, Nat.zero_add,
    filter_pairs_length, hfst]

/-- the configuration the driver steps `Acct` with, spelled out -/
theorem cfg_idxLen (a : AD) (recs : List Rec) :
    a.cfg.idxLen recs = (build (Params.real a.klen) (a.metaLen.getD 0) (inMemOf recs)).fileSize := rfl

end AcctScript
end Pearl
