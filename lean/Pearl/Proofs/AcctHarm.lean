import Pearl.Proofs.AcctLemmas
/-
Helper lemmas for the directory-level half of C07 ("no harm") over the accounting model `Pearl/Model/Acct.lean`:

* `stepC`: `Acct.step` with a log — the ids handed to `iodriver.create` (`created`) and the ids of the blob files
  renamed into the `corrupted` directory (`moved`) by the operation; `stepC_fst`: its state IS `Acct.step`;
* `FileStep s s' mv cr`: what one operation does to the blob files — nothing vanishes except the files `mv`, which
  go to `corrupted`; nothing shrinks; the new files are exactly `cr`, numbered `nextId, nextId + 1, …`;
* `stepC_fileStep`: every operation is a `FileStep` (from `Acct.Inv`);
* `step_recs` / `runFrom_recs`: the record list of a held blob is only ever extended;
* the ghost run `runG` (log of all creations, lengths of the quarantined files) and its invariant `GInv`;
* `step_idx_fate`: what happens to an index file;
* the counter-models `Buggy.stepC074`, `Buggy.stepCLate`, `Buggy.stepF` (seeded changes C07-4, C07-3).
-/
namespace Pearl
namespace Acct

/-! ### `Acct.step` with a log of the files created and of the files moved -/

/-- result of an instrumented operation: the state, the blob files renamed into `corrupted`, the blob files
    created (in order) -/
structure Logged where
  st : State
  moved : List Nat := []
  created : List Nat := []

/-- `ensureActive` + log -/
def ensureActiveC (s : State) : Logged :=
  match s.store.active with
  | some _ => { st := s }
  | none => { st := { newBlobFile s with store := s.store.apply .createActive }, created := [s.store.nextId] }

/-- `rotate` + log -/
def rotateC (c : Cfg) (s : State) (dmp : Bool) : Logged :=
  let s1 := { newBlobFile s with store := s.store.apply .replaceActive }
  { st := if dmp then dumpPass c s1 else s1, created := [s.store.nextId] }

/-- `write` + log -/
def writeC (c : Cfg) (s : State) (k : Key) (ts : Nat) (m : Option Meta) (d : Data) (rot dmp : Bool) : Logged :=
  let l0 := ensureActiveC s
  let s0 := l0.st
  if !s0.store.allowDup && (s0.store.getLatestEntry k m).isFound then l0
  else
    match s0.store.active with
    | none => l0
    | some a =>
      let s1 := { appendWhere s0 (· == a.id) (Fs.recLen c.klen (Fs.writeRec k ts m d)) with
                  store := s0.store.apply (.write k ts m d) }
      if rot then { st := (rotateC c s1 dmp).st, created := l0.created ++ (rotateC c s1 dmp).created }
      else { st := s1, created := l0.created }

/-- `delete` + log -/
def deleteC (c : Cfg) (s : State) (k : Key) (ts : Nat) (m : Option Meta) (oip : Bool) : Logged :=
  let l0 : Logged := if oip then { st := s } else ensureActiveC s
  let s0 := l0.st
  let tg := delTargets s0.store k oip
  { st := { appendWhere s0 (fun id => tg.any (·.id == id)) (Fs.recLen c.klen (Fs.markerRec k ts m)) with
            store := s0.store.apply (.delete k ts m oip) }
    created := l0.created }

/-- `force` + log -/
def forceC (c : Cfg) (s : State) (go : Bool) : Logged :=
  if go then { st := dumpPass c { newBlobFile s with store := s.store.apply .replaceActive },
               created := [s.store.nextId] }
  else { st := dumpPass c s }

/-- `initNew` + log -/
def initNewC (s : State) : Logged := { st := initNew s, created := [maxNext s.dir.corrupted] }

/-- `initExisting` + log: `save_corrupted_blob` renames every unreadable blob file unless `ignore_corrupted` -/
def initExistingC (c : Cfg) (s : State) (lazy ignore : Bool) (bad : List Nat) : Logged :=
  let s1 := initCore c s lazy ignore bad
  let mv := if ignore then [] else unreadable s bad
  if !lazy && s1.store.active.isNone then
    { st := { newBlobFile s1 with
              store := { s1.store with active := some { id := s1.store.nextId, recs := [] }
                                       nextId := s1.store.nextId + 1 } }
      moved := mv, created := [s1.store.nextId] }
  else { st := s1, moved := mv }

/-- `restart` + log -/
def restartC (c : Cfg) (s : State) (lazy ignore : Bool) (bad : List Nat) : Logged :=
  let s1 := closeSession c s
  if (keys s1.dir.blobs).isEmpty then initNewC s1 else initExistingC c s1 lazy ignore bad

/-- `step` + log -/
def stepC (c : Cfg) (s : State) : AOp → Logged
  | .write k ts m d rot dmp => writeC c s k ts m d rot dmp
  | .delete k ts m oip => deleteC c s k ts m oip
  | .closeActive => { st := closeActive c s }
  | .createActive => ensureActiveC s
  | .restoreActive => { st := restoreActive s }
  | .force go => forceC c s go
  | .settle => { st := dumpPass c s }
  | .restart lazy ignore bad => restartC c s lazy ignore bad

theorem ensureActiveC_st (s : State) : (ensureActiveC s).st = ensureActive s := by
  unfold ensureActiveC ensureActive
  cases s.store.active <;> rfl

theorem rotateC_st (c : Cfg) (s : State) (dmp : Bool) : (rotateC c s dmp).st = rotate c s dmp := rfl

theorem writeC_st (c : Cfg) (s : State) (k : Key) (ts : Nat) (m : Option Meta) (d : Data) (rot dmp : Bool) :
    (writeC c s k ts m d rot dmp).st = write c s k ts m d rot dmp := by
  unfold writeC write
  simp only [ensureActiveC_st]
  split
  · exact ensureActiveC_st s
  · split
    · rename_i h; simp only [h]; exact ensureActiveC_st s
    · rename_i a h; simp only [h]; split <;> rfl

theorem deleteC_st (c : Cfg) (s : State) (k : Key) (ts : Nat) (m : Option Meta) (oip : Bool) :
    (deleteC c s k ts m oip).st = delete c s k ts m oip := by
  unfold deleteC delete
  cases oip with
  | true => rfl
  | false => simp only [Bool.false_eq_true, if_false, ensureActiveC_st]

theorem forceC_st (c : Cfg) (s : State) (go : Bool) : (forceC c s go).st = force c s go := by
  unfold forceC force; cases go <;> rfl

theorem initExistingC_st (c : Cfg) (s : State) (lazy ignore : Bool) (bad : List Nat) :
    (initExistingC c s lazy ignore bad).st = initExisting c s lazy ignore bad := by
  unfold initExistingC initExisting
  simp only
  split <;> rfl

theorem restartC_st (c : Cfg) (s : State) (lazy ignore : Bool) (bad : List Nat) :
    (restartC c s lazy ignore bad).st = restart c s lazy ignore bad := by
  unfold restartC restart
  simp only
  split
  · rfl
  · exact initExistingC_st c _ lazy ignore bad

/-- the instrumented step computes the state of `Acct.step` -/
theorem stepC_st (c : Cfg) (s : State) (op : AOp) : (stepC c s op).st = step c s op := by
  cases op with
  | write k ts m d rot dmp => exact writeC_st c s k ts m d rot dmp
  | delete k ts m oip => exact deleteC_st c s k ts m oip
  | closeActive => rfl
  | createActive => exact ensureActiveC_st s
  | restoreActive => rfl
  | force go => exact forceC_st c s go
  | settle => rfl
  | restart lazy ignore bad => exact restartC_st c s lazy ignore bad

/-! ### what one operation does to the blob files -/

/-- every id in either directory is below `next_blob_id` (the clause `below` of `Acct.Inv`) -/
def Below (s : State) : Prop := ∀ i, i ∈ keys s.dir.blobs ∨ i ∈ s.dir.corrupted → i < s.store.nextId

theorem Inv.toBelow {c : Cfg} {s : State} (h : Inv c s) : Below s := h.below

/-- `s'` comes from `s` by: renaming the blob files `mv` into `corrupted`, creating the blob files `cr`, and
    growing blob files in place -/
structure FileStep (s s' : State) (mv cr : List Nat) : Prop where
  /-- a blob file that is not moved is still there, under its id, at least as long -/
  keep : ∀ i v, get s.dir.blobs i = some v → i ∉ mv → ∃ v', get s'.dir.blobs i = some v' ∧ v ≤ v'
  /-- the blob files afterwards: the old ones that were not moved, and the created ones -/
  files : ∀ i, i ∈ keys s'.dir.blobs ↔ (i ∈ keys s.dir.blobs ∧ i ∉ mv) ∨ i ∈ cr
  /-- `corrupted` gets exactly the moved files -/
  corr : s'.dir.corrupted = s.dir.corrupted ++ mv
  mvFiles : ∀ i ∈ mv, i ∈ keys s.dir.blobs
  mvNodup : mv.Nodup
  /-- the files created are numbered `next_blob_id`, `next_blob_id + 1`, … -/
  ids : cr = List.range' s.store.nextId cr.length
  /-- and `next_blob_id` moves by the number of files created -/
  next : s'.store.nextId = s.store.nextId + cr.length

namespace FileStep

theorem same {s s' : State} (hb : s'.dir.blobs = s.dir.blobs) (hc : s'.dir.corrupted = s.dir.corrupted)
    (hn : s'.store.nextId = s.store.nextId) : FileStep s s' [] [] :=
  { keep := fun i v hv _ => ⟨v, by rw [hb]; exact hv, Nat.le_refl _⟩
    files := fun i => by rw [hb]; simp
    corr := by rw [hc]; simp
    mvFiles := fun i hi => by cases hi
    mvNodup := List.nodup_nil
    ids := rfl
    next := by rw [hn]; rfl }

theorem append {s s' : State} (P : Nat → Bool) (f : Nat → Nat)
    (hb : s'.dir.blobs = mapIf s.dir.blobs P (fun id l => max l (f id)))
    (hc : s'.dir.corrupted = s.dir.corrupted) (hn : s'.store.nextId = s.store.nextId) : FileStep s s' [] [] :=
  { keep := fun i v hv _ => by
      refine ⟨if P i = true then max v (f i) else v, by rw [hb, get_mapIf, hv]; rfl, ?_⟩
      split
      · exact Nat.le_max_left _ _
      · exact Nat.le_refl _
    files := fun i => by rw [hb, keys_mapIf]; simp
    corr := by rw [hc]; simp
    mvFiles := fun i hi => by cases hi
    mvNodup := List.nodup_nil
    ids := rfl
    next := by rw [hn]; rfl }

theorem newBlob {s s' : State} (hbel : Below s) (v : Nat)
    (hb : s'.dir.blobs = put s.dir.blobs s.store.nextId v)
    (hc : s'.dir.corrupted = s.dir.corrupted) (hn : s'.store.nextId = s.store.nextId + 1) :
    FileStep s s' [] [s.store.nextId] :=
  { keep := fun i w hw _ => by
      have hlt : i < s.store.nextId := hbel i (Or.inl (mem_keys_of_get hw))
      refine ⟨w, ?_, Nat.le_refl _⟩
      rw [hb, get_put, if_neg (Nat.ne_of_lt hlt)]; exact hw
    files := fun i => by
      rw [hb, mem_keys_put]
      simp only [List.not_mem_nil, not_false_eq_true, and_true, List.mem_singleton]
      exact Or.comm
    corr := by rw [hc]; simp
    mvFiles := fun i hi => by cases hi
    mvNodup := List.nodup_nil
    ids := rfl
    next := by rw [hn]; rfl }

/-- first `h1`, then an operation that moves nothing -/
theorem trans {s s' s'' : State} {mv cr cr' : List Nat} (h1 : FileStep s s' mv cr) (h2 : FileStep s' s'' [] cr') :
    FileStep s s'' mv (cr ++ cr') :=
  { keep := fun i v hv hm => by
      obtain ⟨v', hv', hle⟩ := h1.keep i v hv hm
      obtain ⟨v'', hv'', hle'⟩ := h2.keep i v' hv' (by simp)
      exact ⟨v'', hv'', Nat.le_trans hle hle'⟩
    files := fun i => by
      rw [h2.files, h1.files, List.mem_append]
      simp only [List.not_mem_nil, not_false_eq_true, and_true]
      exact or_assoc
    corr := by rw [h2.corr, h1.corr]; simp
    mvFiles := h1.mvFiles
    mvNodup := h1.mvNodup
    ids := by
      rw [List.length_append, ← List.range'_append_1, ← h1.ids, ← h1.next, ← h2.ids]
    next := by rw [h2.next, h1.next, List.length_append]; omega }

theorem then_same {s s' s'' : State} {mv cr : List Nat} (h1 : FileStep s s' mv cr)
    (hb : s''.dir.blobs = s'.dir.blobs) (hc : s''.dir.corrupted = s'.dir.corrupted)
    (hn : s''.store.nextId = s'.store.nextId) : FileStep s s'' mv cr := by
  have := h1.trans (same hb hc hn)
  rwa [List.append_nil] at this

theorem then_append {s s' s'' : State} {mv cr : List Nat} (h1 : FileStep s s' mv cr) (P : Nat → Bool) (f : Nat → Nat)
    (hb : s''.dir.blobs = mapIf s'.dir.blobs P (fun id l => max l (f id)))
    (hc : s''.dir.corrupted = s'.dir.corrupted) (hn : s''.store.nextId = s'.store.nextId) :
    FileStep s s'' mv cr := by
  have := h1.trans (append P f hb hc hn)
  rwa [List.append_nil] at this

theorem then_newBlob {s s' s'' : State} {mv cr : List Nat} (h1 : FileStep s s' mv cr) (hbel : Below s') (v : Nat)
    (hb : s''.dir.blobs = put s'.dir.blobs s'.store.nextId v)
    (hc : s''.dir.corrupted = s'.dir.corrupted) (hn : s''.store.nextId = s'.store.nextId + 1) :
    FileStep s s'' mv (cr ++ [s'.store.nextId]) :=
  h1.trans (newBlob hbel v hb hc hn)

/-- the same step seen from a state with the same blob files, `corrupted` and `next_blob_id` -/
theorem of_eq {s₀ s s' : State} {mv cr : List Nat} (hb : s.dir.blobs = s₀.dir.blobs)
    (hc : s.dir.corrupted = s₀.dir.corrupted) (hn : s.store.nextId = s₀.store.nextId)
    (h : FileStep s s' mv cr) : FileStep s₀ s' mv cr :=
  { keep := by rw [← hb]; exact h.keep
    files := by rw [← hb]; exact h.files
    corr := by rw [← hc]; exact h.corr
    mvFiles := by rw [← hb]; exact h.mvFiles
    mvNodup := h.mvNodup
    ids := by rw [← hn]; exact h.ids
    next := by rw [← hn]; exact h.next }

theorem below {s s' : State} {mv cr : List Nat} (h : FileStep s s' mv cr) (hb : Below s) : Below s' := by
  intro i hi
  rw [h.next]
  rcases hi with hi | hi
  · rcases (h.files i).1 hi with ⟨hk, _⟩ | hc
    · exact Nat.lt_of_lt_of_le (hb i (Or.inl hk)) (Nat.le_add_right _ _)
    · rw [h.ids, List.mem_range'_1] at hc; exact hc.2
  · rw [h.corr, List.mem_append] at hi
    rcases hi with hi | hi
    · exact Nat.lt_of_lt_of_le (hb i (Or.inr hi)) (Nat.le_add_right _ _)
    · exact Nat.lt_of_lt_of_le (hb i (Or.inl (h.mvFiles i hi))) (Nat.le_add_right _ _)

/-- a created id is not the id of any file of either directory -/
theorem created_fresh {s s' : State} {mv cr : List Nat} (h : FileStep s s' mv cr) (hb : Below s) :
    ∀ i ∈ cr, s.store.nextId ≤ i ∧ i ∉ keys s.dir.blobs ∧ i ∉ s.dir.corrupted ∧ i ∈ keys s'.dir.blobs := by
  intro i hi
  have hge : s.store.nextId ≤ i := by
    have := hi; rw [h.ids, List.mem_range'_1] at this; exact this.1
  refine ⟨hge, fun hk => ?_, fun hk => ?_, (h.files i).2 (Or.inr hi)⟩
  · exact Nat.lt_irrefl _ (Nat.lt_of_lt_of_le (hb i (Or.inl hk)) hge)
  · exact Nat.lt_irrefl _ (Nat.lt_of_lt_of_le (hb i (Or.inr hk)) hge)

end FileStep

/-! #### the operations -/

theorem ensureActiveC_fileStep {s : State} (hb : Below s) :
    FileStep s (ensureActiveC s).st [] (ensureActiveC s).created := by
  unfold ensureActiveC
  cases ha : s.store.active with
  | some a => exact FileStep.same rfl rfl rfl
  | none =>
    exact FileStep.newBlob hb blobHeaderSize rfl rfl (by
      show (s.store.apply .createActive).nextId = _
      rw [apply_createActive_of_none ha]; rfl)

theorem replace_fileStep {s₀ s : State} {mv cr : List Nat} (h : FileStep s₀ s mv cr) (hb : Below s) :
    FileStep s₀ { newBlobFile s with store := s.store.apply .replaceActive } mv (cr ++ [s.store.nextId]) :=
  h.then_newBlob hb blobHeaderSize rfl rfl (replaceActive_blobs s.store).2

theorem rotateC_fileStep {c : Cfg} {s₀ s : State} {mv cr : List Nat} (h : FileStep s₀ s mv cr) (hb : Below s)
    (dmp : Bool) : FileStep s₀ (rotateC c s dmp).st mv (cr ++ (rotateC c s dmp).created) := by
  have h1 := replace_fileStep h hb
  unfold rotateC
  cases dmp with
  | true => exact h1.then_same rfl rfl rfl
  | false => exact h1

theorem writeC_fileStep {c : Cfg} {s : State} (hb : Below s) (k : Key) (ts : Nat) (m : Option Meta) (d : Data)
    (rot dmp : Bool) :
    FileStep s (writeC c s k ts m d rot dmp).st [] (writeC c s k ts m d rot dmp).created := by
  have h0 := ensureActiveC_fileStep hb
  have hb0 := h0.below hb
  unfold writeC
  simp only
  generalize ensureActiveC s = l0 at h0 hb0 ⊢
  split
  · exact h0
  · rename_i hd
    simp only [Bool.not_eq_true] at hd
    split
    · exact h0
    · rename_i a ha
      have hw : (l0.st.store.apply (.write k ts m d)).nextId = l0.st.store.nextId := by
        have : l0.st.store.apply (.write k ts m d) =
            { l0.st.store with active := some (a.append (Fs.writeRec k ts m d)) } := write_of_active ha k ts m d hd
        rw [this]
      have h1 : FileStep s { appendWhere l0.st (· == a.id) (Fs.recLen c.klen (Fs.writeRec k ts m d)) with
          store := l0.st.store.apply (.write k ts m d) } [] l0.created :=
        h0.then_append (· == a.id) (fun id => l0.st.fsz id + Fs.recLen c.klen (Fs.writeRec k ts m d)) rfl rfl hw
      cases rot with
      | false => exact h1
      | true => exact rotateC_fileStep h1 (h1.below hb) dmp

theorem deleteC_fileStep {c : Cfg} {s : State} (hb : Below s) (k : Key) (ts : Nat) (m : Option Meta) (oip : Bool) :
    FileStep s (deleteC c s k ts m oip).st [] (deleteC c s k ts m oip).created := by
  unfold deleteC
  simp only
  have h0 : FileStep s (if oip = true then ({ st := s } : Logged) else ensureActiveC s).st []
      (if oip = true then ({ st := s } : Logged) else ensureActiveC s).created := by
    cases oip with
    | true => exact FileStep.same rfl rfl rfl
    | false => exact ensureActiveC_fileStep hb
  have hbase : (if oip = true then ({ st := s } : Logged) else ensureActiveC s).st.store.deleteBase oip =
      (if oip = true then ({ st := s } : Logged) else ensureActiveC s).st.store := by
    cases oip with
    | true => rfl
    | false =>
      simp only [Bool.false_eq_true, if_false, ensureActiveC_st]
      obtain ⟨a, ha⟩ := ensureActive_active s
      exact deleteBase_of_active ha false
  generalize (if oip = true then ({ st := s } : Logged) else ensureActiveC s) = l0 at h0 hbase ⊢
  refine h0.then_append (fun id => (delTargets l0.st.store k oip).any (·.id == id))
    (fun id => l0.st.fsz id + Fs.recLen c.klen (Fs.markerRec k ts m)) rfl rfl ?_
  have := Store.delete_nextId l0.st.store k ts m oip
  rw [hbase] at this
  exact this

theorem forceC_fileStep {c : Cfg} {s : State} (hb : Below s) (go : Bool) :
    FileStep s (forceC c s go).st [] (forceC c s go).created := by
  unfold forceC
  cases go with
  | true =>
    have h1 := replace_fileStep (FileStep.same (s := s) rfl rfl rfl) hb
    exact h1.then_same rfl rfl rfl
  | false => exact FileStep.same rfl rfl rfl

/-! #### restart -/

/-- with no blob file in the work directory, `next_blob_id` is one above the greatest quarantined id: `init_new`
    numbers its blob `next_blob_id` -/
theorem maxNext_corrupted_of_empty {c : Cfg} {s : State} (h : Inv c s) (he : keys s.dir.blobs = []) :
    maxNext s.dir.corrupted = s.store.nextId := by
  apply maxNext_eq_of (fun x hx => h.below x (Or.inr hx)) h.tight.1
  rcases h.tight.2 with ht | ht
  · rw [he] at ht; cases ht
  · exact ht

theorem initNewC_fileStep {c : Cfg} {s : State} (h : Inv c s) (he : keys s.dir.blobs = []) :
    FileStep s (initNewC s).st [] (initNewC s).created := by
  have hm := maxNext_corrupted_of_empty h he
  have h1 : FileStep s (initNew s) [] [s.store.nextId] :=
    FileStep.newBlob h.below blobHeaderSize (by rw [← hm]; rfl) rfl (by rw [← hm]; rfl)
  unfold initNewC
  simp only
  rw [hm]; exact h1

theorem dirAfterRead_corrupted {c : Cfg} {s : State} (h : Inv c s) (ignore : Bool) (bad : List Nat) :
    (dirAfterRead s ignore bad).corrupted = s.dir.corrupted ++ (if ignore then [] else unreadable s bad) := by
  unfold dirAfterRead
  cases ignore with
  | true => simp
  | false =>
    simp only [Bool.false_eq_true, if_false]
    congr 1
    rw [List.filter_eq_self]
    intro i hi
    have : i ∉ s.dir.corrupted := fun hc => h.corrFiles i hc (mem_unreadable.1 hi).1
    simpa using this

theorem get_dirAfterRead_blobs (s : State) (ignore : Bool) (bad : List Nat) (i : Nat) :
    get (dirAfterRead s ignore bad).blobs i =
      if i ∈ (if ignore then [] else unreadable s bad) then none else get s.dir.blobs i := by
  unfold dirAfterRead
  cases ignore with
  | true => simp
  | false => simp only [Bool.false_eq_true, if_false, get_del]; simp

theorem get_dirAfterRead_idx (s : State) (ignore : Bool) (bad : List Nat) (i : Nat) :
    get (dirAfterRead s ignore bad).idx i =
      if i ∈ (if ignore then [] else unreadable s bad) then none else get s.dir.idx i := by
  unfold dirAfterRead
  cases ignore with
  | true => simp
  | false => simp only [Bool.false_eq_true, if_false, get_del]; simp

theorem mem_keys_dirAfterRead_blobs (s : State) (ignore : Bool) (bad : List Nat) (i : Nat) :
    i ∈ keys (dirAfterRead s ignore bad).blobs ↔
      i ∈ keys s.dir.blobs ∧ i ∉ (if ignore then [] else unreadable s bad) := by
  unfold dirAfterRead
  cases ignore with
  | true => simp
  | false => simp only [Bool.false_eq_true, if_false, mem_keys_del, contains_unreadable_false]

/-- `init_from_existing` recomputes `next_blob_id` from the two directories and finds the value it had -/
theorem initCore_nextId {c : Cfg} {s : State} (h : Inv c s) (lazy ignore : Bool) (bad : List Nat) :
    (initCore c s lazy ignore bad).store.nextId = s.store.nextId := by
  show max (maxNext (keys s.dir.blobs)) (maxNext (dirAfterRead s ignore bad).corrupted) = s.store.nextId
  rw [dirAfterRead_corrupted h]
  apply Nat.le_antisymm
  · refine Nat.max_le.2 ⟨maxNext_le_iff.2 (fun x hx => h.below x (Or.inl hx)), maxNext_le_iff.2 ?_⟩
    intro x hx
    rcases List.mem_append.1 hx with hx | hx
    · exact h.below x (Or.inr hx)
    · cases ignore with
      | true => simp at hx
      | false => exact h.below x (Or.inl (mem_unreadable.1 hx).1)
  · have hpos := h.tight.1
    rcases h.tight.2 with ht | ht
    · have h1 := lt_maxNext_of_mem ht
      have h2 := Nat.le_max_left (maxNext (keys s.dir.blobs))
        (maxNext (s.dir.corrupted ++ (if ignore then [] else unreadable s bad)))
      omega
    · have h1 := lt_maxNext_of_mem (List.mem_append_left (if ignore then [] else unreadable s bad) ht)
      have h2 := Nat.le_max_right (maxNext (keys s.dir.blobs))
        (maxNext (s.dir.corrupted ++ (if ignore then [] else unreadable s bad)))
      omega

theorem initCore_fileStep {c : Cfg} {s : State} (h : Inv c s) (lazy ignore : Bool) (bad : List Nat) :
    FileStep s (initCore c s lazy ignore bad) (if ignore then [] else unreadable s bad) [] :=
  { keep := fun i v hv hm => by
      refine ⟨v, ?_, Nat.le_refl _⟩
      show get (dirAfterRead s ignore bad).blobs i = some v
      rw [get_dirAfterRead_blobs, if_neg hm]; exact hv
    files := fun i => by
      show i ∈ keys (dirAfterRead s ignore bad).blobs ↔ _
      rw [mem_keys_dirAfterRead_blobs]; simp
    corr := dirAfterRead_corrupted h ignore bad
    mvFiles := fun i hi => by
      cases ignore with
      | true => simp at hi
      | false => exact (mem_unreadable.1 hi).1
    mvNodup := by
      cases ignore with
      | true => exact List.nodup_nil
      | false => exact h.filesNodup.sublist List.filter_sublist
    ids := rfl
    next := initCore_nextId h lazy ignore bad }

theorem initExistingC_fileStep {c : Cfg} {s : State} (h : Inv c s) (lazy ignore : Bool) (bad : List Nat) :
    FileStep s (initExistingC c s lazy ignore bad).st (initExistingC c s lazy ignore bad).moved
      (initExistingC c s lazy ignore bad).created := by
  have h1 := initCore_fileStep h lazy ignore bad
  have hb1 : Below (initCore c s lazy ignore bad) := h1.below h.below
  unfold initExistingC
  simp only
  generalize initCore c s lazy ignore bad = s1 at h1 hb1 ⊢
  split
  · have := h1.then_newBlob hb1 blobHeaderSize
      (s'' := { newBlobFile s1 with
                store := { s1.store with active := some { id := s1.store.nextId, recs := [] }
                                         nextId := s1.store.nextId + 1 } }) rfl rfl rfl
    rwa [List.nil_append] at this
  · exact h1

theorem restartC_moved (c : Cfg) (s : State) (lazy ignore : Bool) (bad : List Nat) :
    (restartC c s lazy ignore bad).moved = if ignore then [] else unreadable s bad := by
  have hun := unreadable_closeSession c s bad
  unfold restartC
  simp only
  generalize closeSession c s = s1 at hun ⊢
  rw [← hun]
  split
  · rename_i he
    rw [unreadable_nil_of_no_files (List.isEmpty_iff.1 he)]
    simp [initNewC]
  · unfold initExistingC
    simp only
    split <;> rfl

theorem restartC_fileStep {c : Cfg} {s : State} (h : Inv c s) (lazy ignore : Bool) (bad : List Nat) :
    FileStep s (restartC c s lazy ignore bad).st (restartC c s lazy ignore bad).moved
      (restartC c s lazy ignore bad).created := by
  have h1 := inv_closeSession (c := c) h
  have hbl := closeSession_blobs c s
  have hco := closeSession_corrupted c s
  have hst := closeSession_store c s
  unfold restartC
  simp only
  generalize closeSession c s = s1 at h1 hbl hco hst ⊢
  refine FileStep.of_eq hbl hco (by rw [hst]) ?_
  split
  · rename_i he
    exact initNewC_fileStep h1 (List.isEmpty_iff.1 he)
  · exact initExistingC_fileStep h1 lazy ignore bad

/-- the files moved by an operation: none, except by a restart without `ignore_corrupted` -/
theorem stepC_moved (c : Cfg) (s : State) (op : AOp) :
    (stepC c s op).moved = match op with
      | .restart _ false bad => unreadable s bad
      | _ => [] := by
  cases op with
  | write k ts m d rot dmp =>
    show (writeC c s k ts m d rot dmp).moved = []
    unfold writeC ensureActiveC
    simp only
    cases s.store.active <;> (simp only; repeat' split) <;> rfl
  | delete k ts m oip =>
    show (deleteC c s k ts m oip).moved = []
    rfl
  | closeActive => rfl
  | createActive =>
    show (ensureActiveC s).moved = []
    unfold ensureActiveC; cases s.store.active <;> rfl
  | restoreActive => rfl
  | force go => cases go <;> rfl
  | settle => rfl
  | restart lazy ignore bad =>
    show (restartC c s lazy ignore bad).moved = _
    rw [restartC_moved]
    cases ignore <;> rfl

/-- every operation, from a state with the invariant: nothing vanishes but what is quarantined, nothing shrinks,
    the files created are numbered from `next_blob_id` on -/
theorem stepC_fileStep {c : Cfg} {s : State} (h : Inv c s) (op : AOp) :
    FileStep s (stepC c s op).st (stepC c s op).moved (stepC c s op).created := by
  cases op with
  | write k ts m d rot dmp =>
    rw [stepC_moved]; exact writeC_fileStep h.below k ts m d rot dmp
  | delete k ts m oip => exact deleteC_fileStep h.below k ts m oip
  | closeActive => exact FileStep.same rfl rfl (closeActive_blobs s.store).2.1
  | createActive => rw [stepC_moved]; exact ensureActiveC_fileStep h.below
  | restoreActive => exact FileStep.same rfl rfl (restoreActive_blobs s.store).2
  | force go => rw [stepC_moved]; exact forceC_fileStep h.below go
  | settle => exact FileStep.same rfl rfl rfl
  | restart lazy ignore bad => exact restartC_fileStep h lazy ignore bad

/-! ### the record list of a held blob is only ever extended -/

theorem contentLen_prefix (klen : Nat) {l₁ l₂ : List Rec} (h : l₁ <+: l₂) :
    Fs.contentLen klen l₁ ≤ Fs.contentLen klen l₂ := by
  obtain ⟨t, rfl⟩ := h
  simp only [Fs.contentLen, List.map_append, List.sum_append]
  omega

/-- a proper extension of the record list makes the file strictly longer -/
theorem contentLen_lt_of_prefix (klen : Nat) {l₁ l₂ : List Rec} (h : l₁ <+: l₂) (hne : l₁ ≠ l₂) :
    Fs.contentLen klen l₁ < Fs.contentLen klen l₂ := by
  obtain ⟨t, rfl⟩ := h
  cases t with
  | nil => simp at hne
  | cons r t =>
    have := recLen_pos klen r
    simp only [Fs.contentLen, List.map_append, List.sum_append, List.map_cons, List.sum_cons]
    omega

theorem store_apply_fwd {s : Store} (hwf : s.WF) (op : Op) :
    ∀ b ∈ s.blobs, ∃ b' ∈ (s.apply op).blobs, b'.id = b.id ∧ b.recs <+: b'.recs := by
  rcases Store.apply_shape hwf op with h | h
  · cases h with
    | same hc _ =>
      intro b hb
      obtain ⟨y, hy, h1, h2, _⟩ := hc.fwd b hb
      exact ⟨y, hy, h1, h2⟩
    | new nb _ _ hc _ =>
      intro b hb
      obtain ⟨y, hy, h1, h2, _⟩ := hc.fwd b (List.mem_append_left _ hb)
      exact ⟨y, hy, h1, h2⟩
  · intro b hb; rw [h.1] at hb; simp at hb

theorem store_run_fwd {s : Store} (hwf : s.WF) :
    ∀ ops : List Op, ∀ b ∈ s.blobs, ∃ b' ∈ (s.run ops).blobs, b'.id = b.id ∧ b.recs <+: b'.recs
  | [], b, hb => ⟨b, hb, rfl, List.prefix_refl _⟩
  | op :: ops, b, hb => by
    rw [Store.run_cons]
    obtain ⟨b₁, hb₁, hid, hpre⟩ := store_apply_fwd hwf op b hb
    obtain ⟨b', hb', hid', hpre'⟩ := store_run_fwd (Store.apply_WF' hwf op) ops b₁ hb₁
    exact ⟨b', hb', hid'.trans hid, hpre.trans hpre'⟩

/-- the blobs held after a restart: those held before and found readable, with their records, and possibly
    one new, empty blob numbered `next_blob_id` -/
theorem restart_blobs_from {c : Cfg} {s : State} (h : Inv c s) (lazy ignore : Bool) (bad : List Nat) :
    ∀ b' ∈ (restart c s lazy ignore bad).store.blobs,
      (∃ b ∈ s.store.blobs, b.id ∉ unreadable s bad ∧ b'.id = b.id ∧ b'.recs = b.recs) ∨
        (b'.id = s.store.nextId ∧ b'.recs = []) := by
  have h1 := inv_closeSession (c := c) h
  have hst := closeSession_store c s
  have hun := unreadable_closeSession c s bad
  unfold restart
  simp only
  generalize closeSession c s = s1 at h1 hst hun ⊢
  rw [← hst, ← hun]
  have hcore : ∀ b' ∈ (initCore c s1 lazy ignore bad).store.blobs,
      ∃ b ∈ s1.store.blobs, b.id ∉ unreadable s1 bad ∧ b'.id = b.id ∧ b'.recs = b.recs := by
    intro b' hb'
    have hm : Blob.hist b' ∈ (keptBlobs s1 bad).map Blob.hist := by
      rw [← initCore_hist c s1 lazy ignore bad]; exact List.mem_map_of_mem hb'
    obtain ⟨b, hb, he⟩ := List.mem_map.1 hm
    obtain ⟨hbm, hbu⟩ := (mem_keptBlobs h1.wf).1 hb
    simp only [Blob.hist, Prod.mk.injEq] at he
    exact ⟨b, hbm, hbu, he.1.symm, he.2.symm⟩
  split
  · rename_i he
    intro b' hb'
    have hbl : (initNew s1).store.blobs = [{ id := maxNext s1.dir.corrupted, recs := [] }] := by
      simp [initNew, Store.blobs, Store.closed]
    rw [hbl, List.mem_singleton] at hb'
    subst hb'
    exact Or.inr ⟨maxNext_corrupted_of_empty h1 (List.isEmpty_iff.1 he), rfl⟩
  · unfold initExisting
    simp only
    have hn := initCore_nextId h1 lazy ignore bad
    generalize initCore c s1 lazy ignore bad = s2 at hcore hn ⊢
    split
    · rename_i hc
      simp only [Bool.and_eq_true, Option.isNone_iff_eq_none] at hc
      intro b' hb'
      have hbl : Store.blobs { s2.store with active := some { id := s2.store.nextId, recs := [] }
                                             nextId := s2.store.nextId + 1 } =
          s2.store.blobs ++ [{ id := s2.store.nextId, recs := [] }] := by
        simp [Store.blobs, Store.closed, hc.2]
      have hb'' : b' ∈ s2.store.blobs ++ [{ id := s2.store.nextId, recs := [] }] := by rw [← hbl]; exact hb'
      rcases List.mem_append.1 hb'' with hm | hm
      · exact Or.inl (hcore b' hm)
      · rw [List.mem_singleton] at hm
        subst hm
        exact Or.inr ⟨hn, rfl⟩
    · intro b' hb'; exact Or.inl (hcore b' hb')

/-- one operation: a blob held before and after (same id) has its record list extended -/
theorem step_recs {c : Cfg} {s : State} (h : Inv c s) (op : AOp) :
    ∀ b ∈ s.store.blobs, ∀ b' ∈ (step c s op).store.blobs, b'.id = b.id → b.recs <+: b'.recs := by
  intro b hb b' hb' hid
  have hwf' : (step c s op).store.WF := (inv_step h op).wf
  by_cases hr : ∀ lazy ignore bad, op ≠ .restart lazy ignore bad
  · have hs := step_store c s op hr
    obtain ⟨b'', hb'', hid'', hpre⟩ := store_run_fwd h.wf (l2 s op) b hb
    rw [← hs] at hb''
    have : b'' = b' := Store.eq_of_id_eq hwf'.1 hb'' hb' (by rw [hid'', hid])
    rw [← this]; exact hpre
  · have : ∃ lazy ignore bad, op = .restart lazy ignore bad := by
      apply Classical.byContradiction
      intro hn
      exact hr (fun lazy ignore bad e => hn ⟨lazy, ignore, bad, e⟩)
    obtain ⟨lazy, ignore, bad, rfl⟩ := this
    rcases restart_blobs_from h lazy ignore bad b' hb' with ⟨b₀, hb₀, _, hid₀, hrec⟩ | ⟨hid₀, _⟩
    · have : b₀ = b := Store.eq_of_id_eq h.wf.1 hb₀ hb (by rw [← hid₀, hid])
      rw [hrec, this]; exact List.prefix_refl _
    · have := h.wf.2 b hb
      omega

/-- … and a held blob's file is exactly as long as its records say, before and after -/
theorem held_file_len {c : Cfg} {s : State} (h : Inv c s) {b : Blob} (hb : b ∈ s.store.blobs) :
    get s.dir.blobs b.id = some (Fs.contentLen c.klen b.recs) := by
  rw [← (h.ok b hb).size]; exact (h.ok b hb).file

/-! ### the ghost run: a log of every creation, and the lengths of the quarantined files -/

/-- `rename` of the blob files `mv` of the directory `d` into `corrupted` (`q`: id ↦ length of the file there);
    `put` = create OR REPLACE, as `rename` does -/
def quarantine (d : Dir) (q : List (Nat × Nat)) (mv : List Nat) : List (Nat × Nat) :=
  mv.foldl (fun q i => put q i (blobFileLen d i)) q

/-- an `Acct.State` with ghost state -/
structure G where
  st : State
  /-- the ids of all blob files created so far, in creation order -/
  created : List Nat
  /-- the blob files of `corrupted` with the length each had when it was renamed there -/
  quar : List (Nat × Nat)

def stepG (c : Cfg) (g : G) (op : AOp) : G :=
  { st := (stepC c g.st op).st
    created := g.created ++ (stepC c g.st op).created
    quar := quarantine g.st.dir g.quar (stepC c g.st op).moved }

/-- `Builder::build` + `init` on an empty directory: `init_new` creates blob 0 -/
def initG (allowDup : Bool) : G :=
  { st := (initNewC { store := { allowDup := allowDup } }).st
    created := (initNewC { store := { allowDup := allowDup } }).created
    quar := [] }

def runGFrom (c : Cfg) (g : G) (ops : List AOp) : G := ops.foldl (stepG c) g

def runG (c : Cfg) (allowDup : Bool) (ops : List AOp) : G := runGFrom c (initG allowDup) ops

theorem runGFrom_cons (c : Cfg) (g : G) (op : AOp) (ops : List AOp) :
    runGFrom c g (op :: ops) = runGFrom c (stepG c g op) ops := rfl

theorem runGFrom_append (c : Cfg) (g : G) (ops ops' : List AOp) :
    runGFrom c g (ops ++ ops') = runGFrom c (runGFrom c g ops) ops' := by
  simp [runGFrom, List.foldl_append]

theorem runG_append (c : Cfg) (allowDup : Bool) (ops ops' : List AOp) :
    runG c allowDup (ops ++ ops') = runGFrom c (runG c allowDup ops) ops' := runGFrom_append c _ ops ops'

theorem stepG_st (c : Cfg) (g : G) (op : AOp) : (stepG c g op).st = step c g.st op := stepC_st c g.st op

theorem runGFrom_st (c : Cfg) : ∀ (g : G) (ops : List AOp), (runGFrom c g ops).st = runFrom c g.st ops
  | _, [] => rfl
  | g, op :: ops => by rw [runGFrom_cons, runGFrom_st c _ ops, stepG_st]; rfl

/-- the ghost run carries the state of `Acct.run` -/
theorem runG_st (c : Cfg) (allowDup : Bool) (ops : List AOp) : (runG c allowDup ops).st = run c allowDup ops :=
  runGFrom_st c _ ops

theorem keys_put_of_not_mem {α : Type} {l : List (Nat × α)} {j : Nat} (v : α) (h : j ∉ keys l) :
    keys (put l j v) = keys l ++ [j] := by
  unfold put
  rw [del_eq_self, keys_append]
  · rfl
  · intro i hi
    simp only [beq_eq_false_iff_ne, ne_eq]
    intro e; exact h (e ▸ hi)

theorem get_quarantine (d : Dir) : ∀ (mv : List Nat) (q : List (Nat × Nat)) (j : Nat),
    get (quarantine d q mv) j = if j ∈ mv then some (blobFileLen d j) else get q j
  | [], q, j => by simp [quarantine]
  | i :: mv, q, j => by
    have ih := get_quarantine d mv (put q i (blobFileLen d i)) j
    unfold quarantine at ih ⊢
    rw [List.foldl_cons, ih, get_put]
    by_cases h1 : j ∈ mv
    · simp [h1]
    · by_cases h2 : j = i
      · subst h2; simp
      · simp [h1, h2]

theorem keys_quarantine (d : Dir) : ∀ (mv : List Nat) (q : List (Nat × Nat)), (∀ i ∈ mv, i ∉ keys q) → mv.Nodup →
    keys (quarantine d q mv) = keys q ++ mv
  | [], q, _, _ => by simp [quarantine]
  | i :: mv, q, hq, hn => by
    rw [List.nodup_cons] at hn
    have hk := keys_put_of_not_mem (blobFileLen d i) (hq i List.mem_cons_self)
    have ih := keys_quarantine d mv (put q i (blobFileLen d i)) (by
      intro j hj
      rw [hk, List.mem_append, List.mem_singleton]
      rintro (h | h)
      · exact hq j (List.mem_cons_of_mem _ hj) h
      · exact hn.1 (h ▸ hj)) hn.2
    unfold quarantine at ih ⊢
    rw [List.foldl_cons, ih, hk]
    simp

/-- invariant of the ghost run -/
structure GInv (c : Cfg) (g : G) : Prop where
  inv : Inv c g.st
  /-- the blob files ever created are numbered 0, 1, …, `next_blob_id - 1`, each id once, in this order -/
  created : g.created = List.range g.st.store.nextId
  /-- the ghost map lists exactly the files of `corrupted` -/
  quarKeys : keys g.quar = g.st.dir.corrupted

theorem ginv_step {c : Cfg} {g : G} (h : GInv c g) (op : AOp) : GInv c (stepG c g op) := by
  have hf := stepC_fileStep h.inv op
  refine ⟨by rw [stepG_st]; exact inv_step h.inv op, ?_, ?_⟩
  · show g.created ++ (stepC c g.st op).created = List.range (stepC c g.st op).st.store.nextId
    rw [h.created, hf.next, hf.ids, List.length_range', List.range_eq_range', List.range_eq_range',
      ← List.range'_append_1]
    simp
  · show keys (quarantine g.st.dir g.quar (stepC c g.st op).moved) = (stepC c g.st op).st.dir.corrupted
    rw [hf.corr, ← h.quarKeys]
    apply keys_quarantine _ _ _ _ hf.mvNodup
    intro i hi hk
    rw [h.quarKeys] at hk
    exact h.inv.corrFiles i hk (hf.mvFiles i hi)

theorem ginv_init (c : Cfg) (allowDup : Bool) : GInv c (initG allowDup) :=
  ⟨inv_init c allowDup, rfl, rfl⟩

theorem ginv_runFrom {c : Cfg} : ∀ {g : G}, GInv c g → ∀ ops : List AOp, GInv c (runGFrom c g ops)
  | _, h, [] => h
  | _, h, op :: ops => ginv_runFrom (ginv_step h op) ops

theorem ginv_run (c : Cfg) (allowDup : Bool) (ops : List AOp) : GInv c (runG c allowDup ops) :=
  ginv_runFrom (ginv_init c allowDup) ops

/-- one step: a blob file is afterwards in the work directory, at least as long, or it has just been renamed
    into `corrupted` (where no file of that name was) with the length it had -/
theorem stepG_file_fate {c : Cfg} {g : G} (h : GInv c g) (op : AOp) (i l : Nat)
    (hl : get g.st.dir.blobs i = some l) :
    (∃ l', get (stepG c g op).st.dir.blobs i = some l' ∧ l ≤ l') ∨
      (i ∈ (stepG c g op).st.dir.corrupted ∧ i ∉ g.st.dir.corrupted ∧ i ∉ keys (stepG c g op).st.dir.blobs ∧
        get (stepG c g op).quar i = some l ∧ i ∈ (stepC c g.st op).moved) := by
  have hf := stepC_fileStep h.inv op
  by_cases hm : i ∈ (stepC c g.st op).moved
  · right
    have hk : i ∈ keys g.st.dir.blobs := hf.mvFiles i hm
    refine ⟨?_, fun hc => h.inv.corrFiles i hc hk, ?_, ?_, hm⟩
    · show i ∈ (stepC c g.st op).st.dir.corrupted
      rw [hf.corr]; exact List.mem_append_right _ hm
    · show i ∉ keys (stepC c g.st op).st.dir.blobs
      rw [hf.files]
      rintro (⟨_, hn⟩ | hc)
      · exact hn hm
      · exact (hf.created_fresh h.inv.below i hc).2.1 hk
    · show get (quarantine g.st.dir g.quar (stepC c g.st op).moved) i = some l
      rw [get_quarantine, if_pos hm]
      simp [blobFileLen, hl]
  · left; exact hf.keep i l hl hm

/-- a file of `corrupted` is never touched again: not replaced by a later `rename`, not removed -/
theorem stepG_quar_forever {c : Cfg} {g : G} (h : GInv c g) (op : AOp) (i l : Nat) (hq : get g.quar i = some l) :
    get (stepG c g op).quar i = some l ∧ i ∉ (stepC c g.st op).moved := by
  have hf := stepC_fileStep h.inv op
  have hc : i ∈ g.st.dir.corrupted := by rw [← h.quarKeys]; exact mem_keys_of_get hq
  have hm : i ∉ (stepC c g.st op).moved := fun hm => h.inv.corrFiles i hc (hf.mvFiles i hm)
  refine ⟨?_, hm⟩
  show get (quarantine g.st.dir g.quar (stepC c g.st op).moved) i = some l
  rw [get_quarantine, if_neg hm]; exact hq

theorem runGFrom_quar_forever {c : Cfg} : ∀ {g : G}, GInv c g → ∀ (ops : List AOp) (i l : Nat),
    get g.quar i = some l → get (runGFrom c g ops).quar i = some l
  | _, _, [], _, _, hq => hq
  | _, h, op :: ops, i, l, hq =>
    runGFrom_quar_forever (ginv_step h op) ops i l (stepG_quar_forever h op i l hq).1

/-- any number of steps: a blob file is later in the work directory, at least as long, or in `corrupted`, with
    the length (at least the present one) it had when it was moved -/
theorem runGFrom_file_fate {c : Cfg} : ∀ {g : G}, GInv c g → ∀ (ops : List AOp) (i l : Nat),
    get g.st.dir.blobs i = some l →
      (∃ l', get (runGFrom c g ops).st.dir.blobs i = some l' ∧ l ≤ l') ∨
        (i ∈ (runGFrom c g ops).st.dir.corrupted ∧ i ∉ keys (runGFrom c g ops).st.dir.blobs ∧
          ∃ l', get (runGFrom c g ops).quar i = some l' ∧ l ≤ l')
  | _, _, [], _, l, hl => Or.inl ⟨l, hl, Nat.le_refl _⟩
  | g, h, op :: ops, i, l, hl => by
    rw [runGFrom_cons]
    have h' := ginv_step h op
    rcases stepG_file_fate h op i l hl with ⟨l₁, hl₁, hle⟩ | ⟨_, _, _, hq, _⟩
    · rcases runGFrom_file_fate h' ops i l₁ hl₁ with ⟨l₂, hl₂, hle₂⟩ | ⟨hc, hk, l₂, hl₂, hle₂⟩
      · exact Or.inl ⟨l₂, hl₂, Nat.le_trans hle hle₂⟩
      · exact Or.inr ⟨hc, hk, l₂, hl₂, Nat.le_trans hle hle₂⟩
    · have hq' := runGFrom_quar_forever h' ops i l hq
      have hfin := ginv_runFrom h' ops
      have hc : i ∈ (runGFrom c (stepG c g op) ops).st.dir.corrupted := by
        rw [← hfin.quarKeys]; exact mem_keys_of_get hq'
      exact Or.inr ⟨hc, hfin.inv.corrFiles i hc, l, hq', Nat.le_refl _⟩

/-! ### what happens to an index file -/

/-- fate of the index file `i ↦ f` of `s` in `s'` (`mv`: the blob files quarantined in between):
    untouched; or replaced by a dump — then the new file validates against the blob file as it is now, and the
    blob was a held one (never the index of a blob skipped under `ignore_corrupted`); or removed — then its blob
    has just been quarantined -/
def IdxFate (s s' : State) (mv : List Nat) (i : Nat) (f : IdxFile) : Prop :=
  get s'.dir.idx i = some f ∨
    (∃ f', get s'.dir.idx i = some f' ∧ get s'.dir.blobs i = some f'.blobSize ∧ i ∉ s.ignored) ∨
    (get s'.dir.idx i = none ∧ i ∈ mv)

theorem dumpPass_idx_fate {c : Cfg} {s : State} (h : Inv c s) (i : Nat) (f : IdxFile)
    (hf : get s.dir.idx i = some f) : IdxFate s (dumpPass c s) [] i f := by
  have hget : get (dumpPass c s).dir.idx i =
      match (dumpTargets s.store).find? (·.id == i) with
      | some t => some (idxOf c s t)
      | none => get s.dir.idx i := get_replace _ _ _ i
  cases hfd : (dumpTargets s.store).find? (·.id == i) with
  | none => left; rw [hget, hfd]; exact hf
  | some t =>
    right; left
    have htm : t ∈ s.store.blobs := mem_blobs_of_closed (dumpTargets_sub (List.mem_of_find?_eq_some hfd)).1
    have hti : t.id = i := by simpa using List.find?_some hfd
    refine ⟨idxOf c s t, by rw [hget, hfd], ?_, fun hi => h.ignHeld i hi t htm hti⟩
    show get s.dir.blobs i = some (s.fsz t.id)
    rw [← hti]; exact (h.ok t htm).file

/-- every operation but `restart` is: something that leaves the index files alone, then possibly a dump pass -/
theorem step_pre (c : Cfg) {s : State} (h : Inv c s) (op : AOp)
    (hr : ∀ lazy ignore bad, op ≠ .restart lazy ignore bad) :
    ∃ pre, Inv c pre ∧ pre.dir.idx = s.dir.idx ∧ pre.ignored = s.ignored ∧
      (step c s op = pre ∨ step c s op = dumpPass c pre) := by
  have hens : (ensureActive s).dir.idx = s.dir.idx ∧ (ensureActive s).ignored = s.ignored := by
    unfold ensureActive; cases s.store.active <;> exact ⟨rfl, rfl⟩
  cases op with
  | write k ts m d rot dmp =>
    -- the state before the rotation
    have hW : Inv c (write c s k ts m d false dmp) := inv_write h k ts m d false dmp
    have hWi : (write c s k ts m d false dmp).dir.idx = s.dir.idx ∧
        (write c s k ts m d false dmp).ignored = s.ignored := by
      unfold write
      simp only
      split
      · exact hens
      · split
        · exact hens
        · exact hens
    have hrot : write c s k ts m d true dmp = write c s k ts m d false dmp ∨
        write c s k ts m d true dmp = rotate c (write c s k ts m d false dmp) dmp := by
      unfold write
      simp only
      split
      · exact Or.inl rfl
      · split
        · exact Or.inl rfl
        · exact Or.inr rfl
    cases rot with
    | false => exact ⟨_, hW, hWi.1, hWi.2, Or.inl rfl⟩
    | true =>
      rcases hrot with e | e
      · exact ⟨_, hW, hWi.1, hWi.2, Or.inl e⟩
      · cases dmp with
        | false => exact ⟨_, inv_replace hW, hWi.1, hWi.2, Or.inl e⟩
        | true => exact ⟨_, inv_replace hW, hWi.1, hWi.2, Or.inr e⟩
  | delete k ts m oip =>
    refine ⟨_, inv_delete h k ts m oip, ?_, ?_, Or.inl rfl⟩
    · unfold delete; cases oip
      · exact hens.1
      · rfl
    · unfold delete; cases oip
      · exact hens.2
      · rfl
  | closeActive =>
    exact ⟨_, h.store_same _ (closeActive_blobs s.store).1 (closeActive_blobs s.store).2.1
      (fun a ha => by rw [(closeActive_blobs s.store).2.2] at ha; cases ha), rfl, rfl, Or.inr rfl⟩
  | createActive => exact ⟨_, inv_ensureActive h, hens.1, hens.2, Or.inl rfl⟩
  | restoreActive => exact ⟨_, inv_restoreActive h, rfl, rfl, Or.inl rfl⟩
  | force go =>
    cases go with
    | true => exact ⟨_, inv_replace h, rfl, rfl, Or.inr rfl⟩
    | false => exact ⟨_, h, rfl, rfl, Or.inr rfl⟩
  | settle => exact ⟨_, h, rfl, rfl, Or.inr rfl⟩
  | restart lazy ignore bad => exact absurd rfl (hr lazy ignore bad)

/-- the closed blobs for which `init_from_existing` writes an index file -/
def initNeed (s : State) (lazy ignore : Bool) (bad : List Nat) : List Blob :=
  (if lazy then keptBlobs s bad else (keptBlobs s bad).dropLast).filter
    (fun b => !idxValid (dirAfterRead s ignore bad) b.id && !b.recs.isEmpty)

theorem get_initCore_idx (c : Cfg) (s : State) (lazy ignore : Bool) (bad : List Nat) (i : Nat) :
    get (initCore c s lazy ignore bad).dir.idx i =
      match (initNeed s lazy ignore bad).find? (·.id == i) with
      | some t => some ⟨c.idxLen t.recs, blobFileLen (dirAfterRead s ignore bad) t.id⟩
      | none => get (dirAfterRead s ignore bad).idx i :=
  get_replace _ (initNeed s lazy ignore bad)
    (fun b => (⟨c.idxLen b.recs, blobFileLen (dirAfterRead s ignore bad) b.id⟩ : IdxFile)) i

theorem mem_initNeed {s : State} (hwf : s.store.WF) {lazy ignore : Bool} {bad : List Nat} {t : Blob}
    (ht : t ∈ initNeed s lazy ignore bad) : t ∈ s.store.blobs ∧ t.id ∉ unreadable s bad := by
  apply (mem_keptBlobs hwf).1
  have := (List.mem_filter.1 ht).1
  cases lazy with
  | true => exact this
  | false => exact (List.dropLast_sublist _).subset this

theorem initCore_idx_fate {c : Cfg} {s : State} (h : Inv c s) (lazy ignore : Bool) (bad : List Nat) (i : Nat)
    (f : IdxFile) (hf : get s.dir.idx i = some f) :
    IdxFate s (initCore c s lazy ignore bad) (if ignore then [] else unreadable s bad) i f := by
  have hblobs : ∀ j, get (initCore c s lazy ignore bad).dir.blobs j = get (dirAfterRead s ignore bad).blobs j :=
    fun _ => rfl
  rw [IdxFate, get_initCore_idx, hblobs]
  cases hfd : (initNeed s lazy ignore bad).find? (·.id == i) with
  | some t =>
    right; left
    obtain ⟨htm, htu⟩ := mem_initNeed h.wf (List.mem_of_find?_eq_some hfd)
    have hti : t.id = i := by simpa using List.find?_some hfd
    have hnm : i ∉ (if ignore then [] else unreadable s bad) := by
      rw [← hti]; cases ignore
      · exact htu
      · simp
    have hb : get (dirAfterRead s ignore bad).blobs i = some (s.fsz i) := by
      rw [get_dirAfterRead_blobs, if_neg hnm, ← hti]; exact (h.ok t htm).file
    refine ⟨_, rfl, ?_, fun hi => h.ignHeld i hi t htm hti⟩
    show _ = some (blobFileLen (dirAfterRead s ignore bad) t.id)
    rw [hb, blobFileLen, hti, hb]; rfl
  | none =>
    simp only
    rw [get_dirAfterRead_idx]
    by_cases hm : i ∈ (if ignore then [] else unreadable s bad)
    · right; right; exact ⟨by rw [if_pos hm], hm⟩
    · left; rw [if_neg hm]; exact hf

theorem restart_idx_fate {c : Cfg} {s : State} (h : Inv c s) (lazy ignore : Bool) (bad : List Nat) (i : Nat)
    (f : IdxFile) (hf : get s.dir.idx i = some f) :
    IdxFate s (restart c s lazy ignore bad) (if ignore then [] else unreadable s bad) i f := by
  have h1 := inv_closeSession (c := c) h
  have hun := unreadable_closeSession c s bad
  have hig := closeSession_ignored c s
  have hbl := closeSession_blobs c s
  -- the index file after `close`: untouched, or written by the dump of the active blob
  have hA : get (closeSession c s).dir.idx i = some f ∨
      ∃ f', get (closeSession c s).dir.idx i = some f' ∧ get (closeSession c s).dir.blobs i = some f'.blobSize ∧
        i ∉ s.ignored := by
    unfold closeSession
    cases ha : s.store.active with
    | none => exact Or.inl hf
    | some a =>
      simp only
      split
      · by_cases hi : i = a.id
        · right
          refine ⟨idxOf c s a, by rw [get_put, if_pos hi], ?_,
            fun hig => h.ignHeld i hig a (mem_blobs_of_active ha) hi.symm⟩
          show get s.dir.blobs i = some (s.fsz a.id)
          rw [hi]; exact (h.ok a (mem_blobs_of_active ha)).file
        · left; rw [get_put, if_neg hi]; exact hf
      · exact Or.inl hf
  have hkey : i ∈ keys (closeSession c s).dir.blobs := by
    rw [hbl]; exact h.idxFiles i (mem_keys_of_get hf)
  unfold restart IdxFate
  simp only
  generalize closeSession c s = s1 at h1 hun hig hbl hA hkey ⊢
  rw [← hun, ← hig]
  have hC : ∀ f₁, get s1.dir.idx i = some f₁ →
      get (initCore c s1 lazy ignore bad).dir.idx i = some f₁ ∨
        (∃ f', get (initCore c s1 lazy ignore bad).dir.idx i = some f' ∧
          get (initCore c s1 lazy ignore bad).dir.blobs i = some f'.blobSize ∧ i ∉ s1.ignored) ∨
        (get (initCore c s1 lazy ignore bad).dir.idx i = none ∧ i ∈ (if ignore then [] else unreadable s1 bad)) :=
    fun f₁ hf₁ => initCore_idx_fate h1 lazy ignore bad i f₁ hf₁
  split
  · rename_i he
    rw [List.isEmpty_iff.1 he] at hkey; cases hkey
  · -- `init_from_existing`: the creation of a missing active blob touches neither the index files nor this blob file
    have hlt : i < (initCore c s1 lazy ignore bad).store.nextId := by
      rw [initCore_nextId h1]; exact h1.below i (Or.inl hkey)
    have hE : get (initExisting c s1 lazy ignore bad).dir.idx i = get (initCore c s1 lazy ignore bad).dir.idx i ∧
        get (initExisting c s1 lazy ignore bad).dir.blobs i = get (initCore c s1 lazy ignore bad).dir.blobs i := by
      unfold initExisting
      simp only
      generalize initCore c s1 lazy ignore bad = s2 at hlt ⊢
      split
      · refine ⟨rfl, ?_⟩
        show get (put s2.dir.blobs s2.store.nextId blobHeaderSize) i = _
        rw [get_put, if_neg (Nat.ne_of_lt hlt)]
      · exact ⟨rfl, rfl⟩
    rw [hE.1, hE.2]
    rcases hA with hA | ⟨f₁, hA, hAb, hAi⟩
    · exact hC f hA
    · rw [← hig] at hAi
      rcases hC f₁ hA with hB | hB | hB
      · -- the file written by `close` stays: it validates against the blob file, which has not moved
        right; left
        refine ⟨f₁, hB, ?_, hAi⟩
        have hnm : i ∉ (if ignore then [] else unreadable s1 bad) := by
          intro hm
          have hI := hB
          rw [get_initCore_idx] at hI
          cases hfd : (initNeed s1 lazy ignore bad).find? (·.id == i) with
          | some t =>
            have hti : t.id = i := by simpa using List.find?_some hfd
            have := (mem_initNeed h1.wf (List.mem_of_find?_eq_some hfd)).2
            rw [hti] at this
            cases ignore
            · exact this hm
            · simp at hm
          | none =>
            rw [hfd] at hI
            simp only at hI
            rw [get_dirAfterRead_idx, if_pos hm] at hI
            cases hI
        show get (dirAfterRead s1 ignore bad).blobs i = _
        rw [get_dirAfterRead_blobs, if_neg hnm]; exact hAb
      · exact Or.inr (Or.inl hB)
      · exact Or.inr (Or.inr hB)

/-- one operation, from a state with the invariant -/
theorem step_idx_fate {c : Cfg} {s : State} (h : Inv c s) (op : AOp) (i : Nat) (f : IdxFile)
    (hf : get s.dir.idx i = some f) : IdxFate s (step c s op) (stepC c s op).moved i f := by
  by_cases hr : ∀ lazy ignore bad, op ≠ .restart lazy ignore bad
  · obtain ⟨pre, hpre, hidx, hign, hstep⟩ := step_pre c h op hr
    rcases hstep with e | e
    · left; rw [e, hidx]; exact hf
    · rw [e]
      rcases dumpPass_idx_fate hpre i f (by rw [hidx]; exact hf) with hB | ⟨f', h1, h2, h3⟩ | ⟨_, hm⟩
      · exact Or.inl hB
      · exact Or.inr (Or.inl ⟨f', h1, h2, by rw [← hign]; exact h3⟩)
      · cases hm
  · have : ∃ lazy ignore bad, op = .restart lazy ignore bad := by
      apply Classical.byContradiction
      intro hn
      exact hr (fun lazy ignore bad e => hn ⟨lazy, ignore, bad, e⟩)
    obtain ⟨lazy, ignore, bad, rfl⟩ := this
    have hm : (stepC c s (.restart lazy ignore bad)).moved = if ignore then [] else unreadable s bad :=
      restartC_moved c s lazy ignore bad
    rw [hm]
    exact restart_idx_fate h lazy ignore bad i f hf

/-! ### counter-models

`Buggy.c074`: seeded change C07-4 — `init_from_existing` calls `reserve_old_corrupted_blob_ids` only at its end,
after a missing active blob has been created with `next_blob_id` = greatest id of a blob file of the work
directory + 1.  `Buggy.c073`: seeded change C07-3 — `ensure_active_blob_exists` hands the blob id back when
`Blob::open_new` fails, although the file may exist already. -/

namespace Buggy

/-- `initExistingC` with the reservation of the quarantined ids moved behind the creation of the active blob.
    (Ids quarantined in this very session are still covered: `max_blob_id` is taken over all blob files.) -/
def initExistingC074 (c : Cfg) (s : State) (lazy ignore : Bool) (bad : List Nat) : Logged :=
  let s1 := initCore c s lazy ignore bad
  let mv := if ignore then [] else unreadable s bad
  -- `next_blob_id.store(max_blob_id + 1)`
  let nid := maxNext (keys s.dir.blobs)
  -- `reserve_old_corrupted_blob_ids`, now the last thing `init_from_existing` does
  let resv := maxNext s1.dir.corrupted
  if !lazy && s1.store.active.isNone then
    { st := { s1 with
              dir := { s1.dir with blobs := put s1.dir.blobs nid blobHeaderSize }
              fsz := fun j => if j = nid then blobHeaderSize else s1.fsz j
              store := { s1.store with active := some { id := nid, recs := [] }, nextId := max (nid + 1) resv } }
      moved := mv, created := [nid] }
  else { st := { s1 with store := { s1.store with nextId := max nid resv } }, moved := mv }

def restartC074 (c : Cfg) (s : State) (lazy ignore : Bool) (bad : List Nat) : Logged :=
  let s1 := closeSession c s
  if (keys s1.dir.blobs).isEmpty then initNewC s1 else initExistingC074 c s1 lazy ignore bad

def stepC074 (c : Cfg) (s : State) : AOp → Logged
  | .restart lazy ignore bad => restartC074 c s lazy ignore bad
  | op => stepC c s op

/-- the ghost step over an arbitrary instrumented step function -/
def stepGWith (f : State → AOp → Logged) (g : G) (op : AOp) : G :=
  { st := (f g.st op).st
    created := g.created ++ (f g.st op).created
    quar := quarantine g.st.dir g.quar (f g.st op).moved }

def runG074 (c : Cfg) (allowDup : Bool) (ops : List AOp) : G := ops.foldl (stepGWith (stepC074 c)) (initG allowDup)

/-- the correct model through the same wrapper -/
theorem stepGWith_stepC (c : Cfg) (g : G) (op : AOp) : stepGWith (stepC c) g op = stepG c g op := rfl

/-- when no active blob has to be created the seeded change changes nothing -/
theorem initExistingC074_same (c : Cfg) (s : State) (lazy ignore : Bool) (bad : List Nat)
    (h : (!lazy && (initCore c s lazy ignore bad).store.active.isNone) = false) :
    (initExistingC074 c s lazy ignore bad).st = (initExistingC c s lazy ignore bad).st ∧
      (initExistingC074 c s lazy ignore bad).created = (initExistingC c s lazy ignore bad).created := by
  unfold initExistingC074 initExistingC
  simp only [h]
  exact ⟨rfl, rfl⟩

/-- the same mistake in `init_new` (a start from an EMPTY work directory): a fresh `Inner` has `next_blob_id` = 0;
    the active blob is created first, the ids of `corrupted` are reserved afterwards -/
def initNewLateC (s : State) : Logged :=
  { st := { store := { allowDup := s.store.allowDup, active := some { id := 0, recs := [] }, slots := [],
                       nextId := max 1 (maxNext s.dir.corrupted) }
            fsz := fun j => if j = 0 then blobHeaderSize else 0
            isz := fun _ => 0
            corruptedCnt := s.dir.corrupted.length
            dir := { s.dir with blobs := put s.dir.blobs 0 blobHeaderSize }
            ignored := [] }
    created := [0] }

def stepCLate (c : Cfg) (s : State) : AOp → Logged
  | .restart lazy ignore bad =>
    let s1 := closeSession c s
    if (keys s1.dir.blobs).isEmpty then initNewLateC s1 else initExistingC c s1 lazy ignore bad
  | op => stepC c s op

def runGLate (c : Cfg) (allowDup : Bool) (ops : List AOp) : G := ops.foldl (stepGWith (stepCLate c)) (initG allowDup)

/-- an operation, or a creation of the active blob that fails after the file exists -/
inductive FOp where
  | op (o : AOp)
  /-- `ensure_active_blob_exists` (`try_create_active_blob`, or the implicit creation at the start of a write or
      delete) with `Blob::open_new` failing after `iodriver.create`: `len` bytes of the header are in the file -/
  | createFails (len : Nat)

/-- the failing creation.  The file `next_blob_id` is left in the work directory, held by nobody and unreadable
    (it goes to the ghost list `ignored`: the next start finds it unreadable).  `giveBack = false` is the code as
    it is (the id stays consumed), `giveBack = true` the seeded change C07-3 (`fetch_sub(1)`). -/
def createFailsC (giveBack : Bool) (s : State) (len : Nat) : Logged :=
  match s.store.active with
  | some _ => { st := s }
  | none =>
    { st := { s with dir := { s.dir with blobs := put s.dir.blobs s.store.nextId len }
                     store := { s.store with nextId := if giveBack then s.store.nextId else s.store.nextId + 1 }
                     ignored := s.ignored ++ [s.store.nextId] }
      created := [s.store.nextId] }

def stepF (giveBack : Bool) (c : Cfg) (s : State) : FOp → Logged
  | .op o => stepC c s o
  | .createFails len => createFailsC giveBack s len

def stepGF (giveBack : Bool) (c : Cfg) (g : G) (op : FOp) : G :=
  { st := (stepF giveBack c g.st op).st
    created := g.created ++ (stepF giveBack c g.st op).created
    quar := quarantine g.st.dir g.quar (stepF giveBack c g.st op).moved }

def runGF (giveBack : Bool) (c : Cfg) (allowDup : Bool) (ops : List FOp) : G :=
  ops.foldl (stepGF giveBack c) (initG allowDup)

end Buggy

/-- the code as it is: a failed creation keeps the invariant (the id stays consumed, the leftover file is one more
    unreadable file of the work directory), so the theorems over `Inv` hold along histories with such failures too -/
theorem inv_createFails {c : Cfg} {s : State} (h : Inv c s) (len : Nat) :
    Inv c (Buggy.createFailsC false s len).st ∧
      FileStep s (Buggy.createFailsC false s len).st [] (Buggy.createFailsC false s len).created := by
  unfold Buggy.createFailsC
  cases ha : s.store.active with
  | some a => exact ⟨h, FileStep.same rfl rfl rfl⟩
  | none =>
    simp only [Bool.false_eq_true, if_false]
    have hfresh : s.store.nextId ∉ keys s.dir.blobs := fun hm => Nat.lt_irrefl _ (h.below _ (Or.inl hm))
    have hold : ∀ b ∈ s.store.blobs, b.id ≠ s.store.nextId := fun b hb => Nat.ne_of_lt (h.wf.2 b hb)
    have hbl : Store.blobs { s.store with nextId := s.store.nextId + 1 } = s.store.blobs := rfl
    refine ⟨?_, FileStep.newBlob h.below len rfl rfl rfl⟩
    refine { wf := ?_, activeMem := h.activeMem, ok := ?_, filesNodup := nodup_keys_put _ _ h.filesNodup,
             files := ?_, ignNodup := ?_, ignHeld := ?_, corrNodup := h.corrNodup, corrFiles := ?_, below := ?_,
             tight := ?_, cnt := h.cnt, idxNodup := h.idxNodup, idxFiles := ?_ }
    · exact ⟨h.wf.1, fun b hb => Nat.lt_succ_of_lt (h.wf.2 b hb)⟩
    · intro b hb
      have ob := h.ok b hb
      refine ⟨?_, ob.size, ob.onDisk, ob.idxNe, ob.snap, ob.fresh⟩
      show get (put s.dir.blobs s.store.nextId len) b.id = some (s.fsz b.id)
      rw [get_put, if_neg (hold b hb)]; exact ob.file
    · intro i
      show i ∈ keys (put s.dir.blobs s.store.nextId len) ↔
        ((∃ b ∈ s.store.blobs, b.id = i) ∨ i ∈ s.ignored ++ [s.store.nextId])
      rw [mem_keys_put, h.files i, List.mem_append, List.mem_singleton]
      constructor
      · rintro (e | hh | hh)
        · exact Or.inr (Or.inr e)
        · exact Or.inl hh
        · exact Or.inr (Or.inl hh)
      · rintro (hh | hh | e)
        · exact Or.inr (Or.inl hh)
        · exact Or.inr (Or.inr hh)
        · exact Or.inl e
    · show (s.ignored ++ [s.store.nextId]).Nodup
      rw [List.nodup_append]
      refine ⟨h.ignNodup, by simp, ?_⟩
      intro a ha' b hb e
      rw [List.mem_singleton] at hb
      subst e; subst hb
      exact hfresh ((h.files _).2 (Or.inr ha'))
    · intro i hi b hb
      have hi' : i ∈ s.ignored ++ [s.store.nextId] := hi
      rw [List.mem_append, List.mem_singleton] at hi'
      rcases hi' with hi' | hi'
      · exact h.ignHeld i hi' b hb
      · rw [hi']; exact hold b hb
    · intro i hi
      show i ∉ keys (put s.dir.blobs s.store.nextId len)
      rw [mem_keys_put]
      rintro (e | hm)
      · have := h.below i (Or.inr hi); omega
      · exact h.corrFiles i hi hm
    · intro i hi
      show i < s.store.nextId + 1
      rcases hi with hi | hi
      · rcases mem_keys_put.1 hi with e | hm
        · omega
        · exact Nat.lt_succ_of_lt (h.below i (Or.inl hm))
      · exact Nat.lt_succ_of_lt (h.below i (Or.inr hi))
    · exact ⟨Nat.succ_pos _, Or.inl (mem_keys_put.2 (Or.inl (by simp)))⟩
    · intro i hi
      exact mem_keys_put.2 (Or.inr (h.idxFiles i hi))

/-! ### where the blobs of a later state come from -/

theorem store_apply_shape_of_not_restart {s : Store} (hwf : s.WF) (op : Op) (hr : ∀ lazy, op ≠ .restart lazy) :
    OpShape s (s.apply op) := by
  cases op with
  | write k ts m d => exact Store.write_shape hwf k ts m d
  | delete k ts m oip => exact Store.delete_shape hwf k ts m oip
  | closeActive =>
    simp only [Store.apply]
    cases h : s.closeActive with
    | ok s' => exact Store.closeActive_shape hwf h
    | error e => exact .same (Cont.refl _) hwf.2
  | createActive =>
    simp only [Store.apply]
    cases h : s.tryCreateActive with
    | ok s' => exact Store.tryCreateActive_shape h
    | error e => exact .same (Cont.refl _) hwf.2
  | restoreActive =>
    simp only [Store.apply]
    cases h : s.restoreActive with
    | ok s' => exact Store.restoreActive_shape hwf h
    | error e => exact .same (Cont.refl _) hwf.2
  | replaceActive => exact Store.replaceActive_shape s
  | settle => exact Store.settle_shape hwf
  | restart lazy => exact absurd rfl (hr lazy)

theorem store_apply_bwd {s : Store} (hwf : s.WF) (op : Op) (hr : ∀ lazy, op ≠ .restart lazy) :
    ∀ b' ∈ (s.apply op).blobs, (∃ b ∈ s.blobs, b'.id = b.id ∧ b.recs <+: b'.recs) ∨ s.nextId ≤ b'.id := by
  intro b' hb'
  cases store_apply_shape_of_not_restart hwf op hr with
  | same hc _ =>
    obtain ⟨x, hx, h1, h2, _⟩ := hc.bwd b' hb'
    exact Or.inl ⟨x, hx, h1, h2⟩
  | new nb hid _ hc _ =>
    obtain ⟨x, hx, h1, h2, _⟩ := hc.bwd b' hb'
    rcases List.mem_append.1 hx with hx | hx
    · exact Or.inl ⟨x, hx, h1, h2⟩
    · rw [List.mem_singleton] at hx
      subst hx
      exact Or.inr (by rw [h1, hid]; exact Nat.le_refl _)

theorem store_run_bwd : ∀ (ops : List Op) {s : Store}, s.WF → (∀ o ∈ ops, ∀ lazy, o ≠ .restart lazy) →
    ∀ b' ∈ (s.run ops).blobs, (∃ b ∈ s.blobs, b'.id = b.id ∧ b.recs <+: b'.recs) ∨ s.nextId ≤ b'.id
  | [], _, _, _, b', hb' => Or.inl ⟨b', hb', rfl, List.prefix_refl _⟩
  | op :: ops, s, hwf, hops, b', hb' => by
    rw [Store.run_cons] at hb'
    have hr := hops op List.mem_cons_self
    have hle := Store.apply_nextId_le_of_not_restart s op hr
    rcases store_run_bwd ops (Store.apply_WF' hwf op) (fun o ho => hops o (List.mem_cons_of_mem _ ho)) b' hb' with
      ⟨b₁, hb₁, hid, hpre⟩ | hge
    · rcases store_apply_bwd hwf op hr b₁ hb₁ with ⟨b, hb, hid', hpre'⟩ | hge
      · exact Or.inl ⟨b, hb, hid.trans hid', hpre'.trans hpre⟩
      · exact Or.inr (by rw [hid]; exact hge)
    · exact Or.inr (Nat.le_trans hle hge)

theorem l2_not_restart (s : State) (op : AOp) (hr : ∀ lazy ignore bad, op ≠ .restart lazy ignore bad) :
    ∀ o ∈ l2 s op, ∀ lazy, o ≠ .restart lazy := by
  intro o ho lazy e
  subst e
  cases op with
  | write k ts m d rot dmp =>
    simp only [l2, List.mem_cons] at ho
    rcases ho with ho | ho
    · cases ho
    · split at ho
      · cases ho
      · split at ho
        · simp only [List.mem_cons] at ho
          rcases ho with ho | ho
          · cases ho
          · split at ho
            · simp at ho
            · cases ho
        · cases ho
  | delete k ts m oip => simp [l2] at ho
  | closeActive => simp [l2] at ho
  | createActive => simp [l2] at ho
  | restoreActive => simp [l2] at ho
  | force go => cases go <;> simp [l2] at ho
  | settle => simp [l2] at ho
  | restart lazy ignore bad => exact hr lazy ignore bad rfl

/-- one operation: every blob held afterwards continues a blob held before (same id, records extended), or its
    id is at least the `next_blob_id` of before -/
theorem step_recs_bwd {c : Cfg} {s : State} (h : Inv c s) (op : AOp) :
    ∀ b' ∈ (step c s op).store.blobs,
      (∃ b ∈ s.store.blobs, b'.id = b.id ∧ b.recs <+: b'.recs) ∨ s.store.nextId ≤ b'.id := by
  intro b' hb'
  by_cases hr : ∀ lazy ignore bad, op ≠ .restart lazy ignore bad
  · rw [step_store c s op hr] at hb'
    exact store_run_bwd _ h.wf (l2_not_restart s op hr) b' hb'
  · have : ∃ lazy ignore bad, op = .restart lazy ignore bad := by
      apply Classical.byContradiction
      intro hn
      exact hr (fun lazy ignore bad e => hn ⟨lazy, ignore, bad, e⟩)
    obtain ⟨lazy, ignore, bad, rfl⟩ := this
    rcases restart_blobs_from h lazy ignore bad b' hb' with ⟨b₀, hb₀, _, hid₀, hrec⟩ | ⟨hid₀, _⟩
    · exact Or.inl ⟨b₀, hb₀, hid₀, by rw [hrec]; exact List.prefix_refl _⟩
    · exact Or.inr (by rw [hid₀]; exact Nat.le_refl _)

/-- `next_blob_id` never decreases (on the directory-level model this needs no tightness hypothesis: it is
    recomputed from the two directories, and the ids of the quarantined files are counted) -/
theorem step_nextId_le {c : Cfg} {s : State} (h : Inv c s) (op : AOp) :
    s.store.nextId ≤ (step c s op).store.nextId := by
  have := (stepC_fileStep h op).next
  rw [stepC_st] at this
  omega

theorem runFrom_nextId_le {c : Cfg} : ∀ {s : State}, Inv c s → ∀ ops : List AOp,
    s.store.nextId ≤ (runFrom c s ops).store.nextId
  | _, _, [] => Nat.le_refl _
  | _, h, op :: ops => Nat.le_trans (step_nextId_le h op) (runFrom_nextId_le (inv_step h op) ops)

theorem runFrom_recs_bwd {c : Cfg} : ∀ (ops : List AOp) {s : State}, Inv c s →
    ∀ b' ∈ (runFrom c s ops).store.blobs,
      (∃ b ∈ s.store.blobs, b'.id = b.id ∧ b.recs <+: b'.recs) ∨ s.store.nextId ≤ b'.id
  | [], _, _, b', hb' => Or.inl ⟨b', hb', rfl, List.prefix_refl _⟩
  | op :: ops, s, h, b', hb' => by
    rw [runFrom_cons] at hb'
    rcases runFrom_recs_bwd ops (inv_step h op) b' hb' with ⟨b₁, hb₁, hid, hpre⟩ | hge
    · rcases step_recs_bwd h op b₁ hb₁ with ⟨b, hb, hid', hpre'⟩ | hge
      · exact Or.inl ⟨b, hb, hid.trans hid', hpre'.trans hpre⟩
      · exact Or.inr (by rw [hid]; exact hge)
    · exact Or.inr (Nat.le_trans (step_nextId_le h op) hge)

/-- any number of operations: a blob held before and after (same id) has its record list extended — an id, once
    its blob is quarantined or skipped, never names a held blob again -/
theorem runFrom_recs {c : Cfg} {s : State} (h : Inv c s) (ops : List AOp) :
    ∀ b ∈ s.store.blobs, ∀ b' ∈ (runFrom c s ops).store.blobs, b'.id = b.id → b.recs <+: b'.recs := by
  intro b hb b' hb' hid
  rcases runFrom_recs_bwd ops h b' hb' with ⟨b₀, hb₀, hid₀, hpre⟩ | hge
  · have : b₀ = b := Store.eq_of_id_eq h.wf.1 hb₀ hb (by rw [← hid₀, hid])
    rw [← this]; exact hpre
  · have := h.wf.2 b hb
    omega

/-- a restart leaves every blob file it does not quarantine exactly as long as it was -/
theorem restart_get_blobs {c : Cfg} {s : State} (h : Inv c s) (lazy ignore : Bool) (bad : List Nat) (i v : Nat)
    (hv : get s.dir.blobs i = some v) (hm : i ∉ (if ignore then [] else unreadable s bad)) :
    get (restart c s lazy ignore bad).dir.blobs i = some v := by
  have h1 := inv_closeSession (c := c) h
  have hun := unreadable_closeSession c s bad
  have hbl := closeSession_blobs c s
  unfold restart
  simp only
  generalize closeSession c s = s1 at h1 hun hbl ⊢
  rw [← hun] at hm
  rw [← hbl] at hv
  have hkey : i ∈ keys s1.dir.blobs := mem_keys_of_get hv
  split
  · rename_i he
    rw [List.isEmpty_iff.1 he] at hkey; cases hkey
  · have hlt : i < (initCore c s1 lazy ignore bad).store.nextId := by
      rw [initCore_nextId h1]; exact h1.below i (Or.inl hkey)
    have hcore : get (initCore c s1 lazy ignore bad).dir.blobs i = some v := by
      show get (dirAfterRead s1 ignore bad).blobs i = some v
      rw [get_dirAfterRead_blobs, if_neg hm]; exact hv
    unfold initExisting
    simp only
    generalize initCore c s1 lazy ignore bad = s2 at hlt hcore ⊢
    split
    · show get (put s2.dir.blobs s2.store.nextId blobHeaderSize) i = _
      rw [get_put, if_neg (Nat.ne_of_lt hlt)]; exact hcore
    · exact hcore

theorem mem_stepC_moved {c : Cfg} {s : State} {op : AOp} {i : Nat} :
    i ∈ (stepC c s op).moved ↔ ∃ lazy bad, op = .restart lazy false bad ∧ i ∈ unreadable s bad := by
  rw [stepC_moved]
  cases op with
  | restart lazy ignore bad =>
    cases ignore with
    | false =>
      constructor
      · intro h; exact ⟨lazy, bad, rfl, h⟩
      · rintro ⟨l, b, e, h⟩
        cases e; exact h
    | true =>
      constructor
      · intro h; cases h
      · rintro ⟨l, b, e, _⟩; cases e
  | write k ts m d rot dmp => exact ⟨fun h => (by cases h), fun ⟨_, _, e, _⟩ => (by cases e)⟩
  | delete k ts m oip => exact ⟨fun h => (by cases h), fun ⟨_, _, e, _⟩ => (by cases e)⟩
  | closeActive => exact ⟨fun h => (by cases h), fun ⟨_, _, e, _⟩ => (by cases e)⟩
  | createActive => exact ⟨fun h => (by cases h), fun ⟨_, _, e, _⟩ => (by cases e)⟩
  | restoreActive => exact ⟨fun h => (by cases h), fun ⟨_, _, e, _⟩ => (by cases e)⟩
  | force go => exact ⟨fun h => (by cases h), fun ⟨_, _, e, _⟩ => (by cases e)⟩
  | settle => exact ⟨fun h => (by cases h), fun ⟨_, _, e, _⟩ => (by cases e)⟩

end Acct
end Pearl
