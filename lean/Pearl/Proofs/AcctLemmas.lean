import Pearl.Model.Acct
import Pearl.Proofs.MaintLemmas
/-
Helper lemmas for the file part of C15 (`Pearl/Model/Acct.lean`): association lists, `maxNext`, the
structural invariant `Acct.Inv` and its preservation by every operation.
-/
namespace Pearl
namespace Acct

/-! ### association lists -/

section AL
variable {α : Type}

@[simp] theorem get_nil (i : Nat) : get ([] : List (Nat × α)) i = none := rfl

theorem get_cons (j : Nat) (v : α) (r : List (Nat × α)) (i : Nat) :
    get ((j, v) :: r) i = if j = i then some v else get r i := rfl

@[simp] theorem keys_nil : keys ([] : List (Nat × α)) = [] := rfl

@[simp] theorem keys_cons (p : Nat × α) (r : List (Nat × α)) : keys (p :: r) = p.1 :: keys r := rfl

theorem keys_append (l₁ l₂ : List (Nat × α)) : keys (l₁ ++ l₂) = keys l₁ ++ keys l₂ := by
  simp [keys]

theorem get_eq_none_iff : ∀ {l : List (Nat × α)} {i : Nat}, get l i = none ↔ i ∉ keys l
  | [], i => by simp
  | (j, v) :: r, i => by
    rw [get_cons]
    by_cases h : j = i
    · simp [h]
    · simp only [h, if_false, keys_cons, List.mem_cons, not_or]
      rw [get_eq_none_iff]
      exact ⟨fun h' => ⟨fun e => h e.symm, h'⟩, fun h' => h'.2⟩

theorem get_isSome_iff {l : List (Nat × α)} {i : Nat} : (get l i).isSome = true ↔ i ∈ keys l := by
  cases h : get l i with
  | none => simp [get_eq_none_iff.1 h]
  | some v =>
    simp only [Option.isSome_some, true_iff]
    apply Classical.byContradiction
    intro hn
    rw [get_eq_none_iff.2 hn] at h
    cases h

theorem mem_keys_of_get {l : List (Nat × α)} {i : Nat} {v : α} (h : get l i = some v) : i ∈ keys l :=
  get_isSome_iff.1 (by rw [h]; rfl)

theorem get_append : ∀ (l₁ l₂ : List (Nat × α)) (i : Nat),
    get (l₁ ++ l₂) i = match get l₁ i with | some v => some v | none => get l₂ i
  | [], l₂, i => rfl
  | (j, v) :: r, l₂, i => by
    rw [List.cons_append, get_cons, get_cons]
    by_cases h : j = i
    · simp [h]
    · simp only [h, if_false]; exact get_append r l₂ i

theorem get_del (l : List (Nat × α)) (P : Nat → Bool) (i : Nat) :
    get (del l P) i = if P i = true then none else get l i := by
  induction l with
  | nil => simp [del]
  | cons p r ih =>
    obtain ⟨j, v⟩ := p
    unfold del at ih ⊢
    rw [List.filter_cons]
    cases hp : P j with
    | true =>
      simp only [Bool.not_true, Bool.false_eq_true, if_false, ih, get_cons]
      by_cases h : j = i
      · subst h; simp [hp]
      · simp [h]
    | false =>
      simp only [Bool.not_false, if_true, get_cons, ih]
      by_cases h : j = i
      · subst h; simp [hp]
      · simp [h]

theorem keys_del (l : List (Nat × α)) (P : Nat → Bool) :
    keys (del l P) = (keys l).filter (fun i => !P i) := by
  simp [keys, del, List.filter_map, Function.comp_def]

theorem mem_keys_del {l : List (Nat × α)} {P : Nat → Bool} {i : Nat} :
    i ∈ keys (del l P) ↔ i ∈ keys l ∧ P i = false := by
  rw [keys_del]; simp

theorem nodup_keys_del {l : List (Nat × α)} (P : Nat → Bool) (h : (keys l).Nodup) :
    (keys (del l P)).Nodup := by
  rw [keys_del]; exact h.sublist List.filter_sublist

theorem get_put (l : List (Nat × α)) (j : Nat) (v : α) (i : Nat) :
    get (put l j v) i = if i = j then some v else get l i := by
  unfold put
  rw [get_append, get_del]
  by_cases h : i = j
  · subst h; simp [get_cons]
  · have h' : ¬ j = i := fun e => h e.symm
    simp only [beq_iff_eq, h, if_false, get_cons, h', get_nil]
    cases get l i <;> rfl

theorem mem_keys_put {l : List (Nat × α)} {j : Nat} {v : α} {i : Nat} :
    i ∈ keys (put l j v) ↔ i = j ∨ i ∈ keys l := by
  unfold put
  rw [keys_append, List.mem_append, mem_keys_del]
  simp only [keys_cons, keys_nil, List.mem_singleton, beq_eq_false_iff_ne, ne_eq]
  by_cases h : i = j <;> simp [h]

theorem nodup_keys_put {l : List (Nat × α)} (j : Nat) (v : α) (h : (keys l).Nodup) :
    (keys (put l j v)).Nodup := by
  unfold put
  rw [keys_append, List.nodup_append]
  refine ⟨nodup_keys_del _ h, by simp, ?_⟩
  intro a ha b hb
  simp only [keys_cons, keys_nil, List.mem_singleton] at hb
  have := (mem_keys_del.1 ha).2
  simp only [beq_eq_false_iff_ne, ne_eq] at this
  rw [hb]; exact this

theorem del_eq_self {l : List (Nat × α)} {P : Nat → Bool} (h : ∀ i ∈ keys l, P i = false) : del l P = l := by
  unfold del
  rw [List.filter_eq_self]
  intro p hp
  have := h p.1 (List.mem_map_of_mem (f := (·.1)) hp)
  simp [this]

theorem length_put_of_not_mem {l : List (Nat × α)} {j : Nat} (v : α) (h : j ∉ keys l) :
    (put l j v).length = l.length + 1 := by
  unfold put
  rw [del_eq_self]
  · simp
  · intro i hi
    simp only [beq_eq_false_iff_ne, ne_eq]
    intro e; exact h (e ▸ hi)

theorem get_mapIf : ∀ (l : List (Nat × α)) (P : Nat → Bool) (f : Nat → α → α) (i : Nat),
    get (mapIf l P f) i = (get l i).map (fun v => if P i = true then f i v else v)
  | [], _, _, _ => rfl
  | (j, v) :: r, P, f, i => by
    have ih := get_mapIf r P f i
    unfold mapIf at ih ⊢
    rw [List.map_cons]
    by_cases hp : P j = true
    · simp only [hp, if_true, get_cons, ih]
      by_cases h : j = i
      · subst h; simp [hp]
      · simp [h]
    · simp only [hp, Bool.false_eq_true, if_false, get_cons, ih]
      by_cases h : j = i
      · subst h; simp [hp]
      · simp [h]

theorem keys_mapIf (l : List (Nat × α)) (P : Nat → Bool) (f : Nat → α → α) : keys (mapIf l P f) = keys l := by
  unfold keys mapIf
  rw [List.map_map]
  apply List.map_congr_left
  intro p _
  simp only [Function.comp]
  split <;> rfl

theorem length_mapIf (l : List (Nat × α)) (P : Nat → Bool) (f : Nat → α → α) :
    (mapIf l P f).length = l.length := by simp [mapIf]

theorem get_map_blobs (f : Blob → α) : ∀ (ts : List Blob) (i : Nat),
    get (ts.map (fun b => (b.id, f b))) i = (ts.find? (·.id == i)).map f
  | [], _ => rfl
  | b :: ts, i => by
    rw [List.map_cons, get_cons, List.find?_cons]
    by_cases h : b.id = i
    · simp [h]
    · have hb : (b.id == i) = false := by simp [h]
      simp only [h, if_false, hb]
      exact get_map_blobs f ts i

theorem keys_map_blobs (f : Blob → α) (ts : List Blob) :
    keys (ts.map (fun b => (b.id, f b))) = ts.map (·.id) := by
  simp [keys, List.map_map, Function.comp_def]

end AL

/-! ### blobs with pairwise distinct ids -/

theorem find?_id_of_mem : ∀ {l : List Blob} {b : Blob}, (l.map (·.id)).Nodup → b ∈ l →
    l.find? (·.id == b.id) = some b
  | [], _, _, h => by simp at h
  | x :: l, b, hn, h => by
    rw [List.map_cons, List.nodup_cons] at hn
    rw [List.find?_cons]
    rcases List.mem_cons.1 h with rfl | h
    · simp
    · have : x.id ≠ b.id := fun e => hn.1 (e ▸ List.mem_map_of_mem (f := (·.id)) h)
      have hb : (x.id == b.id) = false := by simp [this]
      simp only [hb]
      exact find?_id_of_mem hn.2 h

theorem find?_id_none {l : List Blob} {i : Nat} (h : ∀ x ∈ l, x.id ≠ i) : l.find? (·.id == i) = none := by
  rw [List.find?_eq_none]
  intro x hx
  simp [h x hx]

theorem any_id_iff {l : List Blob} {i : Nat} : l.any (·.id == i) = true ↔ ∃ x ∈ l, x.id = i := by
  simp

theorem any_id_false {l : List Blob} {i : Nat} (h : ∀ x ∈ l, x.id ≠ i) : l.any (·.id == i) = false := by
  rw [Bool.eq_false_iff]
  intro h'
  obtain ⟨x, hx, e⟩ := any_id_iff.1 h'
  exact h x hx e

/-! ### `maxNext` -/

theorem foldl_maxNext_le_iff : ∀ (l : List Nat) (m n : Nat),
    l.foldl (fun m x => max m (x + 1)) m ≤ n ↔ m ≤ n ∧ ∀ x ∈ l, x < n
  | [], m, n => by simp
  | x :: l, m, n => by
    rw [List.foldl_cons, foldl_maxNext_le_iff l]
    simp only [List.mem_cons, forall_eq_or_imp]
    constructor
    · rintro ⟨h1, h2⟩; exact ⟨by omega, by omega, h2⟩
    · rintro ⟨h1, h2, h3⟩; exact ⟨by omega, h3⟩

theorem maxNext_le_iff {l : List Nat} {n : Nat} : maxNext l ≤ n ↔ ∀ x ∈ l, x < n := by
  unfold maxNext
  rw [foldl_maxNext_le_iff]
  simp

theorem lt_maxNext_of_mem {l : List Nat} {x : Nat} (h : x ∈ l) : x < maxNext l :=
  (maxNext_le_iff.1 (Nat.le_refl _)) x h

theorem maxNext_eq_of {l : List Nat} {n : Nat} (hlt : ∀ x ∈ l, x < n) (hpos : 0 < n) (hmem : n - 1 ∈ l) :
    maxNext l = n := by
  have h1 := maxNext_le_iff.2 hlt
  have h2 := lt_maxNext_of_mem hmem
  omega

/-- create-or-replace of the files of the blobs `ts` -/
theorem get_replace {α : Type} (l : List (Nat × α)) (ts : List Blob) (f : Blob → α) (i : Nat) :
    get (del l (fun id => ts.any (·.id == id)) ++ ts.map (fun b => (b.id, f b))) i =
      match ts.find? (·.id == i) with
      | some t => some (f t)
      | none => get l i := by
  rw [get_append, get_del, get_map_blobs]
  cases hf : ts.find? (·.id == i) with
  | none =>
    have : ts.any (·.id == i) = false := by
      rw [List.find?_eq_none] at hf
      rw [Bool.eq_false_iff]
      intro h'
      obtain ⟨x, hx, e⟩ := any_id_iff.1 h'
      exact hf x hx (by simp [e])
    simp only [this, Bool.false_eq_true, if_false, Option.map_none]
    cases get l i <;> rfl
  | some t =>
    have : ts.any (·.id == i) = true :=
      any_id_iff.2 ⟨t, List.mem_of_find?_eq_some hf, by simpa using List.find?_some hf⟩
    simp [this]

theorem keys_replace {α : Type} (l : List (Nat × α)) (ts : List Blob) (f : Blob → α) :
    keys (del l (fun id => ts.any (·.id == id)) ++ ts.map (fun b => (b.id, f b))) =
      (keys l).filter (fun i => !ts.any (·.id == i)) ++ ts.map (·.id) := by
  rw [keys_append, keys_del, keys_map_blobs]

theorem nodup_keys_replace {α : Type} {l : List (Nat × α)} {ts : List Blob} (f : Blob → α)
    (hl : (keys l).Nodup) (ht : (ts.map (·.id)).Nodup) :
    (keys (del l (fun id => ts.any (·.id == id)) ++ ts.map (fun b => (b.id, f b)))).Nodup := by
  rw [keys_replace, List.nodup_append]
  refine ⟨hl.sublist List.filter_sublist, ht, ?_⟩
  intro a ha b hb e
  subst e
  have h1 := (List.mem_filter.1 ha).2
  obtain ⟨x, hx, hxe⟩ := List.mem_map.1 hb
  have h2 : ts.any (·.id == a) = true := any_id_iff.2 ⟨x, hx, hxe⟩
  simp [h2] at h1

/-! ### the structural invariant -/

/-- a held blob against the directory -/
structure BlobOK (c : Cfg) (s : State) (b : Blob) : Prop where
  /-- its blob file exists and is as long as `File::size()` says -/
  file : get s.dir.blobs b.id = some (s.fsz b.id)
  /-- which is the blob header plus the records appended -/
  size : s.fsz b.id = Fs.contentLen c.klen b.recs
  /-- an `OnDisk` index is the index file of the directory -/
  onDisk : b.onDisk = true → ∃ f, get s.dir.idx b.id = some f ∧ s.isz b.id = f.len
  /-- an empty blob has no index file -/
  idxNe : ∀ f, get s.dir.idx b.id = some f → b.recs ≠ []
  /-- its index file was written by a dump when the blob had its first `n` records (`n > 0`) -/
  snap : ∀ f, get s.dir.idx b.id = some f → ∃ n, 0 < n ∧ n ≤ b.recs.length ∧
    f.len = c.idxLen (b.recs.take n) ∧ f.blobSize = Fs.contentLen c.klen (b.recs.take n)
  /-- the index file of an `OnDisk` index is up to date -/
  fresh : b.onDisk = true → ∀ f, get s.dir.idx b.id = some f →
    f.len = c.idxLen b.recs ∧ f.blobSize = Fs.contentLen c.klen b.recs

structure Inv (c : Cfg) (s : State) : Prop where
  wf : s.store.WF
  /-- the index of the active blob is in memory -/
  activeMem : ∀ a, s.store.active = some a → a.onDisk = false
  ok : ∀ b ∈ s.store.blobs, BlobOK c s b
  filesNodup : (keys s.dir.blobs).Nodup
  /-- the blob files of the work directory are those of the held blobs and the ignored ones -/
  files : ∀ i, i ∈ keys s.dir.blobs ↔ ((∃ b ∈ s.store.blobs, b.id = i) ∨ i ∈ s.ignored)
  ignNodup : s.ignored.Nodup
  ignHeld : ∀ i ∈ s.ignored, ∀ b ∈ s.store.blobs, b.id ≠ i
  corrNodup : s.dir.corrupted.Nodup
  /-- no id is in both directories -/
  corrFiles : ∀ i ∈ s.dir.corrupted, i ∉ keys s.dir.blobs
  below : ∀ i, i ∈ keys s.dir.blobs ∨ i ∈ s.dir.corrupted → i < s.store.nextId
  tight : 0 < s.store.nextId ∧
    (s.store.nextId - 1 ∈ keys s.dir.blobs ∨ s.store.nextId - 1 ∈ s.dir.corrupted)
  cnt : s.corruptedCnt = s.dir.corrupted.length
  idxNodup : (keys s.dir.idx).Nodup
  /-- no index file without its blob file -/
  idxFiles : ∀ i ∈ keys s.dir.idx, i ∈ keys s.dir.blobs

theorem mem_ids_iff {l : List Blob} {i : Nat} : (∃ b ∈ l, b.id = i) ↔ i ∈ l.map (·.id) := by
  simp

theorem ids_nodup {s : Store} (h : s.WF) : (s.blobs.map (·.id)).Nodup :=
  h.1.imp (fun hab => Nat.ne_of_lt hab)

theorem contentLen_nil (klen : Nat) : Fs.contentLen klen [] = blobHeaderSize := by
  simp [Fs.contentLen]

theorem contentLen_append (klen : Nat) (recs : List Rec) (r : Rec) :
    Fs.contentLen klen (recs ++ [r]) = Fs.contentLen klen recs + Fs.recLen klen r := by
  simp [Fs.contentLen, List.map_append, List.sum_append]; omega

theorem recLen_pos (klen : Nat) (r : Rec) : 0 < Fs.recLen klen r := by
  unfold Fs.recLen Fs.recHead headerSize; omega

theorem sum_recLen_eq_zero (klen : Nat) : ∀ l : List Rec, (l.map (Fs.recLen klen)).sum = 0 → l = []
  | [], _ => rfl
  | r :: l, h => by
    have := recLen_pos klen r
    simp only [List.map_cons, List.sum_cons] at h
    omega

/-- a blob file only grows: a prefix of the records with the same file length is all of them -/
theorem take_eq_of_contentLen_eq (klen : Nat) (recs : List Rec) (n : Nat)
    (h : Fs.contentLen klen (recs.take n) = Fs.contentLen klen recs) : recs.take n = recs := by
  have hsplit : recs = recs.take n ++ recs.drop n := (List.take_append_drop n recs).symm
  have h2 : Fs.contentLen klen recs =
      Fs.contentLen klen (recs.take n) + ((recs.drop n).map (Fs.recLen klen)).sum := by
    conv => lhs; rw [hsplit]
    simp only [Fs.contentLen, List.map_append, List.sum_append]; omega
  have h3 : recs.drop n = [] := sum_recLen_eq_zero klen _ (by omega)
  conv => rhs; rw [hsplit, h3, List.append_nil]

theorem snap_full {c : Cfg} {recs : List Rec} (hne : recs ≠ []) :
    ∃ n, 0 < n ∧ n ≤ recs.length ∧ c.idxLen recs = c.idxLen (recs.take n) ∧
      Fs.contentLen c.klen recs = Fs.contentLen c.klen (recs.take n) :=
  ⟨recs.length, List.length_pos_iff.2 hne, Nat.le_refl _, by rw [List.take_length], by rw [List.take_length]⟩

/-- the store changes without any file being touched: same blobs, residence flags may drop -/
theorem Inv.store_weaker {c : Cfg} {s : State} (h : Inv c s) (st' : Store)
    (hids : st'.blobs.map (·.id) = s.store.blobs.map (·.id))
    (hb : ∀ b' ∈ st'.blobs, ∃ b ∈ s.store.blobs, b'.id = b.id ∧ b'.recs = b.recs ∧
      (b'.onDisk = true → b.onDisk = true))
    (hn : st'.nextId = s.store.nextId)
    (hact : ∀ a, st'.active = some a → a.onDisk = false) : Inv c { s with store := st' } := by
  refine { h with wf := ?_, activeMem := hact, ok := ?_, files := ?_, ignHeld := ?_, below := ?_, tight := ?_ }
  · refine ⟨by rw [hids]; exact h.wf.1, ?_⟩
    intro b' hb'
    obtain ⟨b, hbm, hid, _, _⟩ := hb b' hb'
    rw [hn, hid]; exact h.wf.2 b hbm
  · intro b' hb'
    obtain ⟨b, hbm, hid, hr, hd⟩ := hb b' hb'
    have ob := h.ok b hbm
    exact ⟨by rw [hid]; exact ob.file, by rw [hid, hr]; exact ob.size,
      fun ho => by rw [hid]; exact ob.onDisk (hd ho), fun f hf => by rw [hr]; exact ob.idxNe f (by rw [← hid]; exact hf),
      fun f hf => by rw [hr]; exact ob.snap f (by rw [← hid]; exact hf),
      fun ho f hf => by rw [hr]; exact ob.fresh (hd ho) f (by rw [← hid]; exact hf)⟩
  · intro i
    show i ∈ keys s.dir.blobs ↔ ((∃ b ∈ st'.blobs, b.id = i) ∨ i ∈ s.ignored)
    rw [mem_ids_iff, hids, ← mem_ids_iff]; exact h.files i
  · intro i hi b' hb'
    obtain ⟨b, hbm, hid, _, _⟩ := hb b' hb'
    rw [hid]; exact h.ignHeld i hi b hbm
  · intro i hi; show i < st'.nextId; rw [hn]; exact h.below i hi
  · show 0 < st'.nextId ∧ _; rw [hn]; exact h.tight

/-- a store with the same list of blobs -/
theorem Inv.store_same {c : Cfg} {s : State} (h : Inv c s) (st' : Store)
    (hbl : st'.blobs = s.store.blobs) (hn : st'.nextId = s.store.nextId)
    (hact : ∀ a, st'.active = some a → a.onDisk = false) :
    Inv c { s with store := st' } :=
  h.store_weaker st' (by rw [hbl]) (fun b' hb' => ⟨b', by rw [← hbl]; exact hb', rfl, rfl, id⟩) hn hact

/-- records appended to the blobs whose id satisfies `P` (all of the same length `n`) -/
theorem Inv.append {c : Cfg} {s : State} (h : Inv c s) (st' : Store) (P : Nat → Bool) (n : Nat)
    (hids : st'.blobs.map (·.id) = s.store.blobs.map (·.id))
    (hb : ∀ b' ∈ st'.blobs, ∃ b ∈ s.store.blobs, b'.id = b.id ∧
      ((P b.id = false ∧ b'.recs = b.recs ∧ (b'.onDisk = true → b.onDisk = true)) ∨
        (P b.id = true ∧ b'.onDisk = false ∧ ∃ r, b'.recs = b.recs ++ [r] ∧ Fs.recLen c.klen r = n)))
    (hn : st'.nextId = s.store.nextId)
    (hact : ∀ a, st'.active = some a → a.onDisk = false) :
    Inv c { appendWhere s P n with store := st' } := by
  have hk : keys (mapIf s.dir.blobs P (fun id l => max l (s.fsz id + n))) = keys s.dir.blobs :=
    keys_mapIf _ _ _
  refine { wf := ?_, activeMem := hact, ok := ?_, filesNodup := ?_, files := ?_, ignNodup := h.ignNodup,
           ignHeld := ?_, corrNodup := h.corrNodup, corrFiles := ?_, below := ?_, tight := ?_, cnt := h.cnt,
           idxNodup := h.idxNodup, idxFiles := ?_ }
  · refine ⟨by rw [hids]; exact h.wf.1, ?_⟩
    intro b' hb'
    obtain ⟨b, hbm, hid, _⟩ := hb b' hb'
    show b'.id < st'.nextId
    rw [hn, hid]; exact h.wf.2 b hbm
  · intro b' hb'
    obtain ⟨b, hbm, hid, hr⟩ := hb b' hb'
    have ob := h.ok b hbm
    refine ⟨?_, ?_, ?_, ?_, ?_, ?_⟩
    · show get (mapIf s.dir.blobs P (fun id l => max l (s.fsz id + n))) b'.id = some (if P b'.id = true then s.fsz b'.id + n else s.fsz b'.id)
      rw [get_mapIf, hid, ob.file]
      cases P b.id <;> simp
    · show (if P b'.id = true then s.fsz b'.id + n else s.fsz b'.id) = _
      rw [hid]
      rcases hr with ⟨hp, hr, _⟩ | ⟨hp, _, r, hr, hl⟩
      · simp only [hp, Bool.false_eq_true, if_false, hr]; exact ob.size
      · simp only [hp, if_true, hr, contentLen_append, hl, ob.size]
    · intro ho
      show ∃ f, get s.dir.idx b'.id = some f ∧ s.isz b'.id = f.len
      rw [hid]
      rcases hr with ⟨_, _, hd⟩ | ⟨_, hoff, _⟩
      · exact ob.onDisk (hd ho)
      · rw [hoff] at ho; cases ho
    · intro f hf
      have hf' : get s.dir.idx b.id = some f := by rw [← hid]; exact hf
      rcases hr with ⟨_, hr, _⟩ | ⟨_, _, r, hr, _⟩
      · rw [hr]; exact ob.idxNe f hf'
      · rw [hr]; simp
    · intro f hf
      have hf' : get s.dir.idx b.id = some f := by rw [← hid]; exact hf
      obtain ⟨m, hm0, hml, h1, h2⟩ := ob.snap f hf'
      rcases hr with ⟨_, hr, _⟩ | ⟨_, _, r, hr, _⟩
      · rw [hr]; exact ⟨m, hm0, hml, h1, h2⟩
      · rw [hr]
        refine ⟨m, hm0, by simp; omega, ?_, ?_⟩
        · rw [List.take_append_of_le_length hml]; exact h1
        · rw [List.take_append_of_le_length hml]; exact h2
    · intro ho f hf
      have hf' : get s.dir.idx b.id = some f := by rw [← hid]; exact hf
      rcases hr with ⟨_, hr, hd⟩ | ⟨_, hoff, _⟩
      · rw [hr]; exact ob.fresh (hd ho) f hf'
      · rw [hoff] at ho; cases ho
  · show (keys (mapIf s.dir.blobs P (fun id l => max l (s.fsz id + n)))).Nodup
    rw [hk]; exact h.filesNodup
  · intro i
    show i ∈ keys (mapIf s.dir.blobs P (fun id l => max l (s.fsz id + n))) ↔ ((∃ b ∈ st'.blobs, b.id = i) ∨ i ∈ s.ignored)
    rw [hk, mem_ids_iff, hids, ← mem_ids_iff]; exact h.files i
  · intro i hi b' hb'
    obtain ⟨b, hbm, hid, _⟩ := hb b' hb'
    rw [hid]; exact h.ignHeld i hi b hbm
  · intro i hi
    show i ∉ keys (mapIf s.dir.blobs P (fun id l => max l (s.fsz id + n)))
    rw [hk]; exact h.corrFiles i hi
  · intro i hi
    show i < st'.nextId
    rw [hn]
    apply h.below i
    rcases hi with hi | hi
    · left; rw [← hk]; exact hi
    · right; exact hi
  · show 0 < st'.nextId ∧ (st'.nextId - 1 ∈ keys (mapIf s.dir.blobs P (fun id l => max l (s.fsz id + n))) ∨ _)
    rw [hn, hk]; exact h.tight
  · intro i hi
    show i ∈ keys (mapIf s.dir.blobs P (fun id l => max l (s.fsz id + n)))
    rw [hk]; exact h.idxFiles i hi

/-- a new blob file with the next id; the store gets the new, empty blob at the end -/
theorem Inv.newBlob {c : Cfg} {s : State} (h : Inv c s) (st' : Store)
    (hbl : st'.blobs = s.store.blobs ++ [{ id := s.store.nextId, recs := [] }])
    (hn : st'.nextId = s.store.nextId + 1)
    (hact : ∀ a, st'.active = some a → a.onDisk = false) : Inv c { newBlobFile s with store := st' } := by
  have hfresh : s.store.nextId ∉ keys s.dir.blobs := fun hm => Nat.lt_irrefl _ (h.below _ (Or.inl hm))
  have hold : ∀ b ∈ s.store.blobs, b.id ≠ s.store.nextId := fun b hb => Nat.ne_of_lt (h.wf.2 b hb)
  refine { wf := ?_, activeMem := hact, ok := ?_, filesNodup := ?_, files := ?_, ignNodup := h.ignNodup, ignHeld := ?_,
           corrNodup := h.corrNodup, corrFiles := ?_, below := ?_, tight := ?_, cnt := h.cnt,
           idxNodup := h.idxNodup, idxFiles := ?_ }
  · show st'.WF
    constructor
    · rw [hbl, List.map_append, List.pairwise_append]
      refine ⟨h.wf.1, by simp, ?_⟩
      intro a ha b hb
      simp only [List.map_cons, List.map_nil, List.mem_singleton] at hb
      obtain ⟨x, hx, rfl⟩ := List.mem_map.1 ha
      rw [hb]; exact h.wf.2 x hx
    · intro b hb
      rw [hbl, List.mem_append] at hb
      rw [hn]
      rcases hb with hb | hb
      · exact Nat.lt_succ_of_lt (h.wf.2 b hb)
      · simp only [List.mem_singleton] at hb; rw [hb]; exact Nat.lt_succ_self _
  · intro b' hb'
    have hb'' : b' ∈ s.store.blobs ++ [{ id := s.store.nextId, recs := [] }] := by rw [← hbl]; exact hb'
    rcases List.mem_append.1 hb'' with hb | hb
    · have ob := h.ok b' hb
      have hne := hold b' hb
      refine ⟨?_, ?_, ob.onDisk, ob.idxNe, ob.snap, ob.fresh⟩
      · show get (put s.dir.blobs s.store.nextId blobHeaderSize) b'.id =
          some (if b'.id = s.store.nextId then blobHeaderSize else s.fsz b'.id)
        rw [get_put]; simp only [hne, if_false]; exact ob.file
      · show (if b'.id = s.store.nextId then blobHeaderSize else s.fsz b'.id) = _
        simp only [hne, if_false]; exact ob.size
    · simp only [List.mem_singleton] at hb
      subst hb
      have hnone : ∀ f, get s.dir.idx s.store.nextId = some f → False :=
        fun f hf => hfresh (h.idxFiles _ (mem_keys_of_get hf))
      refine ⟨?_, ?_, ?_, ?_, ?_, ?_⟩
      · show get (put s.dir.blobs s.store.nextId blobHeaderSize) s.store.nextId =
          some (if s.store.nextId = s.store.nextId then blobHeaderSize else s.fsz s.store.nextId)
        rw [get_put]; simp
      · show (if s.store.nextId = s.store.nextId then blobHeaderSize else s.fsz s.store.nextId) = _
        simp [contentLen_nil]
      · intro ho; cases ho
      · intro f hf; exact (hnone f hf).elim
      · intro f hf; exact (hnone f hf).elim
      · intro ho; cases ho
  · exact nodup_keys_put _ _ h.filesNodup
  · intro i
    show i ∈ keys (put s.dir.blobs s.store.nextId blobHeaderSize) ↔ ((∃ b ∈ st'.blobs, b.id = i) ∨ i ∈ s.ignored)
    rw [mem_keys_put, h.files i, hbl]
    simp only [List.mem_append, List.mem_singleton]
    constructor
    · rintro (rfl | ⟨b, hb, rfl⟩ | hi)
      · exact Or.inl ⟨_, Or.inr rfl, rfl⟩
      · exact Or.inl ⟨b, Or.inl hb, rfl⟩
      · exact Or.inr hi
    · rintro (⟨b, hb | rfl, rfl⟩ | hi)
      · exact Or.inr (Or.inl ⟨b, hb, rfl⟩)
      · exact Or.inl rfl
      · exact Or.inr (Or.inr hi)
  · intro i hi b' hb'
    have hb'' : b' ∈ s.store.blobs ++ [{ id := s.store.nextId, recs := [] }] := by rw [← hbl]; exact hb'
    rcases List.mem_append.1 hb'' with hb | hb
    · exact h.ignHeld i hi b' hb
    · simp only [List.mem_singleton] at hb
      subst hb
      have : i < s.store.nextId := h.below i (Or.inl ((h.files i).2 (Or.inr hi)))
      exact fun e => Nat.lt_irrefl _ (e ▸ this)
  · intro i hi
    show i ∉ keys (put s.dir.blobs s.store.nextId blobHeaderSize)
    rw [mem_keys_put]
    rintro (e | hm)
    · have := h.below i (Or.inr hi); omega
    · exact h.corrFiles i hi hm
  · intro i hi
    show i < st'.nextId
    rw [hn]
    rcases hi with hi | hi
    · rcases mem_keys_put.1 hi with e | hm
      · omega
      · exact Nat.lt_succ_of_lt (h.below i (Or.inl hm))
    · exact Nat.lt_succ_of_lt (h.below i (Or.inr hi))
  · show 0 < st'.nextId ∧ (st'.nextId - 1 ∈ keys (put s.dir.blobs s.store.nextId blobHeaderSize) ∨ _)
    rw [hn]
    exact ⟨Nat.succ_pos _, Or.inl (mem_keys_put.2 (Or.inl (by omega)))⟩
  · intro i hi
    exact mem_keys_put.2 (Or.inr (h.idxFiles i hi))

theorem dumpFlag_id (b : Blob) : (dumpFlag b).id = b.id := by unfold dumpFlag; split <;> rfl
theorem dumpFlag_recs (b : Blob) : (dumpFlag b).recs = b.recs := by unfold dumpFlag; split <;> rfl

theorem closed_lt_active {s : Store} (h : s.WF) {a : Blob} (ha : s.active = some a) :
    ∀ b ∈ s.closed, b.id < a.id := by
  intro b hb
  have h1 := h.1
  simp only [Store.blobs, ha, Option.toList, List.map_append, List.pairwise_append] at h1
  exact h1.2.2 b.id (List.mem_map_of_mem hb) a.id (by simp)

theorem mem_blobs_of_closed {s : Store} {b : Blob} (hb : b ∈ s.closed) : b ∈ s.blobs :=
  List.mem_append_left _ hb

theorem mem_blobs_of_active {s : Store} {a : Blob} (ha : s.active = some a) : a ∈ s.blobs := by
  simp [Store.blobs, ha]

theorem dumpTargets_sub {s : Store} {b : Blob} (hb : b ∈ dumpTargets s) :
    b ∈ s.closed ∧ b.onDisk = false ∧ b.recs ≠ [] := by
  unfold dumpTargets at hb
  obtain ⟨h1, h2⟩ := List.mem_filter.1 hb
  simp only [Bool.and_eq_true, Bool.not_eq_eq_eq_not, Bool.not_true, List.isEmpty_eq_false_iff] at h2
  exact ⟨h1, h2.1, h2.2⟩

theorem dumpTargets_nodup {s : Store} (h : s.WF) : ((dumpTargets s).map (·.id)).Nodup := by
  have h1 : ((dumpTargets s).map (·.id)).Sublist (s.blobs.map (·.id)) :=
    ((List.filter_sublist (l := s.closed)).trans (List.sublist_append_left _ _)).map _
  exact (ids_nodup h).sublist h1

/-- one dump pass -/
theorem inv_dumpPass {c : Cfg} {s : State} (h : Inv c s) : Inv c (dumpPass c s) := by
  have hwf := h.wf
  have hnd := dumpTargets_nodup hwf
  have hbl : (s.store.apply .settle).blobs = s.store.closed.map dumpFlag ++ s.store.active.toList :=
    Store.settle_blobs s.store
  -- the index files after the pass
  have hget : ∀ i, get (dumpPass c s).dir.idx i =
      match (dumpTargets s.store).find? (·.id == i) with
      | some t => some (idxOf c s t)
      | none => get s.dir.idx i := fun i => get_replace _ _ _ i
  have hisz : ∀ i, (dumpPass c s).isz i =
      match (dumpTargets s.store).find? (·.id == i) with
      | some t => c.idxLen t.recs
      | none => s.isz i := fun i => rfl
  have hids : (s.store.apply .settle).blobs.map (·.id) = s.store.blobs.map (·.id) := by
    rw [hbl]
    simp only [Store.blobs, List.map_append, List.map_map]
    congr 1
    exact List.map_congr_left (fun b _ => dumpFlag_id b)
  -- a blob that is not a target keeps its index file and `isz`
  have hkeep : ∀ b ∈ s.store.blobs, b ∉ dumpTargets s.store →
      get (dumpPass c s).dir.idx b.id = get s.dir.idx b.id ∧ (dumpPass c s).isz b.id = s.isz b.id := by
    intro b hb hnt
    have : (dumpTargets s.store).find? (·.id == b.id) = none := by
      apply find?_id_none
      intro x hx e
      have hxb : x ∈ s.store.blobs := mem_blobs_of_closed (dumpTargets_sub hx).1
      exact hnt (Store.eq_of_id_eq hwf.1 hxb hb e ▸ hx)
    rw [hget, hisz, this]; exact ⟨rfl, rfl⟩
  have htgt : ∀ b ∈ dumpTargets s.store,
      get (dumpPass c s).dir.idx b.id = some (idxOf c s b) ∧ (dumpPass c s).isz b.id = c.idxLen b.recs := by
    intro b hb
    rw [hget, hisz, find?_id_of_mem hnd hb]; exact ⟨rfl, rfl⟩
  refine { wf := Store.apply_WF' hwf .settle, activeMem := fun a ha => h.activeMem a ha, ok := ?_,
           filesNodup := h.filesNodup, files := ?_,
           ignNodup := h.ignNodup, ignHeld := ?_, corrNodup := h.corrNodup, corrFiles := h.corrFiles,
           below := h.below, tight := h.tight, cnt := h.cnt, idxNodup := ?_, idxFiles := ?_ }
  · intro b' hb'
    have hb'' : b' ∈ s.store.closed.map dumpFlag ++ s.store.active.toList := by rw [← hbl]; exact hb'
    rcases List.mem_append.1 hb'' with hb | hb
    · obtain ⟨b, hbc, rfl⟩ := List.mem_map.1 hb
      have hbm := mem_blobs_of_closed hbc
      have ob := h.ok b hbm
      by_cases ht : b ∈ dumpTargets s.store
      · obtain ⟨h1, h2⟩ := htgt b ht
        have hne := (dumpTargets_sub ht).2.2
        have hfile : ∀ f, get (dumpPass c s).dir.idx (dumpFlag b).id = some f → f = idxOf c s b := by
          intro f hf
          rw [dumpFlag_id, h1] at hf
          exact (Option.some.inj hf).symm
        refine ⟨by rw [dumpFlag_id]; exact ob.file, by rw [dumpFlag_id, dumpFlag_recs]; exact ob.size, ?_, ?_, ?_, ?_⟩
        · intro _; rw [dumpFlag_id]; exact ⟨_, h1, h2⟩
        · intro f _; rw [dumpFlag_recs]; exact hne
        · intro f hf
          rw [hfile f hf, dumpFlag_recs]
          obtain ⟨m, hm0, hml, e1, e2⟩ := snap_full (c := c) hne
          exact ⟨m, hm0, hml, e1, by show s.fsz b.id = _; rw [ob.size]; exact e2⟩
        · intro _ f hf
          rw [hfile f hf, dumpFlag_recs]
          exact ⟨rfl, ob.size⟩
      · obtain ⟨h1, h2⟩ := hkeep b hbm ht
        have hon : (dumpFlag b).onDisk = true → b.onDisk = true := by
          intro ho
          unfold dumpFlag at ho
          split at ho
          · exact ho
          · rename_i hne
            apply Classical.byContradiction
            intro hoff
            apply ht
            unfold dumpTargets
            rw [List.mem_filter]
            refine ⟨hbc, ?_⟩
            simp only [Bool.not_eq_true] at hoff hne
            simp [hoff, hne]
        refine ⟨by rw [dumpFlag_id]; exact ob.file, by rw [dumpFlag_id, dumpFlag_recs]; exact ob.size, ?_, ?_, ?_, ?_⟩
        · intro ho
          rw [dumpFlag_id, h1, h2]
          exact ob.onDisk (hon ho)
        · intro f hf
          rw [dumpFlag_id, h1] at hf
          rw [dumpFlag_recs]; exact ob.idxNe f hf
        · intro f hf
          rw [dumpFlag_id, h1] at hf
          rw [dumpFlag_recs]; exact ob.snap f hf
        · intro ho f hf
          rw [dumpFlag_id, h1] at hf
          rw [dumpFlag_recs]; exact ob.fresh (hon ho) f hf
    · cases ha : s.store.active with
      | none => rw [ha] at hb; simp at hb
      | some a =>
        rw [ha] at hb
        simp only [Option.toList, List.mem_singleton] at hb
        subst hb
        have hbm := mem_blobs_of_active ha
        have ob := h.ok b' hbm
        have hnt : b' ∉ dumpTargets s.store := fun ht =>
          Nat.lt_irrefl _ (closed_lt_active hwf ha b' (dumpTargets_sub ht).1)
        obtain ⟨h1, h2⟩ := hkeep b' hbm hnt
        exact ⟨ob.file, ob.size, fun ho => by rw [h1, h2]; exact ob.onDisk ho,
          fun f hf => ob.idxNe f (by rw [← h1]; exact hf),
          fun f hf => ob.snap f (by rw [← h1]; exact hf),
          fun ho f hf => ob.fresh ho f (by rw [← h1]; exact hf)⟩
  · intro i
    show i ∈ keys s.dir.blobs ↔ ((∃ b ∈ (s.store.apply .settle).blobs, b.id = i) ∨ i ∈ s.ignored)
    rw [mem_ids_iff, hids, ← mem_ids_iff]; exact h.files i
  · intro i hi b' hb'
    have : b'.id ∈ (s.store.apply .settle).blobs.map (·.id) := List.mem_map_of_mem hb'
    rw [hids] at this
    obtain ⟨b, hb, e⟩ := List.mem_map.1 this
    rw [← e]; exact h.ignHeld i hi b hb
  · exact nodup_keys_replace _ h.idxNodup hnd
  · intro i hi
    have hi' : i ∈ (keys s.dir.idx).filter (fun i => !(dumpTargets s.store).any (·.id == i)) ++
        (dumpTargets s.store).map (·.id) := by rw [← keys_replace]; exact hi
    rcases List.mem_append.1 hi' with hm | hm
    · exact h.idxFiles i (List.mem_filter.1 hm).1
    · obtain ⟨b, hb, rfl⟩ := List.mem_map.1 hm
      exact (h.files b.id).2 (Or.inl ⟨b, mem_blobs_of_closed (dumpTargets_sub hb).1, rfl⟩)

/-- `Storage::close` -/
theorem inv_closeSession {c : Cfg} {s : State} (h : Inv c s) : Inv c (closeSession c s) := by
  unfold closeSession
  cases ha : s.store.active with
  | none => exact h
  | some a =>
    simp only
    split
    · rename_i hc
      simp only [Bool.and_eq_true, Bool.not_eq_eq_eq_not, Bool.not_true, List.isEmpty_eq_false_iff] at hc
      have ham := mem_blobs_of_active ha
      refine { h with ok := ?_, idxNodup := nodup_keys_put _ _ h.idxNodup, idxFiles := ?_ }
      · intro b hb
        have ob := h.ok b hb
        have hne_of_on : b.onDisk = true → b.id ≠ a.id := by
          intro ho e
          have := Store.eq_of_id_eq h.wf.1 hb ham e
          rw [this, hc.1] at ho; cases ho
        refine ⟨ob.file, ob.size, ?_, ?_, ?_, ?_⟩
        · intro ho
          show ∃ f, get (put s.dir.idx a.id (idxOf c s a)) b.id = some f ∧ s.isz b.id = f.len
          rw [get_put]
          simp only [hne_of_on ho, if_false]; exact ob.onDisk ho
        · intro f hf
          have hf' : get (put s.dir.idx a.id (idxOf c s a)) b.id = some f := hf
          rw [get_put] at hf'
          by_cases e : b.id = a.id
          · rw [Store.eq_of_id_eq h.wf.1 hb ham e]; exact hc.2
          · simp only [e, if_false] at hf'; exact ob.idxNe f hf'
        · intro f hf
          have hf' : get (put s.dir.idx a.id (idxOf c s a)) b.id = some f := hf
          rw [get_put] at hf'
          by_cases e : b.id = a.id
          · have hba := Store.eq_of_id_eq h.wf.1 hb ham e
            simp only [e, if_true, Option.some.injEq] at hf'
            rw [← hf', hba]
            obtain ⟨m, hm0, hml, e1, e2⟩ := snap_full (c := c) hc.2
            exact ⟨m, hm0, hml, e1, by show s.fsz a.id = _; rw [(h.ok a ham).size]; exact e2⟩
          · simp only [e, if_false] at hf'; exact ob.snap f hf'
        · intro ho f hf
          have hf' : get (put s.dir.idx a.id (idxOf c s a)) b.id = some f := hf
          rw [get_put] at hf'
          simp only [hne_of_on ho, if_false] at hf'
          exact ob.fresh ho f hf'
      · intro i hi
        rcases mem_keys_put.1 hi with e | hm
        · rw [e]; exact (h.files a.id).2 (Or.inl ⟨a, ham, rfl⟩)
        · exact h.idxFiles i hm
    · exact h

/-! ### the L2 operations, as far as the list of blobs is concerned -/

theorem replaceActive_blobs (s : Store) :
    s.replaceActive.blobs = s.blobs ++ [{ id := s.nextId, recs := [] }] ∧
      s.replaceActive.nextId = s.nextId + 1 := by
  unfold Store.replaceActive
  cases ha : s.active with
  | none => exact ⟨Store.blobs_createActive ha, rfl⟩
  | some a => simp [Store.blobs, Store.closed, Store.createActive, ha, List.filterMap_append]

theorem apply_createActive_of_none {s : Store} (ha : s.active = none) :
    s.apply .createActive = s.createActive := by
  simp [Store.apply, Store.tryCreateActive, ha]

theorem apply_createActive_of_some {s : Store} {a : Blob} (ha : s.active = some a) :
    s.apply .createActive = s := by
  simp [Store.apply, Store.tryCreateActive, ha]

theorem closeActive_blobs (s : Store) :
    (s.apply .closeActive).blobs = s.blobs ∧ (s.apply .closeActive).nextId = s.nextId ∧
      (s.apply .closeActive).active = none := by
  simp only [Store.apply, Store.closeActive]
  cases ha : s.active with
  | none => exact ⟨rfl, rfl, ha⟩
  | some a => simp [Store.blobs, Store.closed, ha, List.filterMap_append]

theorem restoreActive_blobs (s : Store) :
    (s.apply .restoreActive = s ∨
      ∃ ini b, s.blobs = ini ++ [b] ∧ (s.apply .restoreActive).blobs = ini ++ [{ b with onDisk := false }] ∧
        (s.apply .restoreActive).active = some { b with onDisk := false }) ∧
    (s.apply .restoreActive).nextId = s.nextId := by
  simp only [Store.apply, Store.restoreActive]
  cases ha : s.active with
  | some a => exact ⟨Or.inl rfl, rfl⟩
  | none =>
    cases hl : Store.lastPresent s.slots with
    | none => exact ⟨Or.inl rfl, rfl⟩
    | some p =>
      obtain ⟨i, b⟩ := p
      refine ⟨Or.inr ⟨(s.slots.set i none).filterMap id, b, ?_, ?_, rfl⟩, rfl⟩
      · simp [Store.blobs, Store.closed, ha, Store.lastPresent_some hl]
      · simp [Store.blobs, Store.closed]

theorem store_ensureActive_of_some {s : Store} {a : Blob} (ha : s.active = some a) : s.ensureActive = s := by
  simp [Store.ensureActive, ha]

theorem write_of_active {s : Store} {a : Blob} (ha : s.active = some a) (k : Key) (ts : Nat)
    (m : Option Meta) (d : Data) (hd : (!s.allowDup && (s.getLatestEntry k m).isFound) = false) :
    s.write k ts m d = { s with active := some (a.append (Fs.writeRec k ts m d)) } := by
  simp only [Store.write, store_ensureActive_of_some ha, hd, ha]
  rfl

theorem write_of_dedup {s : Store} {a : Blob} (ha : s.active = some a) (k : Key) (ts : Nat)
    (m : Option Meta) (d : Data) (hd : (!s.allowDup && (s.getLatestEntry k m).isFound) = true) :
    s.write k ts m d = s := by
  simp only [Store.write, store_ensureActive_of_some ha, hd]
  rfl

/-! ### the operations preserve the invariant -/

theorem ensureActive_store (s : State) : (ensureActive s).store = s.store.ensureActive := by
  unfold ensureActive Store.ensureActive
  cases ha : s.store.active with
  | some a => rfl
  | none => exact apply_createActive_of_none ha

theorem ensureActive_active (s : State) : ∃ a, (ensureActive s).store.active = some a := by
  rw [ensureActive_store]; exact Store.ensureActive_active s.store

theorem inv_ensureActive {c : Cfg} {s : State} (h : Inv c s) : Inv c (ensureActive s) := by
  unfold ensureActive
  cases ha : s.store.active with
  | some a => exact h
  | none =>
    simp only
    rw [apply_createActive_of_none ha]
    exact h.newBlob _ (Store.blobs_createActive ha) rfl (by
      intro a hact
      simp only [Store.createActive, Option.some.injEq] at hact
      rw [← hact])

theorem inv_replace {c : Cfg} {s : State} (h : Inv c s) :
    Inv c { newBlobFile s with store := s.store.apply .replaceActive } :=
  h.newBlob _ (replaceActive_blobs s.store).1 (replaceActive_blobs s.store).2 (by
    intro a hact
    have hact' : s.store.replaceActive.active = some a := hact
    unfold Store.replaceActive at hact'
    cases ha : s.store.active with
    | none =>
      simp only [ha, Store.createActive, Option.some.injEq] at hact'
      rw [← hact']
    | some x =>
      simp only [ha, Store.createActive, Option.some.injEq] at hact'
      rw [← hact'])

theorem inv_rotate {c : Cfg} {s : State} (h : Inv c s) (dmp : Bool) : Inv c (rotate c s dmp) := by
  unfold rotate
  cases dmp with
  | true => exact inv_dumpPass (inv_replace h)
  | false => exact inv_replace h

theorem inv_force {c : Cfg} {s : State} (h : Inv c s) (go : Bool) : Inv c (force c s go) := by
  unfold force
  cases go with
  | true => exact inv_dumpPass (inv_replace h)
  | false => exact inv_dumpPass h

theorem inv_closeActive {c : Cfg} {s : State} (h : Inv c s) : Inv c (closeActive c s) :=
  inv_dumpPass (h.store_same _ (closeActive_blobs s.store).1 (closeActive_blobs s.store).2.1
    (fun a ha => by rw [(closeActive_blobs s.store).2.2] at ha; cases ha))

theorem inv_restoreActive {c : Cfg} {s : State} (h : Inv c s) : Inv c (restoreActive s) := by
  obtain ⟨hb, hn⟩ := restoreActive_blobs s.store
  rcases hb with hb | ⟨ini, b, h1, h2, h3⟩
  · unfold restoreActive; rw [hb]; exact h
  · refine h.store_weaker _ (by rw [h1, h2]; simp) ?_ hn
      (fun a ha => by rw [h3] at ha; rw [← Option.some.inj ha])
    intro b' hb'
    rw [h2] at hb'
    rcases List.mem_append.1 hb' with hm | hm
    · exact ⟨b', by rw [h1]; exact List.mem_append_left _ hm, rfl, rfl, id⟩
    · simp only [List.mem_singleton] at hm
      subst hm
      exact ⟨b, by rw [h1]; simp, rfl, rfl, fun ho => by cases ho⟩

theorem inv_write {c : Cfg} {s : State} (h : Inv c s) (k : Key) (ts : Nat) (m : Option Meta) (d : Data)
    (rot dmp : Bool) : Inv c (write c s k ts m d rot dmp) := by
  have h0 := inv_ensureActive h
  unfold write
  simp only
  generalize ensureActive s = s0 at h0 ⊢
  split
  · exact h0
  · rename_i hd
    simp only [Bool.not_eq_true] at hd
    split
    · exact h0
    · rename_i a ha
      have h1 : Inv c { appendWhere s0 (· == a.id) (Fs.recLen c.klen (Fs.writeRec k ts m d)) with
          store := s0.store.apply (.write k ts m d) } := by
        have hw : s0.store.apply (.write k ts m d) =
            { s0.store with active := some (a.append (Fs.writeRec k ts m d)) } := write_of_active ha k ts m d hd
        rw [hw]
        have hbl : s0.store.blobs = s0.store.closed ++ [a] := by simp [Store.blobs, ha]
        have haoff : (a.append (Fs.writeRec k ts m d)).onDisk = false := h0.activeMem a ha
        refine h0.append _ _ _ ?_ ?_ rfl
          (fun x hx => by rw [← Option.some.inj (show some (a.append (Fs.writeRec k ts m d)) = some x from hx)]; exact haoff)
        · rw [hbl]; simp [Store.blobs, Store.closed, Blob.append]
        · intro b' hb'
          have hb'' : b' ∈ s0.store.closed ++ [a.append (Fs.writeRec k ts m d)] := hb'
          rcases List.mem_append.1 hb'' with hm | hm
          · refine ⟨b', mem_blobs_of_closed hm, rfl, Or.inl ⟨?_, rfl, id⟩⟩
            have := closed_lt_active h0.wf ha b' hm
            simp only [beq_eq_false_iff_ne, ne_eq]; omega
          · simp only [List.mem_singleton] at hm
            subst hm
            exact ⟨a, mem_blobs_of_active ha, rfl, Or.inr ⟨by simp, haoff, _, rfl, rfl⟩⟩
      cases rot with
      | true => exact inv_rotate h1 dmp
      | false => exact h1

theorem mem_delTargets {st : Store} {k : Key} {oip : Bool} {b : Blob} :
    b ∈ delTargets st k oip ↔
      (b ∈ st.closed ∧ (b.getLatest k).isFound = true) ∨
        (st.active = some b ∧ (!oip || (b.getLatest k).isFound) = true) := by
  unfold delTargets
  rw [List.mem_append, List.mem_filter, List.mem_filter, Option.mem_toList]

theorem delTargets_sub {st : Store} {k : Key} {oip : Bool} {b : Blob} (hb : b ∈ delTargets st k oip) :
    b ∈ st.blobs := by
  rcases mem_delTargets.1 hb with ⟨h1, _⟩ | ⟨h1, _⟩
  · exact mem_blobs_of_closed h1
  · exact mem_blobs_of_active h1

theorem deleteBase_of_active {st : Store} {a : Blob} (ha : st.active = some a) (oip : Bool) :
    st.deleteBase oip = st := by
  unfold Store.deleteBase
  split
  · rfl
  · exact store_ensureActive_of_some ha

theorem inv_delete {c : Cfg} {s : State} (h : Inv c s) (k : Key) (ts : Nat) (m : Option Meta) (oip : Bool) :
    Inv c (delete c s k ts m oip) := by
  unfold delete
  simp only
  have h0 : Inv c (if oip = true then s else ensureActive s) := by
    split
    · exact h
    · exact inv_ensureActive h
  have hbase : (if oip = true then s else ensureActive s).store.deleteBase oip =
      (if oip = true then s else ensureActive s).store := by
    cases oip with
    | true => rfl
    | false =>
      obtain ⟨a, ha⟩ := ensureActive_active s
      exact deleteBase_of_active ha false
  generalize (if oip = true then s else ensureActive s) = s0 at h0 hbase ⊢
  have hwf := h0.wf
  have hbl : (s0.store.apply (.delete k ts m oip)).blobs =
      s0.store.closed.map (fun b => (Store.blobDelete b k ts m true).1) ++
        s0.store.active.toList.map (fun b => (Store.blobDelete b k ts m oip).1) := by
    have := Store.delete_blobs s0.store k ts m oip
    rw [hbase] at this
    exact this
  have hnx : (s0.store.apply (.delete k ts m oip)).nextId = s0.store.nextId := by
    have := Store.delete_nextId s0.store k ts m oip
    rw [hbase] at this
    exact this
  have hP : ∀ b ∈ s0.store.blobs,
      ((delTargets s0.store k oip).any (·.id == b.id) = true ↔ b ∈ delTargets s0.store k oip) := by
    intro b hb
    constructor
    · intro hany
      obtain ⟨t, ht, e⟩ := any_id_iff.1 hany
      exact Store.eq_of_id_eq hwf.1 (delTargets_sub ht) hb e ▸ ht
    · intro ht; exact any_id_iff.2 ⟨b, ht, rfl⟩
  have hactive : (s0.store.apply (.delete k ts m oip)).active =
      s0.store.active.map (fun a => (Store.blobDelete a k ts m oip).1) := by
    have h1 : (s0.store.apply (.delete k ts m oip)).active =
        (s0.store.deleteBase oip).active.map (fun a => (Store.blobDelete a k ts m oip).1) := by
      simp only [Store.apply, Store.delete, Store.deleteBase]
      generalize (if oip = true then s0.store else s0.store.ensureActive) = st
      cases st.active <;> rfl
    rw [hbase] at h1
    exact h1
  have hoff : ∀ a, s0.store.active = some a → (Store.blobDelete a k ts m oip).1.onDisk = false := by
    intro a ha
    rw [Store.blobDelete_fst]
    split
    · rfl
    · exact h0.activeMem a ha
  refine h0.append _ _ _ ?_ ?_ hnx ?_
  · rw [hbl]
    simp only [Store.blobs, List.map_append, List.map_map]
    congr 1
    · exact List.map_congr_left (fun b _ => (Store.blobDelete_cont b k ts m true).1)
    · exact List.map_congr_left (fun b _ => (Store.blobDelete_cont b k ts m oip).1)
  · intro b' hb'
    rw [hbl] at hb'
    rcases List.mem_append.1 hb' with hm | hm
    · obtain ⟨b, hbc, rfl⟩ := List.mem_map.1 hm
      have hbm := mem_blobs_of_closed hbc
      refine ⟨b, hbm, (Store.blobDelete_cont b k ts m true).1, ?_⟩
      rw [Store.blobDelete_fst]
      cases hf : (b.getLatest k).isFound with
      | true =>
        right
        refine ⟨(hP b hbm).2 (mem_delTargets.2 (Or.inl ⟨hbc, hf⟩)), by simp [Store.mark],
          Store.marker k ts m, ?_, rfl⟩
        simp [Store.mark]
      | false =>
        left
        refine ⟨?_, by simp, by simp⟩
        rw [Bool.eq_false_iff]
        intro hp
        rcases mem_delTargets.1 ((hP b hbm).1 hp) with ⟨_, h2⟩ | ⟨h1, _⟩
        · rw [hf] at h2; cases h2
        · exact Nat.lt_irrefl _ (closed_lt_active hwf h1 b hbc)
    · cases ha : s0.store.active with
      | none => rw [ha] at hm; simp at hm
      | some a =>
        rw [ha] at hm
        simp only [Option.toList, List.map_cons, List.map_nil, List.mem_singleton] at hm
        subst hm
        have ham := mem_blobs_of_active ha
        refine ⟨a, ham, (Store.blobDelete_cont a k ts m oip).1, ?_⟩
        rw [Store.blobDelete_fst]
        cases hf : (!oip || (a.getLatest k).isFound) with
        | true =>
          right
          refine ⟨(hP a ham).2 (mem_delTargets.2 (Or.inr ⟨ha, hf⟩)), by simp [Store.mark],
            Store.marker k ts m, ?_, rfl⟩
          simp [Store.mark]
        | false =>
          left
          refine ⟨?_, by simp, by simp⟩
          rw [Bool.eq_false_iff]
          intro hp
          rcases mem_delTargets.1 ((hP a ham).1 hp) with ⟨h1, _⟩ | ⟨_, h2⟩
          · exact Nat.lt_irrefl _ (closed_lt_active hwf ha a h1)
          · rw [hf] at h2; cases h2
  · intro x hx
    rw [hactive] at hx
    cases ha : s0.store.active with
    | none => rw [ha] at hx; cases hx
    | some a =>
      rw [ha] at hx
      simp only [Option.map_some, Option.some.injEq] at hx
      rw [← hx]; exact hoff a ha

/-! ### restart -/

theorem maxNext_attained : ∀ {l : List Nat}, l ≠ [] → 0 < maxNext l ∧ maxNext l - 1 ∈ l := by
  intro l hne
  have hpos : 0 < maxNext l := by
    cases l with
    | nil => exact absurd rfl hne
    | cons x xs => exact Nat.lt_of_le_of_lt (Nat.zero_le _) (lt_maxNext_of_mem (List.mem_cons_self))
  refine ⟨hpos, ?_⟩
  apply Classical.byContradiction
  intro hnm
  have : maxNext l ≤ maxNext l - 1 := by
    apply maxNext_le_iff.2
    intro x hx
    have h1 := lt_maxNext_of_mem hx
    have h2 : x ≠ maxNext l - 1 := fun e => hnm (e ▸ hx)
    omega
  omega

theorem inv_initNew {c : Cfg} {s : State} (h : Inv c s) (he : keys s.dir.blobs = []) : Inv c (initNew s) := by
  have hidx : ∀ i, i ∉ keys s.dir.idx := fun i hi => by
    have := h.idxFiles i hi; rw [he] at this; cases this
  have hbl : (initNew s).store.blobs = [{ id := maxNext s.dir.corrupted, recs := [] }] := by
    simp [initNew, Store.blobs, Store.closed]
  refine { wf := ?_, activeMem := ?_, ok := ?_, filesNodup := nodup_keys_put _ _ h.filesNodup, files := ?_,
           ignNodup := List.nodup_nil, ignHeld := ?_, corrNodup := h.corrNodup, corrFiles := ?_,
           below := ?_, tight := ?_, cnt := rfl, idxNodup := h.idxNodup, idxFiles := ?_ }
  · constructor
    · rw [hbl]; simp
    · intro b hb
      rw [hbl] at hb
      simp only [List.mem_singleton] at hb
      rw [hb]; exact Nat.lt_succ_self _
  · intro a ha
    have ha' : some ({ id := maxNext s.dir.corrupted, recs := [] } : Blob) = some a := ha
    rw [← Option.some.inj ha']
  · intro b hb
    rw [hbl] at hb
    simp only [List.mem_singleton] at hb
    subst hb
    refine ⟨?_, ?_, (fun ho => by cases ho), (fun f hf => absurd (mem_keys_of_get hf) (hidx _)),
      (fun f hf => absurd (mem_keys_of_get hf) (hidx _)), (fun ho => by cases ho)⟩
    · show get (put s.dir.blobs (maxNext s.dir.corrupted) blobHeaderSize) (maxNext s.dir.corrupted) =
        some (if maxNext s.dir.corrupted = maxNext s.dir.corrupted then blobHeaderSize else 0)
      rw [get_put]; simp
    · show (if maxNext s.dir.corrupted = maxNext s.dir.corrupted then blobHeaderSize else 0) = _
      simp [contentLen_nil]
  · intro i
    show i ∈ keys (put s.dir.blobs (maxNext s.dir.corrupted) blobHeaderSize) ↔
      ((∃ b ∈ (initNew s).store.blobs, b.id = i) ∨ i ∈ [])
    rw [mem_keys_put, he, hbl]
    simp only [List.not_mem_nil, or_false, List.mem_singleton, exists_eq_left]
    exact eq_comm
  · intro i hi; cases hi
  · intro i hi
    show i ∉ keys (put s.dir.blobs (maxNext s.dir.corrupted) blobHeaderSize)
    rw [mem_keys_put, he]
    have hi' : i ∈ s.dir.corrupted := hi
    have := lt_maxNext_of_mem hi'
    simp only [List.not_mem_nil, or_false]
    omega
  · intro i hi
    show i < maxNext s.dir.corrupted + 1
    rcases hi with hi | hi
    · have hi' : i ∈ keys (put s.dir.blobs (maxNext s.dir.corrupted) blobHeaderSize) := hi
      rw [mem_keys_put, he] at hi'
      simp only [List.not_mem_nil, or_false] at hi'
      omega
    · have hi' : i ∈ s.dir.corrupted := hi
      have := lt_maxNext_of_mem hi'; omega
  · refine ⟨Nat.succ_pos _, Or.inl ?_⟩
    show maxNext s.dir.corrupted + 1 - 1 ∈ keys (put s.dir.blobs (maxNext s.dir.corrupted) blobHeaderSize)
    rw [mem_keys_put]; left; omega
  · intro i hi; exact absurd hi (hidx i)

theorem mem_unreadable {s : State} {bad : List Nat} {i : Nat} :
    i ∈ unreadable s bad ↔ i ∈ keys s.dir.blobs ∧ (i ∈ s.ignored ∨ i ∈ bad) := by
  unfold unreadable
  rw [List.mem_filter]
  simp

theorem contains_unreadable {s : State} {bad : List Nat} {i : Nat} :
    (unreadable s bad).contains i = true ↔ i ∈ unreadable s bad := by simp

theorem contains_unreadable_false {s : State} {bad : List Nat} {i : Nat} :
    (unreadable s bad).contains i = false ↔ i ∉ unreadable s bad := by
  rw [← contains_unreadable]; simp

theorem keptBlobs_eq {s : State} (hwf : s.store.WF) (bad : List Nat) :
    keptBlobs s bad = s.store.blobs.filter (fun b => !(unreadable s bad).contains b.id) := by
  unfold keptBlobs
  apply Store.sortById_of_sorted
  exact hwf.1.sublist ((List.filter_sublist).map _)

theorem mem_keptBlobs {s : State} (hwf : s.store.WF) {bad : List Nat} {b : Blob} :
    b ∈ keptBlobs s bad ↔ b ∈ s.store.blobs ∧ b.id ∉ unreadable s bad := by
  rw [keptBlobs_eq hwf, List.mem_filter]
  simp

theorem dropLast_append_getLast?_toList {α : Type} (l : List α) : l.dropLast ++ l.getLast?.toList = l := by
  cases h : l.getLast? with
  | none => rw [List.getLast?_eq_none_iff.1 h]; rfl
  | some a =>
    obtain ⟨ys, hys⟩ := List.getLast?_eq_some_iff.1 h
    rw [hys, List.dropLast_concat]; rfl

/-- `init_from_existing` up to the creation of a missing active blob -/
theorem inv_initCore {c : Cfg} {s : State} (h : Inv c s) (lazy ignore : Bool) (bad : List Nat) :
    Inv c (initCore c s lazy ignore bad) := by
  have hwf := h.wf
  -- the unreadable files
  have hUfiles : ∀ i ∈ unreadable s bad, i ∈ keys s.dir.blobs := fun i hi => (mem_unreadable.1 hi).1
  have hUnd : (unreadable s bad).Nodup := h.filesNodup.sublist List.filter_sublist
  have hIgnU : ∀ i ∈ s.ignored, i ∈ unreadable s bad := fun i hi =>
    mem_unreadable.2 ⟨(h.files i).2 (Or.inr hi), Or.inl hi⟩
  have hUcorr : ∀ i ∈ unreadable s bad, i ∉ s.dir.corrupted := fun i hi hc => h.corrFiles i hc (hUfiles i hi)
  -- the directory after `read_blobs`
  have hd1b : ∀ i, get (dirAfterRead s ignore bad).blobs i =
      if (unreadable s bad).contains i = true ∧ ignore = false then none else get s.dir.blobs i := by
    intro i
    unfold dirAfterRead
    cases ignore with
    | true => simp
    | false => simp only [Bool.false_eq_true, if_false, get_del]; simp
  have hd1i : ∀ i, get (dirAfterRead s ignore bad).idx i =
      if (unreadable s bad).contains i = true ∧ ignore = false then none else get s.dir.idx i := by
    intro i
    unfold dirAfterRead
    cases ignore with
    | true => simp
    | false => simp only [Bool.false_eq_true, if_false, get_del]; simp
  have hk1b : ∀ i, i ∈ keys (dirAfterRead s ignore bad).blobs ↔
      i ∈ keys s.dir.blobs ∧ (ignore = true ∨ i ∉ unreadable s bad) := by
    intro i
    unfold dirAfterRead
    cases ignore with
    | true => simp
    | false => simp only [Bool.false_eq_true, if_false, mem_keys_del, contains_unreadable_false]; simp
  have hk1i : ∀ i, i ∈ keys (dirAfterRead s ignore bad).idx ↔
      i ∈ keys s.dir.idx ∧ (ignore = true ∨ i ∉ unreadable s bad) := by
    intro i
    unfold dirAfterRead
    cases ignore with
    | true => simp
    | false => simp only [Bool.false_eq_true, if_false, mem_keys_del, contains_unreadable_false]; simp
  have hnd1b : (keys (dirAfterRead s ignore bad).blobs).Nodup := by
    unfold dirAfterRead
    cases ignore with
    | true => exact h.filesNodup
    | false => exact nodup_keys_del _ h.filesNodup
  have hnd1i : (keys (dirAfterRead s ignore bad).idx).Nodup := by
    unfold dirAfterRead
    cases ignore with
    | true => exact h.idxNodup
    | false => exact nodup_keys_del _ h.idxNodup
  have hc1 : ∀ i, i ∈ (dirAfterRead s ignore bad).corrupted ↔
      i ∈ s.dir.corrupted ∨ (ignore = false ∧ i ∈ unreadable s bad) := by
    intro i
    unfold dirAfterRead
    cases ignore with
    | true => simp
    | false =>
      simp only [Bool.false_eq_true, if_false, List.mem_append, List.mem_filter, true_and]
      constructor
      · rintro (hc | ⟨hu, _⟩)
        · exact Or.inl hc
        · exact Or.inr hu
      · rintro (hc | hu)
        · exact Or.inl hc
        · exact Or.inr ⟨hu, by simpa using hUcorr i hu⟩
  -- the kept blobs
  have hK := keptBlobs_eq hwf bad
  have hKmem : ∀ {b}, b ∈ keptBlobs s bad ↔ b ∈ s.store.blobs ∧ b.id ∉ unreadable s bad := mem_keptBlobs hwf
  have hKsorted : ((keptBlobs s bad).map (·.id)).Pairwise (· < ·) := by
    rw [hK]; exact hwf.1.sublist ((List.filter_sublist).map _)
  -- closed part and active part
  generalize hcl : (if lazy = true then keptBlobs s bad else (keptBlobs s bad).dropLast) = cl
  generalize hact : (if lazy = true then none else (keptBlobs s bad).getLast?) = act
  have hsplit : cl ++ act.toList = keptBlobs s bad := by
    rw [← hcl, ← hact]
    cases lazy with
    | true => simp
    | false => exact dropLast_append_getLast?_toList _
  have hclK : ∀ b ∈ cl, b ∈ keptBlobs s bad := fun b hb => by rw [← hsplit]; exact List.mem_append_left _ hb
  generalize hneed : cl.filter (fun b => !idxValid (dirAfterRead s ignore bad) b.id && !b.recs.isEmpty) = need
  have hneedcl : ∀ b ∈ need, b ∈ cl ∧ idxValid (dirAfterRead s ignore bad) b.id = false ∧ b.recs ≠ [] := by
    intro b hb
    rw [← hneed, List.mem_filter] at hb
    simp only [Bool.and_eq_true, Bool.not_eq_eq_eq_not, Bool.not_true, List.isEmpty_eq_false_iff] at hb
    exact ⟨hb.1, hb.2.1, hb.2.2⟩
  have hneednd : (need.map (·.id)).Nodup := by
    have h1 : (need.map (·.id)).Sublist ((keptBlobs s bad).map (·.id)) := by
      rw [← hneed, ← hsplit]
      exact ((List.filter_sublist).trans (List.sublist_append_left _ _)).map _
    exact (hKsorted.imp (fun hab => Nat.ne_of_lt hab)).sublist h1
  -- the new state, spelled out
  have hst : initCore c s lazy ignore bad =
      { store := { allowDup := s.store.allowDup
                   active := act.map (fun a => { a with onDisk := false })
                   slots := cl.map (fun b => some { b with onDisk := idxValid (dirAfterRead s ignore bad) b.id || !b.recs.isEmpty })
                   nextId := max (maxNext (keys s.dir.blobs)) (maxNext (dirAfterRead s ignore bad).corrupted) }
        fsz := fun id => blobFileLen (dirAfterRead s ignore bad) id
        isz := fun id => match need.find? (·.id == id) with
          | some b => c.idxLen b.recs
          | none => idxFileLen (dirAfterRead s ignore bad) id
        corruptedCnt := s.dir.corrupted.length + (if ignore = true then 0 else (unreadable s bad).length)
        dir := { dirAfterRead s ignore bad with
                 idx := del (dirAfterRead s ignore bad).idx (fun id => need.any (·.id == id)) ++
                   need.map (fun b => (b.id, (⟨c.idxLen b.recs, blobFileLen (dirAfterRead s ignore bad) b.id⟩ : IdxFile))) }
        ignored := if ignore = true then unreadable s bad else [] } := by
    unfold initCore
    simp only [hcl, hact, hneed]
    rfl
  rw [hst]
  -- its blobs
  have hbl' : Store.blobs
      { allowDup := s.store.allowDup
        active := act.map (fun a => { a with onDisk := false })
        slots := cl.map (fun b => some { b with onDisk := idxValid (dirAfterRead s ignore bad) b.id || !b.recs.isEmpty })
        nextId := max (maxNext (keys s.dir.blobs)) (maxNext (dirAfterRead s ignore bad).corrupted) } =
      cl.map (fun b => { b with onDisk := idxValid (dirAfterRead s ignore bad) b.id || !b.recs.isEmpty }) ++
        act.toList.map (fun a => { a with onDisk := false }) := by
    simp only [Store.blobs, Store.closed, Store.filterMap_id_map_some]
    cases act <;> rfl
  have hids : ∀ l : List Blob, l = cl.map (fun b => { b with onDisk := idxValid (dirAfterRead s ignore bad) b.id || !b.recs.isEmpty }) ++
        act.toList.map (fun a => { a with onDisk := false }) →
      l.map (·.id) = (keptBlobs s bad).map (·.id) := by
    intro l h1
    rw [h1, ← hsplit]
    simp [List.map_map, Function.comp_def]
  -- every new blob comes from a kept one
  have hback : ∀ b' ∈ cl.map (fun b => { b with onDisk := idxValid (dirAfterRead s ignore bad) b.id || !b.recs.isEmpty }) ++
        act.toList.map (fun a => ({ a with onDisk := false } : Blob)),
      ∃ b ∈ keptBlobs s bad, b'.id = b.id ∧ b'.recs = b.recs ∧
        (b'.onDisk = true → b ∈ cl ∧ (idxValid (dirAfterRead s ignore bad) b.id || !b.recs.isEmpty) = true) := by
    intro b' hb'
    rcases List.mem_append.1 hb' with hm | hm
    · obtain ⟨b, hb, rfl⟩ := List.mem_map.1 hm
      exact ⟨b, hclK b hb, rfl, rfl, fun ho => ⟨hb, ho⟩⟩
    · obtain ⟨b, hb, rfl⟩ := List.mem_map.1 hm
      exact ⟨b, by rw [← hsplit]; exact List.mem_append_right _ hb, rfl, rfl, fun ho => by cases ho⟩
  -- index files and `isz` of a kept blob
  have hfind : ∀ b ∈ keptBlobs s bad, b ∉ need → need.find? (·.id == b.id) = none := by
    intro b hb hn
    apply find?_id_none
    intro x hx e
    have hxK := hclK x (hneedcl x hx).1
    exact hn (Store.eq_of_id_eq hKsorted hxK hb e ▸ hx)
  refine { wf := ?_, activeMem := ?_, ok := ?_, filesNodup := hnd1b, files := ?_, ignNodup := ?_, ignHeld := ?_,
           corrNodup := ?_, corrFiles := ?_, below := ?_, tight := ?_, cnt := ?_,
           idxNodup := nodup_keys_replace _ hnd1i hneednd, idxFiles := ?_ }
  · -- wf
    constructor
    · rw [hids _ hbl']; exact hKsorted
    · intro b' hb'
      rw [hbl'] at hb'
      obtain ⟨b, hb, hid, _, _⟩ := hback b' hb'
      rw [hid]
      have h1 := (h.files b.id).2 (Or.inl ⟨b, (hKmem.1 hb).1, rfl⟩)
      have h2 := lt_maxNext_of_mem h1
      show b.id < max _ _
      omega
  · -- activeMem
    intro a ha
    have ha' : act.map (fun a => ({ a with onDisk := false } : Blob)) = some a := ha
    cases act with
    | none => cases ha'
    | some x => simp only [Option.map_some, Option.some.injEq] at ha'; rw [← ha']
  · -- ok
    intro b' hb'
    rw [hbl'] at hb'
    obtain ⟨b, hb, hid, hr, ho⟩ := hback b' hb'
    obtain ⟨hbm, hbU⟩ := hKmem.1 hb
    have ob := h.ok b hbm
    have hnc : ¬ ((unreadable s bad).contains b.id = true ∧ ignore = false) := fun hh => hbU (contains_unreadable.1 hh.1)
    have hfile : get (dirAfterRead s ignore bad).blobs b.id = some (s.fsz b.id) := by
      rw [hd1b, if_neg hnc]; exact ob.file
    have hfsz : blobFileLen (dirAfterRead s ignore bad) b.id = s.fsz b.id := by
      unfold blobFileLen; rw [hfile]; rfl
    have hidx1 : get (dirAfterRead s ignore bad).idx b.id = get s.dir.idx b.id := by
      rw [hd1i, if_neg hnc]
    -- the index file of `b` after the start
    have hidx2 : ∀ f, get (del (dirAfterRead s ignore bad).idx (fun id => need.any (·.id == id)) ++
          need.map (fun b => (b.id, (⟨c.idxLen b.recs, blobFileLen (dirAfterRead s ignore bad) b.id⟩ : IdxFile)))) b'.id = some f →
        (b ∈ need ∧ f = ⟨c.idxLen b.recs, s.fsz b.id⟩) ∨ (b ∉ need ∧ get s.dir.idx b.id = some f) := by
      intro f hf
      rw [get_replace, hid] at hf
      by_cases hn : b ∈ need
      · rw [find?_id_of_mem hneednd hn] at hf
        left; exact ⟨hn, by rw [← Option.some.inj hf, hfsz]⟩
      · rw [hfind b hb hn] at hf
        right; exact ⟨hn, by rw [← hidx1]; exact hf⟩
    have hvalid : b'.onDisk = true → b ∉ need → idxValid (dirAfterRead s ignore bad) b.id = true := by
      intro hon hn
      obtain ⟨hbcl, hflag⟩ := ho hon
      apply Classical.byContradiction
      intro hv
      simp only [Bool.not_eq_true] at hv
      apply hn
      rw [← hneed, List.mem_filter]
      refine ⟨hbcl, ?_⟩
      rw [hv] at hflag ⊢
      simpa using hflag
    refine ⟨?_, ?_, ?_, ?_, ?_, ?_⟩
    · show get (dirAfterRead s ignore bad).blobs b'.id = some (blobFileLen (dirAfterRead s ignore bad) b'.id)
      rw [hid, hfsz]; exact hfile
    · show blobFileLen (dirAfterRead s ignore bad) b'.id = _
      rw [hid, hfsz, hr]; exact ob.size
    · intro hon
      show ∃ f, get (del (dirAfterRead s ignore bad).idx (fun id => need.any (·.id == id)) ++ _) b'.id = some f ∧
        (match need.find? (·.id == b'.id) with
          | some b => c.idxLen b.recs
          | none => idxFileLen (dirAfterRead s ignore bad) b'.id) = f.len
      rw [get_replace, hid]
      by_cases hn : b ∈ need
      · rw [find?_id_of_mem hneednd hn]; exact ⟨_, rfl, rfl⟩
      · rw [hfind b hb hn]
        have hv := hvalid hon hn
        unfold idxValid at hv
        cases hg : get (dirAfterRead s ignore bad).idx b.id with
        | none => rw [hg] at hv; simp at hv
        | some f => exact ⟨f, rfl, by simp [idxFileLen, hg]⟩
    · intro f hf
      rw [hr]
      rcases hidx2 f hf with ⟨hn, _⟩ | ⟨_, hf'⟩
      · exact (hneedcl b hn).2.2
      · exact ob.idxNe f hf'
    · intro f hf
      rw [hr]
      rcases hidx2 f hf with ⟨hn, hfe⟩ | ⟨_, hf'⟩
      · obtain ⟨m, hm0, hml, e1, e2⟩ := snap_full (c := c) (hneedcl b hn).2.2
        rw [hfe]
        exact ⟨m, hm0, hml, e1, by show s.fsz b.id = _; rw [ob.size]; exact e2⟩
      · exact ob.snap f hf'
    · intro hon f hf
      rw [hr]
      rcases hidx2 f hf with ⟨hn, hfe⟩ | ⟨hn, hf'⟩
      · rw [hfe]; exact ⟨rfl, ob.size⟩
      · have hv := hvalid hon hn
        unfold idxValid at hv
        rw [hidx1, hf', hfile] at hv
        simp only [beq_iff_eq] at hv
        obtain ⟨m, _, _, e1, e2⟩ := ob.snap f hf'
        have hsz : f.blobSize = Fs.contentLen c.klen b.recs := by rw [hv]; exact ob.size
        have htake := take_eq_of_contentLen_eq c.klen b.recs m (by rw [← e2, hsz])
        rw [htake] at e1
        exact ⟨e1, hsz⟩
  · -- files
    intro i
    show i ∈ keys (dirAfterRead s ignore bad).blobs ↔
      ((∃ b ∈ Store.blobs _, b.id = i) ∨ i ∈ (if ignore = true then unreadable s bad else []))
    rw [mem_ids_iff, hids _ hbl', ← mem_ids_iff, hk1b]
    constructor
    · rintro ⟨hf, hor⟩
      by_cases hu : i ∈ unreadable s bad
      · rcases hor with hig | hnu
        · right; rw [hig]; exact hu
        · exact absurd hu hnu
      · left
        rcases (h.files i).1 hf with ⟨b, hb, rfl⟩ | hi
        · exact ⟨b, hKmem.2 ⟨hb, hu⟩, rfl⟩
        · exact absurd (hIgnU i hi) hu
    · rintro (⟨b, hb, rfl⟩ | hi)
      · obtain ⟨hbm, hbU⟩ := hKmem.1 hb
        exact ⟨(h.files b.id).2 (Or.inl ⟨b, hbm, rfl⟩), Or.inr hbU⟩
      · cases ignore with
        | true => exact ⟨hUfiles i hi, Or.inl rfl⟩
        | false => cases hi
  · show (if ignore = true then unreadable s bad else []).Nodup
    split
    · exact hUnd
    · exact List.nodup_nil
  · intro i hi b' hb'
    have hi' : i ∈ (if ignore = true then unreadable s bad else []) := hi
    have hb'' : b' ∈ Store.blobs _ := hb'
    rw [hbl'] at hb''
    obtain ⟨b, hb, hid, _, _⟩ := hback b' hb''
    have hiU : i ∈ unreadable s bad := by
      split at hi'
      · exact hi'
      · cases hi'
    rw [hid]
    intro e
    exact (hKmem.1 hb).2 (e ▸ hiU)
  · -- corrNodup
    show (dirAfterRead s ignore bad).corrupted.Nodup
    unfold dirAfterRead
    cases ignore with
    | true => exact h.corrNodup
    | false =>
      simp only [Bool.false_eq_true, if_false]
      rw [List.nodup_append]
      refine ⟨h.corrNodup, hUnd.sublist List.filter_sublist, ?_⟩
      intro a ha b hb e
      subst e
      have := (List.mem_filter.1 hb).2
      simp [ha] at this
  · -- corrFiles
    intro i hi
    show i ∉ keys (dirAfterRead s ignore bad).blobs
    rw [hk1b]
    rintro ⟨hf, hor⟩
    rcases (hc1 i).1 hi with hc | ⟨hig, hu⟩
    · exact h.corrFiles i hc hf
    · rcases hor with h1 | h1
      · rw [hig] at h1; cases h1
      · exact h1 hu
  · -- below
    intro i hi
    show i < max (maxNext (keys s.dir.blobs)) (maxNext (dirAfterRead s ignore bad).corrupted)
    rcases hi with hi | hi
    · have hi' : i ∈ keys (dirAfterRead s ignore bad).blobs := hi
      have := lt_maxNext_of_mem ((hk1b i).1 hi').1
      omega
    · have hi' : i ∈ (dirAfterRead s ignore bad).corrupted := hi
      have := lt_maxNext_of_mem hi'
      omega
  · -- tight
    show 0 < max (maxNext (keys s.dir.blobs)) (maxNext (dirAfterRead s ignore bad).corrupted) ∧
      (max (maxNext (keys s.dir.blobs)) (maxNext (dirAfterRead s ignore bad).corrupted) - 1 ∈
          keys (dirAfterRead s ignore bad).blobs ∨
        max (maxNext (keys s.dir.blobs)) (maxNext (dirAfterRead s ignore bad).corrupted) - 1 ∈
          (dirAfterRead s ignore bad).corrupted)
    -- the maximum is attained in one of the two listings
    have hatt : 0 < max (maxNext (keys s.dir.blobs)) (maxNext (dirAfterRead s ignore bad).corrupted) ∧
        (max (maxNext (keys s.dir.blobs)) (maxNext (dirAfterRead s ignore bad).corrupted) - 1 ∈ keys s.dir.blobs ∨
          max (maxNext (keys s.dir.blobs)) (maxNext (dirAfterRead s ignore bad).corrupted) - 1 ∈
            (dirAfterRead s ignore bad).corrupted) := by
      by_cases hle : maxNext (dirAfterRead s ignore bad).corrupted ≤ maxNext (keys s.dir.blobs)
      · rw [Nat.max_eq_left hle]
        by_cases hne : keys s.dir.blobs = []
        · -- then the old `nextId - 1` is in `corrupted`
          have ht := h.tight
          rw [hne] at ht
          rcases ht.2 with h1 | h1
          · cases h1
          · have h2 := lt_maxNext_of_mem ((hc1 _).2 (Or.inl h1))
            have h3 : maxNext (keys s.dir.blobs) = 0 := by rw [hne]; rfl
            omega
        · obtain ⟨h1, h2⟩ := maxNext_attained hne
          exact ⟨h1, Or.inl h2⟩
      · have hle' : maxNext (keys s.dir.blobs) ≤ maxNext (dirAfterRead s ignore bad).corrupted := by omega
        rw [Nat.max_eq_right hle']
        have hne : (dirAfterRead s ignore bad).corrupted ≠ [] := by
          intro e; rw [e] at hle; exact hle (Nat.zero_le _)
        obtain ⟨h1, h2⟩ := maxNext_attained hne
        exact ⟨h1, Or.inr h2⟩
    refine ⟨hatt.1, ?_⟩
    rcases hatt.2 with h1 | h1
    · by_cases hu : max (maxNext (keys s.dir.blobs)) (maxNext (dirAfterRead s ignore bad).corrupted) - 1 ∈
          unreadable s bad
      · rcases Bool.eq_false_or_eq_true ignore with hig | hig
        · left; rw [hk1b]; exact ⟨h1, Or.inl hig⟩
        · right; rw [hc1]; exact Or.inr ⟨hig, hu⟩
      · left; rw [hk1b]; exact ⟨h1, Or.inr hu⟩
    · exact Or.inr h1
  · -- cnt
    show s.dir.corrupted.length + (if ignore = true then 0 else (unreadable s bad).length) =
      (dirAfterRead s ignore bad).corrupted.length
    unfold dirAfterRead
    cases ignore with
    | true => simp
    | false =>
      simp only [Bool.false_eq_true, if_false, List.length_append]
      congr 1
      rw [List.filter_eq_self.2]
      intro i hi
      simpa using hUcorr i hi
  · -- idxFiles
    intro i hi
    have hi' : i ∈ (keys (dirAfterRead s ignore bad).idx).filter (fun i => !need.any (·.id == i)) ++
        need.map (·.id) := by rw [← keys_replace]; exact hi
    show i ∈ keys (dirAfterRead s ignore bad).blobs
    rw [hk1b]
    rcases List.mem_append.1 hi' with hm | hm
    · obtain ⟨h1, h2⟩ := (hk1i i).1 (List.mem_filter.1 hm).1
      exact ⟨h.idxFiles i h1, h2⟩
    · obtain ⟨b, hb, rfl⟩ := List.mem_map.1 hm
      obtain ⟨hbm, hbU⟩ := hKmem.1 (hclK b (hneedcl b hb).1)
      exact ⟨(h.files b.id).2 (Or.inl ⟨b, hbm, rfl⟩), Or.inr hbU⟩

theorem inv_initExisting {c : Cfg} {s : State} (h : Inv c s) (lazy ignore : Bool) (bad : List Nat) :
    Inv c (initExisting c s lazy ignore bad) := by
  have h1 := inv_initCore h lazy ignore bad
  unfold initExisting
  simp only
  generalize initCore c s lazy ignore bad = s1 at h1 ⊢
  split
  · rename_i hc
    simp only [Bool.and_eq_true, Option.isNone_iff_eq_none] at hc
    refine h1.newBlob _ ?_ rfl ?_
    · simp [Store.blobs, Store.closed, hc.2]
    · intro a ha
      have ha' : some ({ id := s1.store.nextId, recs := [] } : Blob) = some a := ha
      rw [← Option.some.inj ha']
  · exact h1

theorem inv_restart {c : Cfg} {s : State} (h : Inv c s) (lazy ignore : Bool) (bad : List Nat) :
    Inv c (restart c s lazy ignore bad) := by
  have h1 := inv_closeSession (c := c) h
  unfold restart
  simp only
  generalize closeSession c s = s1 at h1 ⊢
  split
  · rename_i he
    exact inv_initNew h1 (List.isEmpty_iff.1 he)
  · exact inv_initExisting h1 lazy ignore bad

theorem inv_step {c : Cfg} {s : State} (h : Inv c s) (op : AOp) : Inv c (step c s op) := by
  cases op with
  | write k ts m d rot dmp => exact inv_write h k ts m d rot dmp
  | delete k ts m oip => exact inv_delete h k ts m oip
  | closeActive => exact inv_closeActive h
  | createActive => exact inv_ensureActive h
  | restoreActive => exact inv_restoreActive h
  | force go => exact inv_force h go
  | settle => exact inv_dumpPass h
  | restart lazy ignore bad => exact inv_restart h lazy ignore bad

theorem inv_init (c : Cfg) (allowDup : Bool) : Inv c (init allowDup) := by
  have hbl : (init allowDup).store.blobs = [{ id := 0, recs := [] }] := by
    simp [init, initNew, maxNext, Store.blobs, Store.closed]
  refine { wf := ?_, activeMem := ?_, ok := ?_, filesNodup := ?_, files := ?_, ignNodup := List.nodup_nil,
           ignHeld := (fun i hi => by cases hi), corrNodup := List.nodup_nil,
           corrFiles := (fun i hi => by cases hi), below := ?_, tight := ?_, cnt := rfl,
           idxNodup := List.nodup_nil, idxFiles := (fun i hi => by cases hi) }
  · constructor
    · rw [hbl]; simp
    · intro b hb
      rw [hbl] at hb
      simp only [List.mem_singleton] at hb
      rw [hb]; exact Nat.zero_lt_one
  · intro a ha
    have ha' : some ({ id := 0, recs := [] } : Blob) = some a := ha
    rw [← Option.some.inj ha']
  · intro b hb
    rw [hbl] at hb
    simp only [List.mem_singleton] at hb
    subst hb
    exact ⟨rfl, by simp [init, initNew, maxNext, contentLen_nil], (fun ho => by cases ho),
      (fun f hf => by cases hf), (fun f hf => by cases hf), (fun ho => by cases ho)⟩
  · simp [init, initNew, maxNext, put, del, keys]
  · intro i
    rw [hbl]
    simp [init, initNew, maxNext, put, del, keys, eq_comm]
  · intro i hi
    rcases hi with hi | hi
    · simp [init, initNew, maxNext, put, del, keys] at hi
      rw [hi]; exact Nat.zero_lt_one
    · cases hi
  · exact ⟨Nat.zero_lt_one, Or.inl (by simp [init, initNew, maxNext, put, del, keys])⟩

theorem runFrom_nil (c : Cfg) (s : State) : runFrom c s [] = s := rfl

theorem runFrom_cons (c : Cfg) (s : State) (op : AOp) (ops : List AOp) :
    runFrom c s (op :: ops) = runFrom c (step c s op) ops := rfl

theorem runFrom_append (c : Cfg) (s : State) (ops ops' : List AOp) :
    runFrom c s (ops ++ ops') = runFrom c (runFrom c s ops) ops' := by
  simp [runFrom, List.foldl_append]

theorem inv_runFrom {c : Cfg} : ∀ {s : State}, Inv c s → ∀ ops : List AOp, Inv c (runFrom c s ops)
  | _, h, [] => h
  | _, h, op :: ops => inv_runFrom (inv_step h op) ops

theorem inv_run (c : Cfg) (allowDup : Bool) (ops : List AOp) : Inv c (run c allowDup ops) :=
  inv_runFrom (inv_init c allowDup) ops

/-! ### the identities follow from the invariant -/

theorem Inv.blobsCount_eq {c : Cfg} {s : State} (h : Inv c s) :
    blobsCount s + s.ignored.length = dirBlobFiles s := by
  have hnd : (s.store.blobs.map (·.id) ++ s.ignored).Nodup := by
    rw [List.nodup_append]
    refine ⟨ids_nodup h.wf, h.ignNodup, ?_⟩
    intro a ha b hb e
    obtain ⟨x, hx, rfl⟩ := List.mem_map.1 ha
    exact h.ignHeld b hb x hx e
  have hperm : (s.store.blobs.map (·.id) ++ s.ignored).Perm (keys s.dir.blobs) := by
    rw [List.perm_ext_iff_of_nodup hnd h.filesNodup]
    intro i
    rw [List.mem_append, ← mem_ids_iff]
    exact (h.files i).symm
  have := hperm.length_eq
  simp only [List.length_append, List.length_map, keys] at this
  exact this

theorem Inv.nextBlobId_eq {c : Cfg} {s : State} (h : Inv c s) : nextBlobId s = dirNextId s := by
  unfold nextBlobId dirNextId
  symm
  apply maxNext_eq_of
  · intro x hx
    exact h.below x (List.mem_append.1 hx)
  · exact h.tight.1
  · exact List.mem_append.2 h.tight.2

theorem Inv.corrupted_eq {c : Cfg} {s : State} (h : Inv c s) : corruptedBlobsCount s = dirCorrupted s := h.cnt

theorem Inv.blobDiskUsed_eq {c : Cfg} {s : State} (h : Inv c s) {b : Blob} (hb : b ∈ s.store.blobs) :
    blobDiskUsed s b = blobFileLen s.dir b.id + idxFileLen s.dir b.id := by
  have ob := h.ok b hb
  unfold blobDiskUsed blobFileLen
  rw [ob.file]
  cases ho : b.onDisk with
  | false => rfl
  | true =>
    obtain ⟨f, hf, hl⟩ := ob.onDisk ho
    simp [idxFileLen, hf, hl]

theorem Inv.diskUsed_eq {c : Cfg} {s : State} (h : Inv c s) : diskUsed s = dirDiskUsed s := by
  unfold diskUsed dirDiskUsed
  congr 1
  exact List.map_congr_left (fun b hb => h.blobDiskUsed_eq hb)

/-- `disk_used` in terms of the history: the blob header and the records appended, per held blob, plus the
    index files of the held blobs -/
theorem Inv.diskUsed_history {c : Cfg} {s : State} (h : Inv c s) :
    diskUsed s = (s.store.blobs.map (fun b => Fs.contentLen c.klen b.recs + idxFileLen s.dir b.id)).sum := by
  rw [h.diskUsed_eq]
  unfold dirDiskUsed
  congr 1
  apply List.map_congr_left
  intro b hb
  have ob := h.ok b hb
  unfold blobFileLen
  rw [ob.file, ← ob.size]; rfl

/-- the index file of a blob file that is gone or not held is counted by nobody: every index file of the
    work directory has an id below `next_blob_id`, so no future blob gets its id either -/
theorem Inv.idx_below {c : Cfg} {s : State} (h : Inv c s) : ∀ i ∈ keys s.dir.idx, i < nextBlobId s :=
  fun i hi => h.below i (Or.inl (h.idxFiles i hi))

/-! ### connection with L2: the `store` component evolves by `Store.apply` -/

/-- the L2 operations performed by one step in state `s` -/
def l2 (s : State) : AOp → List Op
  | .write k ts m d rot dmp =>
    .write k ts m d ::
      (if s.store.dedups k m then []
       else if rot then .replaceActive :: (if dmp then [.settle] else []) else [])
  | .delete k ts m oip => [.delete k ts m oip]
  | .closeActive => [.closeActive, .settle]
  | .createActive => [.createActive]
  | .restoreActive => [.restoreActive]
  | .force go => (if go then [.replaceActive] else []) ++ [.settle]
  | .settle => [.settle]
  | .restart lazy _ _ => [.restart lazy]

theorem store_ensureActive_idem (s : Store) : s.ensureActive.ensureActive = s.ensureActive := by
  obtain ⟨a, ha⟩ := s.ensureActive_active
  exact store_ensureActive_of_some ha

theorem store_write_ensureActive (s : Store) (k : Key) (ts : Nat) (m : Option Meta) (d : Data) :
    s.ensureActive.write k ts m d = s.write k ts m d := by
  simp only [Store.write, store_ensureActive_idem]

theorem store_delete_ensureActive (s : Store) (k : Key) (ts : Nat) (m : Option Meta) :
    s.ensureActive.delete k ts m false = s.delete k ts m false := by
  simp only [Store.delete, store_ensureActive_idem, Bool.false_eq_true, if_false]

theorem write_store (c : Cfg) (s : State) (k : Key) (ts : Nat) (m : Option Meta) (d : Data) (rot dmp : Bool) :
    (write c s k ts m d rot dmp).store = s.store.run (l2 s (.write k ts m d rot dmp)) := by
  have hs0 := ensureActive_store s
  obtain ⟨a, ha⟩ := ensureActive_active s
  have hcond : (!(ensureActive s).store.allowDup && ((ensureActive s).store.getLatestEntry k m).isFound) =
      s.store.dedups k m := by
    unfold Store.dedups
    rw [hs0, Store.ensureActive_allowDup]
  unfold write l2
  simp only
  rw [hcond]
  cases hd : s.store.dedups k m with
  | true =>
    simp only [if_true, Store.run, List.foldl_cons, List.foldl_nil, Store.apply]
    rw [hs0, ← store_write_ensureActive]
    have ha' : s.store.ensureActive.active = some a := by rw [← hs0]; exact ha
    exact (write_of_dedup ha' k ts m d (by rw [← hs0, hcond, hd])).symm
  | false =>
    simp only [Bool.false_eq_true, if_false, ha]
    have hw : (ensureActive s).store.apply (.write k ts m d) = s.store.apply (.write k ts m d) := by
      show (ensureActive s).store.write k ts m d = s.store.write k ts m d
      rw [hs0, store_write_ensureActive]
    cases rot with
    | false => simp only [Bool.false_eq_true, if_false, Store.run, List.foldl_cons, List.foldl_nil]; exact hw
    | true =>
      cases dmp with
      | false =>
        simp only [rotate, if_true, Bool.false_eq_true, if_false, Store.run, List.foldl_cons, List.foldl_nil]
        rw [← hw]
      | true =>
        simp only [rotate, if_true, Store.run, List.foldl_cons, List.foldl_nil]
        rw [← hw]; rfl

theorem delete_store (c : Cfg) (s : State) (k : Key) (ts : Nat) (m : Option Meta) (oip : Bool) :
    (delete c s k ts m oip).store = s.store.apply (.delete k ts m oip) := by
  unfold delete
  cases oip with
  | true => rfl
  | false =>
    simp only [Bool.false_eq_true, if_false]
    show ((ensureActive s).store.delete k ts m false).1 = (s.store.delete k ts m false).1
    rw [ensureActive_store, store_delete_ensureActive]

/-- every operation but `restart`: the store after the step is the L2 store after the L2 operations -/
theorem step_store (c : Cfg) (s : State) (op : AOp) (hr : ∀ lazy ignore bad, op ≠ .restart lazy ignore bad) :
    (step c s op).store = s.store.run (l2 s op) := by
  cases op with
  | write k ts m d rot dmp => exact write_store c s k ts m d rot dmp
  | delete k ts m oip => exact delete_store c s k ts m oip
  | closeActive => rfl
  | createActive =>
    show (ensureActive s).store = _
    rw [ensureActive_store, Store.ensureActive_eq_apply]; rfl
  | restoreActive => rfl
  | force go => cases go <;> rfl
  | settle => rfl
  | restart lazy ignore bad => exact absurd rfl (hr lazy ignore bad)

/-! #### restart -/

theorem closeSession_store (c : Cfg) (s : State) : (closeSession c s).store = s.store := by
  unfold closeSession; split <;> (try split) <;> rfl

theorem closeSession_blobs (c : Cfg) (s : State) : (closeSession c s).dir.blobs = s.dir.blobs := by
  unfold closeSession; split <;> (try split) <;> rfl

theorem closeSession_ignored (c : Cfg) (s : State) : (closeSession c s).ignored = s.ignored := by
  unfold closeSession; split <;> (try split) <;> rfl

theorem closeSession_corrupted (c : Cfg) (s : State) : (closeSession c s).dir.corrupted = s.dir.corrupted := by
  unfold closeSession; split <;> (try split) <;> rfl

theorem unreadable_closeSession (c : Cfg) (s : State) (bad : List Nat) :
    unreadable (closeSession c s) bad = unreadable s bad := by
  unfold unreadable; rw [closeSession_blobs, closeSession_ignored]

theorem initCore_hist (c : Cfg) (s : State) (lazy ignore : Bool) (bad : List Nat) :
    (initCore c s lazy ignore bad).store.blobs.map Blob.hist = (keptBlobs s bad).map Blob.hist := by
  unfold initCore
  simp only [Store.blobs, Store.closed, Store.filterMap_id_map_some]
  cases lazy with
  | true => simp [List.map_map, Function.comp_def, Blob.hist]
  | false =>
    simp only [Bool.false_eq_true, if_false]
    conv => rhs; rw [← dropLast_append_getLast?_toList (keptBlobs s bad)]
    cases (keptBlobs s bad).getLast? <;> simp [List.map_map, Function.comp_def, Blob.hist] <;> rfl

/-- what a restart does to the history: the blobs found unreadable vanish (quarantined or ignored); if nothing
    is left a new empty blob may appear -/
theorem restart_history {c : Cfg} {s : State} (h : Inv c s) (lazy ignore : Bool) (bad : List Nat) :
    ∃ e : History, (restart c s lazy ignore bad).store.history =
        s.store.history.filter (fun p => !(unreadable s bad).contains p.1) ++ e ∧
      (∀ p ∈ e, p.2 = []) ∧ e.length ≤ 1 := by
  have h1 := inv_closeSession (c := c) h
  have hst := closeSession_store c s
  have hun := unreadable_closeSession c s bad
  unfold restart
  simp only
  generalize closeSession c s = s1 at h1 hst hun ⊢
  rw [← hst, ← hun]
  have hK : (keptBlobs s1 bad).map Blob.hist =
      s1.store.history.filter (fun p => !(unreadable s1 bad).contains p.1) := by
    rw [keptBlobs_eq h1.wf, Store.history_eq, List.filter_map]
    rfl
  split
  · rename_i he
    have he' := List.isEmpty_iff.1 he
    have hb : s1.store.blobs = [] := by
      apply List.eq_nil_iff_forall_not_mem.2
      intro b hb
      have := (h1.files b.id).2 (Or.inl ⟨b, hb, rfl⟩)
      rw [he'] at this; cases this
    refine ⟨[(maxNext s1.dir.corrupted, [])], ?_, by simp, by simp⟩
    have hh : s1.store.history = [] := by simp [Store.history, hb]
    rw [hh]
    simp [Store.history, initNew, Store.blobs, Store.closed]
  · unfold initExisting
    simp only
    split
    · rename_i hc
      simp only [Bool.and_eq_true, Option.isNone_iff_eq_none] at hc
      refine ⟨[((initCore c s1 lazy ignore bad).store.nextId, [])], ?_, by simp, by simp⟩
      rw [← hK, ← initCore_hist c s1 lazy ignore bad]
      simp [Store.history_eq, Store.blobs, Store.closed, hc.2, Blob.hist]
    · refine ⟨[], ?_, by simp, by simp⟩
      rw [← hK, ← initCore_hist c s1 lazy ignore bad, List.append_nil]
      rfl

theorem unreadable_clean {s : State} (hi : s.ignored = []) : unreadable s [] = [] := by
  unfold unreadable
  rw [hi, List.filter_eq_nil_iff]
  intro a _
  simp

theorem dirAfterRead_clean {s : State} {bad : List Nat} (hu : unreadable s bad = []) (ignore : Bool) :
    dirAfterRead s ignore bad = s.dir := by
  unfold dirAfterRead
  rw [hu]
  cases ignore with
  | true => rfl
  | false =>
    simp only [Bool.false_eq_true, if_false, List.filter_nil, List.append_nil]
    rw [del_eq_self (by intro i _; rfl), del_eq_self (by intro i _; rfl)]

theorem keptBlobs_clean {s : State} (hwf : s.store.WF) {bad : List Nat} (hu : unreadable s bad = []) :
    keptBlobs s bad = s.store.blobs := by
  rw [keptBlobs_eq hwf, hu, List.filter_eq_self]
  intro b _; rfl

/-- a restart without damage, in a directory where nothing was ever quarantined or skipped, is the L2 `restart` -/
theorem restart_store_clean {c : Cfg} {s : State} (h : Inv c s) (hi : s.ignored = [])
    (hc : s.dir.corrupted = []) (lazy ignore : Bool) :
    (restart c s lazy ignore []).store = s.store.apply (.restart lazy) ∧
      (restart c s lazy ignore []).ignored = [] ∧ (restart c s lazy ignore []).dir.corrupted = [] := by
  have h1 := inv_closeSession (c := c) h
  have hst := closeSession_store c s
  have hi1 : (closeSession c s).ignored = [] := by rw [closeSession_ignored]; exact hi
  have hc1 : (closeSession c s).dir.corrupted = [] := by rw [closeSession_corrupted]; exact hc
  unfold restart
  simp only
  generalize closeSession c s = s1 at h1 hst hi1 hc1 ⊢
  rw [← hst]
  have hwf := h1.wf
  -- the directory is not empty and `nextId` is tight
  have htight : s1.store.nextId - 1 ∈ keys s1.dir.blobs := by
    rcases h1.tight.2 with ht | ht
    · exact ht
    · rw [hc1] at ht; cases ht
  have hne : (keys s1.dir.blobs).isEmpty = false := by
    cases hk : keys s1.dir.blobs with
    | nil => rw [hk] at htight; cases htight
    | cons x xs => rfl
  have hT : s1.store.Tight := by
    rcases (h1.files _).1 htight with ⟨b, hb, hbe⟩ | hign
    · exact ⟨b, hb, by have := h1.tight.1; omega⟩
    · rw [hi1] at hign; cases hign
  have hbne : s1.store.blobs ≠ [] := hT.ne_nil
  have hnid : maxNext (keys s1.dir.blobs) = s1.store.nextId :=
    maxNext_eq_of (fun x hx => h1.below x (Or.inl hx)) h1.tight.1 htight
  have hbound : s1.store.blobs.foldl (fun m b => max m (b.id + 1)) 0 = s1.store.nextId :=
    Store.idBound_eq_nextId hwf hT
  have hu := unreadable_clean hi1
  have hd := dirAfterRead_clean hu ignore
  have hk := keptBlobs_clean hwf hu
  have hsort := Store.sortById_of_sorted s1.store.blobs hwf.1
  -- the residence flag `restart` sets
  have hflag : ∀ b ∈ s1.store.blobs,
      ({ b with onDisk := idxValid s1.dir b.id || !b.recs.isEmpty } : Blob) =
        (if b.recs.isEmpty then b else { b with onDisk := true }) := by
    intro b hb
    have ob := h1.ok b hb
    cases hemp : b.recs.isEmpty with
    | false => simp
    | true =>
      have hnil : b.recs = [] := List.isEmpty_iff.1 hemp
      have hnoidx : get s1.dir.idx b.id = none := by
        cases hg : get s1.dir.idx b.id with
        | none => rfl
        | some f => exact absurd hnil (ob.idxNe f hg)
      have hv : idxValid s1.dir b.id = false := by simp [idxValid, hnoidx]
      have hod : b.onDisk = false := by
        cases ho : b.onDisk with
        | false => rfl
        | true =>
          obtain ⟨f, hf, _⟩ := ob.onDisk ho
          rw [hnoidx] at hf; cases hf
      simp only [hv, Bool.not_true, Bool.or_false, if_true]
      cases b
      simp_all
  simp only [hne, Bool.false_eq_true, if_false]
  have hcore : initCore c s1 lazy ignore [] =
      { store := { allowDup := s1.store.allowDup
                   active := (if lazy = true then none else s1.store.blobs.getLast?).map
                     (fun a => { a with onDisk := false })
                   slots := (if lazy = true then s1.store.blobs else s1.store.blobs.dropLast).map
                     (fun b => some { b with onDisk := idxValid s1.dir b.id || !b.recs.isEmpty })
                   nextId := s1.store.nextId }
        fsz := (initCore c s1 lazy ignore []).fsz
        isz := (initCore c s1 lazy ignore []).isz
        corruptedCnt := (initCore c s1 lazy ignore []).corruptedCnt
        dir := (initCore c s1 lazy ignore []).dir
        ignored := (initCore c s1 lazy ignore []).ignored } := by
    unfold initCore
    simp only [hd, hk, hc1, maxNext, List.foldl_nil, Nat.max_zero]
    simp [maxNext] at hnid
    simp [hnid]
  have hign : (initCore c s1 lazy ignore []).ignored = [] := by
    unfold initCore; simp only [hu]; cases ignore <;> rfl
  have hcorr : (initCore c s1 lazy ignore []).dir.corrupted = [] := by
    unfold initCore; simp only [hd]; exact hc1
  have hslots : ∀ l : List Blob, (∀ b ∈ l, b ∈ s1.store.blobs) →
      l.map (fun b => some ({ b with onDisk := idxValid s1.dir b.id || !b.recs.isEmpty } : Blob)) =
        l.map (fun b => some (if b.recs.isEmpty then b else { b with onDisk := true })) := by
    intro l hl
    apply List.map_congr_left
    intro b hb
    rw [hflag b (hl b hb)]
  cases lazy with
  | true =>
    have hie : initExisting c s1 true ignore [] = initCore c s1 true ignore [] := by
      unfold initExisting; simp
    rw [hie]
    refine ⟨?_, hign, hcorr⟩
    rw [hcore]
    simp only [if_true, Option.map_none, Store.apply, Store.restart, hsort, hbound]
    rw [hslots _ (fun b hb => hb)]
  | false =>
    obtain ⟨a, ha⟩ : ∃ a, s1.store.blobs.getLast? = some a := by
      cases hg : s1.store.blobs.getLast? with
      | none => exact absurd (List.getLast?_eq_none_iff.1 hg) hbne
      | some a => exact ⟨a, rfl⟩
    have hact : (initCore c s1 false ignore []).store.active.isNone = false := by
      rw [hcore]; simp [ha]
    have hie : initExisting c s1 false ignore [] = initCore c s1 false ignore [] := by
      unfold initExisting; simp [hact]
    rw [hie]
    refine ⟨?_, hign, hcorr⟩
    rw [hcore]
    simp only [Bool.false_eq_true, if_false, ha, Option.map_some, Store.apply, Store.restart, hsort, hbound]
    rw [hslots _ (fun b hb => List.dropLast_subset _ hb)]

/-! #### whole runs without damage -/

/-- no blob file is damaged at this step -/
def NoDamage : AOp → Prop
  | .restart _ _ bad => bad = []
  | _ => True

/-- the L2 operations of a run -/
def l2run (c : Cfg) : State → List AOp → List Op
  | _, [] => []
  | s, op :: ops => l2 s op ++ l2run c (step c s op) ops

/-- `ignored` and `corrupted` only change at a restart -/
def sameQ (s s' : State) : Prop := s'.ignored = s.ignored ∧ s'.dir.corrupted = s.dir.corrupted

theorem sameQ.refl (s : State) : sameQ s s := ⟨rfl, rfl⟩
theorem sameQ.trans {a b c : State} (h1 : sameQ a b) (h2 : sameQ b c) : sameQ a c :=
  ⟨h2.1.trans h1.1, h2.2.trans h1.2⟩

theorem sameQ_ensureActive (s : State) : sameQ s (ensureActive s) := by
  unfold ensureActive; split <;> exact ⟨rfl, rfl⟩

theorem sameQ_dumpPass (c : Cfg) (s : State) : sameQ s (dumpPass c s) := ⟨rfl, rfl⟩

theorem sameQ_rotate (c : Cfg) (s : State) (dmp : Bool) : sameQ s (rotate c s dmp) := by
  unfold rotate; cases dmp <;> exact ⟨rfl, rfl⟩

theorem sameQ_write (c : Cfg) (s : State) (k : Key) (ts : Nat) (m : Option Meta) (d : Data) (rot dmp : Bool) :
    sameQ s (write c s k ts m d rot dmp) := by
  have h0 := sameQ_ensureActive s
  unfold write
  simp only
  generalize ensureActive s = s0 at h0 ⊢
  split
  · exact h0
  · split
    · exact h0
    · cases rot with
      | false => exact h0.trans ⟨rfl, rfl⟩
      | true => exact h0.trans (sameQ.trans (b := { appendWhere s0 _ _ with store := _ }) ⟨rfl, rfl⟩ (sameQ_rotate c _ dmp))

theorem sameQ_delete (c : Cfg) (s : State) (k : Key) (ts : Nat) (m : Option Meta) (oip : Bool) :
    sameQ s (delete c s k ts m oip) := by
  unfold delete
  cases oip with
  | true => exact ⟨rfl, rfl⟩
  | false => exact (sameQ_ensureActive s).trans ⟨rfl, rfl⟩

theorem sameQ_step (c : Cfg) (s : State) (op : AOp) (hr : ∀ lazy ignore bad, op ≠ .restart lazy ignore bad) :
    sameQ s (step c s op) := by
  cases op with
  | write k ts m d rot dmp => exact sameQ_write c s k ts m d rot dmp
  | delete k ts m oip => exact sameQ_delete c s k ts m oip
  | closeActive => exact ⟨rfl, rfl⟩
  | createActive => exact sameQ_ensureActive s
  | restoreActive => exact ⟨rfl, rfl⟩
  | force go => cases go <;> exact ⟨rfl, rfl⟩
  | settle => exact ⟨rfl, rfl⟩
  | restart lazy ignore bad => exact absurd rfl (hr lazy ignore bad)

theorem step_clean {c : Cfg} {s : State} (h : Inv c s) (hi : s.ignored = []) (hc : s.dir.corrupted = [])
    {op : AOp} (hop : NoDamage op) :
    (step c s op).store = s.store.run (l2 s op) ∧ (step c s op).ignored = [] ∧
      (step c s op).dir.corrupted = [] := by
  by_cases hr : ∃ lazy ignore bad, op = .restart lazy ignore bad
  · obtain ⟨lazy, ignore, bad, rfl⟩ := hr
    have hb : bad = [] := hop
    subst hb
    exact restart_store_clean h hi hc lazy ignore
  · have hr' : ∀ lazy ignore bad, op ≠ .restart lazy ignore bad := fun l i b e => hr ⟨l, i, b, e⟩
    obtain ⟨h1, h2⟩ := sameQ_step c s op hr'
    exact ⟨step_store c s op hr', h1.trans hi, h2.trans hc⟩

theorem store_run_append (s : Store) (a b : List Op) : s.run (a ++ b) = (s.run a).run b := by
  simp [Store.run, List.foldl_append]

theorem runFrom_clean {c : Cfg} : ∀ {s : State}, Inv c s → s.ignored = [] → s.dir.corrupted = [] →
    ∀ ops : List AOp, (∀ op ∈ ops, NoDamage op) →
      (runFrom c s ops).store = s.store.run (l2run c s ops) ∧ (runFrom c s ops).ignored = [] ∧
        (runFrom c s ops).dir.corrupted = []
  | _, _, hi, hc, [], _ => ⟨rfl, hi, hc⟩
  | s, h, hi, hc, op :: ops, hops => by
    obtain ⟨h1, h2, h3⟩ := step_clean h hi hc (hops op (by simp))
    obtain ⟨g1, g2, g3⟩ := runFrom_clean (inv_step h op) h2 h3 ops (fun o ho => hops o (by simp [ho]))
    refine ⟨?_, g2, g3⟩
    rw [runFrom_cons, g1, h1]
    show _ = s.store.run (l2 s op ++ l2run c (step c s op) ops)
    rw [store_run_append]

theorem init_store (allowDup : Bool) : (init allowDup).store = Store.init allowDup := rfl

/-- a run in which no blob file is ever damaged is, on the `store` component, an L2 run -/
theorem run_clean (c : Cfg) (allowDup : Bool) (ops : List AOp) (hops : ∀ op ∈ ops, NoDamage op) :
    (run c allowDup ops).store = (Store.init allowDup).run (l2run c (init allowDup) ops) ∧
      (run c allowDup ops).ignored = [] ∧ (run c allowDup ops).dir.corrupted = [] :=
  runFrom_clean (inv_init c allowDup) rfl rfl ops hops

/-! ### what happens to an unreadable blob file and to its index file -/

theorem unreadable_nil_of_no_files {s : State} {bad : List Nat} (he : keys s.dir.blobs = []) :
    unreadable s bad = [] := by
  unfold unreadable; rw [he]; rfl

theorem initExisting_corrupted (c : Cfg) (s : State) (lazy ignore : Bool) (bad : List Nat) :
    (initExisting c s lazy ignore bad).dir.corrupted = (dirAfterRead s ignore bad).corrupted := by
  have h1 : (initCore c s lazy ignore bad).dir.corrupted = (dirAfterRead s ignore bad).corrupted := rfl
  unfold initExisting
  simp only
  generalize initCore c s lazy ignore bad = s1 at h1 ⊢
  split <;> exact h1

theorem initExisting_ignored (c : Cfg) (s : State) (lazy ignore : Bool) (bad : List Nat) :
    (initExisting c s lazy ignore bad).ignored = if ignore = true then unreadable s bad else [] := by
  have h1 : (initCore c s lazy ignore bad).ignored = if ignore = true then unreadable s bad else [] := rfl
  unfold initExisting
  simp only
  generalize initCore c s lazy ignore bad = s1 at h1 ⊢
  split <;> exact h1

theorem restart_dir_corrupted (c : Cfg) (s : State) (lazy ignore : Bool) (bad : List Nat) :
    (restart c s lazy ignore bad).dir.corrupted =
      if ignore = true then s.dir.corrupted
      else s.dir.corrupted ++ (unreadable s bad).filter (fun id => !s.dir.corrupted.contains id) := by
  have hun := unreadable_closeSession c s bad
  have hco := closeSession_corrupted c s
  unfold restart
  simp only
  generalize closeSession c s = s1 at hun hco ⊢
  rw [← hun, ← hco]
  split
  · rename_i he
    rw [unreadable_nil_of_no_files (List.isEmpty_iff.1 he)]
    simp [initNew]
  · rw [initExisting_corrupted]
    unfold dirAfterRead
    cases ignore <;> rfl

theorem restart_ignored (c : Cfg) (s : State) (lazy ignore : Bool) (bad : List Nat) :
    (restart c s lazy ignore bad).ignored = if ignore = true then unreadable s bad else [] := by
  have hun := unreadable_closeSession c s bad
  unfold restart
  simp only
  generalize closeSession c s = s1 at hun ⊢
  rw [← hun]
  split
  · rename_i he
    rw [unreadable_nil_of_no_files (List.isEmpty_iff.1 he)]
    simp [initNew]
  · exact initExisting_ignored c s1 lazy ignore bad

/-- `ignore_corrupted = false`: every unreadable blob file is moved to `corrupted`, its index file is removed
    (no index file is left behind without its blob), nothing stays skipped -/
theorem restart_quarantines {c : Cfg} {s : State} (h : Inv c s) (lazy : Bool) (bad : List Nat) :
    let r := restart c s lazy false bad
    (∀ i ∈ unreadable s bad, i ∈ r.dir.corrupted ∧ i ∉ keys r.dir.blobs ∧ get r.dir.idx i = none) ∧
      r.ignored = [] ∧
      corruptedBlobsCount r = corruptedBlobsCount s + (unreadable s bad).length := by
  intro r
  have hr : Inv c r := inv_restart h lazy false bad
  have hcorr := restart_dir_corrupted c s lazy false bad
  have hUc : ∀ i ∈ unreadable s bad, i ∉ s.dir.corrupted :=
    fun i hi hc => h.corrFiles i hc (mem_unreadable.1 hi).1
  refine ⟨?_, by rw [restart_ignored]; rfl, ?_⟩
  · intro i hi
    have hic : i ∈ r.dir.corrupted := by
      rw [hcorr]
      simp only [Bool.false_eq_true, if_false, List.mem_append, List.mem_filter]
      exact Or.inr ⟨hi, by simpa using hUc i hi⟩
    refine ⟨hic, hr.corrFiles i hic, ?_⟩
    apply get_eq_none_iff.2
    intro hk
    exact hr.corrFiles i hic (hr.idxFiles i hk)
  · show r.corruptedCnt = s.corruptedCnt + _
    rw [hr.cnt, h.cnt, hcorr]
    simp only [Bool.false_eq_true, if_false, List.length_append]
    congr 1
    rw [List.filter_eq_self.2]
    intro i hi
    simpa using hUc i hi

/-- `ignore_corrupted = true`: every unreadable blob file stays in the work directory, is not held and not
    counted; `corrupted` is untouched -/
theorem restart_ignores {c : Cfg} {s : State} (h : Inv c s) (lazy : Bool) (bad : List Nat) :
    let r := restart c s lazy true bad
    (∀ i ∈ unreadable s bad, i ∈ keys r.dir.blobs ∧ (∀ b ∈ r.store.blobs, b.id ≠ i) ∧ i < nextBlobId r) ∧
      r.ignored = unreadable s bad ∧ r.dir.corrupted = s.dir.corrupted ∧
      corruptedBlobsCount r = corruptedBlobsCount s ∧
      blobsCount r + (unreadable s bad).length = dirBlobFiles r := by
  intro r
  have hr : Inv c r := inv_restart h lazy true bad
  have hign : r.ignored = unreadable s bad := by rw [restart_ignored]; rfl
  have hcorr : r.dir.corrupted = s.dir.corrupted := by rw [restart_dir_corrupted]; rfl
  refine ⟨?_, hign, hcorr, ?_, ?_⟩
  · intro i hi
    have hi' : i ∈ r.ignored := by rw [hign]; exact hi
    have hk := (hr.files i).2 (Or.inr hi')
    exact ⟨hk, hr.ignHeld i hi', hr.below i (Or.inl hk)⟩
  · show r.corruptedCnt = s.corruptedCnt
    rw [hr.cnt, h.cnt, hcorr]
  · rw [← hign]; exact hr.blobsCount_eq

/-- an index file whose blob is not held (left behind, or belonging to a skipped blob) -/
def addIdx (s : State) (i : Nat) (f : IdxFile) : State :=
  { s with dir := { s.dir with idx := put s.dir.idx i f } }

/-- … changes none of the four getters and none of the four listings -/
theorem orphan_idx_irrelevant (s : State) (i : Nat) (f : IdxFile) (hn : ∀ b ∈ s.store.blobs, b.id ≠ i) :
    report (addIdx s i f) = report s := by
  have hidx : ∀ b ∈ s.store.blobs, idxFileLen (addIdx s i f).dir b.id = idxFileLen s.dir b.id := by
    intro b hb
    unfold idxFileLen addIdx
    simp only [get_put, hn b hb, if_false]
  have h1 : diskUsed (addIdx s i f) = diskUsed s := by
    unfold diskUsed
    congr 1
    apply List.map_congr_left
    intro b hb
    unfold blobDiskUsed
    rw [hidx b hb]; rfl
  have h2 : dirDiskUsed (addIdx s i f) = dirDiskUsed s := by
    unfold dirDiskUsed
    congr 1
    apply List.map_congr_left
    intro b hb
    rw [hidx b hb]; rfl
  unfold report
  rw [h1, h2]
  rfl

/-- … but it is part of the directory -/
theorem orphan_idx_total (s : State) (i : Nat) (f : IdxFile) (hi : i ∉ keys s.dir.idx) :
    dirTotal (addIdx s i f) = dirTotal s + f.len := by
  unfold dirTotal addIdx put
  rw [del_eq_self]
  · simp [List.sum_append]; omega
  · intro j hj
    simp only [beq_eq_false_iff_ne, ne_eq]
    intro e; exact hi (e ▸ hj)

/-! ### `disk_used` against the whole directory -/

theorem sum_map_zero {α : Type} : ∀ L : List α, (L.map (fun _ => 0)).sum = 0
  | [] => rfl
  | _ :: xs => by simp [sum_map_zero xs]

/-- summing an attribute over a duplicate-free list of ids that covers the listing = summing over the listing -/
theorem sum_get_eq {α : Type} (f : α → Nat) : ∀ (l : List (Nat × α)) (L : List Nat), (keys l).Nodup → L.Nodup →
    (∀ i ∈ keys l, i ∈ L) → (L.map (fun i => ((get l i).map f).getD 0)).sum = (l.map (fun p => f p.2)).sum
  | [], L, _, _, _ => by
    simp only [get_nil, Option.map_none, Option.getD_none, List.map_nil, List.sum_nil]
    exact sum_map_zero L
  | (j, v) :: r, L, hl, hL, hsub => by
    rw [keys_cons, List.nodup_cons] at hl
    have hj : j ∈ L := hsub j (by simp)
    have hperm := List.perm_cons_erase hj
    rw [(hperm.map _).sum_nat, List.map_cons, List.sum_cons, List.map_cons, List.sum_cons]
    have ih := sum_get_eq f r (L.erase j) hl.2 (hL.erase j) (by
      intro i hi
      rw [hL.mem_erase_iff]
      exact ⟨fun e => hl.1 (e ▸ hi), hsub i (by simp [hi])⟩)
    rw [← ih, get_cons]
    simp only [if_true, Option.map_some, Option.getD_some]
    congr 1
    congr 1
    apply List.map_congr_left
    intro i hi
    have hne : j ≠ i := fun e => ((hL.mem_erase_iff).1 hi).1 e.symm
    rw [get_cons]
    simp [hne]

theorem sum_map_add {α : Type} (f g : α → Nat) : ∀ l : List α,
    (l.map (fun a => f a + g a)).sum = (l.map f).sum + (l.map g).sum
  | [] => rfl
  | a :: l => by simp only [List.map_cons, List.sum_cons, sum_map_add f g l]; omega

/-- when no blob file is skipped, `disk_used` is the total length of the blob and index files of the work
    directory -/
theorem Inv.diskUsed_total {c : Cfg} {s : State} (h : Inv c s) (hi : s.ignored = []) :
    diskUsed s = dirTotal s := by
  rw [h.diskUsed_eq]
  unfold dirDiskUsed dirTotal
  rw [sum_map_add (fun b : Blob => blobFileLen s.dir b.id) (fun b => idxFileLen s.dir b.id)]
  have hids := ids_nodup h.wf
  have hsubB : ∀ i ∈ keys s.dir.blobs, i ∈ s.store.blobs.map (·.id) := by
    intro i hk
    rcases (h.files i).1 hk with hb | hg
    · exact mem_ids_iff.1 hb
    · rw [hi] at hg; cases hg
  have hA := sum_get_eq (fun n : Nat => n) s.dir.blobs (s.store.blobs.map (·.id)) h.filesNodup hids hsubB
  have hB := sum_get_eq (fun f : IdxFile => f.len) s.dir.idx (s.store.blobs.map (·.id)) h.idxNodup hids
    (fun i hk => hsubB i (h.idxFiles i hk))
  rw [List.map_map] at hA hB
  congr 1
  · rw [← hA]
    congr 1
    apply List.map_congr_left
    intro b _
    simp only [Function.comp, blobFileLen]
    cases get s.dir.blobs b.id <;> rfl

/-! ### runs in which `ignore_corrupted` is never set -/

def NotIgnoring : AOp → Prop
  | .restart _ ignore _ => ignore = false
  | _ => True

instance : DecidablePred NotIgnoring := fun op => by
  cases op <;> simp only [NotIgnoring] <;> infer_instance

instance : DecidablePred NoDamage := fun op => by
  cases op <;> simp only [NoDamage] <;> infer_instance

theorem step_ignored_nil (c : Cfg) {s : State} (hi : s.ignored = []) {op : AOp} (hop : NotIgnoring op) :
    (step c s op).ignored = [] := by
  by_cases hr : ∃ lazy ignore bad, op = .restart lazy ignore bad
  · obtain ⟨lazy, ignore, bad, rfl⟩ := hr
    have hb : ignore = false := hop
    subst hb
    show (restart c s lazy false bad).ignored = []
    rw [restart_ignored]; rfl
  · exact (sameQ_step c s op (fun l i b e => hr ⟨l, i, b, e⟩)).1.trans hi

theorem runFrom_ignored_nil (c : Cfg) : ∀ {s : State}, s.ignored = [] → ∀ ops : List AOp,
    (∀ op ∈ ops, NotIgnoring op) → (runFrom c s ops).ignored = []
  | _, hi, [], _ => hi
  | _, hi, op :: ops, hops =>
    runFrom_ignored_nil c (step_ignored_nil c hi (hops op (by simp))) ops (fun o ho => hops o (by simp [ho]))

/-! ### `disk_used` as a function of the records -/

/-- a blob with an `OnDisk` index: both files are functions of its records, and the index file validates -/
theorem Inv.blob_onDisk {c : Cfg} {s : State} (h : Inv c s) {b : Blob} (hb : b ∈ s.store.blobs)
    (ho : b.onDisk = true) :
    blobDiskUsed s b = Fs.contentLen c.klen b.recs + c.idxLen b.recs ∧ idxValid s.dir b.id = true := by
  have ob := h.ok b hb
  obtain ⟨f, hf, hl⟩ := ob.onDisk ho
  obtain ⟨h1, h2⟩ := ob.fresh ho f hf
  constructor
  · unfold blobDiskUsed
    rw [ho, if_pos rfl, hl, h1, ob.size]
  · unfold idxValid
    rw [hf, ob.file]
    simp [h2, ob.size]

/-- an empty blob: the blob header only -/
theorem Inv.blob_empty {c : Cfg} {s : State} (h : Inv c s) {b : Blob} (hb : b ∈ s.store.blobs)
    (he : b.recs = []) : blobDiskUsed s b = blobHeaderSize := by
  have ob := h.ok b hb
  have hnone : get s.dir.idx b.id = none := by
    cases hg : get s.dir.idx b.id with
    | none => rfl
    | some f => exact absurd he (ob.idxNe f hg)
  have hoff : b.onDisk = false := by
    cases ho : b.onDisk with
    | false => rfl
    | true =>
      obtain ⟨f, hf, _⟩ := ob.onDisk ho
      rw [hnone] at hf; cases hf
  unfold blobDiskUsed idxFileLen
  rw [hoff, hnone, ob.size, he, contentLen_nil]
  rfl

/-- when every non-empty blob has its index on disk (after a lazy start, after a dump pass without a
    non-empty active blob), `disk_used` is a function of the history alone -/
theorem Inv.diskUsed_closed_form {c : Cfg} {s : State} (h : Inv c s)
    (hall : ∀ b ∈ s.store.blobs, b.recs ≠ [] → b.onDisk = true) :
    diskUsed s = (s.store.blobs.map (fun b =>
      Fs.contentLen c.klen b.recs + if b.recs.isEmpty then 0 else c.idxLen b.recs)).sum := by
  unfold diskUsed
  congr 1
  apply List.map_congr_left
  intro b hb
  cases he : b.recs.isEmpty with
  | true =>
    have hnil := List.isEmpty_iff.1 he
    rw [h.blob_empty hb hnil, hnil, contentLen_nil]; rfl
  | false =>
    have hne : b.recs ≠ [] := by intro e; rw [e] at he; cases he
    rw [(h.blob_onDisk hb (hall b hb hne)).1]; rfl

theorem restart_lazy_onDisk (c : Cfg) (s : State) (ignore : Bool) (bad : List Nat) :
    ∀ b ∈ (restart c s true ignore bad).store.blobs, b.recs ≠ [] → b.onDisk = true := by
  unfold restart
  simp only
  generalize closeSession c s = s1
  split
  · intro b hb hne
    simp only [initNew, Store.blobs, Store.closed, List.filterMap_nil, Option.toList, List.nil_append,
      List.mem_singleton] at hb
    rw [hb] at hne; exact absurd rfl hne
  · have hie : initExisting c s1 true ignore bad = initCore c s1 true ignore bad := by
      unfold initExisting; simp
    rw [hie]
    intro b hb hne
    simp only [initCore, Store.blobs, Store.closed, Store.filterMap_id_map_some, if_true, Option.map_none,
      Option.toList, List.append_nil, List.mem_map] at hb
    obtain ⟨x, _, rfl⟩ := hb
    have : x.recs.isEmpty = false := by
      cases hx : x.recs with
      | nil => exact absurd hx hne
      | cons _ _ => rfl
    simp [this]

end Acct
end Pearl
