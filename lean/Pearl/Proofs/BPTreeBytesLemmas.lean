import Pearl.Model.BPTreeBytes
import Pearl.Proofs.BPTreeLemmas
/-
Layout consistency of the byte-level serializer with the offset arithmetic of the structured model.
-/
set_option linter.unusedSectionVars false

namespace Pearl.BPTree

theorem leBytes_length : ∀ (w n : Nat), (leBytes w n).length = w := by
  intro w
  induction w with
  | zero => intro n; rfl
  | succ w ih => intro n; simp [leBytes, ih]

theorem beBytes_length (w n : Nat) : (beBytes w n).length = w := by
  simp [beBytes, leBytes_length]

theorem flatMap_length_const {α β : Type} (f : α → List β) (c : Nat) :
    ∀ (l : List α), (∀ x ∈ l, (f x).length = c) → (l.flatMap f).length = l.length * c := by
  intro l
  induction l with
  | nil => intro _; simp
  | cons x l ih =>
    intro h
    simp only [List.flatMap_cons, List.length_append, List.length_cons]
    rw [h x (by simp), ih (fun y hy => h y (by simp [hy])), Nat.add_mul, Nat.one_mul, Nat.add_comm]

theorem RawHeader.bytes_length (K : Nat) (h : RawHeader) : (h.bytes K).length = 57 + K := by
  simp only [RawHeader.bytes, List.length_append, leBytes_length, beBytes_length]
  omega

theorem Node.bytes_length (p : Params) (n : Node) (hn : n.offsets.length = n.keys.length + 1) :
    (n.bytes p.K).length = n.size p := by
  simp only [Node.bytes, List.length_append, leBytes_length]
  rw [flatMap_length_const (beBytes p.K) p.K n.keys (fun x _ => beBytes_length _ _),
    flatMap_length_const (leBytes 8) 8 n.offsets (fun x _ => leBytes_length _ _), hn]
  simp only [Node.size, nodeSize, nodeMetaSize, offsetSize]
  rw [Nat.mul_comm p.K]
  omega

theorem nodes_bytes_length (p : Params) : ∀ (ns : List Node),
    (∀ n ∈ ns, n.offsets.length = n.keys.length + 1) →
    (ns.flatMap (Node.bytes p.K)).length = nodesBytes p ns := by
  intro ns
  induction ns with
  | nil => intro _; rfl
  | cons n ns ih =>
    intro h
    simp only [List.flatMap_cons, List.length_append, nodesBytes_cons]
    rw [Node.bytes_length p n (h n (by simp)), ih (fun x hx => h x (by simp [hx]))]

/-- the byte string has exactly the length, and hence every region exactly the position, that the offset
    arithmetic of the structured model assumes -/
theorem indexFileBytes_length (f : IndexFile RawHeader) (metaBuf hash : List Nat) (blobSize : Nat)
    (hnodes : ∀ n ∈ f.nodes, n.offsets.length = n.keys.length + 1) (hrhs : f.p.rhs = 57 + f.p.K)
    (hmeta : metaBuf.length = f.metaLen) (hhash : hash.length = 32) :
    (indexFileBytes f metaBuf hash blobSize).length = f.fileSize ∧
    (indexHeaderBytes f hash true blobSize ++ metaBuf ++ treeMetaBytes f).length = f.treeStart ∧
    (indexHeaderBytes f hash true blobSize ++ metaBuf ++ treeMetaBytes f
      ++ f.nodes.flatMap (Node.bytes f.p.K)).length = f.leavesStart := by
  have h1 : (indexHeaderBytes f hash true blobSize ++ metaBuf ++ treeMetaBytes f).length = f.treeStart := by
    simp only [indexHeaderBytes, treeMetaBytes, List.length_append, leBytes_length, List.length_cons,
      List.length_nil, hmeta, hhash, IndexFile.treeStart, indexHeaderSize, treeMetaSize]
  have h2 := nodes_bytes_length f.p f.nodes hnodes
  have h3 : (f.leaves.flatMap (RawHeader.bytes f.p.K)).length = f.leaves.length * f.p.rhs := by
    rw [hrhs]
    exact flatMap_length_const _ _ _ (fun x _ => RawHeader.bytes_length _ _)
  refine ⟨?_, h1, ?_⟩
  · unfold indexFileBytes
    rw [List.length_append, List.length_append, h1, h2, h3]
    rfl
  · rw [List.length_append, h1, h2]; rfl

/-- every node `build_tree` writes has one more offset than keys -/
theorem buildTree_nodes_wf (p : Params) (hfan : 3 ≤ maxAmount p) (to : Nat) :
    ∀ (fuel : Nat) (E : List Entry), ∀ n ∈ buildTree p fuel E to, n.offsets.length = n.keys.length + 1 := by
  intro fuel
  induction fuel with
  | zero => intro E n hn; simp [buildTree] at hn
  | succ fuel ih =>
    intro E n hn
    by_cases hsmall : E.length ≤ 1
    · rw [buildTree_small _ _ _ _ hsmall] at hn; simp at hn
    · rw [buildTree_succ p fuel E to (by omega)] at hn
      rcases List.mem_append.1 hn with hn | hn
      · exact ih _ n hn
      · obtain ⟨P, hP, rfl⟩ := List.mem_map.1 hn
        have := (portions_sizes p hfan E (by omega) P hP).1
        simp only [mkNode, List.length_map, List.length_tail]
        omega

theorem build_bytes_length (K : Nat) (hK : K ≤ 2032) (m : InMem RawHeader) (metaBuf hash : List Nat)
    (blobSize : Nat) (hhash : hash.length = 32) :
    (indexFileBytes (build (Params.real K) metaBuf.length m) metaBuf hash blobSize).length
      = (build (Params.real K) metaBuf.length m).fileSize :=
  (indexFileBytes_length _ metaBuf hash blobSize
    (buildTree_nodes_wf _ (valid_real K hK).fan _ _ _) rfl rfl hhash).1

end Pearl.BPTree
