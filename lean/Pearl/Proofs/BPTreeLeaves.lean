import Pearl.Proofs.BPTreeSearch
/-
Helper lemmas for C09, part 2: the leaf array, the leaf table (`serialize_bptree` packing loop).
-/
set_option linter.unusedSectionVars false

namespace Pearl.BPTree

variable {H : Type}

/-- what `BTreeMap` iteration of a well-formed index gives: keys strictly ascending, vectors non-empty,
    every header filed under its own key -/
structure WF [Keyed H] (m : InMem H) : Prop where
  sorted : m.Pairwise (fun a b => a.1 < b.1)
  nonempty : ∀ kv ∈ m, kv.2 ≠ []
  keys : ∀ kv ∈ m, ∀ h ∈ kv.2, hkey h = kv.1

/-- the child chosen for key `k`, scanning from `cur`: the last entry whose min key is `≤ k`
    (the first entry if there is none) -/
def selFrom (cur : Entry) : List Entry → Nat → Entry
  | [], _ => cur
  | e :: es, k => if e.1 ≤ k then selFrom e es k else cur

def sel (E : List Entry) (k : Nat) : Entry :=
  match E with
  | [] => (0, 0)
  | e :: es => selFrom e es k

theorem selFrom_all_gt (cur : Entry) (es : List Entry) (k : Nat) (h : ∀ e ∈ es, k < e.1) :
    selFrom cur es k = cur := by
  cases es with
  | nil => rfl
  | cons e es =>
    have := h e (by simp)
    simp only [selFrom]
    rw [if_neg (by omega)]

theorem selFrom_mem (cur : Entry) (es : List Entry) (k : Nat) :
    selFrom cur es k = cur ∨ selFrom cur es k ∈ es := by
  induction es generalizing cur with
  | nil => left; rfl
  | cons e es ih =>
    simp only [selFrom]
    split
    · rcases ih e with h | h
      · right; rw [h]; simp
      · right; simp [h]
    · left; rfl

theorem sel_mem (E : List Entry) (k : Nat) (h : E ≠ []) : sel E k ∈ E := by
  cases E with
  | nil => exact absurd rfl h
  | cons e es =>
    simp only [sel]
    rcases selFrom_mem e es k with h | h
    · rw [h]; simp
    · simp [h]

/-! ### the leaf array -/

theorem leafArray_nil : leafArray ([] : InMem H) = [] := rfl

theorem leafArray_cons (k : Nat) (v : List H) (m : InMem H) :
    leafArray ((k, v) :: m) = v.reverse ++ leafArray m := by
  simp [leafArray]

theorem leafArray_append (m1 m2 : InMem H) : leafArray (m1 ++ m2) = leafArray m1 ++ leafArray m2 := by
  simp [leafArray]

theorem totalCount_eq (m : InMem H) : totalCount m = (leafArray m).length := by
  have : ∀ (m : InMem H) (a : Nat), m.foldl (fun acc kv => acc + kv.2.length) a = a + (leafArray m).length := by
    intro m
    induction m with
    | nil => intro a; simp [leafArray]
    | cons kv m ih =>
      intro a
      obtain ⟨k, v⟩ := kv
      simp only [List.foldl_cons, ih, leafArray_cons, List.length_append, List.length_reverse]
      omega
  simpa [totalCount] using this m 0

/-! ### the packing loop -/

/-- the loop result starts with the current `(min_k, min_o)`; later entries are `(key, start offset)` of
    keys of the remaining map -/
theorem pack_head (p : Params) :
    ∀ (rest : InMem H) (offset rem minK minO : Nat), (∀ kv ∈ rest, kv.2 ≠ []) →
      ∃ tl, packLeaves p rest offset rem minK minO = (minK, minO) :: tl ∧
        ∀ e ∈ tl, (∃ kv ∈ rest, e.1 = kv.1) ∧ offset ≤ e.2 ∧
          e.2 + p.rhs ≤ offset + (leafArray rest).length * p.rhs ∧
          (p.rhs ∣ offset → p.rhs ∣ e.2) := by
  intro rest
  induction rest with
  | nil => intro offset rem minK minO _; exact ⟨[], rfl, by simp⟩
  | cons kv rest ih =>
    intro offset rem minK minO hne
    obtain ⟨k, v⟩ := kv
    have hv : v ≠ [] := hne (k, v) (by simp)
    have hvl : 1 ≤ v.length := by
      cases v with
      | nil => exact absurd rfl hv
      | cons _ _ => simp
    have hne' : ∀ kv ∈ rest, kv.2 ≠ [] := fun kv h => hne kv (by simp [h])
    have hδ : p.rhs ≤ v.length * p.rhs := Nat.le_mul_of_pos_left _ hvl
    have hlen : (leafArray ((k, v) :: rest)).length * p.rhs
        = v.length * p.rhs + (leafArray rest).length * p.rhs := by
      simp [leafArray_cons, Nat.add_mul]
    simp only [packLeaves]
    split
    · obtain ⟨tl, htl, hprop⟩ := ih (offset + v.length * p.rhs) (p.B - v.length * p.rhs) k offset hne'
      refine ⟨(k, offset) :: tl, by rw [htl], ?_⟩
      intro e he
      rcases List.mem_cons.1 he with rfl | he
      · refine ⟨⟨(k, v), by simp, rfl⟩, Nat.le_refl _, ?_, fun h => h⟩
        simp only; omega
      · obtain ⟨⟨kv, hkv, hk⟩, h1, h2, h3⟩ := hprop e he
        refine ⟨⟨kv, by simp [hkv], hk⟩, by omega, by omega, ?_⟩
        intro hd; exact h3 (Nat.dvd_add hd (Nat.dvd_mul_left _ _))
    · obtain ⟨tl, htl, hprop⟩ := ih (offset + v.length * p.rhs) (rem - v.length * p.rhs) minK minO hne'
      refine ⟨tl, htl, ?_⟩
      intro e he
      obtain ⟨⟨kv, hkv, hk⟩, h1, h2, h3⟩ := hprop e he
      refine ⟨⟨kv, by simp [hkv], hk⟩, by omega, by omega, ?_⟩
      intro hd; exact h3 (Nat.dvd_add hd (Nat.dvd_mul_left _ _))

/-- min keys strictly increase, and a leaf is closed only when fewer than `rhs` bytes of its first block
    remain: consecutive leaf offsets differ by more than `B - rhs` -/
theorem pack_pairwise (p : Params) (hB : p.rhs ≤ p.B) :
    ∀ (rest : InMem H) (offset rem minK minO : Nat), (∀ kv ∈ rest, kv.2 ≠ []) →
      rest.Pairwise (fun a b => a.1 < b.1) → (∀ kv ∈ rest, minK < kv.1) →
      minO ≤ offset → rem = p.B - (offset - minO) →
      (packLeaves p rest offset rem minK minO).Pairwise
        (fun a b => a.1 < b.1 ∧ a.2 + p.B < b.2 + p.rhs) := by
  intro rest
  induction rest with
  | nil => intro offset rem minK minO _ _ _ _ _; simp [packLeaves]
  | cons kv rest ih =>
    intro offset rem minK minO hne hs hmin hmo hrem
    obtain ⟨k, v⟩ := kv
    have hne' : ∀ kv ∈ rest, kv.2 ≠ [] := fun kv h => hne kv (by simp [h])
    have hs' := (List.pairwise_cons.1 hs).2
    have hk : ∀ kv ∈ rest, k < kv.1 := (List.pairwise_cons.1 hs).1
    have hmink : minK < k := hmin (k, v) (by simp)
    simp only [packLeaves]
    split
    · rename_i hlt
      have hin := ih (offset + v.length * p.rhs) (p.B - v.length * p.rhs) k offset hne' hs' hk
        (by omega) (by omega)
      obtain ⟨tl, htl, hprop⟩ := pack_head p rest (offset + v.length * p.rhs)
        (p.B - v.length * p.rhs) k offset hne'
      rw [htl] at hin ⊢
      refine List.pairwise_cons.2 ⟨?_, hin⟩
      intro e he
      rcases List.mem_cons.1 he with rfl | he
      · simp only; omega
      · obtain ⟨⟨kv, hkv, hke⟩, h1, _, _⟩ := hprop e he
        have := hk kv hkv
        refine ⟨by omega, by omega⟩
    · rename_i hge
      apply ih _ _ _ _ hne' hs' (fun kv h => hmin kv (by simp [h])) (by omega) (by omega)

/-- **leaf of a key**: the entry selected for a present key `k` is the leaf in which `k`'s run starts,
    and the first header of the run lies wholly inside the first `B` bytes of that leaf -/
theorem pack_sel (p : Params) (hr : 0 < p.rhs) (hB : p.rhs ≤ p.B) :
    ∀ (rest : InMem H) (offset rem minK minO : Nat), (∀ kv ∈ rest, kv.2 ≠ []) →
      rest.Pairwise (fun a b => a.1 < b.1) → (∀ kv ∈ rest, minK < kv.1) →
      minO ≤ offset → rem = p.B - (offset - minO) →
      ∀ (m1 : InMem H) (k : Nat) (v : List H) (m2 : InMem H), rest = m1 ++ (k, v) :: m2 →
        (sel (packLeaves p rest offset rem minK minO) k).2 ≤ offset + (leafArray m1).length * p.rhs ∧
        offset + (leafArray m1).length * p.rhs + p.rhs
          ≤ (sel (packLeaves p rest offset rem minK minO) k).2 + p.B := by
  intro rest
  induction rest with
  | nil => intro _ _ _ _ _ _ _ _ _ m1 k v m2 h; simp at h
  | cons kv rest ih =>
    intro offset rem minK minO hne hs hmin hmo hrem m1 k v m2 hdec
    obtain ⟨k0, v0⟩ := kv
    have hne' : ∀ kv ∈ rest, kv.2 ≠ [] := fun kv h => hne kv (by simp [h])
    have hs' := (List.pairwise_cons.1 hs).2
    have hk0 : ∀ kv ∈ rest, k0 < kv.1 := (List.pairwise_cons.1 hs).1
    have hmink : minK < k0 := hmin (k0, v0) (by simp)
    simp only [packLeaves]
    cases m1 with
    | nil =>
      -- `k` is the key being processed
      simp only [List.nil_append, List.cons.injEq, Prod.mk.injEq] at hdec
      obtain ⟨⟨rfl, rfl⟩, rfl⟩ := hdec
      simp only [leafArray_nil, List.length_nil, Nat.zero_mul, Nat.add_zero]
      split
      · rename_i hlt
        obtain ⟨tl, htl, hprop⟩ := pack_head p rest (offset + v0.length * p.rhs)
          (p.B - v0.length * p.rhs) k0 offset hne'
        rw [htl]
        have : selFrom (k0, offset) tl k0 = (k0, offset) := by
          apply selFrom_all_gt
          intro e he
          obtain ⟨⟨kv, hkv, hke⟩, _⟩ := hprop e he
          have := hk0 kv hkv
          omega
        simp only [sel, selFrom, Nat.le_refl, if_true, this]
        exact ⟨trivial, by omega⟩
      · rename_i hge
        obtain ⟨tl, htl, hprop⟩ := pack_head p rest (offset + v0.length * p.rhs)
          (rem - v0.length * p.rhs) minK minO hne'
        rw [htl]
        have : selFrom (minK, minO) tl k0 = (minK, minO) := by
          apply selFrom_all_gt
          intro e he
          obtain ⟨⟨kv, hkv, hke⟩, _⟩ := hprop e he
          have := hk0 kv hkv
          omega
        simp only [sel, this]
        omega
    | cons kv1 m1 =>
      simp only [List.cons_append, List.cons.injEq] at hdec
      obtain ⟨rfl, hdec⟩ := hdec
      have hkk : k0 < k := hk0 (k, v) (by rw [hdec]; simp)
      have hlen : (leafArray ((k0, v0) :: m1)).length * p.rhs
          = v0.length * p.rhs + (leafArray m1).length * p.rhs := by
        simp [leafArray_cons, Nat.add_mul]
      rw [hlen]
      split
      · rename_i hlt
        have hin := ih (offset + v0.length * p.rhs) (p.B - v0.length * p.rhs) k0 offset hne' hs' hk0
          (by omega) (by omega) m1 k v m2 hdec
        obtain ⟨tl, htl, _⟩ := pack_head p rest (offset + v0.length * p.rhs)
          (p.B - v0.length * p.rhs) k0 offset hne'
        rw [htl] at hin ⊢
        have : sel ((minK, minO) :: (k0, offset) :: tl) k = sel ((k0, offset) :: tl) k := by
          simp only [sel, selFrom]
          rw [if_pos (by omega)]
        rw [this]
        omega
      · rename_i hge
        have hin := ih (offset + v0.length * p.rhs) (rem - v0.length * p.rhs) minK minO hne' hs'
          (fun kv h => hmin kv (by simp [h])) (by omega) (by omega) m1 k v m2 hdec
        omega

end Pearl.BPTree

namespace Pearl.BPTree
variable {H : Type}

/-! ### the leaf table of a non-empty map -/

theorem leafTable_cons (p : Params) (hB : p.rhs ≤ p.B) (k0 : Nat) (v0 : List H) (rest : InMem H) :
    leafTable p ((k0, v0) :: rest)
      = packLeaves p rest (v0.length * p.rhs) (p.B - v0.length * p.rhs) k0 0 := by
  simp only [leafTable, packLeaves]
  rw [if_neg (by omega)]
  simp

theorem leafArray_length_pos [Keyed H] (m : InMem H) (hm : m ≠ []) (hwf : WF m) :
    0 < (leafArray m).length := by
  cases m with
  | nil => exact absurd rfl hm
  | cons kv m =>
    obtain ⟨k, v⟩ := kv
    have := hwf.nonempty (k, v) (by simp)
    cases v with
    | nil => exact absurd rfl this
    | cons _ _ => simp [leafArray_cons]; omega

/-- every leaf offset is a multiple of `rhs`, and a whole header follows it in the file -/
theorem leafTable_entries [Keyed H] (p : Params) (hB : p.rhs ≤ p.B) (m : InMem H) (hwf : WF m) :
    ∀ e ∈ leafTable p m, p.rhs ∣ e.2 ∧ e.2 + p.rhs ≤ (leafArray m).length * p.rhs := by
  cases m with
  | nil => intro e he; simp [leafTable] at he
  | cons kv rest =>
    obtain ⟨k0, v0⟩ := kv
    have hne' : ∀ kv ∈ rest, kv.2 ≠ [] := fun kv h => hwf.nonempty kv (by simp [h])
    have hv : v0 ≠ [] := hwf.nonempty (k0, v0) (by simp)
    have hvl : 1 ≤ v0.length := by
      cases v0 with
      | nil => exact absurd rfl hv
      | cons _ _ => simp
    have hδ : p.rhs ≤ v0.length * p.rhs := Nat.le_mul_of_pos_left _ hvl
    have hlen : (leafArray ((k0, v0) :: rest)).length * p.rhs
        = v0.length * p.rhs + (leafArray rest).length * p.rhs := by
      simp [leafArray_cons, Nat.add_mul]
    rw [leafTable_cons p hB, hlen]
    obtain ⟨tl, htl, hprop⟩ := pack_head p rest (v0.length * p.rhs) (p.B - v0.length * p.rhs) k0 0 hne'
    rw [htl]
    intro e he
    rcases List.mem_cons.1 he with rfl | he
    · exact ⟨Nat.dvd_zero _, by simp only; omega⟩
    · obtain ⟨_, _, h2, h3⟩ := hprop e he
      exact ⟨h3 (Nat.dvd_mul_left _ _), by omega⟩

theorem leafTable_ne_nil (p : Params) (hB : p.rhs ≤ p.B) (m : InMem H) (hm : m ≠ [])
    (hne : ∀ kv ∈ m, kv.2 ≠ []) : ∃ k0 tl, leafTable p m = (k0, 0) :: tl := by
  cases m with
  | nil => exact absurd rfl hm
  | cons kv rest =>
    obtain ⟨k0, v0⟩ := kv
    rw [leafTable_cons p hB]
    obtain ⟨tl, htl, _⟩ := pack_head p rest (v0.length * p.rhs) (p.B - v0.length * p.rhs) k0 0
      (fun kv h => hne kv (by simp [h]))
    exact ⟨k0, tl, htl⟩

/-- `leaf_starts_at_key_boundary` + strictly increasing min keys + "a leaf is closed only when full" -/
theorem leafTable_pairwise [Keyed H] (p : Params) (hB : p.rhs ≤ p.B) (m : InMem H) (hwf : WF m) :
    (leafTable p m).Pairwise (fun a b => a.1 < b.1 ∧ a.2 + p.B < b.2 + p.rhs) := by
  cases m with
  | nil => simp [leafTable]
  | cons kv rest =>
    obtain ⟨k0, v0⟩ := kv
    rw [leafTable_cons p hB]
    have hs := List.pairwise_cons.1 hwf.sorted
    exact pack_pairwise p hB rest _ _ k0 0 (fun kv h => hwf.nonempty kv (by simp [h])) hs.2 hs.1
      (Nat.zero_le _) (by omega)

theorem leafTable_sel [Keyed H] (p : Params) (hr : 0 < p.rhs) (hB : p.rhs ≤ p.B) (m : InMem H)
    (hwf : WF m) (m1 : InMem H) (k : Nat) (v : List H) (m2 : InMem H) (hdec : m = m1 ++ (k, v) :: m2) :
    (sel (leafTable p m) k).2 ≤ (leafArray m1).length * p.rhs ∧
      (leafArray m1).length * p.rhs + p.rhs ≤ (sel (leafTable p m) k).2 + p.B := by
  subst hdec
  cases m1 with
  | nil =>
    simp only [List.nil_append] at hwf ⊢
    rw [leafTable_cons p hB]
    have hs := List.pairwise_cons.1 hwf.sorted
    obtain ⟨tl, htl, hprop⟩ := pack_head p m2 (v.length * p.rhs) (p.B - v.length * p.rhs) k 0
      (fun kv h => hwf.nonempty kv (by simp [h]))
    rw [htl]
    have : selFrom (k, 0) tl k = (k, 0) := by
      apply selFrom_all_gt
      intro e he
      obtain ⟨⟨kv, hkv, hke⟩, _⟩ := hprop e he
      have := hs.1 kv hkv
      omega
    simp only [sel, this, leafArray_nil, List.length_nil]
    omega
  | cons kv1 m1 =>
    obtain ⟨k0, v0⟩ := kv1
    simp only [List.cons_append] at hwf ⊢
    rw [leafTable_cons p hB]
    have hs := List.pairwise_cons.1 hwf.sorted
    have := pack_sel p hr hB (m1 ++ (k, v) :: m2) (v0.length * p.rhs) (p.B - v0.length * p.rhs) k0 0
      (fun kv h => hwf.nonempty kv (by simp only [List.mem_cons]; right; simpa using h)) hs.2 hs.1
      (Nat.zero_le _) (by omega) m1 k v m2 rfl
    have hlen : (leafArray ((k0, v0) :: m1)).length * p.rhs
        = v0.length * p.rhs + (leafArray m1).length * p.rhs := by
      simp [leafArray_cons, Nat.add_mul]
    rw [hlen]
    omega

end Pearl.BPTree
