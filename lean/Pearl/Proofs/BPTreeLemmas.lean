import Pearl.Proofs.BPTreeRead
import Pearl.Proofs.BPTreeTree
/-
Helper lemmas for C09, part 5: putting the pieces together for `build p metaLen m`.
(Parts 1–4: `BPTreeSearch`, `BPTreeLeaves`, `BPTreeRead`, `BPTreeTree`.)
-/
set_option linter.unusedSectionVars false

namespace Pearl.BPTree

variable {H : Type} [Keyed H]

/-! ### the leaf array of a well-formed map -/

theorem mem_leafArray {m : InMem H} {h : H} (hm : h ∈ leafArray m) : ∃ kv ∈ m, h ∈ kv.2 := by
  simp only [leafArray, List.mem_flatMap, List.mem_reverse] at hm
  exact hm

theorem WF.tail {kv : Nat × List H} {m : InMem H} (hwf : WF (kv :: m)) : WF m :=
  ⟨(List.pairwise_cons.1 hwf.sorted).2, fun x hx => hwf.nonempty x (by simp [hx]),
    fun x hx => hwf.keys x (by simp [hx])⟩

theorem leafArray_sorted (m : InMem H) (hwf : WF m) :
    (leafArray m).Pairwise (fun a b => hkey a ≤ hkey b) := by
  induction m with
  | nil => simp [leafArray]
  | cons kv m ih =>
    obtain ⟨k, v⟩ := kv
    rw [leafArray_cons, List.pairwise_append]
    refine ⟨?_, ih hwf.tail, ?_⟩
    · apply List.Pairwise.imp_of_mem (R := fun _ _ => True)
      · intro a b ha hb _
        have h1 := hwf.keys (k, v) (by simp) a (by simpa using ha)
        have h2 := hwf.keys (k, v) (by simp) b (by simpa using hb)
        simp only at h1 h2; omega
      · exact List.pairwise_of_forall (fun _ _ => trivial)
    · intro a ha b hb
      have h1 := hwf.keys (k, v) (by simp) a (by simpa using ha)
      obtain ⟨kv, hkv, hb'⟩ := mem_leafArray hb
      have h2 := hwf.keys kv (by simp [hkv]) b hb'
      have h3 := (List.pairwise_cons.1 hwf.sorted).1 kv hkv
      simp only at h1 h3; omega

theorem run_of_append (k : Nat) (A R C : List H) (hA : ∀ h ∈ A, hkey h < k) (hR : ∀ h ∈ R, hkey h = k)
    (hC : ∀ h ∈ C, k < hkey h) (hne : R ≠ []) :
    Run (A ++ R ++ C) k A.length (A.length + R.length) := by
  have hRl : 0 < R.length := List.length_pos_iff.2 hne
  refine ⟨by omega, by simp only [List.length_append]; omega, ?_, ?_, ?_⟩
  · intro i hi
    have e : (A ++ R ++ C)[i]? = some A[i] := by
      rw [List.append_assoc, List.getElem?_append_left hi, List.getElem?_eq_getElem hi]
    rw [keyIdx_of_getElem? e]
    exact hA _ (List.getElem_mem _)
  · intro i h1 h2
    have hi : i - A.length < R.length := by omega
    have e : (A ++ R ++ C)[i]? = some R[i - A.length] := by
      rw [List.getElem?_append_left (by simp only [List.length_append]; omega),
        List.getElem?_append_right h1, List.getElem?_eq_getElem hi]
    rw [keyIdx_of_getElem? e]
    exact hR _ (List.getElem_mem _)
  · intro i h1 h2
    simp only [List.length_append] at h2
    have hi : i - (A ++ R).length < C.length := by simp only [List.length_append]; omega
    have e : (A ++ R ++ C)[i]? = some C[i - (A ++ R).length] := by
      rw [List.getElem?_append_right (by simp only [List.length_append]; omega),
        List.getElem?_eq_getElem hi]
    rw [keyIdx_of_getElem? e]
    exact hC _ (List.getElem_mem _)

theorem WF.append_left {m1 m2 : InMem H} (hwf : WF (m1 ++ m2)) : WF m1 :=
  ⟨(List.pairwise_append.1 hwf.sorted).1, fun x hx => hwf.nonempty x (by simp [hx]),
    fun x hx => hwf.keys x (by simp [hx])⟩

theorem WF.append_right {m1 m2 : InMem H} (hwf : WF (m1 ++ m2)) : WF m2 :=
  ⟨(List.pairwise_append.1 hwf.sorted).2.1, fun x hx => hwf.nonempty x (by simp [hx]),
    fun x hx => hwf.keys x (by simp [hx])⟩

/-- the run of a present key in the leaf array -/
theorem run_of_decomp (m1 : InMem H) (k : Nat) (v : List H) (m2 : InMem H)
    (hwf : WF (m1 ++ (k, v) :: m2)) :
    Run (leafArray (m1 ++ (k, v) :: m2)) k (leafArray m1).length ((leafArray m1).length + v.length) ∧
    leafArray (m1 ++ (k, v) :: m2) = leafArray m1 ++ v.reverse ++ leafArray m2 := by
  have hdec : leafArray (m1 ++ (k, v) :: m2) = leafArray m1 ++ v.reverse ++ leafArray m2 := by
    rw [leafArray_append, leafArray_cons, List.append_assoc]
  refine ⟨?_, hdec⟩
  rw [hdec]
  have hs := List.pairwise_append.1 hwf.sorted
  have := run_of_append k (leafArray m1) v.reverse (leafArray m2)
    (by
      intro h hh
      obtain ⟨kv, hkv, hh'⟩ := mem_leafArray hh
      have h1 := hwf.keys kv (by simp [hkv]) h hh'
      have h2 := hs.2.2 kv hkv (k, v) (by simp)
      simp only at h2; omega)
    (by
      intro h hh
      exact hwf.keys (k, v) (by simp) h (by simpa using hh))
    (by
      intro h hh
      obtain ⟨kv, hkv, hh'⟩ := mem_leafArray hh
      have h1 := hwf.keys kv (by simp [hkv]) h hh'
      have h2 := (List.pairwise_cons.1 hs.2.1).1 kv hkv
      simp only at h2; omega)
    (by
      have := hwf.nonempty (k, v) (by simp)
      simpa using this)
  simpa using this

/-! ### `BTreeMap::get` on the iteration list -/

theorem lookup_none {m : InMem H} {k : Nat} (h : m.lookup k = none) : ∀ kv ∈ m, kv.1 ≠ k := by
  induction m with
  | nil => intro kv hkv; simp at hkv
  | cons x m ih =>
    obtain ⟨k', v'⟩ := x
    simp only [List.lookup] at h
    split at h
    · simp at h
    · rename_i hne
      intro kv hkv
      rcases List.mem_cons.1 hkv with rfl | hkv
      · simp only; intro h'; subst h'; simp at hne
      · exact ih h kv hkv

theorem lookup_some {m : InMem H} {k : Nat} {v : List H} (h : m.lookup k = some v) :
    ∃ m1 m2, m = m1 ++ (k, v) :: m2 := by
  induction m with
  | nil => simp at h
  | cons x m ih =>
    obtain ⟨k', v'⟩ := x
    simp only [List.lookup] at h
    split at h
    · rename_i heq
      have : k = k' := by simpa using heq
      subst this
      simp only [Option.some.injEq] at h
      subst h
      exact ⟨[], m, rfl⟩
    · obtain ⟨m1, m2, hm⟩ := ih h
      exact ⟨(k', v') :: m1, m2, by rw [hm]; rfl⟩

/-! ### the built file -/

section Build
variable (p : Params) (metaLen : Nat) (m : InMem H)

theorem build_p : (build p metaLen m).p = p := rfl
theorem build_leaves : (build p metaLen m).leaves = leafArray m := rfl
theorem build_nodes : (build p metaLen m).nodes
    = buildTree p (leafTable p m).length (leafTable p m) (build p metaLen m).treeOffset := rfl
theorem build_treeStart : (build p metaLen m).treeStart = (build p metaLen m).treeOffset := rfl
theorem build_leavesOffset : (build p metaLen m).leavesOffset = (build p metaLen m).leavesStart := rfl
theorem build_leavesOffset' : (build p metaLen m).leavesOffset
    = (build p metaLen m).treeOffset + nodesBytes p (build p metaLen m).nodes := rfl
theorem build_recordsCount : (build p metaLen m).recordsCount = (leafArray m).length := totalCount_eq m

theorem build_leafOK (hv : p.Valid) (hwf : WF m) : LeafOK (build p metaLen m) :=
  ⟨hv.rhs_pos, rfl, build_recordsCount p metaLen m, leafArray_sorted m hwf⟩

/-- inner nodes exist only when there are at least two leaves -/
theorem leafTable_length_of_nodes (h : (build p metaLen m).nodes ≠ []) : 2 ≤ (leafTable p m).length := by
  apply Nat.le_of_not_lt
  intro hlt
  apply h
  rw [build_nodes]
  exact buildTree_small _ _ _ _ (by omega)

/-- every `read_exact_at` of a whole block at an inner node stays inside the file -/
theorem build_fit (hv : p.Valid) (hwf : WF m) (h : 2 ≤ (build p metaLen m).nodes.length) :
    (build p metaLen m).leavesOffset + (build p metaLen m).p.B ≤ (build p metaLen m).fileSize := by
  have hn : (build p metaLen m).nodes ≠ [] := by
    intro h0; rw [h0] at h; simp at h
  have h2 := leafTable_length_of_nodes p metaLen m hn
  have hpw := leafTable_pairwise p hv.rhs_le m hwf
  have hent := leafTable_entries p hv.rhs_le m hwf
  rw [IndexFile.fileSize_eq, build_leavesOffset, build_leaves, build_p]
  match hlt : leafTable p m, h2 with
  | e0 :: e1 :: tl, _ =>
    rw [hlt] at hpw hent
    have h1 := (List.pairwise_cons.1 hpw).1 e1 (by simp)
    have h3 := (hent e1 (by simp)).2
    omega

/-- `descent_finds_leaf` -/
theorem build_findLeafNode (hv : p.Valid) (hwf : WF m) (hm : m ≠ []) (k : Nat) :
    (build p metaLen m).findLeafNode k
      = some ((build p metaLen m).leavesStart + (sel (leafTable p m) k).2) := by
  obtain ⟨k0, tl, hlt⟩ := leafTable_ne_nil p hv.rhs_le m hm hwf.nonempty
  have hpw := leafTable_pairwise p hv.rhs_le m hwf
  obtain ⟨d, hd, hdesc⟩ := descent_aux (build p metaLen m) hv k (build_treeStart p metaLen m)
    (build_fit p metaLen m hv hwf) (leafTable p m).length (leafTable p m) []
    (by rw [hlt]; simp) (Nat.le_refl _) (hpw.imp (fun h => h.1))
    (by intro e he; rw [hlt] at he; simp at he; rw [← he])
    (by rw [List.append_nil]; rfl) (Nat.le_refl _)
  have hd : d ≤ (build p metaLen m).nodes.length := hd
  have hdesc : ∀ g, (build p metaLen m).findLeafNodeAux k (d + g) (build p metaLen m).treeOffset
      = (build p metaLen m).findLeafNodeAux k g
          ((build p metaLen m).leavesStart + (sel (leafTable p m) k).2) := hdesc
  unfold IndexFile.findLeafNode
  have e : (build p metaLen m).nodes.length + 1 = d + ((build p metaLen m).nodes.length - d + 1) := by omega
  rw [e, hdesc]
  simp only [IndexFile.findLeafNodeAux]
  rw [if_neg (by rw [build_leavesOffset]; omega)]

end Build

end Pearl.BPTree

namespace Pearl.BPTree
variable {H : Type} [Keyed H]

/-- the leaf selected for `k` starts at a header boundary inside the leaf region -/
theorem sel_leaf_index (p : Params) (hv : p.Valid) (m : InMem H) (hwf : WF m) (hm : m ≠ []) (k : Nat) :
    ∃ s, (sel (leafTable p m) k).2 = p.rhs * s ∧ s < (leafArray m).length := by
  obtain ⟨k0, tl, hlt⟩ := leafTable_ne_nil p hv.rhs_le m hm hwf.nonempty
  have hmem := sel_mem (leafTable p m) k (by rw [hlt]; simp)
  obtain ⟨⟨s, hs⟩, h2⟩ := leafTable_entries p hv.rhs_le m hwf _ hmem
  refine ⟨s, hs, ?_⟩
  rw [hs] at h2
  have : p.rhs * (s + 1) ≤ p.rhs * (leafArray m).length := by
    rw [Nat.mul_succ, Nat.mul_comm p.rhs (leafArray m).length]; exact h2
  exact Nat.le_of_mul_le_mul_left this hv.rhs_pos

theorem absent_keys (m : InMem H) (hwf : WF m) (k : Nat) (h : m.lookup k = none) :
    ∀ i, i < (leafArray m).length → keyIdx (leafArray m) i ≠ k := by
  intro i hi
  rw [keyIdx_of_getElem? (List.getElem?_eq_getElem hi)]
  obtain ⟨kv, hkv, hh⟩ := mem_leafArray (List.getElem_mem hi)
  rw [hwf.keys kv hkv _ hh]
  exact lookup_none h kv hkv

/-- position facts for a present key: its run starts at or after the selected leaf, and its first header
    lies wholly inside the first block of that leaf -/
theorem present_bounds (p : Params) (hv : p.Valid) (m1 : InMem H) (k : Nat) (v : List H) (m2 : InMem H)
    (hwf : WF (m1 ++ (k, v) :: m2)) (s : Nat)
    (hs : (sel (leafTable p (m1 ++ (k, v) :: m2)) k).2 = p.rhs * s) :
    s ≤ (leafArray m1).length ∧ p.rhs * ((leafArray m1).length - s + 1) ≤ p.B := by
  obtain ⟨h1, h2⟩ := leafTable_sel p hv.rhs_pos hv.rhs_le _ hwf m1 k v m2 rfl
  rw [hs] at h1 h2
  have hle : s ≤ (leafArray m1).length := by
    rw [Nat.mul_comm] at h1
    exact Nat.le_of_mul_le_mul_right h1 hv.rhs_pos
  refine ⟨hle, ?_⟩
  have e : p.rhs * ((leafArray m1).length - s + 1)
      = p.rhs * (leafArray m1).length - p.rhs * s + p.rhs := by
    rw [Nat.mul_succ, Nat.mul_sub]
  have hle2 : p.rhs * s ≤ p.rhs * (leafArray m1).length := Nat.mul_le_mul_left _ hle
  rw [e, Nat.mul_comm p.rhs (leafArray m1).length]
  rw [Nat.mul_comm p.rhs (leafArray m1).length] at hle2
  omega

theorem build_getLatest (p : Params) (hv : p.Valid) (metaLen : Nat) (m : InMem H) (hwf : WF m)
    (hm : m ≠ []) (k : Nat) : (build p metaLen m).getLatest k = some (memLatest m k) := by
  unfold IndexFile.getLatest
  rw [build_findLeafNode p metaLen m hv hwf hm k]
  simp only
  obtain ⟨s, hs, hsN⟩ := sel_leaf_index p hv m hwf hm k
  have ok := build_leafOK p metaLen m hv hwf
  rw [hs]
  cases hlk : m.lookup k with
  | none =>
    have := (read_absent (build p metaLen m) ok k (absent_keys m hwf k hlk) s (Nat.le_of_lt hsN)).1
    rw [memLatest, hlk]
    exact this
  | some v =>
    obtain ⟨m1, m2, hdec⟩ := lookup_some hlk
    subst hdec
    obtain ⟨run, hL⟩ := run_of_decomp m1 k v m2 hwf
    obtain ⟨hle, hfirst⟩ := present_bounds p hv m1 k v m2 hwf s hs
    have := readHeader_present (build p metaLen (m1 ++ (k, v) :: m2)) ok k _ _ run s hle hfirst
    rw [memLatest, hlk]
    refine this.trans ?_
    congr 1
    show (leafArray (m1 ++ (k, v) :: m2))[(leafArray m1).length]? = v.getLast?
    rw [hL, List.append_assoc, List.getElem?_append_right (Nat.le_refl _), Nat.sub_self]
    have hv' : v ≠ [] := hwf.nonempty (k, v) (by simp)
    rw [List.getElem?_append_left (by simpa using List.length_pos_iff.2 hv')]
    rw [← List.head?_eq_getElem?, List.head?_reverse]

theorem build_findByKey (p : Params) (hv : p.Valid) (metaLen : Nat) (m : InMem H) (hwf : WF m)
    (hm : m ≠ []) (k : Nat) : (build p metaLen m).findByKey k = some (memAll m k) := by
  unfold IndexFile.findByKey
  rw [build_findLeafNode p metaLen m hv hwf hm k]
  simp only
  obtain ⟨s, hs, hsN⟩ := sel_leaf_index p hv m hwf hm k
  have ok := build_leafOK p metaLen m hv hwf
  rw [hs]
  cases hlk : m.lookup k with
  | none =>
    have := (read_absent (build p metaLen m) ok k (absent_keys m hwf k hlk) s (Nat.le_of_lt hsN)).2
    rw [memAll, hlk]
    exact this
  | some v =>
    obtain ⟨m1, m2, hdec⟩ := lookup_some hlk
    subst hdec
    obtain ⟨run, hL⟩ := run_of_decomp m1 k v m2 hwf
    obtain ⟨hle, hfirst⟩ := present_bounds p hv m1 k v m2 hwf s hs
    have := readHeaders_present (build p metaLen (m1 ++ (k, v) :: m2)) ok k _ _ run s hle hfirst
    rw [memAll, hlk]
    refine this.trans ?_
    congr 2
    show ((leafArray (m1 ++ (k, v) :: m2)).drop (leafArray m1).length).take
      ((leafArray m1).length + v.length - (leafArray m1).length) = v.reverse
    rw [hL, List.append_assoc, List.drop_left, Nat.add_sub_cancel_left]
    have : v.length = v.reverse.length := by simp
    rw [this, List.take_left]

end Pearl.BPTree

namespace Pearl.BPTree
variable {H : Type} [Keyed H]

/-! ### `get_records_headers` -/

theorem mapPush_new (h : H) : ∀ (acc : InMem H), (∀ kv ∈ acc, kv.1 < hkey h) →
    IndexFile.mapPush h acc = acc ++ [(hkey h, [h])] := by
  intro acc
  induction acc with
  | nil => intro _; rfl
  | cons x acc ih =>
    intro hlt
    obtain ⟨k, v⟩ := x
    have := hlt (k, v) (by simp)
    simp only at this
    simp only [IndexFile.mapPush]
    rw [if_neg (by omega), if_neg (by omega), ih (fun kv hkv => hlt kv (by simp [hkv]))]
    rfl

theorem mapPush_last (h : H) (k : Nat) (w : List H) (hk : hkey h = k) : ∀ (acc : InMem H),
    (∀ kv ∈ acc, kv.1 < k) → IndexFile.mapPush h (acc ++ [(k, w)]) = acc ++ [(k, w ++ [h])] := by
  intro acc
  induction acc with
  | nil =>
    intro _
    simp only [List.nil_append, IndexFile.mapPush]
    rw [if_neg (by omega), if_pos hk]
  | cons x acc ih =>
    intro hlt
    obtain ⟨k', v'⟩ := x
    have := hlt (k', v') (by simp)
    simp only at this
    simp only [List.cons_append, IndexFile.mapPush]
    rw [if_neg (by omega), if_neg (by omega), ih (fun kv hkv => hlt kv (by simp [hkv]))]

theorem foldl_mapPush_same (k : Nat) (acc : InMem H) (hacc : ∀ kv ∈ acc, kv.1 < k) :
    ∀ (hs w : List H), (∀ h ∈ hs, hkey h = k) →
      hs.foldl (fun a h => IndexFile.mapPush h a) (acc ++ [(k, w)]) = acc ++ [(k, w ++ hs)] := by
  intro hs
  induction hs with
  | nil => intro w _; simp
  | cons h hs ih =>
    intro w hk
    simp only [List.foldl_cons]
    rw [mapPush_last h k w (hk h (by simp)) acc hacc, ih (w ++ [h]) (fun x hx => hk x (by simp [hx]))]
    simp

theorem foldl_mapPush_run (k : Nat) (acc : InMem H) (hacc : ∀ kv ∈ acc, kv.1 < k) (hs : List H)
    (hne : hs ≠ []) (hk : ∀ h ∈ hs, hkey h = k) :
    hs.foldl (fun a h => IndexFile.mapPush h a) acc = acc ++ [(k, hs)] := by
  cases hs with
  | nil => exact absurd rfl hne
  | cons h hs =>
    simp only [List.foldl_cons]
    have hkh := hk h (by simp)
    rw [mapPush_new h acc (by rw [hkh]; exact hacc), hkh]
    rw [foldl_mapPush_same k acc hacc hs [h] (fun x hx => hk x (by simp [hx]))]
    rfl

theorem foldl_mapPush_leafArray : ∀ (m : InMem H) (acc : InMem H), WF m →
    (∀ a ∈ acc, ∀ kv ∈ m, a.1 < kv.1) →
    (leafArray m).foldl (fun a h => IndexFile.mapPush h a) acc
      = acc ++ m.map (fun kv => (kv.1, kv.2.reverse)) := by
  intro m
  induction m with
  | nil => intro acc _ _; simp [leafArray]
  | cons x m ih =>
    intro acc hwf hacc
    obtain ⟨k, v⟩ := x
    rw [leafArray_cons, List.foldl_append]
    rw [foldl_mapPush_run k acc (fun a ha => hacc a ha (k, v) (by simp)) v.reverse
      (by have := hwf.nonempty (k, v) (by simp); simpa using this)
      (fun h hh => hwf.keys (k, v) (by simp) h (by simpa using hh))]
    rw [ih (acc ++ [(k, v.reverse)]) hwf.tail]
    · simp
    · intro a ha kv hkv
      rcases List.mem_append.1 ha with ha | ha
      · exact hacc a ha kv (by simp [hkv])
      · simp only [List.mem_singleton] at ha
        subst ha
        exact (List.pairwise_cons.1 hwf.sorted).1 kv hkv

/-- `load_build` -/
theorem build_load (p : Params) (metaLen : Nat) (m : InMem H) (hwf : WF m) :
    (build p metaLen m).load = some m := by
  unfold IndexFile.load
  rw [if_neg (by rw [build_leavesOffset]; simp), build_recordsCount, build_leaves,
    if_neg (Nat.lt_irrefl _), List.take_length]
  simp only
  rw [foldl_mapPush_leafArray m [] hwf (by simp)]
  simp only [List.nil_append, List.map_map]
  congr 1
  have : ∀ l : InMem H, l.map ((fun kv => (kv.1, if kv.2.length > 1 then kv.2.reverse else kv.2))
      ∘ fun kv => (kv.1, kv.2.reverse)) = l := by
    intro l
    induction l with
    | nil => rfl
    | cons x l ih =>
      simp only [List.map_cons, ih, Function.comp]
      rw [reverse_if_long, List.reverse_reverse]
  exact this m

/-- `count_eq` -/
theorem build_count (p : Params) (metaLen : Nat) (m : InMem H) :
    (build p metaLen m).count = (m.map (fun kv => kv.2.length)).sum := by
  show totalCount m = _
  rw [totalCount_eq]
  induction m with
  | nil => rfl
  | cons x m ih =>
    obtain ⟨k, v⟩ := x
    simp [leafArray_cons, ih]

/-! ### leaf boundaries -/

/-- `leaf_starts_at_key_boundary`, loop form: every later entry is `(k, start offset of k's run)` for a
    key `k` of the remaining map -/
theorem pack_boundary (p : Params) :
    ∀ (rest : InMem H) (offset rem minK minO : Nat),
      ∀ e ∈ (packLeaves p rest offset rem minK minO).tail,
        ∃ m1 k v m2, rest = m1 ++ (k, v) :: m2 ∧ e = (k, offset + (leafArray m1).length * p.rhs) := by
  intro rest
  induction rest with
  | nil => intro offset rem minK minO e he; simp [packLeaves] at he
  | cons kv rest ih =>
    intro offset rem minK minO e he
    obtain ⟨k0, v0⟩ := kv
    have hlen : ∀ m1 : InMem H, offset + v0.length * p.rhs + (leafArray m1).length * p.rhs
        = offset + (leafArray ((k0, v0) :: m1)).length * p.rhs := by
      intro m1; simp [leafArray_cons, Nat.add_mul]; omega
    simp only [packLeaves] at he
    split at he
    · simp only [List.tail_cons] at he
      -- the inner result is `(k0, offset) :: its tail`
      have hform : ∀ (rest : InMem H) (o r a b : Nat),
          packLeaves p rest o r a b = (a, b) :: (packLeaves p rest o r a b).tail := by
        intro rest
        induction rest with
        | nil => intro o r a b; rfl
        | cons kv rest ih2 =>
          intro o r a b
          obtain ⟨k1, v1⟩ := kv
          simp only [packLeaves]
          split
          · rfl
          · exact ih2 _ _ _ _
      rw [hform] at he
      rcases List.mem_cons.1 he with rfl | he
      · exact ⟨[], k0, v0, rest, rfl, by simp [leafArray]⟩
      · obtain ⟨m1, k, v, m2, hdec, he⟩ := ih _ _ _ _ e he
        exact ⟨(k0, v0) :: m1, k, v, m2, by rw [hdec]; rfl, by rw [he, hlen]⟩
    · obtain ⟨m1, k, v, m2, hdec, he⟩ := ih _ _ _ _ e he
      exact ⟨(k0, v0) :: m1, k, v, m2, by rw [hdec]; rfl, by rw [he, hlen]⟩

/-- `leaf_starts_at_key_boundary`: every leaf starts at the first (newest) header of some key, and its
    min key is that key -/
theorem leafTable_boundary (p : Params) (hB : p.rhs ≤ p.B) (m : InMem H) :
    ∀ e ∈ leafTable p m,
      ∃ m1 k v m2, m = m1 ++ (k, v) :: m2 ∧ e = (k, (leafArray m1).length * p.rhs) := by
  cases m with
  | nil => intro e he; simp [leafTable] at he
  | cons kv rest =>
    obtain ⟨k0, v0⟩ := kv
    intro e he
    rw [leafTable_cons p hB] at he
    obtain ⟨tl, htl, _⟩ : ∃ tl, packLeaves p rest (v0.length * p.rhs) (p.B - v0.length * p.rhs) k0 0
        = (k0, 0) :: tl ∧ True := by
      have : ∀ (rest : InMem H) (o r a b : Nat),
          packLeaves p rest o r a b = (a, b) :: (packLeaves p rest o r a b).tail := by
        intro rest
        induction rest with
        | nil => intro o r a b; rfl
        | cons kv rest ih2 =>
          intro o r a b
          obtain ⟨k1, v1⟩ := kv
          simp only [packLeaves]
          split
          · rfl
          · exact ih2 _ _ _ _
      exact ⟨_, this _ _ _ _ _, trivial⟩
    rw [htl] at he
    rcases List.mem_cons.1 he with rfl | he
    · exact ⟨[], k0, v0, rest, rfl, by simp [leafArray]⟩
    · have he' : e ∈ (packLeaves p rest (v0.length * p.rhs) (p.B - v0.length * p.rhs) k0 0).tail := by
        rw [htl]; exact he
      obtain ⟨m1, k, v, m2, hdec, he2⟩ := pack_boundary p rest _ _ _ _ e he'
      refine ⟨(k0, v0) :: m1, k, v, m2, by rw [hdec]; rfl, ?_⟩
      rw [he2]
      simp [leafArray_cons, Nat.add_mul]

/-! ### parameters -/

theorem valid_real (K : Nat) (h : K ≤ 2032) : (Params.real K).Valid := by
  refine ⟨by simp only [Params.real]; omega, by simp only [Params.real]; omega, ?_⟩
  show 3 ≤ (4096 - 8 - 8) / (K + 8) + 1
  have : 2 ≤ (4096 - 8 - 8) / (K + 8) := (Nat.le_div_iff_mul_le (by omega)).2 (by omega)
  omega

end Pearl.BPTree
